import PBProofs.Lemmas.Query
import PBProofs.Lemmas.QueryPrint
import PBProofs.Lemmas.QueryBytes
/-
C11 — Query text and query objects convert into each other without change of meaning.
Property theorems only (helper lemmas live in PBProofs/Lemmas/Query.lean and QueryPrint.lean).

Model: PB.Model.Query (tokenizer, parser, Where constructors, Check, printers, complies — database/query as it is
after the fix: commits of branch verif-c11); README grammar: PB.Spec.Query (`Sentence`, `Query.wf`).
`O : Oracle` are the standard-library parameters (ParseFloat/%g, regexp); every theorem holds for all of them.
-/
namespace PB.C11
open PB PB.Query

/-- The statement of the property for one query object: its text parses back to a query that prints
    identically and matches exactly the same records. -/
def RoundTrips (O : Oracle) (q : Query) : Prop :=
  ∃ q', parseQuery O q.print = .ok q' ∧ q'.print = q.print ∧ ∀ r : Rec, q'.matchesRec O r = q.matchesRec O r

/-! ### Parsing is total and returns only checked queries -/

/-- `ParseQuery` is a total function of its input (the model has no partial operation, no fuel):
    every string yields a query or one of the error classes. -/
theorem parse_total (O : Oracle) (s : List Char) :
    (∃ q, parseQuery O s = .ok q) ∨ (∃ e, parseQuery O s = .error e) := by
  cases h : parseQuery O s with
  | ok q => exact Or.inl ⟨q, rfl⟩
  | error e => exact Or.inr ⟨e, rfl⟩

/-- A query returned by `ParseQuery` has passed `Check`: no condition in it carries an error. -/
theorem parse_ok_checked (O : Oracle) (s : List Char) (q : Query) (h : parseQuery O s = .ok q) :
    q.check = .ok q := by
  have key : ∀ q0 : Query, q0.check = .ok q → q.check = .ok q := by
    intro q0 h0
    have : q0 = q := by
      unfold Query.check at h0
      cases hw : q0.where_ with
      | none => simp only [hw] at h0; cases h0; rfl
      | some c =>
        simp only [hw] at h0
        cases hb : firstBad c with
        | none => simp only [hb] at h0; cases h0; rfl
        | some e => simp [hb] at h0
    subst this; exact h0
  unfold parseQuery at h
  cases hl : lex s with
  | error e => simp [hl] at h
  | ok toks =>
    simp only [hl] at h
    cases toks with
    | nil => simp [parseToks] at h
    | cons qw rest =>
      simp only [parseToks] at h
      by_cases hq : qw ≠ kwQuery
      · simp [hq] at h
      · simp only [hq, if_false] at h
        cases rest with
        | nil => simp at h
        | cons p rest' =>
          simp only at h
          cases hc : clauses O (Query.new p) rest' with
          | error e => simp [hc] at h
          | ok q0 => simp only [hc] at h; exact key q0 h

/-! ### Tokens are preserved exactly -/

/-- Any token — spaces, quotes, backslashes, parentheses, commas, multi-byte runes, or empty — written by
    `escapeString` is read back by the tokenizer as exactly that token. -/
theorem tokens_preserved (t : Tok) : lex (esc t) = .ok [t] := by
  have := lex_word (wordOf t) [] [] (wordOf_wf t) Lx_nil
  simpa [lex, wordOf_render, wordOf_text] using this

/-- The same for every way the README allows to write a word: plain, in quotes, or with backslash escapes. -/
theorem tokens_preserved_any_style (w : Word) (h : w.wf = true) : lex w.render = .ok [w.text] := by
  simpa [lex] using lex_word w [] [] h Lx_nil

/-- `prepToken` undoes `escapeString`'s escaping on every string (the regexp `(?s)\\(.)` against
    `ReplaceAll(\ → \\, " → \")`). -/
theorem unescape_escape (t : Tok) : prepToken (escBody t) = t := prep_escBody t

/-! ### Tokens are byte strings: the tokenizer / escaper pair on ARBITRARY bytes

Go strings are byte strings; `PB.Query.B` (PB/Model/QueryBytes.lean) is `extractSnippets` / `prepToken` /
`escapeString` as they act on any bytes: the loops decide on the rune `range` decodes (U+FFFD, width 1, for every byte
that is not part of a valid UTF-8 sequence) and copy source bytes. -/

/-- Any token — any bytes at all: lone continuation bytes, truncated or overlong sequences, surrogates, 0xFF, next
    to spaces, quotes, backslashes, parentheses, tab / CR / LF, or empty — written by `escapeString` is read back
    by the tokenizer as exactly its bytes. -/
theorem tokens_preserved_bytes (t : B.BStr) : B.lexBytes (B.escB t) = .ok [t] := B.lex_escB t

/-- `prepToken` undoes `escapeString`'s escaping on every byte string: the regexp's `.` consumes one decode unit,
    `$1` copies its source bytes, and the inserted backslashes never regroup the bytes of the token. -/
theorem unescape_escape_bytes (t : B.BStr) : B.prepTokenB (B.escBodyB t) = t := B.prep_escBodyB t

/-- `for pos, char = range text` visits every byte exactly once: the units, put together, are the text
    (slices `text[a:b]` taken at loop positions lose nothing). -/
theorem range_covers_every_byte (s : B.BStr) : B.flat (B.units s) = s := B.flat_units s

/-- Escaping commutes with decoding: the decode units of an escaped token are the units of the token, each
    backslash / quote unit preceded by one backslash unit (an inserted `\` never completes or breaks a sequence). -/
theorem escape_commutes_with_decoding (t : B.BStr) : B.units (B.escBodyB t) = B.escU (B.units t) :=
  B.units_escBody t

/-- A byte that is not ASCII is never seen as one of the characters the tokenizer acts on (overlong forms of
    `\`, `"`, space … are U+FFFD units, not separators). -/
theorem non_ascii_never_special (b : Nat) (rest : B.BStr) (h : 0x80 ≤ b) :
    B.isSpecialB (B.decode1 (b :: rest)).1 = false := B.special_hi (B.rune_hi b rest h)

-- Latin-1 `caf\xe9 "du nord"` (seeded change C11-r3-2): quoted, the quote escaped, 0xE9 untouched
example : B.escB [0x63, 0x61, 0x66, 0xe9, 0x20, 0x22, 0x64, 0x75, 0x22] =
    [0x22, 0x63, 0x61, 0x66, 0xe9, 0x20, 0x5c, 0x22, 0x64, 0x75, 0x5c, 0x22, 0x22] := by decide
-- a truncated 3-byte sequence followed by a backslash: two invalid units (U+FFFD, width 1) and the backslash
example : B.units [0xe4, 0xb8, 0x5c] = [⟨[0xe4], 0xFFFD⟩, ⟨[0xb8], 0xFFFD⟩, ⟨[0x5c], 0x5c⟩] := by
  simp [B.units_cons, B.units_nil, B.decode1, B.lo2, B.hi2, B.isCont, B.runeError]
-- the complete sequence is one unit seeing U+4E16; the overlong backslash C1 9C is two invalid units
example : B.units [0xe4, 0xb8, 0x96] = [⟨[0xe4, 0xb8, 0x96], 0x4e16⟩] := by
  simp [B.units_cons, B.units_nil, B.decode1, B.lo2, B.hi2, B.isCont]
example : B.units [0xc1, 0x9c] = [⟨[0xc1], 0xFFFD⟩, ⟨[0x9c], 0xFFFD⟩] := by
  simp [B.units_cons, B.units_nil, B.decode1, B.runeError]
example : B.lexBytes (B.escB [0xe4, 0xb8, 0x5c, 0x22, 0xff]) = .ok [[0xe4, 0xb8, 0x5c, 0x22, 0xff]] :=
  tokens_preserved_bytes _

/-! ### The documented grammar is accepted, with the meaning the README gives it -/

/-- Every sentence of the documented grammar — any operator alias, words plain / quoted / escaped, any
    whitespace, `not (…)`, `key not op value`, `not key op value`, nested groups anywhere in a condition list
    **including at its end**, optional orderby / limit / offset — parses to exactly the query the grammar
    assigns to it (and is then subject to `Check` like every query). -/
theorem grammar_complete (O : Oracle) (s : Sentence) (h : s.wf = true) :
    parseQuery O s.render = (s.query O).check := by
  simp only [parseQuery, lex_sentence s h, parseToks_sentence O s h]

/-- The tokens of a sentence reach the parser unchanged. -/
theorem grammar_tokens (s : Sentence) (h : s.wf = true) : lex s.render = .ok s.toks := lex_sentence s h

/-! ### Round trip object → text → object -/

/-- A well-formed query passes its own check. -/
theorem wf_passes_check (O : Oracle) (q : Query) (h : q.wf O = true) : q.check = .ok q := by
  simp only [Query.wf, Bool.and_eq_true] at h
  unfold Query.check
  cases hw : q.where_ with
  | none => rfl
  | some c =>
    have : firstBad c = none := wf_firstBad O false c (by simpa [hw, Cond.wf] using h.1.1.2)
    simp [this]

/-- What `Print` writes is a sentence of the documented grammar. -/
theorem print_is_sentence (O : Oracle) (q : Query) (h : q.wf O = true) :
    q.sentence.wf = true ∧ q.print = q.sentence.render :=
  ⟨sentence_wf O q h, print_eq_render O q h⟩

/-- **Round trip.** For every well-formed query — any tree of and/or/not groups of any depth and width over
    all operators of the (regenerated) table, every int64, every string operand/key/prefix/orderby —
    `ParseQuery(q.Print())` is `q` itself up to the normalisation of non-positive limit/offset. -/
theorem roundtrip_exact (O : Oracle) (q : Query) (h : q.wf O = true) : parseQuery O q.print = .ok q.norm := by
  rw [print_eq_render O q h, grammar_complete O _ (sentence_wf O q h), sentence_query O q h]
  have hn : q.norm.wf O = true := by
    simp only [Query.wf, Query.norm, Bool.and_eq_true, decide_eq_true_eq] at h ⊢
    refine ⟨⟨⟨h.1.1.1, h.1.1.2⟩, ?_⟩, ?_⟩
    · by_cases hp : q.limit > 0
      · simp only [hp, if_true]; exact decide_eq_true h.1.2
      · simp only [hp, if_false]; decide
    · by_cases hp : q.offset > 0
      · simp only [hp, if_true]; exact decide_eq_true h.2
      · simp only [hp, if_false]; decide
  exact wf_passes_check O _ hn

/-- The property statement on the well-formed fragment: prints identically, matches the same records. -/
theorem roundtrip_partial (O : Oracle) (q : Query) (h : q.wf O = true) : RoundTrips O q := by
  refine ⟨q.norm, roundtrip_exact O q h, ?_, fun _ => rfl⟩
  obtain ⟨db, pk, w, ob, lim, off⟩ := q
  simp only [Query.norm, Query.print]
  by_cases h1 : lim > 0 <;> by_cases h2 : off > 0 <;> simp [h1, h2]

/-! ### Operator tables (regenerated from operators.go / condition.go on every run) -/

/-- `init()` picks the longest name per operator while ranging over a map in random order: no two names of
    one operator have the same length, so the choice is deterministic. -/
theorem primary_names_unambiguous :
    ∀ p ∈ PB.Gen.Query.operatorNames, ∀ p' ∈ PB.Gen.Query.operatorNames,
      p.2 = p'.2 → p.1 ≠ p'.1 → p.1.toList.length ≠ p'.1.toList.length := by decide

/-- Every operator constant is dispatched by `Where` and its printed name parses back to it. -/
theorem operator_table_closed :
    ∀ p ∈ PB.Gen.Query.opConsts, p.1 ≠ "errorPresent" →
      (kindOf p.2).isSome = true ∧ lookupOp (opName p.2) = some p.2 := by decide

/-- Every textual name — primary or alias — is a plain word and resolves to its operator; `not` is not a name. -/
theorem operator_names_resolve :
    (∀ p ∈ PB.Gen.Query.operatorNames, lookupOp p.1.toList = some p.2 ∧ plainWord p.1.toList = true)
    ∧ lookupOp kwNot = none := by decide


/-! ### The full statement is false on the code: the classes the text form cannot express

`Query.wf` excludes exactly the following classes of API-buildable, checked queries. Each is refuted by a concrete
witness evaluated on the model (and re-found on the implementation by the check on every run: known findings
`C11:roundtrip:<class>`). -/

/-- Standard-library answers used by the witnesses and examples: `1.5` is a canonical float text, every regexp compiles. -/
def O0 : Oracle := ⟨fun t => if t = ['1','.','5'] then some t else none, fun _ => true, fun _ => 0, fun _ _ => false⟩

def leafI (k : String) (n : Int) : Cond := .leaf k.toList opEquals (.int n)

def qOf (c : Cond) : Query := ⟨['d','b'], ['k'], some c, [], 0, 0⟩

/-- A record whose string field `S` is `a,b`. -/
def recAB : Rec := ⟨fun _ => none, fun k => if k = ['S'] then some ['a',',','b'] else none, fun _ => none, fun _ => none, fun _ => false⟩

theorem not_roundtrip_of_error {O : Oracle} {q : Query} {e : Err} (h : parseQuery O q.print = .error e) :
    ¬ RoundTrips O q := by
  rintro ⟨q', h', _⟩
  rw [h] at h'; cases h'

theorem not_roundtrip_of_print {O : Oracle} {q qx : Query} (h : parseQuery O q.print = .ok qx)
    (hp : qx.print ≠ q.print) : ¬ RoundTrips O q := by
  rintro ⟨q', h', hp', _⟩
  rw [h] at h'; cases h'; exact hp hp'

theorem not_roundtrip_of_match {O : Oracle} {q qx : Query} (r : Rec) (h : parseQuery O q.print = .ok qx)
    (hm : qx.matchesRec O r ≠ q.matchesRec O r) : ¬ RoundTrips O q := by
  rintro ⟨q', h', _, hm'⟩
  rw [h] at h'; cases h'; exact hm (hm' r)

/-- `Or()` at the top prints `query db:k where `, which does not parse. -/
theorem refuted_empty_group : (qOf (.or [])).check = .ok (qOf (.or [])) ∧ ¬ RoundTrips O0 (qOf (.or [])) :=
  ⟨rfl, not_roundtrip_of_error (e := .unexpectedEnd) rfl⟩

/-- `Or(And(a == 1), b == 1)` prints `(a == 1) or b == 1`, which parses to a query printing `a == 1 or b == 1`. -/
theorem refuted_single_member_group :
    (qOf (.or [.and [leafI "a" 1], leafI "b" 1])).check = .ok (qOf (.or [.and [leafI "a" 1], leafI "b" 1])) ∧
    ¬ RoundTrips O0 (qOf (.or [.and [leafI "a" 1], leafI "b" 1])) :=
  ⟨rfl, not_roundtrip_of_print (qx := qOf (.or [leafI "a" 1, leafI "b" 1])) rfl (by decide)⟩

/-- `S in ["a,b", "c"]` prints `S in a,b,c`, which parses to a three-item list: the record `S = "a,b"` matches before, not after. -/
theorem refuted_in_list_comma :
    (qOf (.leaf ['S'] opIn (.strs [['a',',','b'], ['c']]))).check = .ok (qOf (.leaf ['S'] opIn (.strs [['a',',','b'], ['c']]))) ∧
    ¬ RoundTrips O0 (qOf (.leaf ['S'] opIn (.strs [['a',',','b'], ['c']]))) :=
  ⟨rfl, not_roundtrip_of_match (qx := qOf (.leaf ['S'] opIn (.strs [['a'], ['b'], ['c']]))) recAB rfl (by decide)⟩

/-- `S in ["a"]` prints `S in a`, which `Where` rejects (fewer than two items). -/
theorem refuted_in_list_short :
    (qOf (.leaf ['S'] opIn (.strs [['a']]))).check = .ok (qOf (.leaf ['S'] opIn (.strs [['a']]))) ∧
    ¬ RoundTrips O0 (qOf (.leaf ['S'] opIn (.strs [['a']]))) :=
  ⟨rfl, not_roundtrip_of_error (e := .chkSlice) rfl⟩

/-- The key `and` prints bare (also in quotes it would be the same token) and is read as the connective. -/
theorem refuted_keyword_key : (qOf (leafI "and" 1)).check = .ok (qOf (leafI "and" 1)) ∧ ¬ RoundTrips O0 (qOf (leafI "and" 1)) :=
  ⟨rfl, not_roundtrip_of_error (e := .operator) rfl⟩

/-- `Not(Not(a == 1))` prints `a not not == 1`, which does not parse. -/
theorem refuted_not_not :
    (qOf (.not (.not (leafI "a" 1)))).check = .ok (qOf (.not (.not (leafI "a" 1)))) ∧
    ¬ RoundTrips O0 (qOf (.not (.not (leafI "a" 1)))) :=
  ⟨rfl, not_roundtrip_of_error (e := .operator) rfl⟩

/-- `Limit(2^31)` prints `limit 2147483648`, which `ParseQuery` rejects (31-bit `ParseUint`). -/
theorem refuted_limit_31_bits :
    (⟨['d','b'], ['k'], none, [], 2 ^ 31, 0⟩ : Query).check = .ok ⟨['d','b'], ['k'], none, [], 2 ^ 31, 0⟩ ∧
    ¬ RoundTrips O0 ⟨['d','b'], ['k'], none, [], 2 ^ 31, 0⟩ :=
  ⟨rfl, not_roundtrip_of_error (e := .uint) rfl⟩

/-- The full-strength statement (every API-buildable query that passes its own check round-trips) is refuted. -/
theorem roundtrip_full_statement_REFUTED :
    ¬ ∀ (O : Oracle) (q : Query), q.check = .ok q → RoundTrips O q :=
  fun h => refuted_empty_group.2 (h O0 _ refuted_empty_group.1)

/-! ### Non-vacuity -/

/-- A well-formed query with nested groups ending the condition list, a negated clause with a quoted key, a
    backslash, a quote, a multi-byte rune, an empty string, a list, int64 extremes, a float, orderby/limit/offset. -/
def qDemo : Query :=
  ⟨['d','b'], ['k',':','x',' ','y'],
   some (.or [
     .and [leafI "a" (-9223372036854775808), .leaf ['S'] opSameAs (.str ['x','\\','y',' ','z','"'])],
     .not (.and [.leaf ['L'] opIn (.strs [['a'], ['b',' ']]), .not (.leaf ['a',' ','b'] opContains (.str []))]),
     .not (leafI "c" 9223372036854775807),
     .and [.leaf ['F'] opFloatLessThan (.float ['1','.','5']), .leaf ['é'] opExists .none,
           .or [.leaf ['B'] opIs (.bool true), .leaf ['R'] opMatches (.regex ['^','(','a',')',' '])]]]),
   ['o',' ','b'], 10, -3⟩

example : qDemo.wf O0 = true := by decide
example : qDemo.check = .ok qDemo := rfl
example : parseQuery O0 qDemo.print = .ok qDemo.norm := roundtrip_exact O0 qDemo (by decide)

/-- A smaller one, evaluated on the model directly (independent of the theorems). -/
def qSmall : Query :=
  qOf (.or [.and [leafI "a" (-7), .leaf ['S'] opSameAs (.str ['x','\\','"'])], .not (.leaf ['a',' ','b'] opExists .none)])

example : qSmall.wf O0 = true := by decide
/-- The text a parse result prints to (`none` for an error). -/
def okPrint : Except Err Query → Option (List Char)
  | .ok q => some q.print
  | .error _ => none

example : okPrint (parseQuery O0 qSmall.print) = some qSmall.print := by decide +kernel
set_option maxRecDepth 20000 in
example : qDemo.print = ("query \"db:k:x y\" where (a == -9223372036854775808 and S sameas \"x\\\\y z\\\"\") or " ++
    "not (L in \"a,b \" and not \"a b\" contains \"\") or c not == 9223372036854775807 or " ++
    "(F f< 1.5 and é exists and (B is true or R matches \"^(a) \")) orderby \"o b\" limit 10").toList := by decide

/-- `where (a == 1 and b == 2) or (c == 3 and d == 4)` (DESIGN §7 #9) is a sentence and parses. -/
def sDemo : Sentence :=
  ⟨[' '], ⟨.raw, ['d','b',':','k']⟩,
   some (.group true [' '] [] [' '] false [
     .group false [' '] [] [' '] false [.clause [' '] ⟨.raw, ['a']⟩ ['=','='] 0 (some ⟨.raw, ['1']⟩),
                                        .clause [' '] ⟨.raw, ['b']⟩ ['=','='] 0 (some ⟨.raw, ['2']⟩)],
     .group false [' ', '\t'] [' '] [] true [.clause [' '] ⟨.bslash, ['c',' ','d']⟩ ['s','w'] 1 (some ⟨.quoted, ['x','é','"']⟩),
                                        .clause ['\n'] ⟨.raw, ['d']⟩ ['e','x'] 2 none]]),
   none, some ['0','0','7'], none, true⟩

example : sDemo.wf = true := by decide
example : sDemo.render = "query db:k where (a == 1 and b == 2) or not( c\\ d not sw \"xé\\\"\" \tand \tnot\nd\nex ) limit 007".toList := by decide
example : parseQuery O0 sDemo.render = .ok (sDemo.query O0) := rfl

end PB.C11
