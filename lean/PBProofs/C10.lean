import PBProofs.Lemmas.Varint
import PB.Gen.Varint
/-
C10 — Varint pack/unpack are exact inverses with exact byte accounting.
Property theorems only (helper lemmas live in PBProofs/Lemmas/Varint.lean).
-/
namespace PB.C10
open PB PB.Varint

/-! ### Round trip with exact byte accounting, arbitrary trailing bytes -/

theorem unpack8_pack8 (n : Nat) (h : n < 2 ^ 8) (rest : Bytes) :
    unpack8 (pack8 n ++ rest) = .ok (n, (pack8 n).length) := by
  unfold pack8
  by_cases hn : n < 128
  · simp [hn, unpack8, toNat_ofNat_lt (show n < 256 by omega)]
  · simp [hn, unpack8, toNat_ofNat_lt (show n < 256 by omega)]

theorem unpack16_pack16 (n : Nat) (h : n < 2 ^ 16) (rest : Bytes) :
    unpack16 (pack16 n ++ rest) = .ok (n, (pack16 n).length) := by
  have := uvarint_put n rest (by omega)
  simp [unpack16, unpackW, pack16, this]; omega

theorem unpack32_pack32 (n : Nat) (h : n < 2 ^ 32) (rest : Bytes) :
    unpack32 (pack32 n ++ rest) = .ok (n, (pack32 n).length) := by
  have := uvarint_put n rest (by omega)
  simp [unpack32, unpackW, pack32, this]; omega

theorem unpack64_pack64 (n : Nat) (h : n < 2 ^ 64) (rest : Bytes) :
    unpack64 (pack64 n ++ rest) = .ok (n, (pack64 n).length) := by
  have := uvarint_put n rest h
  simp [unpack64, pack64, this]

/-! ### Shortest standard form; advertised size (regenerated table) -/

theorem pack64_standard (n : Nat) : Standard (pack64 n) := putUvarint_standard n

/-- The hand-written `Pack8` produces the same bytes as the generic encoder. -/
theorem pack8_eq_putUvarint (n : Nat) (h : n < 2 ^ 8) : pack8 n = putUvarint n := by
  unfold pack8
  by_cases hn : n < 128
  · simp [hn, putUvarint_lt hn]
  · rw [putUvarint_ge hn, putUvarint_lt (show n / 128 < 128 by omega)]
    have h1 : n % 128 + 128 = n := by omega
    have h2 : n / 128 = 1 := by omega
    simp [hn, h1, h2]

theorem pack_length_eq_encodedSize (n : Nat) (h : n < 2 ^ 64) :
    (pack64 n).length = PB.Gen.Varint.encodedSize n := by
  unfold PB.Gen.Varint.encodedSize pack64
  have hle := fun k => putUvarint_length_le k n
  have hge := fun k => putUvarint_length_ge k n
  repeat' split
  all_goals first
    | (have a := hle 0 (by omega); have := putUvarint_length_pos n; omega)
    | (have a := hle 1 (by omega); have b := hge 1 (by omega); omega)
    | (have a := hle 2 (by omega); have b := hge 2 (by omega); omega)
    | (have a := hle 3 (by omega); have b := hge 3 (by omega); omega)
    | (have a := hle 4 (by omega); have b := hge 4 (by omega); omega)
    | (have a := hle 5 (by omega); have b := hge 5 (by omega); omega)
    | (have a := hle 6 (by omega); have b := hge 6 (by omega); omega)
    | (have a := hle 7 (by omega); have b := hge 7 (by omega); omega)
    | (have a := hle 8 (by omega); have b := hge 8 (by omega); omega)
    | (have a := hle 9 (by omega); have b := hge 9 (by omega); omega)

/-- No accepted encoding of `n` is shorter than the packed form. -/
theorem pack_minimal (bs : Bytes) (n k : Nat) (h : uvarint bs = .ok n k) : (pack64 n).length ≤ k := by
  obtain ⟨h1, h2, _, h4⟩ := uvarintAux_ok bs 0 0 n k h (by omega)
  simp at h4
  have hv := value_lt (bs.take k)
  have hl : (bs.take k).length = k := by simp; omega
  rw [hl, ← h4] at hv
  have : k = (k - 1) + 1 := by omega
  rw [this] at hv ⊢
  exact putUvarint_length_le _ n hv

/-! ### Soundness of decoding on arbitrary byte strings -/

theorem uvarint_sound (bs : Bytes) (v k : Nat) (h : uvarint bs = .ok v k) :
    0 < k ∧ k ≤ bs.length ∧ v < 2 ^ 64 ∧ v = value (bs.take k) := by
  obtain ⟨h1, h2, _, h4⟩ := uvarintAux_ok bs 0 0 v k h (by omega)
  have h5 := uvarintAux_lt bs 0 0 v k h (by omega) (by simp)
  simp at h4 h2
  exact ⟨h1, h2, h5, h4⟩

theorem unpackW_sound (limit : Nat) (bs : Bytes) (v k : Nat) (h : unpackW limit bs = .ok (v, k)) :
    0 < k ∧ k ≤ bs.length ∧ v ≤ limit ∧ v = value (bs.take k) := by
  unfold unpackW at h
  split at h
  · cases h
  · cases h
  · rename_i v' k' hu
    split at h
    · cases h
    · injection h with h; injection h with hv hk; subst hv hk
      obtain ⟨a, b, _, d⟩ := uvarint_sound bs v' k' hu
      exact ⟨a, b, by omega, d⟩

theorem unpack64_sound (bs : Bytes) (v k : Nat) (h : unpack64 bs = .ok (v, k)) :
    0 < k ∧ k ≤ bs.length ∧ v < 2 ^ 64 ∧ v = value (bs.take k) := by
  unfold unpack64 at h
  split at h
  · cases h
  · cases h
  · rename_i v' k' hu
    injection h with h; injection h with hv hk; subst hv hk
    exact uvarint_sound bs v' k' hu

theorem unpack8_sound (bs : Bytes) (v k : Nat) (h : unpack8 bs = .ok (v, k)) :
    0 < k ∧ k ≤ bs.length ∧ v < 2 ^ 8 ∧ pack8 v = bs.take k := by
  cases bs with
  | nil => simp [unpack8] at h
  | cons b0 rest =>
    have hb0 : b0.toNat < 256 := b0.toNat_lt
    by_cases hlt : b0.toNat < 128
    · simp [unpack8, hlt] at h
      obtain ⟨hv, hk⟩ := h; subst hv hk
      refine ⟨by omega, by simp, by omega, ?_⟩
      simp [pack8, hlt]
    · cases rest with
      | nil => simp [unpack8, hlt] at h
      | cons b1 rest' =>
        by_cases hb1 : b1 = 1
        · simp [unpack8, hlt, hb1] at h
          obtain ⟨hv, hk⟩ := h; subst hv hk
          refine ⟨by omega, by simp, by omega, ?_⟩
          simp [pack8, hlt, hb1]
        · simp [unpack8, hlt, hb1] at h

/-! ### Error cases: truncated input, value too large for the width -/

theorem truncated_is_small (n j : Nat) (h : n < 2 ^ 64) (hj : j < (pack64 n).length) :
    unpack64 ((pack64 n).take j) = .error .small := by
  have hlen : (putUvarint n).length ≤ 10 := by
    have := putUvarint_length_le 9 n (by omega); omega
  have := uvarintAux_truncated n 0 0 j hj (by unfold pack64 at hj; omega)
  simp [unpack64, uvarint, pack64, this]

theorem too_large_is_error (limit n : Nat) (rest : Bytes) (h : n < 2 ^ 64) (hl : limit < n) :
    unpackW limit (putUvarint n ++ rest) = .error .large := by
  simp [unpackW, uvarint_put n rest h, hl]

/-! ### Length-prefixed blocks -/

theorem getNextBlock_sound (bs blk : Bytes) (tot : Nat) (h : getNextBlock bs = .ok (blk, tot)) :
    tot ≤ bs.length ∧ ∃ n, 0 < n ∧ n ≤ tot ∧ blk = (bs.drop n).take (tot - n) ∧ blk.length = tot - n := by
  unfold getNextBlock at h
  split at h
  · cases h
  · rename_i l n hu
    obtain ⟨hn, hn2, _, _⟩ := unpack64_sound bs l n hu
    split at h
    · cases h
    · simp only at h
      split at h
      · cases h
      · injection h with h; injection h with hb ht; subst hb ht
        refine ⟨by omega, n, hn, by omega, by simp, ?_⟩
        simp; omega

/-- Every declared length that exceeds what is available is an error — for every length up to 2^64-1
    (and beyond): never a panic, a negative length or a wrong value. -/
theorem getNextBlock_rejects (bs : Bytes) (l n : Nat) (hu : unpack64 bs = .ok (l, n))
    (hbig : bs.length < l + n) : getNextBlock bs = .error .nodata := by
  unfold getNextBlock
  simp only [hu]
  by_cases h1 : l > bs.length
  · simp [h1]
  · simp [h1]; omega

theorem getNextBlock_prependLength (d rest : Bytes) (h : d.length < 2 ^ 64) :
    getNextBlock (prependLength d ++ rest) = .ok (d, (prependLength d).length) := by
  unfold getNextBlock prependLength
  have hu := unpack64_pack64 d.length h (d ++ rest)
  rw [List.append_assoc, hu]
  have hp := putUvarint_length_pos d.length
  have h1 : ¬ d.length > (pack64 d.length ++ (d ++ rest)).length := by simp; omega
  have h2 : ¬ d.length + (pack64 d.length).length > (pack64 d.length ++ (d ++ rest)).length := by simp; omega
  simp only [h1, h2, if_false]
  simp [Nat.add_comm]

/-! ### Non-vacuity: concrete boundary values meet the hypotheses -/

example : unpack64 (pack64 127 ++ [7]) = .ok (127, 1) := by
  simp [pack64, putUvarint, unpack64, uvarint, uvarintAux]
example : pack64 128 = [0x80, 0x01] := by simp [pack64, putUvarint]
example : pack8 200 = [200, 1] ∧ unpack8 [200, 1, 9] = .ok (200, 2) := by decide
example : (pack64 (2 ^ 14 - 1)).length = 2 ∧ (pack64 (2 ^ 14)).length = 3 := by simp [pack64, putUvarint]
example : (pack64 (2 ^ 63)).length = 10 ∧ (pack64 (2 ^ 64 - 1)).length = 10 := by simp [pack64, putUvarint]
example : unpack64 (pack64 (2 ^ 64 - 1)) = .ok (2 ^ 64 - 1, 10) := by
  simp [pack64, putUvarint, unpack64, uvarint, uvarintAux]
example : getNextBlock (pack64 (2 ^ 64 - 1) ++ [1, 2, 3]) = .error .nodata := by
  simp [pack64, putUvarint, unpack64, uvarint, uvarintAux, getNextBlock]
example : getNextBlock (pack64 (2 ^ 63) ++ [1, 2, 3]) = .error .nodata := by
  simp [pack64, putUvarint, unpack64, uvarint, uvarintAux, getNextBlock]
example : getNextBlock [2, 5, 6, 7] = .ok ([5, 6], 3) := by decide

end PB.C10
