import PB.Model.Tasks
namespace PB.C07
open PB.Tasks
theorem placeholder : init.wg = 0 := rfl
end PB.C07
