import PBProofs.Lemmas.TasksProgress
import PBProofs.Lemmas.TasksDelay
import PBProofs.Lemmas.TasksSlot
/-
C07 — Tasks: no self-overlap, no early or cancelled runs, queue order, nothing lost.

Property theorems only (model: PB/Model/Tasks.lean, invariants and helper lemmas: PBProofs/Lemmas/Tasks.lean).
All theorems quantify over every state reachable by ANY sequence of actions at non-decreasing clock
readings: any number of tasks, any history of Queue/QueuePrioritized/StartASAP/Schedule/MaxDelay/Cancel calls
(from outside or from inside a running task function — the model does not distinguish callers), any run
times (function begin/end are free actions) and any interleaving with the two handlers, including stale
picks and the slot-watcher timeout.

`Starts s a t`  : step `a` is the locked check section of `runWithLocking` on `t` and enters the executing state.
`Drops s a t`   : step `a` is that section and finds `t` already executing (the pending request is discarded).
-/
set_option linter.unusedSimpArgs false
set_option linter.unusedVariables false
namespace PB.C07
open PB.Tasks

/-! ### No self-overlap -/

/-- At most one goroutine is inside the function of a task, whatever the history. -/
theorem no_self_overlap {s : St} (h : Reachable s) (t : Nat) : (s.tasks t).fn ≤ 1 := by
  have := (reachable_inv h).run t; omega

/-- Stronger: per task at most one execution is anywhere between the check section that started it and the
    end of its deferred section, and that is exactly when the `executing` flag is set. -/
theorem one_execution_in_progress {s : St} (h : Reachable s) (t : Nat) :
    preQ s t + preS s t + (s.tasks t).sp + (s.tasks t).fn + (s.tasks t).dn ≤ 1 ∧
    ((s.tasks t).executing = true ↔
      preQ s t + preS s t + (s.tasks t).sp + (s.tasks t).fn + (s.tasks t).dn = 1) :=
  (reachable_inv h).run t

/-- A task is only ever started while it is not executing. -/
theorem start_only_when_not_executing {s : St} {a : Act} {t : Nat} (hs : Starts s a t) :
    (s.tasks t).executing = false := by
  have h := hs.2
  simp only [runResOf] at h
  split at h
  · cases h
  · split at h
    · cases h
    · rename_i hx; simpa using hx

/-! ### Never early -/

/-- A task that was not submitted from outside since its last start (it was "only scheduled") is started only
    after the schedule handler saw a time given to `Schedule` come: some time passed to `Schedule(t, ·)` is
    not later than the clock reading of the start. -/
theorem never_early {s s' : St} {now : Nat} {a : Act} {t : Nat} (h : Reachable s)
    (hstep : step s now a = some s') (hs : Starts (setNow s now) a t) (honly : (s.tasks t).userSub = false) :
    ∃ x, x ∈ (s.tasks t).schedHist ∧ x ≤ now := by
  have hi := inv_setNow (step_eq hstep).1 (reachable_inv h)
  have he := hi.early t
  have hr := hs.2
  simp only [runResOf] at hr
  have hflag : ((setNow s now).tasks t).inQ = true ∨ ((setNow s now).tasks t).inP = true := by
    split at hr
    · cases hr
    · rename_i hne
      split at hr
      · cases hr
      · split at hr
        · cases hr
        · rename_i hact
          simp [Task.active] at hne hact
          by_cases hq : ((setNow s now).tasks t).inQ = true
          · exact Or.inl hq
          · right
            have := hne (by simpa using hq)
            cases hp : ((setNow s now).tasks t).inP
            · exact absurd (this hp) (by simp [hact])
            · rfl
  have hp := he.2.1 (by simpa [setNow] using honly) hflag
  have := he.2.2.1 hp
  exact ⟨_, by simpa [setNow] using this.2, by simpa [setNow] using this.1⟩

/-- The schedule handler promotes or runs the first scheduled task only when its `executeAt` has come. -/
theorem schedule_handler_acts_only_when_due {s : St} {t : Nat}
    (h : fetchRes s = .asap t ∨ fetchRes s = .run t) : (s.tasks t).executeAt ≤ s.now := by
  rcases h with h | h
  · exact (fetchRes_asap h).2.1
  · exact (fetchRes_run h).2.1

/-- The same over the model step: whatever the fetch step of the schedule handler takes up — for a direct run
    (`overtime` entry) or for `StartASAP` (scheduled entry) — is due at the clock reading of the step. The order of
    the two tests of the fetch section is `PB.Gen.Tasks.fetchOut`, regenerated from `taskScheduleHandler`: with the
    due test inside only one of the branches this theorem (and `fetchRes_run` / `fetchRes_asap`) no longer holds. -/
theorem schedule_handler_step_only_when_due {s s' : St} {now t : Nat} (hstep : step s now .shFetch = some s')
    (h : s'.sh = .holdRun t ∨ s'.sh = .holdAsap t) : (s.tasks t).executeAt ≤ now := by
  have h1 := (step_eq hstep).2
  obtain ⟨_, hr | hr | hr⟩ := shFetch_result h1
  · obtain ⟨u, hf, hu⟩ := hr
    have : u = t := by rcases h with h | h <;> rw [hu] at h <;> cases h; rfl
    subst this
    simpa [setNow] using (fetchRes_run hf).2.1
  · obtain ⟨u, hf, hu⟩ := hr
    have : u = t := by rcases h with h | h <;> rw [hu] at h <;> cases h; rfl
    subst this
    simpa [setNow] using (fetchRes_asap hf).2.1
  · rcases h with h | h <;> rw [hr] at h <;> cases h

/-- The flag writes of the two acting branches of the fetch section as the model has them (`overtime := false`
    before the direct run, `overtime := true` before `StartASAP`) are the ones in the source. -/
theorem fetch_section_flag_writes :
    PB.Gen.Tasks.overtimeOnRun = false ∧ PB.Gen.Tasks.overtimeOnAsap = true := by decide

/-! ### Direct starts by the schedule handler (the max-delay exception of the serial queue) -/

/-- A task that waits in a queue is taken out of the schedule for a direct run (not through the queue) only when
    the max delay of its last queueing call has fully elapsed — provided the time in its schedule entry is the
    max-delay deadline, i.e. no time given to `Schedule` has replaced it (the excluded class, see below). -/
theorem direct_run_only_after_max_delay_partial {s s' : St} {now t : Nat} (h : Reachable s)
    (hstep : step s now .shFetch = some s') (hrun : s'.sh = .holdRun t) (hu : (s.tasks t).eaUser = false) :
    (s.tasks t).qAt + (s.tasks t).qMd ≤ now := by
  have h1 := (step_eq hstep).2
  have hD := invDelay_setNow (n := now) (reachable_invDelay h)
  obtain ⟨_, hr | hr | hr⟩ := shFetch_result h1
  · obtain ⟨u, hf, hu'⟩ := hr
    have : u = t := by rw [hu'] at hrun; cases hrun; rfl
    subst this
    obtain ⟨hm, hdue, hov⟩ := fetchRes_run hf
    have := hD u hm hov (by simpa [setNow] using hu)
    simp [setNow] at this hdue
    omega
  · obtain ⟨u, hf, hu'⟩ := hr; rw [hu'] at hrun; cases hrun
  · rw [hr] at hrun; cases hrun

/-- The excluded class is exactly: the entry holds a time given to `Schedule`, and that time has come. -/
theorem direct_run_at_scheduled_time_only_when_come {s s' : St} {now t : Nat} (h : Reachable s)
    (hstep : step s now .shFetch = some s') (hrun : s'.sh = .holdRun t) (hu : (s.tasks t).eaUser = true) :
    (s.tasks t).executeAt ∈ (s.tasks t).schedHist ∧ (s.tasks t).executeAt ≤ now :=
  ⟨((reachable_inv h).early t).2.2.2.2.2 hu, schedule_handler_step_only_when_due hstep (Or.inl hrun)⟩

/-- The history behind the recorded finding `C07:waiting-task-started-directly-at-scheduled-time`: task 1 is
    started by the queue handler and runs; task 0 is queued behind it with a max delay of 1000 and is then given the
    scheduled time 50; at 50 the schedule handler takes it for a direct run and starts it. -/
def directTrace : List (Nat × Act) :=
  [(1, .maxDelay 1 0), (1, .queue 1), (2, .qhWait), (3, .qhPop), (4, .runQ), (5, .spawnQ), (6, .fnBegin 1),
   (7, .maxDelay 0 1000), (8, .queue 0), (9, .schedule 0 50), (50, .shFetch)]

/-- The full-strength statement "a waiting task is taken for a direct run only after its max delay elapsed" is
    FALSE on the code as it is: the `overtime` flag of a max-delay entry survives `Schedule`. In the witness the
    previously started queue task (task 1) is still inside its function, not cancelled, its watcher has not timed
    out, and task 0 is then started (`runS`) 42 ticks after it was queued with max delay 1000. -/
theorem direct_run_only_after_max_delay_REFUTED :
    ¬ (∀ s s' now t, Reachable s → step s now .shFetch = some s' → s'.sh = .holdRun t →
        (s.tasks t).qAt + (s.tasks t).qMd ≤ now) := by
  intro hall
  have hsome : (runTrace init directTrace.dropLast).isSome = true := by decide
  obtain ⟨s, hs⟩ := Option.isSome_iff_exists.1 hsome
  have hr : Reachable s := reachable_runTrace _ Reachable.init hs
  have hsome' : (step s 50 .shFetch).isSome = true := by
    have : ((runTrace init directTrace.dropLast).bind fun s => step s 50 .shFetch).isSome = true := by decide
    rw [hs] at this; simpa using this
  obtain ⟨s', hs'⟩ := Option.isSome_iff_exists.1 hsome'
  have hfacts : ((runTrace init directTrace.dropLast).bind fun s => (step s 50 .shFetch).map fun s' =>
      (decide (s'.sh = .holdRun 0), (s.tasks 0).qAt, (s.tasks 0).qMd)) = some (true, 8, 1000) := by decide
  rw [hs] at hfacts
  simp [hs'] at hfacts
  have := hall s s' 50 0 hr hs' hfacts.1
  omega

/-! ### Cancel -/

/-- A cancelled task is never started: the check section refuses it. -/
theorem cancelled_not_started {s : St} {a : Act} {t : Nat} (hc : (s.tasks t).canceled = true) :
    ¬ Starts s a t := by
  intro hs
  have h := hs.2
  simp only [runResOf, Task.active, hc] at h
  split at h
  · cases h
  · split at h
    · cases h
    · simp at h

/-- Once cancelled (while waiting in a queue or in the schedule, or at any other time), a task is never
    started again, whatever happens afterwards. -/
theorem never_started_after_cancel {s s' : St} (tr : List (Nat × Act)) (t : Nat)
    (hc : (s.tasks t).canceled = true) (h : runTrace s tr = some s') :
    (s'.tasks t).canceled = true ∧ (s'.tasks t).starts = (s.tasks t).starts := by
  induction tr generalizing s with
  | nil => simp [runTrace] at h; subst h; exact ⟨hc, rfl⟩
  | cons e rest ih =>
    obtain ⟨n, a⟩ := e
    simp only [runTrace] at h
    split at h
    · cases h
    · rename_i s1 hs1
      have h1 := (step_eq hs1).2
      have hc1 : (s1.tasks t).canceled = true := canceled_mono h1 t (by simpa [setNow] using hc)
      have hst : (s1.tasks t).starts = (s.tasks t).starts := by
        rcases starts_change h1 t with h2 | h2
        · simpa [setNow] using h2
        · exact absurd h2.2 (cancelled_not_started (by simpa [setNow] using hc))
      have := ih hc1 h
      exact ⟨this.1, this.2.trans hst⟩

/-! ### Not more often than submitted -/

/-- Every start is paid for by a distinct submission (call of Queue/QueuePrioritized/StartASAP on the active
    task, or its scheduled time coming): starts never exceed submissions. -/
theorem at_most_as_often_as_submitted {s : St} (h : Reachable s) (t : Nat) :
    (s.tasks t).starts ≤ (s.tasks t).subs := by
  have := (reachable_inv h).credit t; omega

/-- The start counter only moves by a start of exactly that task. -/
theorem starts_only_by_start {s s' : St} {now : Nat} {a : Act} (hstep : step s now a = some s') (t : Nat) :
    (s'.tasks t).starts = (s.tasks t).starts ∨
    ((s'.tasks t).starts = (s.tasks t).starts + 1 ∧ Starts (setNow s now) a t) := by
  simpa [setNow] using starts_change (step_eq hstep).2 t

/-! ### Queue order -/

/-- The queue handler takes the task with the smallest stamp of the prioritized queue if that queue is not
    empty, else the task with the smallest stamp of the normal queue. -/
theorem pop_takes_minimal_stamp {s s' : St} {now : Nat} (h : Reachable s) (hstep : step s now .qhPop = some s')
    (t : Nat) (ht : s'.qh = .hold t) :
    (t ∈ s.prio ∧ ∀ u, u ∈ s.prio → s.pkey t ≤ s.pkey u) ∨
    (s.prio = [] ∧ t ∈ s.queue ∧ ∀ u, u ∈ s.queue → s.qkey t ≤ s.qkey u) := by
  have hi := (reachable_inv h).lists
  have h1 := (step_eq hstep).2
  simp only [stepAt, setNow] at h1
  by_cases hrd : (s.qh != QH.ready) = true
  · simp [hrd] at h1
  · simp only [hrd, if_false] at h1
    cases hpr : s.prio with
    | cons x ps =>
      simp only [hpr] at h1
      cases h1
      simp at ht
      subst ht
      left
      have hs := hi.sortP; rw [hpr] at hs
      refine ⟨by simp, ?_⟩
      intro u hu
      rcases List.mem_cons.1 hu with e | hu
      · subst e; exact Int.le_refl _
      · exact Int.le_of_lt ((List.pairwise_cons.1 hs).1 u hu)
    | nil =>
      simp only [hpr] at h1
      cases hqu : s.queue with
      | cons x qs =>
        simp only [hqu] at h1
        cases h1
        simp at ht
        subst ht
        right
        have hs := hi.sortQ; rw [hqu] at hs
        refine ⟨rfl, by simp, ?_⟩
        intro u hu
        rcases List.mem_cons.1 hu with e | hu
        · subst e; exact Nat.le_refl _
        · exact Nat.le_of_lt ((List.pairwise_cons.1 hs).1 u hu)
      | nil =>
        simp only [hqu] at h1
        cases h1; simp at ht

/-- Stamps of the prioritized queue: `StartASAP` on an active task gives it a stamp below every stamp in the
    queue (so the latest request is served first, and before every prioritized task). -/
theorem startASAP_stamp_is_smallest {s s' : St} {now : Nat} {t : Nat} {b : Bool} (h : Reachable s)
    (hstep : step s now (.asap t b) = some s') (hact : (s.tasks t).canceled = false)
    (hin : t ∈ s'.prio) (u : Nat) (hu : u ∈ s'.prio) (hne : u ≠ t) : s'.pkey t < s'.pkey u := by
  have hi' := (reachable_inv (Reachable.step now _ h hstep)).lists
  have h1 := (step_eq hstep).2
  simp only [stepAt] at h1
  split at h1
  · cases h1
  · cases h1
    have hpr := doAsap_prio (setNow s now) t b (by simpa [setNow] using hact)
    have hhead : ∃ rest, (doAsap (setNow s now) t b).prio = t :: rest := by
      rw [hpr]
      split
      · exact ⟨_, rfl⟩
      · split
        · exact ⟨_, rfl⟩
        · rename_i c1 c2
          rw [hpr] at hin; simp only [c1, c2, if_false] at hin
          exact absurd hin c2
    obtain ⟨rest, hrest⟩ := hhead
    have hs := hi'.sortP
    rw [hrest] at hs hu
    rcases List.mem_cons.1 hu with e | hu
    · exact absurd e hne
    · exact (List.pairwise_cons.1 hs).1 u hu

/-- `QueuePrioritized` of an active task that is not yet in the prioritized queue gives it a stamp above
    every stamp in the queue (submission order, after every start-as-soon-as-possible task). -/
theorem queuePrioritized_stamp_is_largest {s s' : St} {now : Nat} {t : Nat} (h : Reachable s)
    (hstep : step s now (.queueP t) = some s') (hact : (s.tasks t).canceled = false)
    (hnew : (s.tasks t).inP = false) (u : Nat) (hu : u ∈ s.prio) :
    t ∈ s'.prio ∧ s'.pkey u < s'.pkey t := by
  have hi := (reachable_inv h).lists
  have h1 := (step_eq hstep).2
  simp only [stepAt] at h1
  cases h1
  have hne : u ≠ t := fun e => by have := hi.memP u hu; simp_all
  have hb := (hi.bndP u hu).2
  simp [doQueueP, Task.active, setNow, hact, hnew, hne]
  omega

/-- `Queue` of an active task that is not yet in the normal queue gives it a stamp above every stamp in the
    queue (submission order). -/
theorem queue_stamp_is_largest {s s' : St} {now : Nat} {t : Nat} (h : Reachable s)
    (hstep : step s now (.queue t) = some s') (hact : (s.tasks t).canceled = false)
    (hnew : (s.tasks t).inQ = false) (u : Nat) (hu : u ∈ s.queue) :
    t ∈ s'.queue ∧ s'.qkey u < s'.qkey t := by
  have hi := (reachable_inv h).lists
  have h1 := (step_eq hstep).2
  simp only [stepAt] at h1
  cases h1
  have hne : u ≠ t := fun e => by have := hi.memQ u hu; simp_all
  have hb := hi.bndQ u hu
  simp [doQueue, Task.active, setNow, hact, hnew, hne]
  omega

/-- One after the other: whenever the queue handler is past its wait (ready to pick, holding a picked task, or
    between the check section and the goroutine start), every execution it started earlier has returned, or
    its task was cancelled, or its slot watcher gave up after the execution-wait limit. -/
theorem queue_serial {s : St} (h : Reachable s) (hq : qhPast s.qh) (u : Nat)
    (hby : (s.tasks u).byQh = true) (hrun : 0 < (s.tasks u).sp + (s.tasks u).fn) :
    (s.tasks u).ctxDone = true ∨ (s.tasks u).tmo = true := by
  have hw := (reachable_inv h).watch u
  cases hc : (s.tasks u).ctxDone
  · cases ht : (s.tasks u).tmo
    · obtain ⟨w, hw1, _, _, hw4⟩ := hw.2.2 hby hrun hc ht
      have := hw.2.1 hq w hw1
      rw [this] at hw4; cases hw4
    · exact Or.inr rfl
  · exact Or.inl rfl

/-- The queue handler only picks a task while it is past its wait on `queueWg`. -/
theorem pop_requires_free_slot {s s' : St} {now : Nat} (hstep : step s now .qhPop = some s') : s.qh = .ready := by
  have h1 := (step_eq hstep).2
  simp only [stepAt] at h1
  split at h1
  · cases h1
  · rename_i hr; simpa [setNow] using hr

/-! ### Every started execution occupies the queue, whoever started it -/

/-- The end of `runWithLocking` as it stands in the source, per call site (`direct` = the schedule handler's call for
    a waiting task whose max delay is over, else the queue handler's call): every start raises `queueCnt` once,
    starts one executor and one watcher that lowers `queueCnt` again. This is what the model's `spawnQ` / `spawnS`
    do (see `spawn_takes_slot`); the three numbers are regenerated from the source on every run. -/
theorem every_start_takes_a_queue_slot (direct : Bool) :
    PB.Gen.Tasks.slotsTaken direct = 1 ∧ PB.Gen.Tasks.executorsStarted direct = 1 ∧
      PB.Gen.Tasks.watchersStarted direct = 1 := by
  cases direct <;> decide

/-- The model's goroutine-start step of either handler changes the slot count and the number of watchers by what
    the source does at that call site. -/
theorem spawn_takes_slot {s s' : St} {now : Nat} :
    (step s now .spawnQ = some s' → s'.wg = s.wg + PB.Gen.Tasks.slotsTaken false ∧
      s'.watchers.length = s.watchers.length + PB.Gen.Tasks.watchersStarted false) ∧
    (step s now .spawnS = some s' → s'.wg = s.wg + PB.Gen.Tasks.slotsTaken true ∧
      s'.watchers.length = s.watchers.length + PB.Gen.Tasks.watchersStarted true) := by
  have hq := every_start_takes_a_queue_slot false
  have hd := every_start_takes_a_queue_slot true
  rw [hq.1, hq.2.2, hd.1, hd.2.2]
  constructor <;> intro hstep <;> have h1 := (step_eq hstep).2 <;> clear hstep <;> simp only [stepAt] at h1 <;>
    split at h1 <;> cases h1 <;> simp [setNow, setTask]

/-- An execution started through `runWithLocking` — by the queue handler or directly by the schedule handler — that
    has not returned, whose task was not cancelled and whose watcher did not give up after the execution-wait
    limit, still holds its queue slot: its watcher exists and the slot count is positive. -/
theorem started_run_holds_slot {s : St} (h : Reachable s) (u : Nat)
    (hrun : 0 < (s.tasks u).sp + (s.tasks u).fn) (hc : (s.tasks u).ctxDone = false) (ht : (s.tasks u).tmo = false) :
    0 < s.wg ∧ ∃ w, w ∈ s.watchers ∧ w.t = u ∧ w.gen = (s.tasks u).gen := by
  obtain ⟨w, hw, h1, h2⟩ := reachable_invSlot h u hrun hc ht
  refine ⟨?_, w, hw, h1, h2⟩
  rw [((reachable_inv h).watch 0).1]
  exact List.length_pos_of_mem hw

/-- The queue handler does not pass its wait while any started execution (also one the schedule handler started
    directly) has not returned, was not cancelled and is within the execution-wait limit. -/
theorem queue_handler_waits_for_every_started_run {s s' : St} {now : Nat} (h : Reachable s)
    (hstep : step s now .qhWait = some s') (u : Nat)
    (hrun : 0 < (s.tasks u).sp + (s.tasks u).fn) (hc : (s.tasks u).ctxDone = false) (ht : (s.tasks u).tmo = false) :
    s'.qh = .waiting := by
  have hpos := (started_run_holds_slot h u hrun hc ht).1
  have h1 := (step_eq hstep).2
  simp only [stepAt] at h1
  split at h1
  · cases h1
  · cases h1
    have : ¬ s.wg = 0 := by omega
    simp [setNow, this]

/-- The wait of the queue handler ends only at a moment at which every started execution, whoever started it, has
    returned, was cancelled or exceeded the execution-wait limit. -/
theorem wait_ends_only_when_every_started_run_is_over {s s' : St} {now : Nat} {a : Act} (h : Reachable s)
    (hstep : step s now a = some s') (hq : s.qh = .waiting) (hr : s'.qh = .ready) (u : Nat)
    (hrun : 0 < (s'.tasks u).sp + (s'.tasks u).fn) :
    (s'.tasks u).ctxDone = true ∨ (s'.tasks u).tmo = true := by
  have hz := waitEnd_step hstep hq hr
  have hr' : Reachable s' := Reachable.step now a h hstep
  cases hc : (s'.tasks u).ctxDone
  · cases ht : (s'.tasks u).tmo
    · have := (started_run_holds_slot hr' u hrun hc ht).1
      omega
    · exact Or.inr rfl
  · exact Or.inl rfl

/-- While the queue handler is past its wait, an execution that still holds its slot was started directly by the
    schedule handler (`queue_serial` for the remaining case): the only way two queued tasks run side by side after a
    pick is a direct start that took its slot after the handler's wait had ended. -/
theorem unfinished_run_at_pick_is_a_direct_start {s s' : St} {now : Nat} (h : Reachable s)
    (hstep : step s now .qhPop = some s') (u : Nat)
    (hrun : 0 < (s.tasks u).sp + (s.tasks u).fn) (hc : (s.tasks u).ctxDone = false) (ht : (s.tasks u).tmo = false) :
    (s.tasks u).byQh = false := by
  have h1 := (step_eq hstep).2
  have hready : s.qh = .ready := by
    simp only [stepAt] at h1
    split at h1
    · cases h1
    · rename_i hr; simpa [setNow] using hr
  cases hb : (s.tasks u).byQh
  · rfl
  · have := queue_serial h (Or.inl hready) u hb hrun
    simp [hc, ht] at this

/-- Witness: task 1 runs (started through the queue, no max delay), task 0 waits with max delay 20 and task 2 behind it;
    task 1 returns at 40 and the handler's wait ends; the schedule handler, which took task 0 out of the schedule at
    28 (max delay over), starts it only now; the queue handler picks task 2. -/
def raceTrace : List (Nat × Act) :=
  [(1, .maxDelay 1 0), (1, .queue 1), (2, .qhWait), (3, .qhPop), (4, .runQ), (5, .spawnQ), (6, .fnBegin 1),
   (7, .maxDelay 0 20), (8, .queue 0), (9, .queue 2), (10, .qhWait), (28, .shFetch), (29, .runS),
   (40, .fnEnd 1), (41, .finish 1), (42, .slotFree 1 false), (43, .spawnS), (44, .fnBegin 0)]

/-- The full-strength statement "the queue handler picks the next task only when every started queued task has
    returned, was cancelled or exceeded the execution-wait limit" is FALSE on the code as it is: the schedule
    handler's direct start raises `queueCnt` after the queue handler has read it as zero (recorded finding
    `C07:queue-pick-raced-by-direct-start`). -/
theorem pick_waits_for_every_started_run_REFUTED :
    ¬ (∀ s s' now, Reachable s → step s now .qhPop = some s' → ∀ u, 0 < (s.tasks u).sp + (s.tasks u).fn →
        (s.tasks u).ctxDone = true ∨ (s.tasks u).tmo = true) := by
  intro hall
  have hsome : (runTrace init raceTrace).isSome = true := by decide
  obtain ⟨s, hs⟩ := Option.isSome_iff_exists.1 hsome
  have hr : Reachable s := reachable_runTrace raceTrace Reachable.init hs
  have hsome' : (step s 45 .qhPop).isSome = true := by
    have : ((runTrace init raceTrace).bind fun s => step s 45 .qhPop).isSome = true := by decide
    rw [hs] at this; simpa using this
  obtain ⟨s', hs'⟩ := Option.isSome_iff_exists.1 hsome'
  have hfacts : ((runTrace init raceTrace).bind fun s => (step s 45 .qhPop).map fun s' =>
      (decide (s'.qh = .hold 2), (s.tasks 0).fn, (s.tasks 0).sp, (s.tasks 0).ctxDone, (s.tasks 0).tmo))
      = some (true, 1, 0, false, false) := by decide
  rw [hs] at hfacts
  simp [hs'] at hfacts
  have := hall s s' 45 hr hs' 0 (by omega)
  simp [hfacts] at this

/-! ### Nothing lost -/

/-- Where a still owed task is: in a run queue, held by the queue handler that has just taken it out, or about
    to be put at the front of the prioritized queue by the schedule handler. -/
def Tracked (s : St) (t : Nat) : Prop :=
  t ∈ s.queue ∨ t ∈ s.prio ∨ s.qh = .hold t ∨ s.sh = .holdAsap t

/-- Nothing lost, with the one excluded class made explicit: a task that was submitted (or whose scheduled
    time came) and was neither started since, nor cancelled, nor withdrawn by `Schedule(zero)`, is still
    tracked — unless its request was dropped because it was dequeued while it was executing. -/
theorem nothing_lost_partial {s : St} (h : Reachable s) (t : Nat)
    (ho : (s.tasks t).owed = true) (hc : (s.tasks t).canceled = false) (hd : (s.tasks t).dropped = false) :
    Tracked s t := by
  have hi := reachable_inv h
  rcases hi.owed t ho hc hd with hq | hp | hs
  · rcases (hi.hold t).1 hq with h1 | h1
    · exact Or.inl h1
    · exact Or.inr (Or.inr (Or.inl h1))
  · rcases (hi.hold t).2 hp with h1 | h1
    · exact Or.inr (Or.inl h1)
    · exact Or.inr (Or.inr (Or.inl h1))
  · exact Or.inr (Or.inr (Or.inr hs))

/-- The excluded class is exactly: the check section of `runWithLocking` found the task executing. -/
theorem dropped_only_when_dequeued_while_executing {s s' : St} {now : Nat} {a : Act} (t : Nat)
    (hstep : step s now a = some s') (hd : (s'.tasks t).dropped = true) (hd0 : (s.tasks t).dropped = false) :
    Drops (setNow s now) a t := by
  rcases dropped_change (step_eq hstep).2 t hd with h | h
  · simp [setNow] at h; rw [h] at hd0; cases hd0
  · exact h

/-- The history that refutes the full statement: MaxDelay(10 ms), Queue, the task starts and runs, Queue again
    while it runs, the max delay expires during the run, the schedule handler runs the check section. -/
def lostTrace : List (Nat × Act) :=
  [(0, .maxDelay 0 10), (1, .queue 0), (2, .qhWait), (3, .qhPop), (4, .runQ), (5, .spawnQ), (6, .fnBegin 0),
   (7, .queue 0), (20, .shFetch), (21, .runS)]

/-- The full-strength statement "every owed, non-cancelled task is tracked" is FALSE on the code as it is:
    the request of a task that is submitted again while it executes is discarded when the task is dequeued
    during that execution (recorded finding `C07:resubmitted-while-executing-dropped`). -/
theorem nothing_lost_REFUTED :
    ¬ (∀ s, Reachable s → ∀ t, (s.tasks t).owed = true → (s.tasks t).canceled = false → Tracked s t) := by
  intro hall
  have hsome : (runTrace init lostTrace).isSome = true := by decide
  obtain ⟨s, hs⟩ := Option.isSome_iff_exists.1 hsome
  have hr : Reachable s := reachable_runTrace lostTrace Reachable.init hs
  have hfacts : ((runTrace init lostTrace).map fun s =>
      ((s.tasks 0).owed, (s.tasks 0).canceled, s.queue, s.prio, decide (s.qh = .hold 0), decide (s.sh = .holdAsap 0)))
      = some (true, false, [], [], false, false) := by decide
  rw [hs] at hfacts
  simp at hfacts
  obtain ⟨h1, h2, h3, h4, h5, h6⟩ := hfacts
  have := hall s hr 0 h1 h2
  simp [Tracked, h3, h4, h5, h6] at this

/-! ### The handlers are never stuck (steps towards execution; eventual execution under fairness is not proved) -/

/-- The task at the head of the prioritized queue (of the normal queue, if the prioritized one is empty) is
    picked and started by the queue handler's next two steps as soon as the handler is past its wait, provided
    the task is neither cancelled nor executing. -/
theorem head_of_queue_is_started {s : St} (h : Reachable s) (now : Nat) (hn : s.now ≤ now) (t : Nat)
    (hq : s.qh = .ready)
    (hhead : (∃ ps, s.prio = t :: ps) ∨ (s.prio = [] ∧ ∃ qs, s.queue = t :: qs))
    (hc : (s.tasks t).canceled = false) (hx : (s.tasks t).executing = false) :
    ∃ s1 s2, step s now .qhPop = some s1 ∧ step s1 now .runQ = some s2 ∧ Starts (setNow s1 now) .runQ t ∧
      (s2.tasks t).starts = (s.tasks t).starts + 1 :=
  head_is_started h now hn t hq hhead hc hx

/-- A waiting queue handler cannot wait for ever: it waits only while a slot watcher exists, and every slot
    watcher gives up (releases its slot) at the latest `maxExecutionWait` after it was started. -/
theorem waiting_queue_handler_is_released {s : St} (h : Reachable s) (hq : s.qh = .waiting) :
    s.watchers ≠ [] ∧
    ∀ w, w ∈ s.watchers → ∀ now, s.now ≤ now → w.tm + maxExecutionWait ≤ now →
      ∃ s', step s now (.slotFree w.t true) = some s' ∧ s'.wg = s.wg - 1 := by
  have hwg := reachable_invWait h 0 hq
  have hw := ((reachable_inv h).watch 0).1
  refine ⟨?_, ?_⟩
  · intro he; rw [he] at hw; simp at hw; omega
  · intro w hwm now hn ht; exact watcher_times_out now hn w hwm hwg ht

/-- The schedule handler, when idle, takes up the first scheduled task as soon as its time has come. -/
theorem due_task_is_taken_up {s s' : St} {now : Nat} {t : Nat} {rest : List Nat}
    (hstep : step s now .shFetch = some s') (hs : s.sched = t :: rest) (hdue : (s.tasks t).executeAt ≤ now) :
    s'.sh = .holdRun t ∨ s'.sh = .holdAsap t := by
  have h1 := (step_eq hstep).2
  simp only [stepAt] at h1
  split at h1
  · cases h1
  · have hnd : ¬ now < (s.tasks t).executeAt := by omega
    cases ho : (s.tasks t).overtime
    · have hf : fetchRes (setNow s now) = FetchRes.asap t := by
        simp [fetchRes, setNow, hs, hnd, ho, PB.Gen.Tasks.fetchOut]
      rw [hf] at h1; simp at h1; subst h1; simp [setTask, setNow]
    · have hf : fetchRes (setNow s now) = FetchRes.run t := by
        simp [fetchRes, setNow, hs, hnd, ho, PB.Gen.Tasks.fetchOut]
      rw [hf] at h1; simp at h1; subst h1; simp [setTask, setNow]

/-! ### Non-vacuity -/

/-- A history with a waiting order of three classes: task 0 runs, 1 is queued, 2 prioritized, 3 start-asap. -/
def orderTrace : List (Nat × Act) :=
  [(1, .queue 0), (2, .qhWait), (3, .qhPop), (4, .runQ), (5, .spawnQ), (6, .fnBegin 0),
   (7, .queue 1), (8, .queueP 2), (9, .asap 3 false), (10, .queueP 4), (11, .asap 5 false)]

example : (runTrace init orderTrace).map (fun s => (s.queue, s.prio, (s.tasks 0).fn, decide (s.qh = .idle)))
    = some ([1], [5, 3, 2, 4], 1, true) := by decide

/-- Pops happen in the order of the statement once the running task has finished. -/
example : (runTrace init (orderTrace ++
    [(12, .fnEnd 0), (13, .finish 0), (14, .qhWait), (15, .slotFree 0 false), (16, .qhPop)])).map
      (fun s => (decide (s.qh = .hold 5), s.prio)) = some (true, [3, 2, 4]) := by decide

/-- A scheduled task is promoted only when due, then started; `never_early` applies (no outside submission). -/
example : (runTrace init [(1, .schedule 0 100), (50, .shFetch), (100, .shFetch), (101, .asap 0 true),
    (102, .qhWait), (103, .qhPop), (104, .runQ)]).map
      (fun s => ((s.tasks 0).executing, (s.tasks 0).starts, (s.tasks 0).schedHist)) = some (true, 1, [100]) := by decide

/-- The hypotheses of `queue_serial` are satisfiable: the queue handler is past its wait while an execution
    it started is still running — because that task was cancelled. -/
example : (runTrace init [(1, .queue 0), (2, .qhWait), (3, .qhPop), (4, .runQ), (5, .spawnQ), (6, .fnBegin 0),
    (7, .cancel 0), (8, .qhWait), (9, .slotFree 0 false)]).map
      (fun s => (decide (s.qh = .ready), (s.tasks 0).byQh, (s.tasks 0).fn, (s.tasks 0).ctxDone)) = some (true, true, 1, true) := by decide

/-- The witness of the finding continues to a direct start next to the running queue task: after `runS` task 0 is
    executing, started by the schedule handler, while task 1 (started by the queue handler) is inside its function,
    not cancelled and not timed out. -/
example : (runTrace init (directTrace ++ [(51, .runS)])).map
    (fun s => ((s.tasks 0).executing, (s.tasks 0).starts, (s.tasks 1).fn, (s.tasks 1).byQh, (s.tasks 1).ctxDone, (s.tasks 1).tmo))
    = some (true, 1, 1, true, false, false) := by decide

/-- `direct_run_only_after_max_delay_partial` is not vacuous: a queued task whose max delay (20) elapses while the
    queue is occupied is taken for a direct run at 28 = 8 + 20, and not before (the fetch at 27 leaves the handler idle). -/
example : (runTrace init [(1, .maxDelay 1 0), (1, .queue 1), (2, .qhWait), (3, .qhPop), (4, .runQ), (5, .spawnQ),
    (6, .fnBegin 1), (7, .maxDelay 0 20), (8, .queue 0), (27, .shFetch)]).map
      (fun s => (decide (s.sh = .idle), (s.tasks 0).eaUser, (s.tasks 0).qAt + (s.tasks 0).qMd)) = some (true, false, 28) := by decide
example : (runTrace init [(1, .maxDelay 1 0), (1, .queue 1), (2, .qhWait), (3, .qhPop), (4, .runQ), (5, .spawnQ),
    (6, .fnBegin 1), (7, .maxDelay 0 20), (8, .queue 0), (27, .shFetch), (28, .shFetch)]).map
      (fun s => decide (s.sh = .holdRun 0)) = some true := by decide

/-- A cancelled waiting task is refused by the check section. -/
example : (runTrace init [(1, .queue 0), (2, .cancel 0), (3, .qhWait), (4, .qhPop), (5, .runQ)]).map
    (fun s => ((s.tasks 0).executing, (s.tasks 0).starts, decide (s.qh = .idle))) = some (false, 0, true) := by decide

end PB.C07
