import PBProofs.Lemmas.Config
namespace PB.Config

theorem validate_strs (o : Opt) (ho : RegOK o) (ss : List String) (c : Cache) :
    validate o (.strs ss) = .ok c ↔ Valid o (.strs ss) c := by
  unfold Valid validate
  by_cases hty : o.ty = .strs
  · simp only [hty, ne_eq, not_true_eq_false, false_and, if_false, canon]
    have := strsBody_ok_iff o ho hty ss c
    rw [hty] at this
    rw [this]
    constructor
    · rintro ⟨rfl, h⟩; simpa using h
    · rintro ⟨h1, h⟩; cases h1; simpa using h
  · have hc : canon o.ty (.strs ss) = none := by cases h : o.ty <;> simp_all [canon]
    simp [hc, strsBody, hty]
    split <;> simp

theorem validateStrs_ok_iff (o : Opt) (ho : RegOK o) (ss : List String) (c : Cache) :
    validateStrs o ss = .ok c ↔ Valid o (.strs ss) c := by
  rw [← validate_strs o ho]
  simp [validateStrs, validate]

theorem validate_anys (o : Opt) (ho : RegOK o) (l : List (Option String)) (c : Cache) :
    validate o (.anys l) = .ok c ↔ Valid o (.anys l) c := by
  by_cases hty : o.ty = .strs
  · unfold validate
    simp only [hty, ne_eq, not_true_eq_false, false_and, if_false]
    cases hl : allStrings l with
    | none => simp [Valid, canon, hty, hl]
    | some ss =>
      simp only []
      have h := validateStrs_ok_iff o ho ss
      cases hv : validateStrs o ss with
      | error e =>
        have hno : ∀ c, ¬ Valid o (.strs ss) c := fun c hc => by
          have := (h c).mpr hc; rw [hv] at this; cases this
        simp
        intro hc
        apply hno c
        simpa [Valid, canon, hty, hl] using hc
      | ok c' =>
        have hc' := (h c').mp hv
        simp only [Valid, canon, hty, hl, Option.map_some, Option.some.injEq] at hc' ⊢
        obtain ⟨e1, e2, e3, e4⟩ := hc'
        subst e1
        have hvf : vfCheck o { a := ss } = .ok { a := ss } := by simp [vfCheck, hty, e4]
        rw [hvf]
        constructor
        · intro hh
          cases hh
          exact ⟨rfl, e2, e3, e4⟩
        · rintro ⟨rfl, _⟩
          rfl
  · have hc : canon o.ty (.anys l) = none := by cases h : o.ty <;> simp_all [canon]
    simp only [Valid, hc]
    simp
    unfold validate
    split
    · simp
    · cases hl : allStrings l with
      | none => simp [hl]
      | some ss =>
        have : validateStrs o ss = .error .notAllowed ∨ validateStrs o ss = .error .type := by
          unfold validateStrs strsBody
          simp [hty]
        rcases this with h | h <;> simp [hl, h]

theorem validate_rest (o : Opt) (v : Val) (c : Cache)
    (hv : v = .nil ∨ (∃ n, v = .u64 n) ∨ (∃ h, v = .bytes h) ∨ (∃ t, v = .other t)) :
    validate o v = .ok c ↔ Valid o v c := by
  have hc : canon o.ty v = none := by
    rcases hv with rfl | ⟨n, rfl⟩ | ⟨h, rfl⟩ | ⟨t, rfl⟩ <;> cases o.ty <;> rfl
  simp only [Valid, hc]
  simp
  rcases hv with rfl | ⟨n, rfl⟩ | ⟨h, rfl⟩ | ⟨t, rfl⟩ <;> unfold validate <;> split <;> simp

end PB.Config
