import PBProofs.Lemmas.Config
namespace PB.Config

theorem get_eq_of (st st' : St) (h1 : st'.opts = st.opts) (h2 : st'.gate = st.gate) (k : Key) (fb : GVal) :
    get st' k fb = get st k fb := by
  unfold get getCache St.find
  rw [h1, h2]

theorem setUser_gen (st : St) (h : WF st) (k : Key) (v : Val) (hv : v.WF) :
    (setUser st k v).1.gen = st.gen + 1 ∨ (setUser st k v).1 = st := by
  unfold setUser
  rcases writeUser_cases st h k v hv with ⟨_, e⟩ | ⟨o, _, _, e⟩ | ⟨o, c, _, _, _, e⟩ | ⟨o, _, _, _, _, e⟩
  · rw [e]; exact Or.inr rfl
  · rw [e]; left; simp only []; rw [save_gen]; simp [signal, (putOpt_misc _ _).1]
  · rw [e]; left; simp only []; rw [save_gen]; simp [signal, (putOpt_misc _ _).1]
  · rw [e]; exact Or.inr rfl

theorem setDflt_gen (st : St) (h : WF st) (k : Key) (v : Val) (hv : v.WF) :
    (setDflt st k v).1.gen = st.gen + 1 ∨ (setDflt st k v).1 = st := by
  unfold setDflt
  rcases writeDflt_cases st h k v hv with ⟨_, e⟩ | ⟨o, _, _, e⟩ | ⟨o, c, _, _, _, e⟩ | ⟨o, _, _, _, _, e⟩
  · rw [e]; exact Or.inr rfl
  · rw [e]; left; simp [signal, (putOpt_misc _ _).1]
  · rw [e]; left; simp [signal, (putOpt_misc _ _).1]
  · rw [e]; exact Or.inr rfl

theorem updateGate_gen (s : St) : (updateGate s).gen = s.gen := by unfold updateGate; split <;> rfl

theorem replaceUser_gen (st : St) (m : List (Key × Val)) : (replaceUser st m).1.gen = st.gen + 1 := by
  simp [replaceUser, signal, updateGate_gen]

theorem replaceDflt_gen (st : St) (m : List (Key × Val)) : (replaceDflt st m).1.gen = st.gen + 1 := by
  simp [replaceDflt, signal, updateGate_gen]

/-- Every call either hands out a new validity flag or leaves everything a getter reads untouched. -/
theorem apply_gen_or_same (st : St) (h : WF st) (op : Op) (hop : op.WF) :
    (apply st op).gen = st.gen + 1 ∨
    ((apply st op).gen = st.gen ∧ (apply st op).opts = st.opts ∧ (apply st op).gate = st.gate) := by
  cases op with
  | set k v =>
    rcases setUser_gen st h k v hop with e | e
    · exact Or.inl e
    · right; simp only [apply]; rw [e]; exact ⟨rfl, rfl, rfl⟩
  | setd k v =>
    rcases setDflt_gen st h k v hop with e | e
    · exact Or.inl e
    · right; simp only [apply]; rw [e]; exact ⟨rfl, rfl, rfl⟩
  | rep m => exact Or.inl (replaceUser_gen st m)
  | repd m => exact Or.inl (replaceDflt_gen st m)
  | save => right; exact ⟨save_gen st, save_opts st, save_gate st⟩
  | load b =>
    simp only [apply]
    unfold load
    split
    · right; exact ⟨rfl, rfl, rfl⟩
    · split
      · right; exact ⟨rfl, rfl, rfl⟩
      · right; exact ⟨rfl, rfl, rfl⟩
      · left
        rename_i t _
        have := replaceUser_gen st (flatten t)
        simp only []
        split <;> exact this
  | wfile f => right; exact ⟨rfl, rfl, rfl⟩

theorem cinv_apply (st : St) (h : WF st) (op : Op) (hop : op.WF) (cl : Closure) (hc : CInv st cl) :
    CInv (apply st op) cl := by
  rcases apply_gen_or_same st h op hop with e | ⟨e1, e2, e3⟩
  · refine ⟨by rw [e]; exact Nat.le_succ_of_le hc.1, ?_⟩
    intro hf; rw [e] at hf; have := hc.1; omega
  · refine ⟨by rw [e1]; exact hc.1, ?_⟩
    intro hf; rw [e1] at hf
    rw [get_eq_of st _ e2 e3]; exact hc.2 hf

theorem cinv_mk (st : St) (k : Key) (fb : GVal) : CInv st (mkClosure st k fb) := ⟨Nat.le_refl _, fun _ => rfl⟩

theorem call_current (st : St) (cl : Closure) (hc : CInv st cl) :
    (cl.call st).2 = get st cl.key cl.fb ∧ CInv st (cl.call st).1 ∧
      (cl.call st).1.key = cl.key ∧ (cl.call st).1.fb = cl.fb := by
  unfold Closure.call
  by_cases hf : cl.flag = st.gen
  · rw [if_pos hf]; exact ⟨hc.2 hf, hc, rfl, rfl⟩
  · rw [if_neg hf]; exact ⟨rfl, ⟨Nat.le_refl _, fun _ => rfl⟩, rfl, rfl⟩

end PB.Config
