import PBProofs.Lemmas.Config
namespace PB.Config

theorem check_of_valid (o : Opt) (ho : RegOK o) (v : Val) (hv : v.WF) (c : Cache) (h : Valid o (migrate o.mg v) c) :
    check o v = .ok c :=
  (validate_ok_iff_valid o ho _ (migrate_WF o.mg v hv) c).mpr h

theorem wf_writeUser (st : St) (h : WF st) (k : Key) (v : Val) (hv : v.WF) : WF (writeUser st k v).1 := by
  rcases writeUser_cases st h k v hv with ⟨_, e⟩ | ⟨o, hf, _, e⟩ | ⟨o, c, hf, _, hval, e⟩ | ⟨o, _, _, _, _, e⟩
  · rw [e]; exact h
  · rw [e]
    have hm := find?_some_mem hf
    exact wf_putOpt st h o _ (by rw [show ({ o with user := none } : Opt).key = k from hm.2]; exact hf)
      ⟨rfl, rfl, rfl, rfl, rfl, rfl, rfl, rfl⟩ (by intro c hc; cases hc)
  · rw [e]
    have hm := find?_some_mem hf
    refine wf_putOpt st h o _ (by rw [show ({ o with user := some c } : Opt).key = k from hm.2]; exact hf)
      ⟨rfl, rfl, rfl, rfl, rfl, rfl, rfl, rfl⟩ ?_
    intro c' hc'
    have : c = c' := by simpa using hc'
    subst this
    have hck := check_of_valid o (h.reg o hm.1) v hv c hval
    exact (check_static { o with user := some c } o ⟨rfl, rfl, rfl, rfl, rfl, rfl, rfl, rfl⟩ _).trans
      (check_json_idem o (h.reg o hm.1) v hv c hck)
  · rw [e]; exact h

theorem wf_writeDflt (st : St) (h : WF st) (k : Key) (v : Val) (hv : v.WF) : WF (writeDflt st k v).1 := by
  rcases writeDflt_cases st h k v hv with ⟨_, e⟩ | ⟨o, hf, _, e⟩ | ⟨o, c, hf, _, hval, e⟩ | ⟨o, _, _, _, _, e⟩
  · rw [e]; exact h
  · rw [e]
    have hm := find?_some_mem hf
    refine wf_putOpt st h o _ (by rw [show ({ o with dflt := none } : Opt).key = k from hm.2]; exact hf)
      ⟨rfl, rfl, rfl, rfl, rfl, rfl, rfl, rfl⟩ ?_
    intro c' hc'
    exact (check_static { o with dflt := none } o ⟨rfl, rfl, rfl, rfl, rfl, rfl, rfl, rfl⟩ _).trans (h.uvalid o hm.1 c' hc')
  · rw [e]
    have hm := find?_some_mem hf
    refine wf_putOpt st h o _ (by rw [show ({ o with dflt := some c } : Opt).key = k from hm.2]; exact hf)
      ⟨rfl, rfl, rfl, rfl, rfl, rfl, rfl, rfl⟩ ?_
    intro c' hc'
    exact (check_static { o with dflt := some c } o ⟨rfl, rfl, rfl, rfl, rfl, rfl, rfl, rfl⟩ _).trans (h.uvalid o hm.1 c' hc')
  · rw [e]; exact h

theorem wf_setUser (st : St) (h : WF st) (k : Key) (v : Val) (hv : v.WF) : WF (setUser st k v).1 := by
  have hw := wf_writeUser st h k v hv
  unfold setUser
  split
  · rename_i st' heq; rw [heq] at hw; exact wf_save _ (wf_signal _ hw)
  · rename_i st' e heq; rw [heq] at hw; exact hw

theorem wf_setDflt (st : St) (h : WF st) (k : Key) (v : Val) (hv : v.WF) : WF (setDflt st k v).1 := by
  have hw := wf_writeDflt st h k v hv
  unfold setDflt
  split
  · rename_i st' heq; rw [heq] at hw; exact wf_signal _ hw
  · rename_i st' e heq; rw [heq] at hw; exact hw

theorem wf_replaceUser (st : St) (h : WF st) (m : List (Key × Val)) (hm : ∀ e ∈ m, e.2.WF) :
    WF (replaceUser st m).1 := by
  unfold replaceUser
  refine wf_signal _ (wf_mapUser st h (replOne m) ?_)
  intro o ho c hc
  obtain ⟨v, hl, hck⟩ := replOne_some hc
  exact check_json_idem o (h.reg o ho) v (hm _ (lookup_mem hl)) c hck

theorem wf_replaceDflt (st : St) (h : WF st) (m : List (Key × Val)) : WF (replaceDflt st m).1 := by
  unfold replaceDflt
  exact wf_signal _ (wf_mapDflt st h (replOne m))

theorem wf_load (st : St) (h : WF st) (b : Bool) (hf : ∀ t, st.file = .tree t → ∀ e ∈ t, e.2.WF) : WF (load st b).1 := by
  unfold load
  split
  · exact h
  · split
    · exact h
    · exact h
    · rename_i t heq
      have := wf_replaceUser st h (flatten t) (hf t heq)
      simp only []
      split <;> exact this

end PB.Config
