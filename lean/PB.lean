import PB.Bytes
import PB.Model.Varint
