/- Line-protocol plumbing shared by all per-property drivers. -/
namespace PB.Drv

/-- Reads op lines, prints one result line per op. A line starting with `#` starts a new case:
    the state is reset to `init` and `#` is echoed. -/
partial def stateLoop {σ : Type} (h : IO.FS.Stream) (out : IO.FS.Stream) (init s : σ)
    (step : σ → String → σ × String) : IO Unit := do
  let line ← h.getLine
  if line.isEmpty then
    out.flush
    return ()
  let l := (line.dropEndWhile (fun c => c == '\n' || c == '\r')).toString
  if l.startsWith "#" then
    out.putStrLn "#"
    stateLoop h out init init step
  else
    let (s', o) := step s l
    out.putStrLn o
    stateLoop h out init s' step

def lineLoop (f : String → String) : IO Unit := do
  let i ← IO.getStdin
  let o ← IO.getStdout
  stateLoop i o () () (fun _ l => ((), f l))

def runState {σ : Type} (init : σ) (step : σ → String → σ × String) : IO Unit := do
  let i ← IO.getStdin
  let o ← IO.getStdout
  stateLoop i o init init step

def words (s : String) : List String := (s.splitOn " ").filter (· ≠ "")

end PB.Drv
