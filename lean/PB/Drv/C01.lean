import PB.Model.Modules
import PB.Drv.Loop
/-!
Driver for C01: acceptor for recorded histories of the module manager.

`scn <n> <mgmt> <deps> <nil> …` starts a scenario; every further line is a recorded fact
(`call`/`ret`/`beg`/`end`/`en`/`dis`/`setg`/`glob`/`latereg`/`obs`/`fin`) that is replayed through `PB.Modules.step`.
The outcome of a finished routine (`end … ok|err|panic`) reaches the model through the regenerated
`ctrlFailureSeen` (what the manager is told, given what the routine did).
Output per line: `ok`, `reject <reason> …`, or `bad-op` for anything that is not a well-formed line.

Two kinds of model steps are not visible in a history and are inserted here:
* `passEnd` (the manager leaves a fix-point loop): tried when the recorded event is not enabled,
* the `beg`/`fin` pair of a module whose callback is `nil` (nothing is recorded for it): fired as soon as
  the module is ready, as long as the pass has not seen an error (the generator plans no prep/start
  failures in scenarios with nil prep/start callbacks, so this resolution is deterministic).
-/
namespace PB.Drv.C01
open PB.Modules

structure D where
  st : St
  nilcb : Nat → Kind → Bool

def parseKind : String → Option Kind
  | "prep" => some .prep
  | "start" => some .start
  | "stop" => some .stop
  | _ => none

def parseApi : String → Option Api
  | "start" => some .start
  | "manage" => some .manage
  | "shutdown" => some .shutdown
  | _ => none

def parseOk : String → Option Bool
  | "ok" => some true
  | "err" => some false
  | "panic" => some false
  | _ => none

/-- What the manager is told about a routine that returned nil / returned an error / panicked. -/
def parseOutcome : String → Option Bool
  | "ok" => some (!PB.Gen.Lifecycle.ctrlFailureSeen false false)
  | "err" => some (!PB.Gen.Lifecycle.ctrlFailureSeen true false)
  | "panic" => some (!PB.Gen.Lifecycle.ctrlFailureSeen false true)
  | _ => none

def parseGlob : String → Option Glob
  | "prep" => some .prep
  | "shutdown" => some .shutdown
  | "cmd" => some .cmd
  | _ => none

def parseNatList (s : String) : Option (List Nat) :=
  if s = "-" then some [] else (s.splitOn ",").mapM String.toNat?

def parseBits (s : String) : Option (List Bool) :=
  s.toList.mapM (fun c => if c = '0' then some false else if c = '1' then some true else none)

/-- `scn <n> <mgmt> <deps> <nil> …` (the remaining fields are for the executor only). -/
def parseScn (w : List String) : Option D :=
  match w with
  | "scn" :: ns :: mg :: ds :: nl :: _nt :: _du :: _fl :: _ops :: [] =>
    match ns.toNat?, parseBits mg with
    | some n, some [mgmt] =>
      if n > 64 then none else
      let dparts := if n = 0 then [] else ds.splitOn "|"
      let nparts := if n = 0 then [] else nl.splitOn "|"
      if dparts.length ≠ n ∨ nparts.length ≠ n then none else
      match dparts.mapM parseNatList, nparts.mapM parseBits with
      | some dl, some nb =>
        if dl.any (fun l => l.any (fun d => d > n)) then none
        else if nb.any (fun l => l.length ≠ 3) then none
        else
          let deps : Nat → List Nat := fun i => dl.getD i []
          let nilcb : Nat → Kind → Bool := fun i k =>
            let l := nb.getD i []
            match k with
            | .prep => l.getD 0 false
            | .start => l.getD 1 false
            | .stop => l.getD 2 false
          some { st := init n deps mgmt, nilcb := nilcb }
      | _, _ => none
    | _, _ => none
  | _ => none

/-- Fire the launch+finish of every ready module whose callback of the current pass kind is nil. -/
def nilRound (nilcb : Nat → Kind → Bool) (s : St) : St :=
  match passKind s.pc with
  | none => s
  | some k =>
    if s.failed && k != .stop then s else
    (List.range s.n).foldl (fun s m =>
      if nilcb m k then
        match stepBeg s k m with
        | some s1 => (stepFin s1 k m true).getD s
        | none => s
      else s) s

def nilClosure (nilcb : Nat → Kind → Bool) (s : St) : St :=
  (List.range (s.n + 1)).foldl (fun s _ => nilRound nilcb s) s

/-- Replay one recorded event, inserting the invisible steps. -/
def attempt (nilcb : Nat → Kind → Bool) : Nat → St → Ev → Option St
  | fuel, s, e =>
    let s1 := nilClosure nilcb s
    match step s1 e with
    | some s' => some s'
    | none =>
      match fuel with
      | 0 => none
      | f + 1 =>
        match step s1 .passEnd with
        | some s2 => attempt nilcb f s2 e
        | none => none

def showPc : Pc → String
  | .idle => "idle" | .glob g => s!"glob-{repr g}" | .prep => "prep" | .startS => "startS" | .stopM => "stopM" | .startM => "startM" | .stopX => "stopX"
  | .done a ok => s!"done-{repr a}-{ok}"

def describe (s : St) : String :=
  let st := (List.range s.n).map (fun m => toString (s.status m))
  s!"pc={showPc s.pc} exec={s.execCnt} rep={s.reportCnt} failed={s.failed} running={s.running} status={st}"

def event (d : D) (e : Ev) (what : String) : D × String :=
  match attempt d.nilcb 3 d.st e with
  | some s' => ({ d with st := s' }, "ok")
  | none => (d, s!"reject {what} model: {describe (nilClosure d.nilcb d.st)}")

def b01 (b : Bool) : String := if b then "1" else "0"

/-- `obs <status,…> <enabled,…> <asdep,…>`: compare with the model state. -/
def observe (d : D) (tag st en dp : String) : D × String :=
  let s := d.st
  if s.n = 0 then (d, if st = "-" ∧ en = "-" ∧ dp = "-" then "ok" else "bad-op") else
  match (st.splitOn ",").mapM String.toNat?, (en.splitOn ",").mapM String.toNat?, (dp.splitOn ",").mapM String.toNat? with
  | some sl, some el, some dl =>
    if sl.length ≠ s.n ∨ el.length ≠ s.n ∨ dl.length ≠ s.n then (d, "bad-op") else
    if s.pc ≠ .idle then (d, s!"reject {tag}-while-busy model: {describe s}") else
    let ms := (List.range s.n).map s.status
    let me := (List.range s.n).map (fun m => if s.enabled m then 1 else 0)
    let md := (List.range s.n).map (fun m => if s.asDep m then 1 else 0)
    if ms ≠ sl then (d, s!"reject {tag}-status model={ms} impl={sl}")
    else if me ≠ el then (d, s!"reject {tag}-enabled model={me} impl={el}")
    else if md ≠ dl then (d, s!"reject {tag}-asdep model={md} impl={dl}")
    else (d, "ok")
  | _, _, _ => (d, "bad-op")

def handleEv (d : D) (w : List String) : D × String :=
  match w with
  | ["call", a] => match parseApi a with
    | some a => event d (.call a) "call"
    | none => (d, "bad-op")
  | ["ret", a, r] => match parseApi a, parseOk r with
    | some api, some ok => if r = "panic" then (d, "bad-op") else event d (.ret api ok) s!"ret-{a}"
    | _, _ => (d, "bad-op")
  | ["beg", k, m] => match parseKind k, m.toNat? with
    | some kk, some m => event d (.beg kk m) s!"beg-{k}"
    | _, _ => (d, "bad-op")
  | ["end", k, m, r] => match parseKind k, m.toNat?, parseOutcome r with
    | some kk, some m, some ok => event d (.fin kk m ok) s!"end-{k}"
    | _, _, _ => (d, "bad-op")
  | ["setg", g, i] => match parseGlob g, i.toNat? with
    | some gg, some i => event d (.setGlob gg i) s!"setg-{g}"
    | _, _ => (d, "bad-op")
  | ["glob", g, i, r] => match parseGlob g, i.toNat?, parseOk r with
    | some gg, some i, some ok => if r = "panic" then (d, "bad-op") else event d (.glob gg i ok) s!"glob-{g}"
    | _, _, _ => (d, "bad-op")
  | [op, m, c] =>
    if op = "en" ∨ op = "dis" then
      match m.toNat?, parseBits c with
      | some m, some [changed] =>
        let v := (op = "en")
        let was := d.st.enabled m
        match attempt d.nilcb 3 d.st (if v then .enable m else .disable m) with
        | some s' => if (was != v) = changed then ({ d with st := s' }, "ok")
                     else (d, s!"reject {op}-changed-flag model={b01 (was != v)}")
        | none => (d, s!"reject {op} model: {describe d.st}")
      | _, _ => (d, "bad-op")
    else (d, "bad-op")
  | ["latereg", r] =>
    if r = "ignored" then (d, if d.st.locked then "ok" else "reject latereg-ignored-before-start")
    else if r = "accepted" then (d, "reject latereg-accepted")
    else (d, "bad-op")
  | ["obs", st, en, dp] => observe d "obs" st en dp
  | ["fin", st, en, dp] => observe d "fin" st en dp
  | ["hang"] => (d, "reject hang")
  | ["crash"] => (d, "reject crash")
  | _ => (d, "bad-op")

def handle (d : Option D) (line : String) : Option D × String :=
  let w := PB.Drv.words line
  match w with
  | "scn" :: _ => match parseScn w with
    | some d' => (some d', "ok")
    | none => (d, "bad-op")
  | _ => match d with
    | none => (none, "bad-op")
    | some d => let (d', o) := handleEv d w; (some d', o)

end PB.Drv.C01

def main : IO Unit := PB.Drv.runState (none : Option PB.Drv.C01.D) PB.Drv.C01.handle
