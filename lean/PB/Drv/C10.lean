import PB.Model.Varint
import PB.Gen.Varint
import PB.Drv.Loop
/- Driver for C10: one varint-package call per line. -/
namespace PB.Drv.C10
open PB PB.Varint

def showNK : Except Err (Nat × Nat) → String
  | .ok (v, n) => s!"ok {v} {n}"
  | .error e => s!"err {e.str}"

def handle (line : String) : String :=
  match PB.Drv.words line with
  | ["p8", n] => match n.toNat? with | some k => toHex (pack8 k) | none => "bad-op"
  | ["p16", n] => match n.toNat? with | some k => toHex (pack16 k) | none => "bad-op"
  | ["p32", n] => match n.toNat? with | some k => toHex (pack32 k) | none => "bad-op"
  | ["p64", n] => match n.toNat? with | some k => toHex (pack64 k) | none => "bad-op"
  | ["es", n] => match n.toNat? with | some k => toString (PB.Gen.Varint.encodedSize k) | none => "bad-op"
  | ["u8", h] => match parseHex h with | some b => showNK (unpack8 b) | none => "bad-op"
  | ["u16", h] => match parseHex h with | some b => showNK (unpack16 b) | none => "bad-op"
  | ["u32", h] => match parseHex h with | some b => showNK (unpack32 b) | none => "bad-op"
  | ["u64", h] => match parseHex h with | some b => showNK (unpack64 b) | none => "bad-op"
  | ["pl", h] => match parseHex h with | some b => toHex (prependLength b) | none => "bad-op"
  | ["gnb", h] => match parseHex h with
    | some b => (match getNextBlock b with
      | .ok (blk, tot) => s!"ok {toHex blk} {tot}"
      | .error e => s!"err {e.str}")
    | none => "bad-op"
  | _ => "bad-op"

end PB.Drv.C10

def main : IO Unit := PB.Drv.lineLoop PB.Drv.C10.handle
