import PB.Model.Tasks
import PB.Drv.Loop
/-
Driver for C07: acceptor for recorded traces of the real task scheduler.
Line forms:  `scn <json>` → `ok`;  `i <now> <info…>` → `-`;
`e <now> <action…> | <implementation snapshot>` → the model's own snapshot after taking the action
(the harness compares it with the implementation snapshot), or `reject <reason>` if the action is not
enabled in the model or its observable result (picked task, check result, fetch result) differs.
-/
namespace PB.Drv.C07
open PB.Tasks

def b01 (b : Bool) : String := if b then "1" else "0"

def ids (l : List Nat) : String :=
  if l.isEmpty then "-" else ",".intercalate (l.map toString)

def snapTask (k : Task) : String :=
  s!"c{b01 k.canceled} x{b01 k.executing} o{b01 k.overtime} ea={k.executeAt} md={k.maxDelay} q{b01 k.inQ} p{b01 k.inP} s{b01 k.inS}"

def snapLists (s : St) : String := s!"Q={ids s.queue} P={ids s.prio} S={ids s.sched}"

def both (s : St) (t : Nat) : String := snapTask (s.tasks t) ++ " " ++ snapLists s

def resName : RunRes → String
  | .stale => "skip-stale" | .executing => "skip-executing" | .inactive => "skip-inactive" | .started => "start"

/-- Take action `a`; on success print with `out`. -/
def take (s : St) (now : Nat) (a : Act) (out : St → String) : St × String :=
  match step s now a with
  | some s' => (s', out s')
  | none => (s, "reject not-enabled")

def handleEv (s : St) (now : Nat) (w : List String) : St × String :=
  match w with
  | ["newinert", k] => match k.toNat? with
    | some t => take s now (.newInert t) (fun s' => snapTask (s'.tasks t)) | none => (s, "bad-op")
  | ["queue", k] => match k.toNat? with
    | some t => take s now (.queue t) (both · t) | none => (s, "bad-op")
  | ["queuep", k] => match k.toNat? with
    | some t => take s now (.queueP t) (both · t) | none => (s, "bad-op")
  | ["asap", who, k] => match k.toNat?, who with
    | some t, "sh" => take s now (.asap t true) (both · t)
    | some t, "ex" => take s now (.asap t false) (both · t)
    | some t, "qh" => take s now (.asap t false) (both · t)
    | _, _ => (s, "bad-op")
  | ["maxdelay", k, d] => match k.toNat?, d.toNat? with
    | some t, some d => take s now (.maxDelay t d) (both · t) | _, _ => (s, "bad-op")
  | ["schedule", k, x] => match k.toNat?, x.toNat? with
    | some t, some x => take s now (.schedule t x) (both · t) | _, _ => (s, "bad-op")
  | ["cancel", k] => match k.toNat? with
    | some t => take s now (.cancel t) (both · t) | none => (s, "bad-op")
  | ["qhwait"] => take s now .qhWait snapLists
  | ["qhpop", k] =>
    let exp : Option Nat := match s.prio, s.queue with
      | t :: _, _ => some t
      | [], t :: _ => some t
      | [], [] => none
    let got : Option (Option Nat) := if k = "none" then some none else k.toNat?.map some
    match got with
    | none => (s, "bad-op")
    | some g =>
      if s.qh != .ready then (s, "reject queue-handler-not-ready")
      else if g != exp then (s, s!"reject model-pops {exp}")
      else take s now .qhPop snapLists
  | ["run", who, k, res] => match k.toNat? with
    | none => (s, "bad-op")
    | some t =>
      let holds : Bool := if who = "qh" then s.qh == .hold t else if who = "sh" then s.sh == .holdRun t else false
      if !holds then (s, s!"reject {who}-does-not-hold-task") else
      let r := runResOf s t
      if resName r != res then (s, s!"reject model-result {resName r}")
      else take s now (if who = "qh" then .runQ else .runS) (both · t)
  | ["spawn", k] => match k.toNat? with
    | none => (s, "bad-op")
    | some t =>
      if s.qh == .pre t then take s now .spawnQ snapLists
      else if s.sh == .pre t then take s now .spawnS snapLists
      else (s, "reject no-handler-in-pre-state")
  | ["fnbegin", k] => match k.toNat? with
    | some t => take s now (.fnBegin t) (fun s' => s!"ctxdone={b01 (s'.tasks t).ctxDone}") | none => (s, "bad-op")
  | ["fnend", k] => match k.toNat? with
    | some t => take s now (.fnEnd t) (fun _ => "-") | none => (s, "bad-op")
  | ["finish", k] => match k.toNat? with
    | some t => take s now (.finish t) (both · t) | none => (s, "bad-op")
  | ["slotfree", k] => match k.toNat? with
    | none => (s, "bad-op")
    | some t => match step s now (.slotFree t false) with
      | some s' => (s', snapLists s')
      | none => match step s now (.slotFree t true) with
        | some s' => (s', snapLists s')
        | none => (s, "reject no-released-watcher")
  | ["shfetch", "none"] =>
    if s.sh != .idle then (s, "reject schedule-handler-busy")
    else if fetchRes (setNow s now) != .none then (s, "reject model-fetch-differs") else take s now .shFetch (fun _ => "-")
  | ["shfetch", kind, k] => match k.toNat? with
    | none => (s, "bad-op")
    | some t =>
      let exp : Option FetchRes := match kind with
        | "notdue" => some (.notDue t) | "run" => some (.run t) | "asap" => some (.asap t) | _ => none
      match exp with
      | none => (s, "bad-op")
      | some e =>
        if s.sh != .idle then (s, "reject schedule-handler-busy")
        else if fetchRes (setNow s now) != e then (s, "reject model-fetch-differs")
        else take s now .shFetch (fun s' => snapTask (s'.tasks t))
  | _ => (s, "bad-op")

def handle (s : St) (line : String) : St × String :=
  if line.startsWith "scn " then (s, "ok")
  else if line.startsWith "i " then (s, "-")
  else if line.startsWith "e " then
    let front := (line.splitOn " | ").headD ""
    match PB.Drv.words front with
    | _ :: n :: rest => match n.toNat? with
      | some now => if now < s.now then (s, "reject clock-went-back") else handleEv s now rest
      | none => (s, "bad-op")
    | _ => (s, "bad-op")
  else (s, "bad-op")

end PB.Drv.C07

def main : IO Unit := PB.Drv.runState PB.Tasks.init PB.Drv.C07.handle
