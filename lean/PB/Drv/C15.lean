import PB.Model.MicroTasks
import PB.Drv.Loop
/-!
Driver for C15: **acceptor** for recorded traces of the microtask scheduler.

One line per recorded event (canonicalised by harness/cmd/hx-c15); every event is mapped to the model
action(s) it stands for, replayed through `PB.MicroTasks.step` (counters) and through `dstep` of the task
it belongs to (every task of the trace is followed individually, i.e. for each task the run is a run of
`fstep` with `me := (event belongs to the task)`). Counter values observed by the hooks under the
linearising bracket are compared with the model's. Reply: `ok` or `reject <why>`.

```
lim <n> <0|1>                   start of a trace: configured limit; is a finished token left in the channel?
                                (all modules are online, their counters zero)
new <tid> <cls> <var> <nil> <zd> <mod>  task attributes (tid = 0,1,2,…; zd = 1: called with max delay 0; mod = its module)
t <tid> nilret | submit <m|l> | hinc <cnt> | tmoenq <cnt> | tmowait | begin <modcnt> | moddec <out> <modcnt>
        | stopchk | dec <cnt> | tok <0|1> | ret <code> | doneagain
                                out: what the function did (0 nil, 2 panic, 100+k: returned value k of the harness's error
                                dictionary); code: what the caller of a blocking variant got (same numbering, 3 errNoModule)
m <mod> stop | flag | mcheck <0|1> | wake | timeout <modcnt> | offline | start
                                steps of the stop protocol of one module (`MSt`); mcheck: a checkIfStopComplete got
                                as far as the microtask counter and found it passing (1) or not (0); modcnt = value
                                of that module's counter, read under the linearising bracket
q <cnt> <m0,m1,…>               mid-trace quiescence: everything submitted so far finished; observed counters
s space <cnt> <lim> | full <cnt> <lim> | shut | grant <tid> | count <cnt> | other | woken | tick
shutdown
scn … / h …                     scenario description and harness observations: not model events, answered `ok`
setmax <n>                      pure glue: the limit `SetMaxConcurrentMicroTasks n` configures
end <cnt> <mods> <m0,m1,…>      all calls returned and the scheduler settled: observed counters (sum and per module)
```
-/
namespace PB.Drv.C15
open PB.MicroTasks

structure Drv where
  g : St
  ts : Array DSt
  held : Option Nat     -- task whose request the scheduler holds or has closed and not yet counted
  antic : Bool          -- a `wakeToken` was inferred from a successful token send; the `woken` event is still to come
  started : Bool
  ms : Array MSt        -- every module of the trace is followed individually
  tm : Array Nat        -- task → module

def Drv.init : Drv :=
  { g := PB.MicroTasks.init 0, ts := #[], held := none, antic := false, started := false, ms := #[], tm := #[] }

/-- apply one action of the module automaton to module `k` -/
def mapp (x : Drv) (k : Nat) (a : MAct) : Except String Drv :=
  match x.ms[k]? with
  | none => throw s!"unknown module {k}"
  | some m =>
    match mstep m a with
    | some m' => pure { x with ms := x.ms.set! k m' }
    | none => throw s!"module {k}: {reprStr a} not enabled (cnt={m.cnt} run={m.run} flag={m.flag} done={m.done} st={m.st} sp={m.sp})"

def chkMod (x : Drv) (k : Nat) (v : Int) : Except String Drv :=
  match x.ms[k]? with
  | none => throw s!"unknown module {k}"
  | some m => if m.cnt = v then pure x else throw s!"module {k} counter: implementation {v}, model {m.cnt}"

def modOfTask (x : Drv) (t : Nat) : Except String Nat :=
  match x.tm[t]? with
  | some k => pure k
  | none => throw s!"unknown task {t}"

def parseInts (s : String) : Option (List Int) :=
  (s.splitOn ",").mapM String.toInt?

def actName (a : Act) : String := (reprStr a)

/-- apply one model action; `who` = the task it belongs to (none: scheduler / environment) -/
def app (x : Drv) (a : Act) (who : Option Nat) : Except String Drv := do
  let g' ← match step x.g a with
    | some g' => pure g'
    | none => throw s!"model: {actName a} not enabled (spc={x.g.spc} cnt={x.g.cnt} fin={x.g.fin} hk={x.g.hk})"
  let mut ts := x.ts
  let mut held := x.held
  match who with
  | some t =>
    match ts[t]? with
    | none => throw s!"unknown task {t}"
    | some d =>
      match dstep d a true with
      | some d' => ts := ts.set! t d'
      | none => throw s!"task {t}: {actName a} out of program order (pc={d.pc} req={d.req} cls={d.cls} var={d.var})"
    match a with
    | .take _ _ => held := some t
    | _ => pure ()
  | none =>
    match a, held with
    | .close, some t | .count, some t =>
      match ts[t]? with
      | none => throw s!"unknown task {t}"
      | some d =>
        match dstep d a false with
        | some d' => ts := ts.set! t d'
        | none => throw s!"task {t}: {actName a} rejected"
      if a == .count then held := none
    | .close, none | .count, none => throw s!"{actName a} without a held request"
    | _, _ => pure ()
  return { x with g := g', ts := ts, held := held }

def appAll (x : Drv) (as : List (Act × Option Nat)) : Except String Drv :=
  as.foldlM (fun x (a, w) => app x a w) x

def prioOf (cls : Nat) : Prio := if cls = 1 then .low else .med

def chkCnt (x : Drv) (cnt : Int) : Except String Drv :=
  if x.g.cnt = cnt then pure x else throw s!"counter: implementation {cnt}, model {x.g.cnt}"

def taskEv (x : Drv) (t : Nat) (ev : List String) : Except String Drv := do
  let d ← match x.ts[t]? with
    | some d => pure d
    | none => throw s!"unknown task {t}"
  let high := decide (d.cls = 2)
  let p := prioOf d.cls
  let z := decide (d.zd = 1 ∧ d.var = 2)   -- timer of a Signal* call made with max delay 0
  let me := some t
  match ev with
  | ["nilret"] => app x .callNil me
  | ["submit", q] =>
    match q with
    | "m" => app x (.submit .med) me
    | "l" => app x (.submit .low) me
    | _ => throw "bad-op"
  | ["hinc", c] =>
    match c.toInt? with
    | some c => do chkCnt (← appAll x [(.hcall, me), (.hinc, me)]) c
    | none => throw "bad-op"
  | ["tmoenq", c] =>
    match c.toInt? with
    | some c => do chkCnt (← appAll x [(.tmoEnq p z, me), (.tmoInc, me)]) c
    | none => throw "bad-op"
  | ["tmowait"] =>
    if d.pc = 2 ∧ d.req = 1 then app x (.tmoWait p z) me
    else if d.pc = 2 ∧ d.req = 2 then app x (.tmoHeld z) me
    else app x (.tmoLate z) me
  | ["begin", v] =>
    match v.toInt? with
    | some v => do
      let k ← modOfTask x t
      let x ← app x (.begin high) me
      chkMod (← mapp x k .begin) k v
    | none => throw "bad-op"
  | ["moddec", o, v] =>
    match o.toNat?, v.toInt? with
    | some o, some v => do
      let k ← modOfTask x t
      let x ← appAll x [(.fnRet high o, me), (.modDec high, me)]
      chkMod (← mapp x k .modDec) k v
    | _, _ => throw "bad-op"
  | ["stopchk"] => app x .stopCheck me
  | ["dec", c] =>
    match c.toInt? with
    | some c => do chkCnt (← app x (.dec high) me) c
    | none => throw "bad-op"
  | ["tok", b] =>
    match b with
    | "1" =>
      -- The scheduler logs its receive after the fact: a successful send into a channel the model
      -- believes full, with the scheduler waiting, means the scheduler has taken the token already.
      if x.g.fin = 1 ∧ x.g.spc = 5 ∧ !x.antic then do
        let x ← app x .wakeToken none
        app { x with antic := true } .tokSend me
      else app x .tokSend me
    | "0" => app x .tokDrop me
    | _ => throw "bad-op"
  | ["ret", c] =>
    match c.toNat? with
    | some c => do
      let x ← app x .ret me
      -- harness code of what the caller got: 0 nil · 2 the panic error of this task · 3 errNoModule · 100+k the very
      -- value k of the error dictionary the function returned · 7/8 something else; the model's `res` is
      -- 1 for errNoModule and `out + 2` for the function's outcome `out` (same numbering)
      let want := if c = 3 then 1 else c + 2
      match x.ts[t]? with
      | some d' =>
        if d'.var = 0 ∧ d'.res ≠ want then
          throw s!"task {t}: caller got {c}, the function's outcome in the model is {d'.res - 2} (the blocking variants return it unchanged)"
        else pure x
      | none => throw "unknown task"
    | none => throw "bad-op"
  | ["doneagain"] => app x .doneAgain me
  | _ => throw "bad-op"

def schedEv (x : Drv) (ev : List String) : Except String Drv := do
  match ev with
  | ["space", c, l] | ["full", c, l] =>
    match c.toInt?, l.toNat? with
    | some c, some l => do
      if x.g.lim ≠ l then throw s!"limit: implementation {l}, model {x.g.lim}"
      let x ← chkCnt x c
      let x ← appAll x [(.flag, none), (.read, none)]
      let want := if ev.head? = some "space" then 2 else 5
      if x.g.spc = want then pure x
      else throw s!"scheduler decided {ev.head?.getD ""} with counter {c} and limit {l}; the model's guard says otherwise"
    | _, _ => throw "bad-op"
  | ["shut"] => do
    let x ← app x .flag none
    if x.g.spc = 6 then pure x else throw "scheduler saw the shutdown flag, the model did not"
  | ["grant", t] =>
    match t.toNat? with
    | some t =>
      match x.ts[t]? with
      | some d => appAll x [(.take (prioOf d.cls) (decide (d.pc ≠ 2)), some t), (.close, none)]
      | none => throw s!"unknown task {t}"
    | none => throw "bad-op"
  | ["count", c] =>
    match c.toInt? with
    | some c => do chkCnt (← app x .count none) c
    | none => throw "bad-op"
  | ["other"] => app x .pickOther none
  | ["woken"] => if x.antic then pure { x with antic := false } else app x .wakeToken none
  | ["tick"] => app x .wakeTick none
  | _ => throw "bad-op"

def modEv (x : Drv) (k : Nat) (ev : List String) : Except String Drv := do
  match ev with
  | ["stop"] => mapp x k .stopBegin
  | ["flag"] => mapp x k .flagSet
  | ["mcheck", r] =>
    -- the check read the stop flag as set and found stop function, workers and tasks done; `r`: did the
    -- microtask counter pass? The model's answer is `stopCheckMicro` of the module's counter.
    match x.ms[k]?, r with
    | some m, "1" | some m, "0" =>
      if m.flag ≠ 1 then throw s!"module {k}: a stop check got to the microtask counter, in the model the stop flag is not set"
      else if (PB.Gen.MicroTasks.stopCheckMicro m.cnt) ≠ (r == "1") then
        throw s!"module {k}: stop check on the microtask counter: implementation {r}, model counter {m.cnt}"
      else mapp x k (.check true)
    | none, _ => throw s!"unknown module {k}"
    | _, _ => throw "bad-op"
  | ["wake"] => mapp x k .wake
  | ["timeout", v] =>
    match v.toInt? with
    | some v => do chkMod (← mapp x k .timeout) k v
    | none => throw "bad-op"
  | ["offline"] => mapp x k .offline
  | ["start"] => mapp x k .start
  | _ => throw "bad-op"

def chkMods (x : Drv) (vs : List Int) (what : String) : Except String Unit := do
  if vs.length ≠ x.ms.size then throw s!"{what}: {vs.length} module counters given, {x.ms.size} modules"
  for (v, i) in vs.zipIdx do
    match x.ms[i]? with
    | some m =>
      if m.cnt ≠ v then throw s!"{what}: module {i} counter: implementation {v}, model {m.cnt}"
      if m.run ≠ 0 then throw s!"{what}: module {i} has microtasks running in the model"
    | none => throw "unknown module"

/-- number of modules of the harness process -/
def nMods : Nat := 3

def finalPc (d : DSt) : Bool := (d.pc = 9 ∨ d.pc = 10 ∨ d.pc = 11) ∧ (d.req = 0 ∨ d.req = 4 ∨ d.req = 5)

def handle (x : Drv) (line : String) : Except String Drv := do
  match PB.Drv.words line with
  | ["lim", n, f] =>
    match n.toNat?, f with
    | some n, "0" => pure { Drv.init with g := PB.MicroTasks.init n, started := true, ms := Array.replicate nMods MSt.init }
    | some n, "1" => pure { Drv.init with g := PB.MicroTasks.initTok n, started := true, ms := Array.replicate nMods MSt.init }
    | _, _ => throw "bad-op"
  | "new" :: [t, cls, var, nilm, zd, md] =>
    match t.toNat?, cls.toNat?, var.toNat?, nilm.toNat?, zd.toNat?, md.toNat? with
    | some t, some cls, some var, some nilm, some zd, some md =>
      if !x.started then throw "no lim line"
      else if t ≠ x.ts.size then throw s!"task ids must be consecutive (got {t}, expected {x.ts.size})"
      else if cls > 2 ∨ var > 2 ∨ nilm > 1 ∨ zd > 1 ∨ md ≥ nMods then throw "bad-op"
      else pure { x with ts := x.ts.push (DSt.new cls var nilm zd), tm := x.tm.push md }
    | _, _, _, _, _, _ => throw "bad-op"
  | "m" :: k :: ev =>
    match k.toNat? with
    | some k => if x.started then modEv x k ev else throw "no lim line"
    | none => throw "bad-op"
  | ["q", c, ms] =>
    match c.toInt?, parseInts ms with
    | some c, some vs => do
      if !x.started then throw "no lim line"
      if !decide x.g.quiescent then throw "q: model not quiescent"
      if x.g.cnt ≠ c then throw s!"q: counter: implementation {c}, model {x.g.cnt}"
      chkMods x vs "q"
      pure x
    | _, _ => throw "bad-op"
  | "t" :: t :: ev =>
    match t.toNat? with
    | some t => if x.started then taskEv x t ev else throw "no lim line"
    | none => throw "bad-op"
  | "s" :: ev => if x.started then schedEv x ev else throw "no lim line"
  | ["shutdown"] => if x.started then app x .shutdown none else throw "no lim line"
  | "scn" :: _ => pure x      -- the scenario description, for the record
  | "h" :: _ => pure x        -- harness-side observations, read by the monitor only
  | ["end", c, m, ms] =>
    match c.toInt?, m.toInt?, parseInts ms with
    | some c, some m, some vs => do
      if !x.started then throw "no lim line"
      if !decide x.g.quiescent then throw s!"end: model not quiescent"
      if x.g.cnt ≠ c then throw s!"end: counter: implementation {c}, model {x.g.cnt}"
      if x.g.mods ≠ m then throw s!"end: module counters: implementation {m}, model {x.g.mods}"
      chkMods x vs "end"
      match x.ts.toList.findIdx? (fun d => !finalPc d) with
        | some i => throw s!"end: task {i} not finished in the model"
        | none => pure x
    | _, _, _ => throw "bad-op"
  | _ => throw "bad-op"

def stepLine (x : Drv) (line : String) : Drv × String :=
  match PB.Drv.words line with
  | ["setmax", n] =>
    match n.toInt? with
    | some n => (x, toString (PB.Gen.MicroTasks.setMax n))
    | none => (x, "bad-op")
  | _ =>
  match handle x line with
  | .ok x' => (x', "ok")
  | .error e => (x, if e = "bad-op" then "bad-op" else "reject " ++ e)

end PB.Drv.C15

def main : IO Unit := PB.Drv.runState PB.Drv.C15.Drv.init PB.Drv.C15.stepLine
