import PB.Model.Api
import PB.Drv.Loop
/-
Driver for C12. One op per line, state = `PB.Api.St` (reset by a `#` line).

  keys <raw>/<view> …      set core/apiKeys; view = E | K:<path>:<read>:<write>:<exp>, exp = - | B | <t>
  cfgchange                another "config change" event
  overlap <A…> // <B…>     core/apiKeys is set to A and then to B while the import of A is still in
                           progress (entries without expiry); answer = the key map after both imports
  dev 0|1                  set core/devMode
  authset 0|1              authenticator registered?
  storm 0|1                harness-only scheduling aid (no effect on the model)
  adv <d>                  the clock advances d seconds
  clean                    session cleaner
  logout <id>              auth/reset for that session
  req <via> <method> <acrm> <origin> <host> <dirty> <route> <bridge> <authz> <basic> <cookie> <auth>
      origin = <raw>/<view>, view = - | E | P:<host>:<hostname>:<scheme>
      route  = <target>/<view>, view = N | M | Z | P:<ready> | A:<r>:<w>:<ready>
      cookie = <raw>/<view>, view = - | <id>
      auth   = T:<r>:<w> | N | F | D
All strings are hex (`-` = empty). The raw parts are for the implementation only.
-/
namespace PB.Drv.C12
open PB PB.Api PB.Gen.Api

def parseInt? (s : String) : Option Int :=
  if s.startsWith "-" then (s.drop 1).toString.toNat?.map (fun n => -(n : Int)) else s.toNat?.map (fun n => (n : Int))

def parseBool? : String → Option Bool
  | "0" => some false
  | "1" => some true
  | _ => none

def viewOf (s : String) : Option String :=
  match s.splitOn "/" with
  | [_, v] => some v
  | _ => none

def parseEntry (s : String) : Option KeyEntry := do
  let v ← viewOf s
  match v.splitOn ":" with
  | ["E"] => pure ⟨false, [], [], [], .absent⟩
  | ["K", p, r, w, e] =>
    let p ← parseHex p
    let r ← parseHex r
    let w ← parseHex w
    let e ← (match e with
      | "-" => some Expires.absent
      | "B" => some Expires.bad
      | t => t.toNat?.map Expires.at)
    pure ⟨true, p, r, w, e⟩
  | _ => none

def parseOrigin (s : String) : Option OriginHdr := do
  let v ← viewOf s
  match v.splitOn ":" with
  | ["-"] => pure .absent
  | ["E"] => pure .unparsable
  | ["P", h, hn, sc] =>
    let h ← parseHex h
    let hn ← parseHex hn
    let sc ← parseHex sc
    pure (.parsed ⟨h, hn, sc⟩)
  | _ => none

def parseRoute (s : String) : Option Route := do
  let v ← viewOf s
  match v.splitOn ":" with
  | ["N"] => some .noMatch
  | ["M"] => some .methodMismatch
  | ["Z"] => some (.matched none)
  | ["P", rd] => do
    let rd ← parseBool? rd
    pure (.matched (some ⟨none, rd⟩))
  | ["A", r, w, rd] => do
    let r ← parseInt? r
    let w ← parseInt? w
    let rd ← parseBool? rd
    pure (.matched (some ⟨some (r, w), rd⟩))
  | _ => none

def parseCookie (s : String) : Option (Option Nat) := do
  let v ← viewOf s
  if v = "-" then pure none else do
    let n ← v.toNat?
    pure (some n)

def parseAuth (s : String) : Option AuthResult :=
  match s.splitOn ":" with
  | ["N"] => some .nilToken
  | ["F"] => some .failed
  | ["D"] => some .denied
  | ["T", r, w] => do
    let r ← parseInt? r
    let w ← parseInt? w
    pure (.token ⟨r, w⟩)
  | _ => none

def b01 (b : Bool) : String := if b then "1" else "0"

def showResp (via : String) (r : Resp) : String :=
  let head := match r.out with
    | .invoke t => s!"inv {t.read} {t.write}"
    | .status c => s!"st {c}"
  if via = "db" then s!"{head} ac={b01 r.authCalled}"
  else
    let sc := match r.newSession with | some n => toString n | none => "-"
    s!"{head} ac={b01 r.authCalled} sc={sc} co={b01 r.cors} wa={b01 r.wwwAuth}"

/-- What the harness observes of an import: size after the first `updateAPIKeys`, whether expired keys
    were seen, size at the end. -/
def showImport (pre : St) (post : St) : String :=
  let imp := importKeys pre.now pre.cfg
  s!"keys {imp.keys.length} {b01 imp.hasExpired} {post.keys.length}"

def mapM? {α β : Type} (f : α → Option β) : List α → Option (List β)
  | [] => some []
  | a :: as => do
    let b ← f a
    let bs ← mapM? f as
    pure (b :: bs)

def stepLine (st : St) (line : String) : St × String :=
  match PB.Drv.words line with
  | "keys" :: es =>
    match mapM? parseEntry es with
    | some cfg =>
      let pre := { st with cfg }
      let post := updateAPIKeys pre
      (post, showImport pre post)
    | none => (st, "bad-op")
  | "overlap" :: rest =>
    -- Two overlapping imports. The model's import is one atomic step, which is the code as long as
    -- `updateAPIKeys` takes the lock before it reads the option (`PB.Gen.Api.updateAPIKeysOrder`):
    -- then the imports are serialised in the order of their configuration reads.
    if updateAPIKeysOrder ≠ [.lock, .clear, .readConfig, .install] then
      (st, "unmodelled: the key import is not one critical section")
    else
      let a := rest.takeWhile (· != "//")
      let b := (rest.dropWhile (· != "//")).drop 1
      match mapM? parseEntry a, mapM? parseEntry b with
      | some cfgA, some cfgB =>
        if (cfgA ++ cfgB).any (fun e => match e.expires with | .at _ => true | _ => false) || !rest.contains "//" then
          (st, "bad-op")
        else
          let st1 := updateAPIKeys { st with cfg := cfgA }
          let post := updateAPIKeys { st1 with cfg := cfgB }
          (post, s!"keys {post.keys.length} 0 {post.keys.length}")
      | _, _ => (st, "bad-op")
  | ["cfgchange"] =>
    let post := updateAPIKeys st
    (post, showImport st post)
  | ["dev", b] =>
    match parseBool? b with
    | some b =>
      let pre := { st with dev := b }
      let post := updateAPIKeys pre
      (post, showImport pre post)
    | none => (st, "bad-op")
  | ["storm", b] =>
    -- scheduling aid of the harness (slows down config.SaveConfig); no effect on the model
    match parseBool? b with
    | some _ => (st, "ok")
    | none => (st, "bad-op")
  | ["authset", b] =>
    match parseBool? b with
    | some b => (step st (.setAuthSet b), "ok")
    | none => (st, "bad-op")
  | ["adv", d] =>
    match d.toNat? with
    | some d => (step st (.advance d), "ok")
    | none => (st, "bad-op")
  | ["clean"] =>
    let st' := step st .clean
    (st', s!"sessions {st'.sessions.length}")
  | ["logout", id] =>
    match id.toNat? with
    | some id =>
      let st' := step st (.logout id)
      (st', s!"sessions {st'.sessions.length}")
    | none => (st, "bad-op")
  | ["req", via, m, acrm, origin, host, dirty, route, bridge, authz, basic, cookie, auth] =>
    let req? : Option Req := do
      let m ← parseHex m
      let acrm ← parseHex acrm
      let origin ← parseOrigin origin
      let host ← parseHex host
      let dirty ← parseBool? dirty
      let route ← parseRoute route
      let bridge ← parseBool? bridge
      let authz ← parseHex authz
      let basic ← parseHex basic
      let cookie ← parseCookie cookie
      let auth ← parseAuth auth
      pure ⟨m, acrm, origin, host, dirty, route, bridge, authz, basic, cookie, auth⟩
    match req? with
    | some r =>
      if via = "h" ∨ via = "db" ∨ via = "tcp" then
        let (st', resp) := handle st r
        (st', showResp via resp)
      else (st, "bad-op")
    | none => (st, "bad-op")
  | _ => (st, "bad-op")

end PB.Drv.C12

def main : IO Unit := PB.Drv.runState PB.Api.St.init PB.Drv.C12.stepLine
