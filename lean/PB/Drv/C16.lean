import PB.Model.Container
import PB.Spec.ByteQueue
import PB.Drv.Loop
/- Driver for C16: one container method call per line; runs the concrete model and, as a guard against a
   stale build, the byte-queue spec next to it (their agreement is theorem `PB.C16.refines_run`). -/
namespace PB.Drv.C16
open PB PB.Container
open PB.ByteQueue (Op Out)

def showOut : Out → String
  | .unit => "ok"
  | .bytes b => s!"b {toHex b}"
  | .num n => s!"n {n}"
  | .bool b => if b then "t" else "f"
  | .err e => s!"err {e}"
  | .nilc => "nil"
  | .wts b e => s!"wts {toHex b} {if e then "t" else "f"}"

def hexes (ws : List String) : Option (List Bytes) := ws.mapM parseHex

/-- `UnmarshalJSON(text)`: the model's JSON decoder is applied to the text here; texts outside the modelled
    codec are answered `delegated` in `handle`. -/
def unjsonOp (h : String) : Option Op :=
  (parseHex h).bind (fun t => match PB.Base64.jsonDec t with
    | .ok raw => some (.unmarshalJSON (some raw))
    | .err => some (.unmarshalJSON none)
    | .delegated => none)

def parseOp : List String → Option Op
  | ["append", h] => (parseHex h).map .append
  | ["prepend", h] => (parseHex h).map .prepend
  | ["appendnum", n] => n.toNat?.map .appendNumber
  | ["prependnum", n] => n.toNat?.map .prependNumber
  | ["appendint", i] => i.toInt?.map .appendInt
  | ["prependint", i] => i.toInt?.map .prependInt
  | ["appendblock", h] => (parseHex h).map .appendAsBlock
  | ["prependblock", h] => (parseHex h).map .prependAsBlock
  | "appendcont" :: hs => (hexes hs).map .appendContainer
  | "appendcontblock" :: hs => (hexes hs).map .appendContainerAsBlock
  | ["prependlen"] => some .prependLength
  | ["replace", h] => (parseHex h).map .replace
  | ["compile"] => some .compileData
  | ["get", i] => i.toInt?.map .get
  | ["getall"] => some .getAll
  | ["getcont", i] => i.toInt?.map .getAsContainer
  | ["getmax", i] => i.toInt?.map .getMax
  | ["wts", n] => n.toNat?.map .writeToSlice
  | ["peek", i] => i.toInt?.map .peek
  | ["peekcont", i] => i.toInt?.map .peekContainer
  | ["block"] => some .getNextBlock
  | ["blockcont"] => some .getNextBlockAsContainer
  | ["n8"] => some .getNextN8
  | ["n16"] => some .getNextN16
  | ["n32"] => some .getNextN32
  | ["n64"] => some .getNextN64
  | ["holds"] => some .holdsData
  | ["len"] => some .length
  | ["json"] => some .marshalJSON
  -- c.Append(varint.Pack8/16/32(n)) / c.Prepend(…): slices produced by the narrow encoders
  | ["appendpack8", n] => n.toNat?.map (fun n => .append (PB.Varint.pack8 n))
  | ["appendpack16", n] => n.toNat?.map (fun n => .append (PB.Varint.pack16 n))
  | ["appendpack32", n] => n.toNat?.map (fun n => .append (PB.Varint.pack32 n))
  | ["prependpack8", n] => n.toNat?.map (fun n => .prepend (PB.Varint.pack8 n))
  | ["prependpack16", n] => n.toNat?.map (fun n => .prepend (PB.Varint.pack16 n))
  | ["prependpack32", n] => n.toNat?.map (fun n => .prepend (PB.Varint.pack32 n))
  | ["jsonm"] => some .marshalJSON          -- the same method reached through json.Marshal(c)
  | ["unjsonm", h] => unjsonOp h            -- … through json.Unmarshal(text, c)
  | ["unjson", h] => unjsonOp h
  | ["writeto", n] => n.toNat?.map .writeAllTo
  | _ => none

structure St where
  /-- the live containers of the case (model) and the byte queues next to them (spec); `cur` is the one the
      single-container lines act on -/
  w : List C := []
  qw : List PB.ByteQueue.Q := []
  cur : Nat := 0
  /-- the most recently split-off container (GetAsContainer / GetNextBlockAsContainer / PeekContainer) as the
      model built it, and its contents at the time of the split: a split container is a snapshot -/
  kept : Option (C × Bytes) := none

open PB.ByteQueue (WOp)

/-- one world operation on model and spec side by side -/
def world (s : St) (op : WOp) (kept : Option (C × Bytes)) : St × String :=
  let r := wstep s.w op
  let r' := PB.ByteQueue.wstep s.qw op
  let s' := { s with w := r.1, qw := r'.1, kept := kept }
  if r.2 = r'.2 then (s', showOut r.2) else (s', s!"SPECDIFF model={showOut r.2} spec={showOut r'.2}")

def generic (s : St) (ws : List String) : St × String :=
  match s.w[s.cur]?, parseOp ws with
  | some c, some op =>
    let kept := match op with
      | .getAsContainer n => (match (getAsContainer c n).2 with | .ok nc => some (nc, nc.bytes) | .error _ => s.kept)
      | .getNextBlockAsContainer => (match (getNextBlockAsContainer c).2 with | .ok nc => some (nc, nc.bytes) | .error _ => s.kept)
      | .peekContainer n => (match peekContainer c n with | some nc => some (nc, nc.bytes) | none => s.kept)
      | _ => s.kept
    world s (.on s.cur op) kept
  | _, _ => (s, "bad-op")

def handle (s : St) (line : String) : St × String :=
  match PB.Drv.words line with
  | "new" :: hs => match hexes hs with
    | some ds => ({ w := [new ds], qw := [ds.flatten], cur := 0, kept := none }, "ok")
    | none => (s, "bad-op")
  | "newc" :: hs => match hexes hs with
    | some ds => ({ w := [newContainer ds], qw := [ds.flatten], cur := 0, kept := none }, "ok")
    | none => (s, "bad-op")
  | "also" :: hs => match hexes hs with     -- a further container; the current one stays current
    | some ds => if s.w.isEmpty then (s, "bad-op") else world s (.newc ds) s.kept
    | none => (s, "bad-op")
  | ["sel", i] => match i.toNat? with
    | some i => if i < s.w.length then ({ s with cur := i }, "ok") else (s, "bad-op")
    | none => (s, "bad-op")
  | ["appendfrom", j] => match j.toNat? with   -- current.AppendContainer(container j), j in whatever state it is
    | some j => if j < s.w.length ∧ s.cur < s.w.length then world s (.appendFrom s.cur j) s.kept else (s, "bad-op")
    | none => (s, "bad-op")
  | ["appendfromblock", j] => match j.toNat? with
    | some j => if j < s.w.length ∧ s.cur < s.w.length then world s (.appendFromAsBlock s.cur j) s.kept else (s, "bad-op")
    | none => (s, "bad-op")
  | ["keepslot"] =>
    -- the split-off container becomes a further live container (usable as an argument later)
    match s.kept with
    | some (nc, _) => if s.w.isEmpty then (s, "bad-op") else ({ s with w := s.w ++ [nc], qw := s.qw ++ [nc.bytes], kept := none }, "ok")
    | none => (s, "nil")
  | [u, h] =>
    if u = "unjson" ∨ u = "unjsonm" then
    -- a JSON text outside the modelled codec (white space, escapes, arrays, …): not decided by the model
    match parseHex h with
    | some t => if PB.Base64.jsonDec t = .delegated then (s, "delegated") else generic s ["unjson", h]
    | none => (s, "bad-op")
    else generic s [u, h]
  | ["dump"] => match s.w[s.cur]?, s.qw[s.cur]? with
    | some c, some q => (s, if c.bytes = q then s!"b {toHex c.bytes}" else s!"SPECDIFF dump model={toHex c.bytes} spec={toHex q}")
    | _, _ => (s, "bad-op")
  | ["held"] => (s, "same")   -- byte slices handed out earlier are values: they never change afterwards
  | ["kdump"] => match s.kept with
    | some (_, b) => (s, s!"b {toHex b}")
    | none => (s, "nil")
  | ws => generic s ws

end PB.Drv.C16

def main : IO Unit := PB.Drv.runState ({} : PB.Drv.C16.St) PB.Drv.C16.handle
