import PB.Model.Container
import PB.Spec.ByteQueue
import PB.Drv.Loop
/- Driver for C16: one container method call per line; runs the concrete model and, as a guard against a
   stale build, the byte-queue spec next to it (their agreement is theorem `PB.C16.refines_run`). -/
namespace PB.Drv.C16
open PB PB.Container
open PB.ByteQueue (Op Out)

def showOut : Out → String
  | .unit => "ok"
  | .bytes b => s!"b {toHex b}"
  | .num n => s!"n {n}"
  | .bool b => if b then "t" else "f"
  | .err e => s!"err {e}"
  | .nilc => "nil"
  | .wts b e => s!"wts {toHex b} {if e then "t" else "f"}"

def hexes (ws : List String) : Option (List Bytes) := ws.mapM parseHex

/-- `UnmarshalJSON(text)`: the model's JSON decoder is applied to the text here; texts outside the modelled
    codec are answered `delegated` in `handle`. -/
def unjsonOp (h : String) : Option Op :=
  (parseHex h).bind (fun t => match PB.Base64.jsonDec t with
    | .ok raw => some (.unmarshalJSON (some raw))
    | .err => some (.unmarshalJSON none)
    | .delegated => none)

def parseOp : List String → Option Op
  | ["append", h] => (parseHex h).map .append
  | ["prepend", h] => (parseHex h).map .prepend
  | ["appendnum", n] => n.toNat?.map .appendNumber
  | ["prependnum", n] => n.toNat?.map .prependNumber
  | ["appendint", i] => i.toInt?.map .appendInt
  | ["prependint", i] => i.toInt?.map .prependInt
  | ["appendblock", h] => (parseHex h).map .appendAsBlock
  | ["prependblock", h] => (parseHex h).map .prependAsBlock
  | "appendcont" :: hs => (hexes hs).map .appendContainer
  | "appendcontblock" :: hs => (hexes hs).map .appendContainerAsBlock
  | ["prependlen"] => some .prependLength
  | ["replace", h] => (parseHex h).map .replace
  | ["compile"] => some .compileData
  | ["get", i] => i.toInt?.map .get
  | ["getall"] => some .getAll
  | ["getcont", i] => i.toInt?.map .getAsContainer
  | ["getmax", i] => i.toInt?.map .getMax
  | ["wts", n] => n.toNat?.map .writeToSlice
  | ["peek", i] => i.toInt?.map .peek
  | ["peekcont", i] => i.toInt?.map .peekContainer
  | ["block"] => some .getNextBlock
  | ["blockcont"] => some .getNextBlockAsContainer
  | ["n8"] => some .getNextN8
  | ["n16"] => some .getNextN16
  | ["n32"] => some .getNextN32
  | ["n64"] => some .getNextN64
  | ["holds"] => some .holdsData
  | ["len"] => some .length
  | ["json"] => some .marshalJSON
  -- c.Append(varint.Pack8/16/32(n)) / c.Prepend(…): slices produced by the narrow encoders
  | ["appendpack8", n] => n.toNat?.map (fun n => .append (PB.Varint.pack8 n))
  | ["appendpack16", n] => n.toNat?.map (fun n => .append (PB.Varint.pack16 n))
  | ["appendpack32", n] => n.toNat?.map (fun n => .append (PB.Varint.pack32 n))
  | ["prependpack8", n] => n.toNat?.map (fun n => .prepend (PB.Varint.pack8 n))
  | ["prependpack16", n] => n.toNat?.map (fun n => .prepend (PB.Varint.pack16 n))
  | ["prependpack32", n] => n.toNat?.map (fun n => .prepend (PB.Varint.pack32 n))
  | ["jsonm"] => some .marshalJSON          -- the same method reached through json.Marshal(c)
  | ["unjsonm", h] => unjsonOp h            -- … through json.Unmarshal(text, c)
  | ["unjson", h] => unjsonOp h
  | ["writeto", n] => n.toNat?.map .writeAllTo
  | _ => none

structure St where
  c : Option C := none
  q : PB.ByteQueue.Q := []
  /-- contents of the most recently split-off container (GetAsContainer / GetNextBlockAsContainer /
      PeekContainer), as they were at the time of the split: a split container is a snapshot -/
  kept : Option Bytes := none

def generic (s : St) (ws : List String) : St × String :=
  match s.c, parseOp ws with
  | some c, some op =>
    let r := step c op
    let r' := PB.ByteQueue.step s.q op
    let kept := match op, r.2 with
      | .getAsContainer _, .bytes b => some b
      | .getNextBlockAsContainer, .bytes b => some b
      | .peekContainer _, .bytes b => some b
      | _, _ => s.kept
    if r.2 = r'.2 then ({ c := some r.1, q := r'.1, kept := kept }, showOut r.2)
    else ({ c := some r.1, q := r'.1, kept := kept }, s!"SPECDIFF model={showOut r.2} spec={showOut r'.2}")
  | _, _ => (s, "bad-op")

def handle (s : St) (line : String) : St × String :=
  match PB.Drv.words line with
  | "new" :: hs => match hexes hs with
    | some ds => ({ c := some (new ds), q := ds.flatten, kept := none }, "ok")
    | none => (s, "bad-op")
  | "newc" :: hs => match hexes hs with
    | some ds => ({ c := some (newContainer ds), q := ds.flatten, kept := none }, "ok")
    | none => (s, "bad-op")
  | [u, h] =>
    if u = "unjson" ∨ u = "unjsonm" then
    -- a JSON text outside the modelled codec (white space, escapes, arrays, …): not decided by the model
    match parseHex h with
    | some t => if PB.Base64.jsonDec t = .delegated then (s, "delegated") else generic s ["unjson", h]
    | none => (s, "bad-op")
    else generic s [u, h]
  | ["dump"] => match s.c with
    | some c => (s, if c.bytes = s.q then s!"b {toHex c.bytes}" else s!"SPECDIFF dump model={toHex c.bytes} spec={toHex s.q}")
    | none => (s, "bad-op")
  | ["held"] => (s, "same")   -- byte slices handed out earlier are values: they never change afterwards
  | ["kdump"] => match s.kept with
    | some b => (s, s!"b {toHex b}")
    | none => (s, "nil")
  | ws => generic s ws

end PB.Drv.C16

def main : IO Unit := PB.Drv.runState ({} : PB.Drv.C16.St) PB.Drv.C16.handle
