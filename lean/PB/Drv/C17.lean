import PB.Model.FsAtomic
import PB.Model.FsWriters
import PB.Model.FsDownload
import PB.Drv.Loop
/- Driver for C17: replays one recorded run of a writer through the file-system model.
   run … · mk <path>|<entry> · dest … · dl … · sys <call> · end · readers · check · temps · http · outcome · prog … -/
namespace PB.Drv.C17
open PB.FsAtomic

structure DS where
  fs : FS := { inodes := [], names := [], fds := [] }
  s0 : FS := { inodes := [], names := [], fds := [] }
  dest : Path := []
  kind : String := ""
  old : Obs := none
  new : Obs := none
  tmpdirs : List Path := []
  prefixes : List String := []
  also : List Path := []
  calls : List Call := []      -- reversed
  results : List Res := []     -- reversed, the OBSERVED results (for the program acceptor)
  haveDest : Bool := false
  volOk : Bool := true
  -- download scenario (line `dl`): entry point, verification, signature file, planned responses
  dlSet : Bool := false
  dlGetFile : Bool := false
  dlVerif : Option Verif := none
  dlSigDest : Option Path := none
  dlWires : List Wire := []

def parsePath (s : String) : Path := s.splitOn "/"

def octDigit (c : Char) : Option Nat :=
  if '0' ≤ c ∧ c ≤ '7' then some (c.toNat - 48) else none

def parseOct (s : String) : Option Nat :=
  if s.isEmpty then none
  else s.toList.foldl (fun acc c => match acc, octDigit c with
    | some a, some d => some (a * 8 + d)
    | _, _ => none) (some 0)

def octStr (n : Nat) : String := String.ofList (Nat.toDigits 8 n)

def parseSeg (s : String) : Option Seg :=
  match s.splitOn ":" with
  | [a, b, c] => match a.toNat?, b.toNat?, c.toNat? with
    | some x, some y, some z => some { cid := x, off := y, len := z }
    | _, _, _ => none
  | _ => none

def parseContent (s : String) : Option Content :=
  if s = "-" then some []
  else (s.splitOn "+").foldr (fun x acc => match parseSeg x, acc with
    | some g, some l => some (g :: l)
    | _, _ => none) (some [])

def segStr (g : Seg) : String := s!"{g.cid}:{g.off}:{g.len}"

def contentStr (c : Content) : String :=
  if c.isEmpty then "-" else "+".intercalate (c.map segStr)

/-- "f,<mode>,<content>" | "d,<mode>" | "l,<target>" -/
def parseEntry (s : String) : Option Inode :=
  match s.splitOn "," with
  | ["f", m, c] => match parseOct m, parseContent c with
    | some mode, some data => some { kind := .file, mode := mode, data := data, target := "", clean := true }
    | _, _ => none
  | ["d", m] => (parseOct m).map (fun mode => { kind := .dir, mode := mode, data := [], target := "", clean := true })
  | ["l", t] => some { kind := .symlink, mode := 0o777, data := [], target := t, clean := true }
  | _ => none

/-- content-only entry: "f,<content>" | "d" | "l,<target>" -/
def parseNode (s : String) : Option Node :=
  match s.splitOn "," with
  | ["f", c] => (parseContent c).map Node.file
  | ["d"] => some .dir
  | ["l", t] => some (.symlink t)
  | _ => none

/-- "-" | "f,<content>" | "l,<target>" | "d{rel|node;…}" -/
def parseObs (s : String) : Option Obs :=
  if s = "-" then some none
  else if s.startsWith "d{" && s.endsWith "}" then
    let inner := ((s.drop 2).dropEnd 1).toString
    if inner.isEmpty then some (some (.dir, []))
    else
      let es := (inner.splitOn ";").foldr (fun x acc => match x.splitOn "|", acc with
        | [p, n], some l => (parseNode n).map (fun nd => (parsePath p, nd) :: l)
        | _, _ => none) (some [])
      es.map (fun l => some (.dir, sortEntries l))
  else (parseNode s).map (fun n => some (n, []))

def entryStr (n : Inode) : String :=
  match n.kind with
  | .file => s!"f,{octStr n.mode},{contentStr n.data}"
  | .dir => s!"d,{octStr n.mode}"
  | .symlink => s!"l,{n.target}"

def insertStr (x : String) : List String → List String
  | [] => [x]
  | y :: ys => if x < y then x :: y :: ys else y :: insertStr x ys

def sortStrs (l : List String) : List String := l.foldr insertStr []

def obsStr (s : FS) (dest : Path) : String :=
  match lookup s.names dest with
  | none => "-"
  | some i =>
    match inodeAt s i with
    | none => "?"
    | some n =>
      if n.kind = .dir then
        let sub := (s.names.filter (fun e => below dest e.1)).filterMap (fun e =>
          (inodeAt s e.2).map (fun m => pathStr (e.1.drop dest.length) ++ "|" ++ entryStr m))
        entryStr n ++ "{" ++ ";".intercalate (sortStrs sub) ++ "}"
      else entryStr n

def snapshot (s : FS) : String :=
  ";".intercalate (sortStrs (s.names.filterMap (fun e => (inodeAt s e.2).map (fun m => pathStr e.1 ++ "|" ++ entryStr m))))

def parseFlags (s : String) : Bool × Bool × Bool :=
  let fs := s.splitOn "|"
  (fs.contains "creat", fs.contains "excl", fs.contains "trunc")

def parseFd (s : String) : Option (Option Nat) :=
  if s = "fd=-" then some none
  else if s.startsWith "fd=" then ((s.drop 3).toString.toNat?).map some
  else none

def parseCall (ws : List String) : Option Call :=
  match ws with
  | ["open", p, fl, m, fd] =>
    match parseOct m, parseFd fd with
    | some mode, some f => let (c, e, t) := parseFlags fl; some (.openC (parsePath p) c e t mode f)
    | _, _ => none
  | ["write", fd, g] => match fd.toNat?, parseSeg g with
    | some f, some s => some (.write f s)
    | _, _ => none
  | ["fsync", fd] => fd.toNat?.map .fsync
  | ["ftruncate", fd, n] => match fd.toNat?, n.toNat? with
    | some f, some k => some (.ftruncate f k)
    | _, _ => none
  | ["fchmod", fd, m] => match fd.toNat?, parseOct m with
    | some f, some k => some (.fchmod f k)
    | _, _ => none
  | ["close", fd] => fd.toNat?.map .close
  | ["rename", a, b] => some (.rename (parsePath a) (parsePath b))
  | ["unlink", p] => some (.unlink (parsePath p))
  | ["rmdir", p] => some (.rmdir (parsePath p))
  | ["mkdir", p, m] => (parseOct m).map (.mkdir (parsePath p))
  | ["symlink", t, p] => some (.symlink t (parsePath p))
  | ["chmod", p, m] => (parseOct m).map (.chmod (parsePath p))
  | _ => none

def kv (w : String) : Option (String × String) :=
  match w.splitOn "=" with
  | k :: v :: rest => some (k, "=".intercalate (v :: rest))
  | _ => none

/-- `len<N>` | `chunked` | `close` -/
def parseFraming (s : String) : Option Framing :=
  if s = "chunked" then some .chunked
  else if s = "close" then some .close
  else if s.startsWith "len" then ((s.drop 3).toString.toNat?).map Framing.length
  else none

def parseEnding (s : String) : Option Ending :=
  if s = "term" then some .terminated else if s = "fin" then some .fin else if s = "rst" then some .reset else none

def parseBit (s : String) : Option Bool :=
  if s = "1" then some true else if s = "0" then some false else none

/-- `<connects>:<status>:<framing>:<gzip>:<arrived>:<end>:<plain>:<gzipOk>:<digestOk>` -/
def parseWire (s : String) : Option Wire :=
  match s.splitOn ":" with
  | [c, st, f, g, a, e, pl, gz, dg] =>
    match parseBit c, st.toNat?, parseFraming f, parseBit g, a.toNat?, parseEnding e, pl.toNat?, parseBit gz, parseBit dg with
    | some c, some st, some f, some g, some a, some e, some pl, some gz, some dg =>
      some { connects := c, status := st, framing := f, gzip := g, arrived := a, ending := e, plain := pl, gzipOk := gz,
             digestOk := dg }
    | _, _, _, _, _, _, _, _, _ => none
  | _ => none

def parseWires (s : String) : Option (List Wire) :=
  (s.splitOn ";").foldr (fun x acc => match parseWire x, acc with
    | some w, some l => some (w :: l)
    | _, _ => none) (some [])

/-- `none` | `<require|warn|disable>:<sigOk>` -/
def parseVerif (s : String) : Option (Option Verif) :=
  if s = "none" then some none
  else match s.splitOn ":" with
    | [p, a] =>
      let pol : Option Policy := if p = "require" then some .require else if p = "warn" then some .warn
        else if p = "disable" then some .disable else none
      match pol, parseBit a with
      | some pol, some a => some (some { policy := pol, sigOk := a })
      | _, _ => none
    | _ => none

def outcomeStr : Outcome → String
  | .refusedEarly => "none"
  | .abort => "abort"
  | .publish false => "publish"
  | .publish true => "publish+sig"

/-- What the client is predicted to see of one response. -/
def respStr (r : Resp) : String :=
  if r.reqErr then "error"
  else if PB.Gen.FsDownload.statusRefused (r.status : Int) then s!"status={r.status} cl={r.contentLength} read=0 err=0"
  else s!"status={r.status} cl={r.contentLength} read={r.got} err={if r.copyErr then 1 else 0}"

/-- Bytes fetchFile writes to the pending file in an attempt (io.Copy is not reached when the request fails). -/
def bodyWritten (v : Option Verif) (w : Wire) : Nat :=
  let r := transport w
  if fetchDecision v r == .refusedEarly || r.reqErr || PB.Gen.FsDownload.statusRefused (r.status : Int) then 0 else r.got

/-- The wires of the attempts that are made (up to and including the first one that publishes). -/
def wiresMade (v : Option Verif) : List Wire → List Wire
  | [] => []
  | w :: rest => if (fetchDecision v (transport w)).publishes then [w] else w :: wiresMade v rest

structure Split where
  /-- descriptor → (true: pending file of the resource, false: temporary file of the signature) -/
  open_ : List (Nat × Bool) := []
  /-- chunks per attempt, newest first, each reversed -/
  groups : List (List Seg) := []
  sigChunks : List Seg := []   -- reversed

/-- The chunks written to the pending file of each attempt (one group per temporary file created for the
    resource in `regTmp`) and the chunks written to the temporary file of the signature. -/
def splitChunks (regTmp dest : Path) (sigDest : Option Path) (t : List Call) : List (List Seg) × List Seg :=
  let st := t.foldl (fun (st : Split) c =>
    match c with
    | .openC p true true _ _ fd =>
      if tempNameOk regTmp (tmpPrefix dest) p then
        { st with groups := [] :: st.groups, open_ := match fd with | some n => (n, true) :: st.open_ | none => st.open_ }
      else match sigDest, fd with
        | some sd, some n =>
          if (match p.getLast? with | some x => ((tmpPrefix sd) ++ "#").toList.isPrefixOf x.toList | none => false)
          then { st with open_ := (n, false) :: st.open_ } else st
        | _, _ => st
    | .write fd g =>
      match st.open_.lookup fd, st.groups with
      | some true, cur :: older => { st with groups := (g :: cur) :: older }
      | some false, _ => { st with sigChunks := g :: st.sigChunks }
      | _, _ => st
    | .close fd => { st with open_ := st.open_.filter (fun e => !(e.1 == fd)) }
    | _ => st) ({} : Split)
  ((st.groups.map List.reverse).reverse, st.sigChunks.reverse)

/-- temporary, or (below) another file the same operation publishes (`also=`; it is the destination of its own scenario) -/
def tmpPred (d : DS) : Path → Bool :=
  fun p => isTemp d.tmpdirs d.dest.dropLast d.prefixes p || d.also.any (fun a => a.isPrefixOf p)

def handle (d : DS) (line : String) : DS × String :=
  match PB.Drv.words line with
  | "run" :: _ => ({}, "ok")
  | ["mk", e] =>
    match e.splitOn "|" with
    | [p, v] =>
      match parseEntry v with
      | some n =>
        let i := d.fs.inodes.length
        ({ d with fs := { d.fs with inodes := d.fs.inodes ++ [n], names := (parsePath p, i) :: d.fs.names } }, "ok")
      | none => (d, "bad-op")
    | _ => (d, "bad-op")
  | "dest" :: p :: rest =>
    let get (k : String) : String := ((rest.filterMap kv).lookup k).getD ""
    match parseObs (get "old"), parseObs (get "new") with
    | some o, some n =>
      let td := ((get "tmpdirs").splitOn ",").filter (· ≠ "")
      let pf := ((get "tmpname").splitOn ",").filter (· ≠ "")
      let dp := parsePath p
      let d1 : DS := { d with dest := dp, kind := get "kind", old := o, new := n }
      let al := (((get "also").splitOn ",").filter (· ≠ "")).map parsePath
      let d2 : DS := { d1 with tmpdirs := td.map parsePath, prefixes := pf, also := al, s0 := d.fs, calls := [], haveDest := true }
      ({ d2 with volOk := allowed o n (vview d.fs dp) }, "ok")
    | _, _ => (d, "bad-op")
  | "dl" :: rest =>
    if !d.haveDest then (d, "bad-op") else
    let get (k : String) : String := ((rest.filterMap kv).lookup k).getD ""
    let api : Option Bool := if get "api" = "getfile" then some true else if get "api" = "updates" then some false else none
    let sd : Option (Option Path) := if get "sigdest" = "-" then some none else if get "sigdest" = "" then none else some (some (parsePath (get "sigdest")))
    match api, parseVerif (get "verif"), sd, parseWires (get "wires") with
    | some a, some v, some sd, some ws => ({ d with dlSet := true, dlGetFile := a, dlVerif := v, dlSigDest := sd, dlWires := ws }, "ok")
    | _, _, _, _ => (d, "bad-op")
  | ["http"] =>
    if !d.dlSet then (d, "bad-op") else
    (d, ";".intercalate (((wiresMade d.dlVerif d.dlWires).filter (fun w => fetchDecision d.dlVerif (transport w) != .refusedEarly)).map
      (fun w => respStr (transport w))))
  | ["outcome"] =>
    if !d.dlSet then (d, "bad-op") else
    (d, ";".intercalate ((wiresMade d.dlVerif d.dlWires).map
      (fun w => outcomeStr (fetchDecision d.dlVerif (transport w)) ++ ":" ++ toString (bodyWritten d.dlVerif w))))
  | "zipcopy" :: rest =>
    let get (k : String) : String := ((rest.filterMap kv).lookup k).getD ""
    match (get "size").toNat?, parseBit (get "err") with
    | some n, some e =>
      let r := zipCopy { size := n, readErr := e }
      (d, if r.2 then "written=- failed=1" else s!"written={r.1} failed=0")
    | _, _ => (d, "bad-op")
  | "unpack" :: rest =>
    let get (k : String) : String := ((rest.filterMap kv).lookup k).getD ""
    if get "kind" = "gz" then
      match parseBit (get "there"), parseBit (get "header"), parseBit (get "stream") with
      | some th, some h, some st => (d, if fileUnpackPublishes th { headerOk := h, streamOk := st } then "publish" else "no-publish")
      | _, _, _ => (d, "bad-op")
    else if get "kind" = "zip" then
      let ms : Option (List ZipMember) := if get "members" = "" then some [] else
        ((get "members").splitOn ",").foldr (fun x acc => match x.splitOn ":", acc with
          | [a, b], some l => match a.toNat?, parseBit b with
            | some n, some e => some ({ size := n, readErr := e } :: l)
            | _, _ => none
          | _, _ => none) (some [])
      match parseBit (get "opens"), ms with
      | some o, some ms => (d, if unpackZipPublishes o ms then "publish" else "no-publish")
      | _, _ => (d, "bad-op")
    else (d, "bad-op")
  | "sys" :: ws =>
    if !d.haveDest then (d, "bad-op") else
    match parseCall ws with
    | none => (d, "bad-op")
    | some c =>
      let (fs', r) := exec d.fs c
      ({ d with fs := fs', calls := c :: d.calls, results := r :: d.results, volOk := d.volOk && allowed d.old d.new (vview fs' d.dest) },
        r.str ++ " " ++ obsStr fs' d.dest)
  | ["end"] => if d.haveDest then (d, obsStr d.fs d.dest ++ " " ++ snapshot d.fs) else (d, "bad-op")
  | ["readers"] => if d.haveDest then (d, if d.volOk then "ok" else "bad") else (d, "bad-op")
  | ["check"] =>
    if !d.haveDest then (d, "bad-op") else
    let t := d.calls.reverse
    let ok := if d.kind = "dir" then safePublishDir d.s0 d.dest d.old d.new t else safePublish d.s0 d.dest d.old d.new t
    (d, if ok then "safe" else "unsafe")
  | "prog" :: w :: rest =>
    if !d.haveDest then (d, "bad-op") else
    let get (k : String) : String := ((rest.filterMap kv).lookup k).getD ""
    let t := d.calls.reverse
    let chunks := t.filterMap (fun c => match c with | .write _ g => some g | _ => none)
    let optdir : Option Path := if get "optdir" = "-" || get "optdir" = "" then none else some (parsePath (get "optdir"))
    let tmpdir := parsePath (get "tmpdir")
    let prog? : Option Prog :=
      match w, parseOct (get "mode") with
      | "writefile", some m => some (writeFileP tmpdir d.dest m chunks)
      | "fstreeput", _ => some (fstreePutP tmpdir d.dest chunks)
      | "createatomic", some m => some (createAtomicP optdir tmpdir d.dest m chunks (get "readfails" = "1"))
      | "fetch", _ =>
        -- the folders EnsureAbsPath walks: storage root (0755) and every directory down to the destination's
        let storage := parsePath (get "storage")
        let dirs := (List.range (d.dest.length - storage.length)).map (fun i => (d.dest.take (storage.length + i), 0o755))
        some (fetchFileP dirs (storage ++ ["tmp"]) d.dest chunks (get "httpfails" = "1") (get "bodyfails" = "1"))
      | "download", _ =>
        if !d.dlSet then none else
        let storage := parsePath (get "storage")
        let dirs := (List.range (d.dest.length - storage.length)).map (fun i => (d.dest.take (storage.length + i), 0o755))
        let (groups, sigChunks) := splitChunks (storage ++ ["tmp"]) d.dest d.dlSigDest t
        let sig : Option SigFile := d.dlSigDest.map (fun sd => { dest := sd, tmpdir := tmpdir, chunks := sigChunks })
        let atts := (d.dlWires.zip (List.range d.dlWires.length)).map (fun wi => (wi.1, groups.getD wi.2 []))
        some (downloadP dirs (storage ++ ["tmp"]) d.dest d.dlVerif sig d.dlGetFile atts)
      | "gunzip", _ =>
        match optdir, parseBit (get "header"), parseBit (get "stream") with
        | some od, some h, some st => some (fileUnpackD od tmpdir d.dest { headerOk := h, streamOk := st } chunks)
        | _, _, _ => none
      | "fileunpack", _ => optdir.map (fun od => fileUnpackP od tmpdir d.dest chunks (get "readfails" = "1"))
      | "symlink", _ => some (symlinkP (get "target") d.dest)
      | "nothing", _ => some (.ret true)
      | _, _ => none
    match prog? with
    | none => (d, "bad-op")
    | some p =>
      match accepts p d.s0 (t.zip d.results.reverse) with
      | none => (d, "reject")
      | some none => (d, "ok ret=-")
      | some (some f) => (d, if f then "ok ret=err" else "ok ret=ok")
  | ["temps"] =>
    if !d.haveDest then (d, "bad-op") else
    (d, if onlyTemp d.dest (tmpPred d) d.calls.reverse then "ok" else "reject")
  | _ => (d, "bad-op")

end PB.Drv.C17

def main : IO Unit := PB.Drv.runState ({} : PB.Drv.C17.DS) PB.Drv.C17.handle
