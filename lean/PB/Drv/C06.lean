import PB.Model.Managed
import PB.Drv.Loop
/- Driver for C06: scenario ops (one per line) interpreted on the model of managed execution.
   The same lines are executed on the real code by an isolated child process of hx-c06. -/
namespace PB.Drv.C06
open PB.Managed

structure DSt where
  st : St := { cap := 1 <<< 14 }   -- managed state of the subject module (A, or api)
  mods : List Mod := []
  ids : List (String × Bool × Bool) := []  -- item id, held?, onstop?  (index = position in st.items)
  printed : Nat := 0               -- reports already printed
  dev : Bool := false              -- core/devMode
  manual : Bool := false           -- the error channel was configured by `chan`: it is read by `recv` ops only
  started : Bool := false
  startOK : Bool := false
  down : Bool := false
  apiMode : Bool := false
  mgmt : Bool := false
  shortStop : Bool := false        -- `stoptimeout short`: held work that does not wait for the module context outlives the stop timeout
  deriving Inhabited

def pvOf : String → Option PCls
  | "nil" => some .nil
  | "err" => some .err
  | "canc" | "wcanc" | "iscanc" | "joincanc" => some .errCanceled
  | "rst" | "wrst" => some .errRestart
  | "dl" | "wdl" => some .errDeadline
  | "cexit" | "wcexit" => some .errCleanExit
  | "moderr" | "nilerrptr" => some .err
  | "nilstrg" => some .other
  | "str" => some .str
  | "rtidx" => some .rt
  | "rtnil" => some .rt
  | "rtdiv" => some .rt
  | "rtmap" => some .rt
  | "struct" => some .strct
  | "int" => some .other
  | "ptrerr" => some .err
  | "nilptr" => some .other
  | "evil" => some .err
  | "abort" => some .err
  | "slice" => some .other
  | _ => none

def outcomeOf (s : String) : Option Outcome :=
  match s with
  | "ok" => some .ok
  | "err" => some .err
  | "canceled" => some .canceled
  | "restart" => some .restart
  | _ => if s.startsWith "p:" then (pvOf (s.drop 2).toString).map Outcome.panic else none

def outcomesOf (s : String) : Option (List Outcome) :=
  let ps := s.splitOn ","
  let os := ps.filterMap outcomeOf
  if os.length == ps.length && !os.isEmpty then some os else none

/-- Lifecycle routine token: `-` no routine, `ok`, `err`, `p:<pv>`. -/
def ctrlTok (s : String) : Option (Option Outcome) :=
  if s == "-" then some none
  else match outcomeOf s with
    | some .canceled => none
    | some .restart => none
    | some o => some (some o)
    | none => none

def clsStr : PCls → String
  | .nil => "nil" | .nilerr => "nilerr" | .err => "err" | .errCanceled => "err.canceled" | .errRestart => "err.restart"
  | .errDeadline => "err.deadline" | .errCleanExit => "err.cleanexit" | .str => "str" | .rt => "rt" | .strct => "struct" | .other => "other"

def typStr : TType → String
  | .worker => "worker" | .task => "task" | .microtask => "microtask" | .ctrl => "module-control"
  | .custom => "custom" | .none => "-"

def repStr (r : Report) : String :=
  match r.sev with
  | .panic => s!"panic/{typStr r.typ}/{clsStr r.val}{if r.stack then "" else "!nostack"}"
  | .error => s!"error/{typStr r.typ}/-"

def lastStr : Option Report → String
  | none => "-"
  | some r => repStr r

def repsStr (rs : List Report) : String :=
  if rs.isEmpty then "-" else "+".intercalate (rs.map repStr)

def insertSorted (s : String) : List String → List String
  | [] => [s]
  | x :: xs => if s ≤ x then s :: x :: xs else x :: insertSorted s xs

def sortedRepsStr (rs : List Report) : String :=
  if rs.isEmpty then "-" else "+".intercalate ((rs.map repStr).foldr insertSorted [])

/-- status of the response; `d`: the body is the dev-mode page (panic value and stack trace) -/
def httpStr (it : Item) : String := s!"{it.http}{if it.detail then "d" else ""}"

def cntStr (s : St) : String :=
  s!"{s.w},{s.t},{s.m},{s.g},{if s.c then 1 else 0}"

def retStr (cur : Outcome) : Option Ret → String
  | none => "noreturn"
  | some .nil => "nil"
  | some .err => "err:plain"
  | some .canceled => "err:canceled"
  | some .restart => "err:restart"
  | some (.panicErr r) =>
    let same := match cur with
      | .panic v => r.val == recovered v
      | _ => false
    s!"panic:{clsStr r.val}:val={if same then "same" else "diff"}:stack={if r.stack then "yes" else "no"}"

def ctrlRetStr : Option CtrlRet → String
  | none => "nil"
  | some .nil => "nil"
  | some .err => "err:plain"
  | some .panicMsg => "err:panic"

def statusName : Nat → String
  | 0 => "dead" | 1 => "preparing" | 2 => "offline" | 3 => "stopping" | 4 => "starting" | 5 => "online" | _ => "unknown"

def tokFails : Option Outcome → Bool
  | none => false
  | some .ok => false
  | _ => true

def statusesStr (ms : List Mod) : String :=
  ",".intercalate (ms.map fun m => if tokFails m.prep || tokFails m.start then "x" else statusName m.status)

def kindOf : String → Option Kind
  | "runworker" => some .runWorker
  | "startworker" => some .startWorker
  | "svc" => some .svc
  | "task-queue" | "task-prio" | "task-asap" | "task-sched" | "task-repeat" => some .task
  | "mt-run-high" | "mt-run-med" | "mt-run-low" => some (.mt true)
  | "mt-start-high" | "mt-start-med" | "mt-start-low" => some (.mt false)
  | "hook-trigger" | "hook-inject" => some .hook
  | "api-action" | "api-data" | "api-struct" | "api-record" | "api-handlerfunc" | "api-rawhandler" | "api-rawfunc" =>
    some (.api false false)
  | _ => none

def rawHandlerKind (k : String) : Bool := k == "api-handlerfunc" || k == "api-rawhandler" || k == "api-rawfunc"

def isApiKind : Kind → Bool
  | .api _ _ => true
  | _ => false

def validName (n : String) : Bool :=
  match n.toList with
  | c :: cs => c.isUpper && cs.all Char.isAlphanum
  | [] => false

def findIdx (ids : List (String × Bool × Bool)) (id : String) : Option Nat :=
  ids.findIdx? (·.1 == id)

def subjectName (d : DSt) : String := if d.apiMode then "api" else "A"

def subjectOnline (d : DSt) : Bool :=
  if d.apiMode then d.startOK else statusOf d.mods "A" == 5

/-- A task item is in flight (queued, executing or held): the queue handler runs one task at a time. -/
def taskBusy (d : DSt) : Bool :=
  d.st.items.any fun it => it.kind == .task && !it.done

/-- Reports in the channel buffer. -/
def chLen (s : St) : Nat := s.feed.length - s.taken

/-- The harness empties the error channel after every op — unless the scenario configured the channel itself
    (`chan`): then it is read by `recv` ops only. Returns the reports received. -/
def drain (d : DSt) : DSt × List Report :=
  if d.manual then (d, [])
  else ({ d with st := { d.st with taken := d.st.feed.length }, printed := d.st.feed.length }, d.st.feed.drop d.printed)

/-- `recv k`: the consumer takes up to `k` reports out of the buffer; printed with them: what parked receivers got. -/
def recvK (d : DSt) (k : Nat) : DSt × List Report :=
  let t := min d.st.feed.length (d.st.taken + k)
  ({ d with st := { d.st with taken := t }, printed := t }, (d.st.feed.take t).drop d.printed)

/-- Lifecycle reports (of any module) go through the same channel and `lastReportedError`. -/
def pushReports (d : DSt) (rs : List Report) : DSt :=
  { d with st := rs.foldl St.report d.st }

def setHeld (ids : List (String × Bool × Bool)) (i : Nat) (h : Bool) : List (String × Bool × Bool) :=
  match ids[i]? with
  | some (id, _, os) => ids.set i (id, h, os)
  | none => ids

/-- The subject module stops: stop program on its own managed state; items waiting for the module
    context (`onstop`) end when it is cancelled. -/
def stopSubject (d : DSt) (fn : Option Outcome) : DSt × (CtrlRet × List Report) × Bool :=
  let n := d.st.items.length
  let it : Item := { kind := .stop, outs := (match fn with | some o => [o] | none => []), hasFn := fn.isSome }
  -- the reports of this stop are collected on a channel of their own and pushed, in the order of the pass,
  -- through `pushReports` (which applies the state of the real channel)
  let s0 := { d.st with items := d.st.items ++ [it], chanSet := true, cap := 1 <<< 20, feed := [], taken := 0, waiting := 0, dropped := 0 }
  let before := 0
  let s1 := runHeld 16 s0 n
  -- release every held item that waits for ctx.Done() (without `stoptimeout short` scenarios stop the subject only
  -- when all of them do); the others stay inside their function and outlive the stop timeout
  let lingers := fun (i : Nat) => d.shortStop && (match d.ids[i]? with
    | some (_, held, os) => held && !os
    | none => false)
  let s2 := (List.range n).foldl (fun s i => if lingers i then s else finishItem s i) s1
  let s3 := (List.range n).foldl (fun s i => runHeld 16 s i) s2
  let s4 := runHeld 16 (finishItem s3 n) n
  -- the wait of stopAllTasks ends: by completion if the channel was closed, else by the stop timeout; the result
  -- of the stop routine is fetched into the error of the report
  let timedOut := !s4.stopCompleted
  let s4 := (step s4 (.stopper n timedOut)).getD s4
  let cret := (s4.items[n]?.map (·.passErr)).getD .nil
  -- the stop item is not a scenario item: remove it again
  -- (the flags of the stopped module matter only to work that outlived the stop: they stay set until the module is
  -- started again — a service worker that ends a run after the stop leaves its loop)
  let s5 := { s4 with items := s4.items.take n, stopFlag := timedOut, ctxDone := timedOut, chanSet := d.st.chanSet, cap := d.st.cap, feed := d.st.feed, taken := d.st.taken, waiting := d.st.waiting, dropped := d.st.dropped, last := d.st.last }
  ({ d with st := s5, ids := d.ids.map fun (id, held, os) => (id, d.shortStop && held && !os, os) },
   (cret, s4.feed.drop before), timedOut)

/-- A stop pass over all modules; the subject's own stop runs on the scenario state. -/
def stopPass (d : DSt) (keep : Mod → Bool) : DSt × List CtrlRet × List Report × List String :=
  -- run rounds with a pure stop function, then redo the subject's stop on the real state
  let subj := subjectName d
  let stopsSubject := d.mods.any fun m => m.name == subj && !keep m && m.status == 5
  let (d1, subjRes, tmo) :=
    if stopsSubject then
      match d.mods.find? (·.name == subj) with
      | some m => let (d', r, t) := stopSubject d m.stop; (d', some r, if t then [subj] else [])
      | none => (d, none, [])
    else (d, none, [])
  -- the other modules have no work of their own: their stop completes
  let stopOf := fun (m : Mod) =>
    if m.name == subj then (match subjRes with | some r => r | none => runStop m.stop false) else runStop m.stop false
  let out := passRounds (d.mods.length + 1) false (stopRound keep stopOf) { mods := d1.mods }
  -- reports of the subject's stop are already in the feed; push the others in order
  let d2 := { d1 with mods := out.mods }
  (d2, out.rets, out.reps, tmo)

/-- Run item `i` through all of its runs (free-running burst item). -/
def runThrough (fuel : Nat) (s : St) (i : Nat) : St :=
  match fuel with
  | 0 => s
  | fuel + 1 =>
    let s1 := runHeld 16 s i
    match s1.items[i]? with
    | some it => if it.inFn then runThrough fuel (finishItem s1 i) i else s1
    | none => s1

def burstTok (d : DSt) (a : String) : Option Item :=
  match a.splitOn "=" with
  | [k, os] =>
    match kindOf k, outcomesOf os with
    | some kd, some outs =>
      if isApiKind kd != d.apiMode || (kd == .hook && statusOf d.mods "B" != 5) || (kd == .task && taskBusy d) then none
      else some { kind := (match kd with | .api aw _ => .api aw d.dev | k => k), outs := outs }
    | _, _ => none
  | _ => none

def burst (d : DSt) (args : List String) : DSt × String :=
    if !d.startOK || !subjectOnline d then (d, "bad-op") else
    let toks := args.map (burstTok d)
    if toks.any Option.isNone then (d, "bad-op") else
    let its := toks.filterMap id
    let n0 := d.st.items.length
    let s1 := its.foldl (fun s it => match step s (.spawn it) with | some s' => s' | none => s) d.st
    let idx := List.range' n0 its.length
    let s2 := idx.foldl (fun s i => runThrough 64 s i) s1
    let res := idx.map fun i => match s2.items[i]? with
      | some it =>
        (match it.kind with
         | .runWorker => retStr it.cur it.ret
         | .mt true => retStr it.cur it.ret
         | .api _ _ => httpStr it
         | _ => "-")
      | none => "?"
    let runs := idx.map fun i => match s2.items[i]? with
      | some it => toString it.runs
      | none => "?"
    let d1 := { d with st := s2, ids := d.ids ++ idx.map fun i => (s!"b{i}", false, false) }
    let (d2, reps) := drain d1
    (d2, s!"burst res={",".intercalate res} runs={",".intercalate runs} reps={sortedRepsStr reps} cnt={cntStr s2} ch={chLen d2.st}")

def handle (d : DSt) (line : String) : DSt × String :=
  let f := PB.Drv.words line
  if d.down then (d, "bad-op") else
  match f with
  | "mod" :: name :: p :: s :: t :: rest =>
    if rest.length > 1 || d.started || d.apiMode || !validName name || d.mods.any (·.name == name) then (d, "bad-op") else
    match ctrlTok p, ctrlTok s, ctrlTok t with
    | some p', some s', some t' =>
      let deps := match rest with
        | [ds] => ds.splitOn ","
        | _ => []
      if deps.all (fun n => d.mods.any (·.name == n)) then
        ({ d with mods := d.mods ++ [{ name := name, prep := p', start := s', stop := t', deps := deps }] }, "ok")
      else (d, "bad-op")
    | _, _, _ => (d, "bad-op")
  | ["api"] =>
    if d.started || d.apiMode || !d.mods.isEmpty then (d, "bad-op") else ({ d with apiMode := true }, "ok")
  | "mgmt" :: a :: as =>
    let args := (a :: as).map (·.splitOn "=")
    let ok := args.all fun kv => match kv with
      | [n, v] => d.mods.any (·.name == n) && (v == "on" || v == "off")
      | _ => false
    if d.started || d.mgmt || d.apiMode || !ok then (d, "bad-op") else
    let on := args.filterMap fun kv => match kv with
      | [n, "on"] => some n
      | _ => none
    ({ d with mgmt := true, mods := d.mods.map fun m => { m with enabled := on.contains m.name } }, "ok")
  | ["stoptimeout", "short"] =>
    -- the modules' stop timeout is set to a short value: held work that does not wait for the module context does not
    -- keep `shutdown` / `manage` from being run; the stop of its module ends by the timeout
    if d.started || d.apiMode || d.shortStop then (d, "bad-op") else ({ d with shortStop := true }, "ok")
  | ["devmode", v] =>
    -- config.SetConfigOption("core/devMode", …); not while a request is in flight (the option is read when the handler panics)
    if !d.apiMode || !d.startOK || d.down || !(v == "on" || v == "off") || d.ids.any (fun (_, held, _) => held) then (d, "bad-op")
    else ({ d with dev := v == "on" }, "ok")
  | ["chan", c] =>
    -- SetErrorReportingChannel(nil | make(chan *ModuleError, c)) before anything runs; from now on only `recv` reads it
    if d.started || d.manual then (d, "bad-op") else
    if c == "unset" then ({ d with manual := true, st := { d.st with chanSet := false, cap := 0 } }, "ok")
    else match c.toNat? with
      | some n => if n ≤ 64 then ({ d with manual := true, st := { d.st with chanSet := true, cap := n } }, "ok") else (d, "bad-op")
      | none => (d, "bad-op")
  | ["recv", k] =>
    if !d.manual || !d.st.chanSet then (d, "bad-op") else
    let n := if k == "all" then some (1 <<< 20) else k.toNat?
    (match n with
     | none => (d, "bad-op")
     | some n =>
       let (d1, reps) := recvK d n
       (d1, s!"recv n={reps.length} reps={repsStr reps} ch={chLen d1.st}"))
  | [op, name] =>
    if op == "enable" || op == "disable" then
      if d.mgmt && d.mods.any (·.name == name) then
        ({ d with mods := d.mods.map fun m => if m.name == name then { m with enabled := op == "enable" } else m }, "ok")
      else (d, "bad-op")
    else if op == "finish" then
      match findIdx d.ids name with
      | none => (d, "bad-op")
      | some i =>
        match d.ids[i]?, d.st.items[i]? with
        | some (_, true, _), some _ =>
          let s' := finishItem d.st i
          let d1 := { d with st := s' }
          let (d2, reps) := drain d1
          match s'.items[i]? with
          | none => (d, "bad-op")
          | some it =>
            let blocking := match it.kind with
              | .runWorker => true
              | .mt b => b
              | _ => false
            let ret := if blocking then retStr it.cur it.ret else "-"
            let http := if isApiKind it.kind then httpStr it else "-"
            let next := if it.kind == .svc then (if it.inFn then "reentered" else if it.done then "done" else "timeout") else "-"
            let exec := if it.kind == .task then toString it.executing else "-"
            ({ d2 with ids := setHeld d2.ids i it.inFn },
             s!"finish ret={ret} http={http} next={next} exec={exec} sync=ok reps={repsStr reps} last={lastStr s'.last} cnt={cntStr s'} ch={chLen d2.st}")
        | _, _ => (d, "bad-op")
    else if op == "burst" then burst d [name]
    else (d, "bad-op")
  | ["start"] =>
    if d.started then (d, "bad-op") else
    if d.apiMode then ({ d with started := true, startOK := true }, s!"start ret=nil reps=- ch={chLen d.st}") else
    let d0 := { d with started := true }
    let n := d.mods.length + 1
    let preps := passRounds n true prepRound { mods := d0.mods }
    match passFirstErr preps.rets with
    | some e =>
      let d1 := pushReports { d0 with mods := preps.mods } preps.reps
      let (d2, reps) := drain d1
      (d2, s!"start ret={ctrlRetStr (some e)} reps={repsStr reps} ch={chLen d2.st}")
    | none =>
      let needed := neededDeps n preps.mods []
      let starts := passRounds n true (startRound d0.mgmt needed) { mods := preps.mods }
      let d1 := pushReports { d0 with mods := starts.mods } (preps.reps ++ starts.reps)
      let (d2, reps) := drain d1
      let res := startResult preps.rets starts.rets
      ({ d2 with startOK := res.isNone }, s!"start ret={ctrlRetStr res} reps={repsStr reps} ch={chLen d2.st}")
  | ["manage"] =>
    if !d.started || !d.mgmt then (d, "bad-op") else
    let n := d.mods.length + 1
    let needed := neededDeps n d.mods []
    let (d1, srets, sreps, tmo) := stopPass d (fun m => wanted true needed m)
    let starts := passRounds n true (startRound true needed) { mods := d1.mods }
    -- start() of the subject installs a fresh context and clears the stop flag
    let d1 := if statusOf starts.mods (subjectName d) == 5 then { d1 with st := { d1.st with stopFlag := false, ctxDone := false } } else d1
    -- reports of the subject's own stop are already in the feed
    let d2 := pushReports { d1 with mods := starts.mods } (sreps ++ starts.reps)
    let (d3, reps) := drain d2
    let tmoStr := if d.shortStop then s!" tmo={if tmo.isEmpty then "-" else ",".intercalate tmo}" else ""
    (d3, s!"manage ret={ctrlRetStr (manageResult srets starts.rets)} reps={sortedRepsStr reps} st={statusesStr d3.mods} ch={chLen d3.st}{tmoStr}")
  | ["shutdown"] =>
    if !d.started then (d, "bad-op") else
    -- work that does not wait for the module context would keep Shutdown waiting for the stop timeout
    if !d.shortStop && d.ids.any (fun (_, held, os) => held && !os) then ({ d with down := true }, "shutdown-with-held-work") else
    if d.apiMode then
      let (d1, _, _) := stopSubject d none
      let (d2, reps) := drain d1
      ({ d2 with down := true }, s!"shutdown ret=nil reps={sortedRepsStr reps} slow=no st= ch={chLen d2.st}")
    else
    let (d1, srets, sreps, tmo) := stopPass d (fun _ => false)
    let d2 := pushReports d1 sreps
    let (d3, reps) := drain d2
    let tmoStr := if d.shortStop then s!" tmo={if tmo.isEmpty then "-" else ",".intercalate tmo}" else ""
    ({ d3 with down := true },
     s!"shutdown ret={ctrlRetStr (shutdownResult srets)} reps={sortedRepsStr reps} slow=no st={statusesStr d3.mods} ch={chLen d3.st}{tmoStr}")
  | "burst" :: a :: as => burst d (a :: as)
  | ["status"] => (d, s!"cnt={cntStr d.st} last={lastStr d.st.last} ch={chLen d.st}")
  | ["recvn"] =>
    if !d.manual || !d.st.chanSet then (d, "bad-op") else
    let (d1, reps) := recvK d (1 <<< 20)
    (d1, s!"recvn n={reps.length} ch={chLen d1.st}")
  | ["park"] =>
    -- a consumer blocks in a receive on the empty channel; what it gets is printed by the next `recv`
    if !d.manual || !d.st.chanSet || chLen d.st != 0 then (d, "bad-op") else
    (match step d.st .recv with
     | some s1 => ({ d with st := s1 }, s!"park ok waiting={s1.waiting}")
     | none => (d, "bad-op"))
  | ["settle"] => (d, s!"cnt={cntStr d.st} others=clean")
  | "spawn" :: id :: kind :: outs :: rest =>
    let flag := match rest with
      | [] => some ""
      | [fl] => if fl == "onstop" || fl == "afterwrite" then some fl else none
      | _ => none
    match flag, kindOf kind, outcomesOf outs with
    | some fl, some k, some os =>
      let api := isApiKind k
      let bad := !d.startOK || (findIdx d.ids id).isSome || api != d.apiMode || !subjectOnline d
        || (fl == "afterwrite" && !rawHandlerKind kind) || (fl == "onstop" && api)
        || (k == .hook && statusOf d.mods "B" != 5)
        || (k == .task && taskBusy d)
      if bad then (d, "bad-op") else
      let k' := if api then Kind.api (fl == "afterwrite") d.dev else k
      let i := d.st.items.length
      match step d.st (.spawn { kind := k', outs := os }) with
      | none => (d, "bad-op")
      | some s1 =>
        let s2 := runHeld 16 s1 i
        let held := match s2.items[i]? with
          | some it => it.inFn
          | none => false
        ({ d with st := s2, ids := d.ids ++ [(id, held, fl == "onstop")] },
         s!"spawn {if held then "ok" else "noentry"} cnt={cntStr s2}")
    | _, _, _ => (d, "bad-op")
  | ["prespawn", id, kind, outs, whr] =>
    -- a worker of the subject module launched before the module is started: right after registration (`reg`) or from
    -- inside its prep routine (`prep`); the managed execution is the same (`step … (.spawn …)`)
    match kindOf kind, outcomesOf outs, d.mods.find? (·.name == "A") with
    | some k, some os, some m =>
      let bad := d.started || d.apiMode || (findIdx d.ids id).isSome
        || !(k == .svc || k == .startWorker || k == .runWorker) || !(whr == "reg" || whr == "prep")
        || (whr == "prep" && m.prep.isNone)
      if bad then (d, "bad-op") else
      let i := d.st.items.length
      match step d.st (.spawn { kind := k, outs := os }) with
      | none => (d, "bad-op")
      | some s1 =>
        let s2 := runHeld 16 s1 i
        let held := match s2.items[i]? with
          | some it => it.inFn
          | none => false
        ({ d with st := s2, ids := d.ids ++ [(id, held, false)] }, s!"prespawn {if held then "ok" else "noentry"}")
    | _, _, _ => (d, "bad-op")
  | ["requeue", id, kind, outs] =>
    match findIdx d.ids id, kindOf kind, outcomesOf outs with
    | some i, some .task, some os =>
      if !d.startOK || !subjectOnline d || taskBusy d then (d, "bad-op") else
      match step d.st (.queue i os) with
      | none => (d, "bad-op")
      | some s1 =>
        let s2 := runHeld 16 s1 i
        let held := match s2.items[i]? with
          | some it => it.inFn
          | none => false
        ({ d with st := s2, ids := setHeld d.ids i held }, s!"requeue {if held then "ok" else "noentry"} cnt={cntStr s2}")
    | _, _, _ => (d, "bad-op")
  | _ => (d, "bad-op")

end PB.Drv.C06

def main : IO Unit := PB.Drv.runState (default : PB.Drv.C06.DSt) PB.Drv.C06.handle
