import PB.Model.Record
import PB.Drv.Loop
/- Driver for C08: stored-record marshal / parse. -/
namespace PB.Drv.C08
open PB PB.Record

def bit (s : String) : Option Bool := if s = "1" then some true else if s = "0" then some false else none

def parseMeta : List String → Option Meta
  | [c, m, e, d, s, j] => do
    let c ← c.toInt?; let m ← m.toInt?; let e ← e.toInt?; let d ← d.toInt?
    let s ← bit s; let j ← bit j
    pure ⟨c, m, e, d, s, j⟩
  | _ => none

def showMeta (m : Meta) : String :=
  s!"{m.created} {m.modified} {m.expires} {m.deleted} {if m.secret then 1 else 0} {if m.crownjewel then 1 else 0}"

def showErr : PErr → String
  | .version e => s!"version {e}"
  | .metaBlock e => s!"metablock {e}"
  | .metaLoad e => s!"metaload {e}"
  | .format e => s!"format {e}"

def chars (b : Bytes) : List Char := b.map (fun x => Char.ofNat x.toNat)
def unchars (cs : List Char) : Bytes := cs.map (fun c => UInt8.ofNat c.toNat)

def showBase (b : Base) : String :=
  s!"{toHex (unchars b.key)} {toHex (unchars b.databaseName)} {toHex (unchars b.databaseKey)} {if b.keyIsSet then "t" else "f"}"

/-- `nil` or six metadata words, followed by the remaining words. -/
def splitMeta : List String → Option (Option Meta × List String)
  | "nil" :: rest => some (none, rest)
  | c :: m :: e :: d :: s :: j :: rest => (parseMeta [c, m, e, d, s, j]).map (fun md => (some md, rest))
  | _ => none

/-- `<seed>@<hex>` or `<seed>@fail`: the outcome of the codec call, a parameter of the model. -/
def parseDump (w : String) : Option (Option Bytes) :=
  match w.splitOn "@" with
  | [_, "fail"] => some none
  | [_, hex] => (parseHex hex).map some
  | _ => none

def showMarshal : Except MErr (Option Bytes) → String
  | .ok none => "nil"
  | .ok (some b) => toHex b
  | .error e => s!"err {e.str}"

def stateless (line : String) : String :=
  match PB.Drv.words line with
  | ["mw", c, m, e, d, s, j, fmt, hex] =>
    match parseMeta [c, m, e, d, s, j], fmt.toNat?, parseHex hex with
    | some md, some f, some data => if f < 256 then toHex (marshalWrapper md (UInt8.ofNat f) data) else "bad-op"
    | _, _, _ => "bad-op"
  | ["mb", c, m, e, d, s, j, seedAtJson] =>
    -- `<seed>@<hex of the JSON encoding>`: the JSON codec is a parameter of the model
    match parseMeta [c, m, e, d, s, j], (seedAtJson.splitOn "@") with
    | some md, [_, hex] => (match parseHex hex with
      | some json => toHex (marshalBase md json)
      | none => "bad-op")
    | _, _ => "bad-op"
  | ["gm", c, m, e, d, s, j] =>
    match parseMeta [c, m, e, d, s, j] with
    | some md => toHex (genCodeMarshal md)
    | none => "bad-op"
  | "gmb" :: _cap :: _len :: ms =>
    -- GenCodeMarshal(buf) with a caller-supplied buffer: the result does not depend on the buffer
    match parseMeta ms with
    | some md => toHex (genCodeMarshal md)
    | none => "bad-op"
  | "bm" :: rest =>
    -- Base.Marshal(self, format): `<meta|nil> <format> <seed>@<hex of dsd.Dump(self, format) | fail>`
    match splitMeta rest with
    | some (md, [fmt, seedAtDump]) =>
      (match fmt.toNat?, parseDump seedAtDump with
      | some f, some dump => showMarshal (baseMarshal md (fun _ => dump) f)
      | _, _ => "bad-op")
    | _ => "bad-op"
  | "mbr" :: rest =>
    -- Base.MarshalRecord(self): `<meta|nil> <seed>@<hex of dsd.Dump(self, JSON) | fail>`
    match splitMeta rest with
    | some (md, [seedAtDump]) =>
      (match parseDump seedAtDump with
      | some dump => (match baseMarshalRecord md (fun _ => dump) with
        | .ok b => toHex b
        | .error e => s!"err {e.str}")
      | none => "bad-op")
    | _ => "bad-op"
  | ["uwn"] => (match unwrap (α := Unit) (fun _ _ => none) none ⟨Base.fresh, none, ()⟩ with
      | .ok _ => "ok" | .error .notWrapper => "err not-wrapper" | .error .load => "err load")
  | ["uw", wdb, wkey, c, m, e, d, s, j, fmt, hex, tkey, load] =>
    -- Unwrap(wrapper, r): wrapper (db, key, meta, format, data), target key (`-` = none), codec outcome ok|fail
    match parseHex wdb, parseHex wkey, parseMeta [c, m, e, d, s, j], fmt.toNat?, parseHex hex, parseHex tkey with
    | some wdb, some wkey, some md, some f, some data, some tkey =>
      let r : Typed Unit := ⟨Base.fresh.setKey (chars tkey), none, ()⟩
      (match unwrap (fun _ _ => if load = "ok" then some () else none) (some (⟨chars wdb, chars wkey⟩, ⟨md, f, data⟩)) r with
      | .ok r' => s!"ok {showBase r'.base} {match r'.md with | some m => showMeta m | none => "nil"}"
      | .error .notWrapper => "err not-wrapper"
      | .error .load => "err load")
    | _, _, _, _, _, _ => "bad-op"
  | ["gu", hex] =>
    match parseHex hex with
    | some b => (match genCodeUnmarshal b with | some m => s!"ok {showMeta m}" | none => "err")
    | none => "bad-op"
  | ["parse", hex] =>
    match parseHex hex with
    | some b => (match newRawWrapper b with
      | .ok w => s!"ok {showMeta w.md} {w.format} {toHex w.data}"
      | .err e => s!"err {showErr e}"
      | .delegated _ => "delegated")
    | none => "bad-op"
  | ["key", hex] =>
    match parseHex hex with
    | some b =>
      let cs := b.map (fun x => Char.ofNat x.toNat)
      let r := parseKey cs
      s!"{toHex (r.1.map (fun c => UInt8.ofNat c.toNat))} {toHex (r.2.map (fun c => UInt8.ofNat c.toNat))}"
    | none => "bad-op"
  | _ => "bad-op"

/-- A wrapper object with history: created once, its metadata changed in place, serialised repeatedly.
    The model has no hidden state: every serialisation reflects the current metadata. -/
structure St where
  w : Option (Option Meta × Nat × Bytes) := none
  /-- key fields of a typed record with history (SetKey / ResetKey) -/
  b : Option Base := none

def showParsed : Parsed → String
  | .ok w => s!"ok {showMeta w.md} {w.format} {toHex w.data}"
  | .err e => s!"err {showErr e}"
  | .delegated _ => "delegated"

def handle (s : St) (line : String) : St × String :=
  match PB.Drv.words line with
  | ["wnew", c, m, e, d, sc, j, fmt, hex] =>
    match parseMeta [c, m, e, d, sc, j], fmt.toNat?, parseHex hex with
    | some md, some f, some data => if f < 256 then ({ s with w := some (some md, f, data) }, "ok") else (s, "bad-op")
    | _, _, _ => (s, "bad-op")
  | ["held"] => (s, "same")   -- byte strings returned earlier are values: they never change afterwards
  | ["wparse", hex] =>
    -- a wrapper that comes from NewRawWrapper (object with history: it has been parsed from a storage form)
    match parseHex hex with
    | some b => (match newRawWrapper b with
      | .ok w => ({ s with w := some (some w.md, w.format, w.data) }, showParsed (.ok w))
      | r => ({ s with w := none }, showParsed r))
    | none => (s, "bad-op")
  | ["wdata", _mode, hex] =>
    -- the public Data field is replaced / overwritten (how it is done makes no difference to a pure model)
    match s.w, parseHex hex with
    | some (md, f, _), some data => ({ s with w := some (md, f, data) }, "ok")
    | _, _ => (s, "bad-op")
  | ["wfmt", fmt] =>
    match s.w, fmt.toNat? with
    | some (md, _, data), some f => if f < 256 then ({ s with w := some (md, f, data) }, "ok") else (s, "bad-op")
    | _, _ => (s, "bad-op")
  | ["wnewnil", fmt, hex] =>
    match fmt.toNat?, parseHex hex with
    | some f, some data => if f < 256 then ({ s with w := some (none, f, data) }, "ok") else (s, "bad-op")
    | _, _ => (s, "bad-op")
  | ["wm", fmt] =>
    match s.w, fmt.toNat? with
    | some (md, f, data), some format =>
      if format < 256 then (s, showMarshal (wrapperMarshal md (UInt8.ofNat f) data (UInt8.ofNat format))) else (s, "bad-op")
    | _, _ => (s, "bad-op")
  | ["wmr"] =>
    match s.w with
    | some (md, f, data) => (s, match wrapperMarshalRecord md (UInt8.ofNat f) data with
        | .ok b => toHex b
        | .error e => s!"err {e.str}")
    | none => (s, "bad-op")
  | ["bnew"] => ({ s with b := some Base.fresh }, "ok")
  | ["setkey", hex] =>
    match s.b, parseHex hex with
    | some b, some k => ({ s with b := some (b.setKey (chars k)) }, "ok")
    | _, _ => (s, "bad-op")
  | ["resetkey"] =>
    match s.b with
    | some b => ({ s with b := some b.resetKey }, "ok")
    | none => (s, "bad-op")
  | ["keyq"] =>
    match s.b with
    | some b => (s, showBase b)
    | none => (s, "bad-op")
  | ["wset", c, m, e, d, sc, j] =>
    -- fields are written through the Meta() pointer; the two flags can only be switched on
    match s.w, parseMeta [c, m, e, d, sc, j] with
    | some (some old, f, data), some md =>
      ({ s with w := some (some { md with secret := old.secret || md.secret, crownjewel := old.crownjewel || md.crownjewel }, f, data) }, "ok")
    | _, _ => (s, "bad-op")
  | ["wrt"] =>
    match s.w with
    | some (some md, f, data) => (s, showParsed (newRawWrapper (marshalWrapper md (UInt8.ofNat f) data)))
    | some (none, _, _) => (s, "err marshal missing-meta")
    | none => (s, "bad-op")
  | _ => (s, stateless line)

end PB.Drv.C08

def main : IO Unit := PB.Drv.runState ({} : PB.Drv.C08.St) PB.Drv.C08.handle
