import PB.Model.Record
import PB.Drv.Loop
/- Driver for C08: stored-record marshal / parse. -/
namespace PB.Drv.C08
open PB PB.Record

def bit (s : String) : Option Bool := if s = "1" then some true else if s = "0" then some false else none

def parseMeta : List String → Option Meta
  | [c, m, e, d, s, j] => do
    let c ← c.toInt?; let m ← m.toInt?; let e ← e.toInt?; let d ← d.toInt?
    let s ← bit s; let j ← bit j
    pure ⟨c, m, e, d, s, j⟩
  | _ => none

def showMeta (m : Meta) : String :=
  s!"{m.created} {m.modified} {m.expires} {m.deleted} {if m.secret then 1 else 0} {if m.crownjewel then 1 else 0}"

def showErr : PErr → String
  | .version e => s!"version {e}"
  | .metaBlock e => s!"metablock {e}"
  | .metaLoad e => s!"metaload {e}"
  | .format e => s!"format {e}"

def stateless (line : String) : String :=
  match PB.Drv.words line with
  | ["mw", c, m, e, d, s, j, fmt, hex] =>
    match parseMeta [c, m, e, d, s, j], fmt.toNat?, parseHex hex with
    | some md, some f, some data => if f < 256 then toHex (marshalWrapper md (UInt8.ofNat f) data) else "bad-op"
    | _, _, _ => "bad-op"
  | ["mb", c, m, e, d, s, j, seedAtJson] =>
    -- `<seed>@<hex of the JSON encoding>`: the JSON codec is a parameter of the model
    match parseMeta [c, m, e, d, s, j], (seedAtJson.splitOn "@") with
    | some md, [_, hex] => (match parseHex hex with
      | some json => toHex (marshalBase md json)
      | none => "bad-op")
    | _, _ => "bad-op"
  | ["gm", c, m, e, d, s, j] =>
    match parseMeta [c, m, e, d, s, j] with
    | some md => toHex (genCodeMarshal md)
    | none => "bad-op"
  | ["gu", hex] =>
    match parseHex hex with
    | some b => (match genCodeUnmarshal b with | some m => s!"ok {showMeta m}" | none => "err")
    | none => "bad-op"
  | ["parse", hex] =>
    match parseHex hex with
    | some b => (match newRawWrapper b with
      | .ok w => s!"ok {showMeta w.md} {w.format} {toHex w.data}"
      | .err e => s!"err {showErr e}"
      | .delegated _ => "delegated")
    | none => "bad-op"
  | ["key", hex] =>
    match parseHex hex with
    | some b =>
      let cs := b.map (fun x => Char.ofNat x.toNat)
      let r := parseKey cs
      s!"{toHex (r.1.map (fun c => UInt8.ofNat c.toNat))} {toHex (r.2.map (fun c => UInt8.ofNat c.toNat))}"
    | none => "bad-op"
  | _ => "bad-op"

/-- A wrapper object with history: created once, its metadata changed in place, serialised repeatedly.
    The model has no hidden state: every serialisation reflects the current metadata. -/
structure St where
  w : Option (Meta × Nat × Bytes) := none

def showParsed : Parsed → String
  | .ok w => s!"ok {showMeta w.md} {w.format} {toHex w.data}"
  | .err e => s!"err {showErr e}"
  | .delegated _ => "delegated"

def handle (s : St) (line : String) : St × String :=
  match PB.Drv.words line with
  | ["wnew", c, m, e, d, sc, j, fmt, hex] =>
    match parseMeta [c, m, e, d, sc, j], fmt.toNat?, parseHex hex with
    | some md, some f, some data => if f < 256 then ({ w := some (md, f, data) }, "ok") else (s, "bad-op")
    | _, _, _ => (s, "bad-op")
  | ["wset", c, m, e, d, sc, j] =>
    -- fields are written through the Meta() pointer; the two flags can only be switched on
    match s.w, parseMeta [c, m, e, d, sc, j] with
    | some (old, f, data), some md =>
      ({ w := some ({ md with secret := old.secret || md.secret, crownjewel := old.crownjewel || md.crownjewel }, f, data) }, "ok")
    | _, _ => (s, "bad-op")
  | ["wrt"] =>
    match s.w with
    | some (md, f, data) => (s, showParsed (newRawWrapper (marshalWrapper md (UInt8.ofNat f) data)))
    | none => (s, "bad-op")
  | _ => (s, stateless line)

end PB.Drv.C08

def main : IO Unit := PB.Drv.runState ({} : PB.Drv.C08.St) PB.Drv.C08.handle
