import PB.Model.DbProto
import PB.Drv.Loop
/- Driver for C02: one database-interface operation per line (see PB.Model.DbProto for the protocol). -/
def main : IO Unit := PB.Drv.runState ({} : PB.Db.Proto.Sys) PB.Db.Proto.handle
