import PB.Model.DbApi
import PB.Drv.Loop
/-
Driver for C13. Line protocol (a `#` line starts a new case = new connection, empty databases):

  cfg <name>=<p|s>,...                      register the databases (p = key/record store, s = sinkhole)
  seed <keyhex> <fmt> <datahex> <flags>     privileged write; flags: `-` or letters s c x n
  seedstruct <keyhex> <jsonhex>             privileged write of a native struct record (JSON view)
  m <msghex> [q=…] [o=0|1] [i=0|1] [c=n]    one message through `handle`; prints the canonical reply batch
  late                                      all replies sent so far, read again: always `ok` (replies are values)
  end                                       connection teardown
  conc <json>                               concurrent scenario marker (the recorded trace follows)
  t req <msghex> | t rep <replyhex> | t quiet | t final     trace acceptor

Annotations are the results of the external libraries on this message (query parser, gjson/sjson):
  q=-                         query.ParseQuery fails
  q=<dbhex>:<prefixhex>:<w>   parsed; w = `*` no where clause, `.` where clause matching no payload,
                              else comma-separated hex payloads (format byte + data) that satisfy it
  o=0                         the payload body is not a JSON object
  i=0                         gjson/sjson reject the insert
-/
namespace PB.Drv.C13
open PB PB.DbApi PB.DbApiProto

structure DSt where
  st : St := {}
  acc : AccSt := accInit
  deriving Inhabited

def rtypeStr : RType → String
  | .ok => "ok" | .error => "error" | .done => "done" | .success => "success"
  | .upd => "upd" | .new => "new" | .del => "del" | .warning => "warning"

/-- JSON whitespace is dropped from the fingerprint (sjson's set/delete round trip does not preserve it). -/
def dropWS (b : Bytes) : Bytes := b.filter (fun c => c != 32 && c != 9 && c != 10 && c != 13)

def dataStr : Option Content → String
  | none => "none"
  | some c => "Jk:" ++ (if c.untracked then "?" else toHex (dropWS c.json))

def errStr : Option Err → String
  | some e => e.str
  | none => "none"

def replyStr (r : Reply) : String :=
  let op := toHex r.op
  match r.ty with
  | .ok => s!"{op}|ok|{toHex r.key}|{dataStr r.data}"
  | .upd => s!"{op}|chg|{toHex r.key}|{dataStr r.data}"
  | .new => s!"{op}|chg|{toHex r.key}|{dataStr r.data}"
  | .del => s!"{op}|del|{toHex r.key}"
  | .error => s!"{op}|error|{errStr r.err}"
  | .warning => s!"{op}|warning|{errStr r.err}"
  | .done => s!"{op}|done"
  | .success => s!"{op}|success"

def bytesLe (a b : Bytes) : Bool := !bytesLt b a

def typeRank : RType → Nat
  | .ok => 0 | .warning => 1 | .done => 2 | .error => 3 | .success => 4 | .upd => 5 | .new => 5 | .del => 6

/-- sort key of a reply inside a batch: operation ID, reply type, key (records and notifications), text -/
def sortKeyOf (r : Reply) : Bytes × Nat × Bytes × String :=
  (r.op, typeRank r.ty, (if r.ty == .ok || typeRank r.ty ≥ 5 then r.key else []), replyStr r)

def keyLe (a b : Bytes × Nat × Bytes × String) : Bool :=
  if a.1 ≠ b.1 then bytesLt a.1 b.1
  else if a.2.1 ≠ b.2.1 then a.2.1 < b.2.1
  else if a.2.2.1 ≠ b.2.2.1 then bytesLt a.2.2.1 b.2.2.1
  else decide (a.2.2.2 ≤ b.2.2.2)

/-- A batch is compared as a multiset (which goroutine reaches the send function first is scheduling):
    sorted by operation ID, type, key, text. -/
def batchStr (rs : List Reply) : String :=
  if rs.isEmpty then "-"
  else
    let sorted := (rs.map (fun r => (sortKeyOf r, r))).mergeSort (fun a b => keyLe a.1 b.1)
    " ".intercalate (sorted.map (fun p => p.1.2.2.2))

def parseCfg (s : String) : Option (List Db) :=
  (s.splitOn ",").mapM (fun e =>
    match e.splitOn "=" with
    | [n, "p"] => some { name := n.toUTF8.toList, kind := .plain }
    | [n, "s"] => some { name := n.toUTF8.toList, kind := .sink }
    | _ => none)

def parseFlags (r : Rec) : List Char → Option Rec
  | [] => some r
  | '-' :: cs => parseFlags r cs
  | 's' :: cs => parseFlags { r with secret := true } cs
  | 'c' :: cs => parseFlags { r with crown := true } cs
  | 'x' :: cs => parseFlags { r with expired := true } cs
  | 'n' :: cs => parseFlags { r with obj := false } cs
  | _ => none

def parseWh (s : String) : Option (Option (List Bytes)) :=
  if s = "*" then some none
  else if s = "." then some (some [])
  else ((s.splitOn ",").mapM parseHex).map some

def parseQ (s : String) : Option (Option Q) :=
  if s = "-" then some none
  else match s.splitOn ":" with
    | [d, p, w] => do
      let d ← parseHex d
      let p ← parseHex p
      let w ← parseWh w
      pure (some { db := d, pfx := p, wh := w })
    | _ => none

def parseAnnot (an : Annot) : List String → Option Annot
  | [] => some an
  | w :: ws =>
    if w.startsWith "q=" then
      match parseQ (w.drop 2).toString with
      | some q => parseAnnot { an with q := q } ws
      | none => none
    else if w = "o=0" then parseAnnot { an with obj := false } ws
    else if w = "o=1" then parseAnnot { an with obj := true } ws
    else if w = "i=0" then parseAnnot { an with ins := false } ws
    else if w = "i=1" then parseAnnot { an with ins := true } ws
    -- c=<n>: spare capacity of the buffer the message arrives in. The model's messages and replies are values
    -- (`Bytes`); there is no buffer a reply could share with the request or with another reply: ignored.
    else if w.startsWith "c=" then parseAnnot an ws
    else none

def rtypeOfBytes (b : Bytes) : Option RType :=
  [RType.ok, .error, .done, .success, .upd, .new, .del, .warning].find? (fun t => rtypeBytes t == b)

/-- operation ID and type of a reply on the wire -/
def parseReplyWire (b : Bytes) : Option (Bytes × RType) :=
  match cut bar b with
  | none => none
  | some (op, rest) =>
    let tyB := match cut bar rest with
      | some (t, _) => t
      | none => rest
    (rtypeOfBytes tyB).map (fun t => (op, t))

def accStr (cs : AccSt) : String := if cs.isEmpty then "reject" else "ok"

def stepLine (s : DSt) (line : String) : DSt × String :=
  match PB.Drv.words line with
  | ["cfg", c] =>
    match parseCfg c with
    | some dbs => ({ s with st := { s.st with dbs := dbs } }, "ok")
    | none => (s, "bad-op")
  | ["seed", k, f, d, fl] =>
    match parseHex k, f.toNat?, parseHex d with
    | some k, some f, some d =>
      if f ≥ 256 then (s, "bad-op") else
      match parseFlags { fmt := UInt8.ofNat f, data := d } fl.toList with
      | none => (s, "bad-op")
      | some r =>
        match findDb (parseKey k).1 s.st.dbs with
        | none => (s, "err:nodb -")
        | some _ =>
          let (st', out) := seed s.st k r
          ({ s with st := st' }, "ok " ++ batchStr out)
    | _, _, _ => (s, "bad-op")
  | ["seedstruct", k, j] =>
    match parseHex k, parseHex j with
    | some k, some j =>
      match findDb (parseKey k).1 s.st.dbs with
      | none => (s, "err:nodb -")
      | some _ =>
        let (st', out) := seed s.st k { fmt := fmtJSON, data := j }
        ({ s with st := st' }, "ok " ++ batchStr out)
    | _, _ => (s, "bad-op")
  | "m" :: h :: ann =>
    match parseHex h, parseAnnot {} ann with
    | some msg, some an =>
      let (st', out) := handle s.st msg an
      ({ s with st := st' }, batchStr out)
    | _, _ => (s, "bad-op")
  | ["end"] =>
    let (st', out) := teardown s.st
    ({ s with st := st' }, batchStr out)
  -- `late`: every reply sent so far is read again. `handle` is a pure function returning `List Reply`: a reply
  -- handed over is the same value for ever, so the answer of the model is constant.
  | ["late"] => (s, "ok")
  -- a trace in which a reply reads differently later has no explanation
  | ["t", "late", _, _] => ({ s with acc := [] }, "reject")
  | "conc" :: _ => ({ s with acc := accInit }, "ok")
  | ["t", "req", h] =>
    match parseHex h with
    | some msg =>
      let m := classify msg
      let acc := accStep s.acc (.req m.op m.kind)
      ({ s with acc := acc }, accStr acc)
    | none => (s, "bad-op")
  | ["t", "rep", h] =>
    match parseHex h with
    | some b =>
      match parseReplyWire b with
      | some (op, t) =>
        let acc := accStep s.acc (.rep op t)
        ({ s with acc := acc }, accStr acc)
      | none => ({ s with acc := [] }, "reject")
    | none => (s, "bad-op")
  | ["t", "quiet"] =>
    let acc := s.acc.filter quietOk
    ({ s with acc := acc }, accStr acc)
  | ["t", "seed", _, _] => (s, accStr s.acc)
  | ["t", "note", _] => (s, accStr s.acc)
  | ["t", "down"] =>
    let acc := s.acc.filter downOk
    ({ s with acc := acc }, accStr acc)
  | ["t", "final"] =>
    let acc := s.acc.filter finalOk
    ({ s with acc := acc }, accStr acc)
  | _ => (s, "bad-op")

end PB.Drv.C13

def main : IO Unit := PB.Drv.runState ({} : PB.Drv.C13.DSt) PB.Drv.C13.stepLine
