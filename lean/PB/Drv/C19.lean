import PB.Model.Updater
import PB.Drv.Loop
/- Driver for C19: one updater API call per line on a model registry; `#` resets the registry. -/
namespace PB.Drv.C19
open PB PB.Updater

/-- a token is raw ASCII, or `x:<hex>` for arbitrary bytes (`x:-` = empty) -/
def tok (t : String) : Option Str :=
  if t.startsWith "x:" then (parseHex (t.drop 2).toString).map (·.map UInt8.toNat)
  else some (t.toList.map Char.toNat)

def ascii (s : Str) : String := String.ofList (s.map Char.ofNat)
def hexOf (s : Str) : String := toHex (s.map UInt8.ofNat)

def bool? : String → Option Bool
  | "0" => some false
  | "1" => some true
  | _ => none

def idx? : String → Option (Option Bool)
  | "nil" => some none
  | "auto" => some (some true)
  | "noauto" => some (some false)
  | _ => none

def int? (s : String) : Option Int :=
  if s.startsWith "-" then (s.drop 1).toString.toNat?.map (fun n => -(n : Int)) else s.toNat?.map (fun n => (n : Int))

def insertStr (x : Str) : List Str → List Str
  | [] => [x]
  | y :: ys => if strLt y x then y :: insertStr x ys else x :: y :: ys
def sortStrs (l : List Str) : List Str := l.foldr insertStr []

def insertKV {α : Type} (x : Str × α) : List (Str × α) → List (Str × α)
  | [] => [x]
  | y :: ys => if strLt y.1 x.1 then y :: insertKV x ys else x :: y :: ys
def sortKV {α : Type} (l : List (Str × α)) : List (Str × α) := l.foldr insertKV []

def verS (v : Ver) : String := ascii v.str
def optVerS : Option Ver → String
  | none => "-"
  | some v => verS v

def flagsS (rv : RV) : String :=
  let s := (if rv.avail then "A" else "") ++ (if rv.cur then "C" else "") ++
    (if rv.pre then "P" else "") ++ (if rv.bl then "B" else "")
  if s.isEmpty then "-" else s

def trimExt (p : Str) : Str :=
  -- strip from the last '.' (only called when the last path element has one)
  (p.reverse.dropWhile (· ≠ 46)).drop 1 |>.reverse

def filePath (id : Str) (k : FileKey) : Str :=
  let p := getVersionedPath id k.1.str
  if k.2 = 0 then p else if k.2 = 1 then p ++ [46, 115, 105, 103] else trimExt p

def resS (id : Str) (r : Res) : String :=
  let ghost (o : Option Ver) : String := match o with
    | none => "-"
    | some v => if r.versions.any (fun rv => rv.ver == v) then verS v else verS v ++ "!ghost"
  let idx := match r.index with | none => "nil" | some true => "auto" | some false => "noauto"
  s!"{ascii id} sel={ghost r.selected} act={ghost r.active} idx={idx} v=[" ++
    ",".intercalate (r.versions.map (fun rv => verS rv.ver ++ ":" ++ flagsS rv)) ++ "]"

def dumpS (s : St) : String :=
  let rs := sortKV s.res
  let files := sortStrs (rs.foldr (fun p acc => p.2.disk.map (filePath p.1) ++ acc) [])
  " | ".intercalate (rs.map (fun p => resS p.1 p.2)) ++ " || disk=[" ++ ",".intercalate (files.map ascii) ++ "]"

def outS : Out → String
  | .ok => "ok"
  | .errParse => "err parse"
  | .errNotFound => "err notfound"
  | .errNotLocal => "err notlocal"
  | .errLast => "err last"
  | .errNoVersion => "err noversion"
  | .nilSelected => "nil-selected"
  | .file v p => s!"file {verS v} {ascii p}"
  | .version v => s!"version {optVerS v}"
  | .selectedMap m =>
    if m.isEmpty then "selected -" else
      "selected " ++ ",".intercalate ((sortKV m).map (fun p => ascii p.1 ++ "=" ++ verS p.2))

/-- `<id>=<version>` (both tokens; a raw token contains no `=`) -/
def item? (w : String) : Option (Str × Str) :=
  match w.splitOn "=" with
  | [i, v] => do some (← tok i, ← tok v)
  | _ => none

def parseOp (ws : List String) : Option Op :=
  match ws with
  | ["flags", o, d, p] => do some (.setFlags (← bool? o) (← bool? d) (← bool? p))
  | ["add", id, ver, a, c, p, ix] => do
    some (.add (← tok id) (← tok ver) (← bool? a) (← bool? c) (← bool? p) (← idx? ix))
  | ["addv", id, ver, a, c, p] => do
    some (.addVersion (← tok id) (← tok ver) (← bool? a) (← bool? c) (← bool? p))
  | "addmany" :: a :: c :: p :: ix :: items => do
    let its ← items.mapM item?
    -- a Go map holds every identifier once
    if (its.map (·.1)).eraseDups.length ≠ its.length then none else
    some (.addMany its (← bool? a) (← bool? c) (← bool? p) (← idx? ix))
  | ["touch", id, ver, k] => do some (.touch (← tok id) (← tok ver) (← k.toNat?))
  | ["select"] => some .select
  | ["getfile", id] => do some (.getFile (← tok id))
  | ["blacklist", id, ver] => do some (.blacklist (← tok id) (← tok ver))
  | ["purge", k] => do some (.purge (← int? k))
  | ["selected"] => some .selected
  | ["getversion", id] => do some (.getVersion (← tok id))
  | _ => none

def cmpS (a b : Ver) : String := if a.lt b then "lt" else if b.lt a then "gt" else "eq"

def handle (s : St) (line : String) : St × String :=
  let ws := PB.Drv.words line
  match ws with
  | ["dump"] => (s, dumpS s)
  | ["vpath", id, ver] =>
    match tok id, tok ver with
    | some i, some v => (s, hexOf (getVersionedPath i v))
    | _, _ => (s, "bad-op")
  | ["idver", p] =>
    match tok p with
    | some p => (s, match getIdentifierAndVersion p with
        | some (i, v) => s!"ok {hexOf i} {hexOf v}"
        | none => "none")
    | none => (s, "bad-op")
  | ["rt", id, ver] =>
    match tok id, tok ver with
    | some i, some v => (s, match getIdentifierAndVersion (getVersionedPath i v) with
        | some (i', v') => s!"ok {hexOf i'} {hexOf v'}"
        | none => "none")
    | _, _ => (s, "bad-op")
  | ["rtb", p] =>
    match tok p with
    | some p => (s, match getIdentifierAndVersion p with
        | some (i, v) => s!"ok {hexOf (getVersionedPath i v)}"
        | none => "none")
    | none => (s, "bad-op")
  | ["rawver", v] =>
    match tok v with
    | some v => (s, if matchRawVersion v then "match" else "nomatch")
    | none => (s, "bad-op")
  | ["vernorm", v] =>
    match tok v with
    | some v => (s, match parseVer v with | some x => verS x | none => "err parse")
    | none => (s, "bad-op")
  | ["vercmp", a, b] =>
    match tok a, tok b with
    | some a, some b => (s, match parseVer a, parseVer b with
        | some x, some y => cmpS x y
        | _, _ => "err parse")
    | _, _ => (s, "bad-op")
  | ["fblacklist", id] =>
    -- `File.Blacklist` on the file handed out last for `id`: `Resource.Blacklist` of the active version
    match tok id with
    | some i =>
      match (s.get i).bind (·.active) with
      | some v => let (s', o) := step s (.blacklist i v.str); (s', outS o)
      | none => (s, "err nofile")
    | none => (s, "bad-op")
  | ["unpack", id] =>
    -- `File.Unpack` (suffix = the extension) of the file handed out last: the unpacked copy of the active version appears
    match tok id with
    | some i =>
      match (s.get i).bind (·.active) with
      | some v =>
        if hasExt (getVersionedPath i v.str) then
          ((step s (.touch i v.str 2)).1, "unpacked " ++ ascii (filePath i (v, 2)))
        else (s, "err noext")
      | none => (s, "err nofile")
    | none => (s, "bad-op")
  | ["anyavail", id] =>
    match tok id with
    | some i => (s, match s.get i with
        | some r => if r.versions.any (·.avail) then "avail true" else "avail false"
        | none => "err notfound")
    | none => (s, "bad-op")
  | _ =>
    match parseOp ws with
    | some op => let (s', o) := step s op; (s', outS o)
    | none => (s, "bad-op")

end PB.Drv.C19

def main : IO Unit := PB.Drv.runState ({} : PB.Updater.St) PB.Drv.C19.handle
