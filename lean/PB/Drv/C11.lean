import PB.Model.Query
import PB.Model.QueryBytes
import PB.Spec.Query
import PB.Drv.Loop
/-
Driver for C11. Ops (mirrors harness/cmd/hx-c11/spec.go):
  lex <hex>                       parse <hex> <oracle>
  rt <hexprefix> <cond|-> <hexorderby> <limit> <offset> <oracle> <rm> <recs>
  gs <gap> <word> <scond|-> <word|-> <hex|!> <hex|!> <0|1> <oracle>
  lexb <hex> / escb <hex> / units <hex>     byte-level tokenizer / escapeString / `range` (any bytes, no UTF-8 decoding here)
Strings are hex of UTF-8, "-" = empty, "!" = absent. Every malformed line and every table entry the
model would need but was not given is answered loudly (`bad-op`, `oracle-missing`), never defaulted.
-/
namespace PB.Drv.C11
open PB PB.Query

abbrev L := List Char

def splitOnC (sep : Char) : L → List L
  | [] => [[]]
  | c :: rest =>
    if c = sep then [] :: splitOnC sep rest
    else match splitOnC sep rest with
      | [] => [[c]]
      | h :: t => (c :: h) :: t

def unhx (s : L) : Option Tok :=
  if s = ['-'] then some [] else
  match parseHexChars s with
  | none => none
  | some bs =>
    if bs.isEmpty then none else
    match String.fromUTF8? (ByteArray.mk bs.toArray) with
    | none => none
    | some str => some str.toList

def hx (t : Tok) : String := toHex (String.ofList t).toUTF8.toList

/-- hex → bytes as they are (no UTF-8 decoding: the byte-level model decodes itself). -/
def unhxB (s : L) : Option B.BStr :=
  if s = ['-'] then some [] else
  match parseHexChars s with
  | none => none
  | some bs => if bs.isEmpty then none else some (bs.map (·.toNat))

def hxB (t : B.BStr) : String := toHex (t.map UInt8.ofNat)

def natOf (s : L) : Option Nat := parseNat s

def intOf (s : L) : Option Int :=
  match s with
  | '-' :: r => (parseNat r).map fun n => -(n : Int)
  | _ => (parseNat s).map fun n => (n : Int)

def hexNat (s : L) : Option Nat :=
  s.foldl (fun acc c => match acc, hexVal c with
    | some a, some v => some (a * 16 + v)
    | _, _ => none) (some 0)

/-! ### oracle and tables -/

structure OEntry where
  tok : Tok
  fcanon : Option Tok
  fbits : Option Nat
  reok : Bool

def parseOEntry (e : L) : Option OEntry :=
  match splitOnC '=' e with
  | [t, r] =>
    match unhx t, splitOnC ':' r with
    | some tok, [fc, fb, re] =>
      let fcv : Option (Option Tok) := if fc = ['!'] then some none else (unhx fc).map some
      let fbv : Option (Option Nat) := if fb = ['!'] then some none else (hexNat fb).map some
      match fcv, fbv with
      | some a, some b => if re = ['1'] then some ⟨tok, a, b, true⟩ else if re = ['0'] then some ⟨tok, a, b, false⟩ else none
      | _, _ => none
    | _, _ => none
  | _ => none

def parseOracle (f : L) : Option (List OEntry) :=
  if f = ['~'] then some [] else (splitOnC ';' f).mapM parseOEntry

def parseRm (f : L) : Option (List (Tok × Tok × Bool)) :=
  if f = ['~'] then some [] else
  (splitOnC ';' f).mapM fun e =>
    match splitOnC '=' e with
    | [r, s, b] =>
      match unhx r, unhx s with
      | some r', some s' => if b = ['1'] then some (r', s', true) else if b = ['0'] then some (r', s', false) else none
      | _, _ => none
    | _ => none

def mkOracle (es : List OEntry) (rm : List (Tok × Tok × Bool)) : Oracle where
  fcanon t := match es.find? (·.tok = t) with | some e => e.fcanon | none => none
  reok t := match es.find? (·.tok = t) with | some e => e.reok | none => false
  fbits t := match es.find? (·.tok = t) with | some e => e.fbits.getD 0 | none => 0
  rematch r s := match rm.find? (fun e => e.1 = r ∧ e.2.1 = s) with | some e => e.2.2 | none => false

def known (es : List OEntry) (t : Tok) : Bool := es.any (·.tok = t)

structure TEntry where
  key : Tok
  i : Option Int
  s : Option Tok
  b : Option Bool
  f : Option Nat
  e : Bool

def optField {α} (f : L) (p : L → Option α) : Option (Option α) :=
  if f = ['!'] then some none else (p f).map some

def parseTEntry (e : L) : Option TEntry :=
  match splitOnC '=' e with
  | [k, r] =>
    match unhx k, splitOnC ':' r with
    | some key, [i, s, b, f, ex] =>
      match optField i intOf, optField s unhx, optField b (fun x => if x = ['1'] then some true else if x = ['0'] then some false else none),
            optField f hexNat with
      | some iv, some sv, some bv, some fv =>
        if ex = ['1'] then some ⟨key, iv, sv, bv, fv, true⟩ else if ex = ['0'] then some ⟨key, iv, sv, bv, fv, false⟩ else none
      | _, _, _, _ => none
    | _, _ => none
  | _ => none

def parseTable (f : L) : Option (List TEntry) :=
  if f = ['~'] then some [] else (splitOnC ';' f).mapM parseTEntry

def mkRec (t : List TEntry) : Rec where
  getInt k := (t.find? (·.key = k)).bind (·.i)
  getStr k := (t.find? (·.key = k)).bind (·.s)
  getBool k := (t.find? (·.key = k)).bind (·.b)
  getFloat k := (t.find? (·.key = k)).bind (·.f)
  has k := match t.find? (·.key = k) with | some e => e.e | none => false

/-- records field: `~` or `<hexjson>/<table>/<table>|…` → the accessor tables in order (JSON form, struct form). -/
def parseRecs (f : L) : Option (List (List TEntry)) :=
  if f = ['~'] then some [] else
  (splitOnC '|' f).foldr (fun r acc =>
    match acc, splitOnC '/' r with
    | some a, [_, t1, t2] =>
      match parseTable t1, parseTable t2 with
      | some x, some y => some (x :: y :: a)
      | _, _ => none
    | _, _ => none) (some [])

/-! ### API trees -/

def parseArg (s : L) : Option Arg :=
  match s with
  | 'i' :: r => (intOf r).map .int
  | 'u' :: r => (natOf r).map .uint
  | 'f' :: r => match splitOnC ':' r with
    | [_, t] => (unhx t).map .float
    | _ => none
  | ['b', '1'] => some (.bool true)
  | ['b', '0'] => some (.bool false)
  | 's' :: r => (unhx r).map .str
  | 'l' :: r => if r = [] then some (.strs []) else ((splitOnC ';' r).mapM unhx).map .strs
  | ['n'] => some .nil
  | ['z'] => some .other
  | _ => none

/-- API tree before `Where` is applied. -/
inductive Tree where
  | w (key : Tok) (op : Nat) (a : Arg)
  | and (l : List Tree) | or (l : List Tree) | not (t : Tree)

def untilAny (stops : L) : L → L × L
  | [] => ([], [])
  | c :: r => if stops.contains c then ([], c :: r) else let (a, b) := untilAny stops r; (c :: a, b)

mutual
partial def pTree : L → Option (Tree × L)
  | 'W' :: '(' :: r =>
    let (k, r1) := untilAny [','] r
    let (o, r2) := untilAny [','] (r1.drop 1)
    let (a, r3) := untilAny [')'] (r2.drop 1)
    match unhx k, natOf o, parseArg a, r3 with
    | some key, some op, some arg, ')' :: r4 => some (.w key op arg, r4)
    | _, _, _, _ => none
  | 'N' :: '[' :: r => match pTree r with
    | some (t, ']' :: r') => some (.not t, r')
    | _ => none
  | 'A' :: '[' :: r => (pTrees r).map fun (l, r') => (.and l, r')
  | 'O' :: '[' :: r => (pTrees r).map fun (l, r') => (.or l, r')
  | _ => none
partial def pTrees : L → Option (List Tree × L)
  | ']' :: r => some ([], r)
  | s => match pTree s with
    | some (t, ';' :: r) => match pTrees r with
      | some (l, r') => if l.isEmpty then none else some (t :: l, r')
      | none => none
    | some (t, ']' :: r) => some ([t], r)
    | _ => none
end

instance : Inhabited Cond := ⟨.bad .operator⟩

partial def Tree.cond (O : Oracle) : Tree → Cond
  | .w k op a => mkWhere O k op a
  | .and l => .and (l.map (Tree.cond O))
  | .or l => .or (l.map (Tree.cond O))
  | .not t => .not (t.cond O)

partial def Tree.tokens : Tree → List Tok
  | .w _ _ a => match a with
    | .str s => [s]
    | .float t => [t]
    | .int i => [showInt i]
    | .uint n => [showNat n]
    | _ => []
  | .and l => (l.map Tree.tokens).flatten
  | .or l => (l.map Tree.tokens).flatten
  | .not t => t.tokens

/-! ### canonical dump (mirror of `VerifDump`) -/

partial def dumpCond : Cond → String
  | .and cs => "A[" ++ ";".intercalate (cs.map dumpCond) ++ "]"
  | .or cs => "O[" ++ ";".intercalate (cs.map dumpCond) ++ "]"
  | .not c => "N[" ++ dumpCond c ++ "]"
  | .bad e => "X(" ++ e.str ++ ")"
  | .leaf k op v => match v with
    | .int i => s!"I({hx k},{op},{i})"
    | .float t => s!"F({hx k},{op},{hx t})"
    | .str s => s!"S({hx k},{op},{hx s})"
    | .strs l => s!"L({hx k},{op},{";".intercalate (l.map hx)})"
    | .regex t => s!"R({hx k},{op},{hx t})"
    | .bool b => s!"B({hx k},{op},{if b then 1 else 0})"
    | .none => s!"E({hx k},{op})"

def dumpQuery (q : Query) : String :=
  let w := match q.where_ with | none => "-" | some c => dumpCond c
  s!"Q({hx q.dbName},{hx q.dbKeyPrefix},{w},{hx q.orderBy},{q.limit},{q.offset},1)"

/-! ### what the model is going to look up -/

partial def condLeaves : Cond → List (Tok × Nat × Val)
  | .leaf k op v => [(k, op, v)]
  | .bad _ => []
  | .and cs => (cs.map condLeaves).flatten
  | .or cs => (cs.map condLeaves).flatten
  | .not c => condLeaves c

def tablesCover (es : List OEntry) (rm : List (Tok × Tok × Bool)) (tabs : List (List TEntry)) (c : Option Cond) : Bool :=
  match c with
  | none => true
  | some c =>
    (condLeaves c).all fun (k, _, v) =>
      tabs.all (fun t => t.any (·.key = k)) &&
      (match v with
       | .float t => (es.find? (·.tok = t)).any (·.fbits.isSome)
       | .regex t => tabs.all fun tab => match (mkRec tab).getStr k with
         | none => true
         | some s => rm.any fun e => e.1 = t ∧ e.2.1 = s
       | _ => true)

def matchBits (O : Oracle) (q : Query) (tabs : List (List TEntry)) : String :=
  if tabs.isEmpty then "~" else
  String.ofList (tabs.map fun t => if q.matchesRec O (mkRec t) then '1' else '0')

def parseOut (O : Oracle) (es : List OEntry) (text : L) : String :=
  match lex text with
  | .error e => "err " ++ e.str
  | .ok toks =>
    if !toks.all (known es) then "oracle-missing" else
    match parseToks O toks with
    | .error e => "err " ++ e.str
    | .ok q =>
      -- the parsed query's own round trip
      let p := q.print
      match lex p with
      | .error e => s!"ok {dumpQuery q} {hx p} err:{e.str}"
      | .ok toks2 =>
        if !toks2.all (known es) then "oracle-missing" else
        match parseToks O toks2 with
        | .error e => s!"ok {dumpQuery q} {hx p} err:{e.str}"
        | .ok q2 => if q2.print = p then s!"ok {dumpQuery q} {hx p} same" else s!"ok {dumpQuery q} {hx p} diff:{hx q2.print}"

/-! ### sentences -/

def gapOf (s : L) : Option L :=
  if s = ['e'] then some [] else
  s.mapM fun c => if c = 's' then some ' ' else if c = 't' then some '\t' else if c = 'n' then some '\n' else if c = 'r' then some '\r' else none

def wordOf (s : L) : Option Word :=
  match s with
  | 'r' :: r => (unhx r).map (⟨.raw, ·⟩)
  | 'q' :: r => (unhx r).map (⟨.quoted, ·⟩)
  | 'b' :: r => (unhx r).map (⟨.bslash, ·⟩)
  | _ => none

mutual
partial def pS : L → Option (SCond × L)
  | 'W' :: '(' :: r =>
    let (g, r1) := untilAny [','] r
    let (k, r2) := untilAny [','] (r1.drop 1)
    let (o, r3) := untilAny [','] (r2.drop 1)
    let (n, r4) := untilAny [','] (r3.drop 1)
    let (v, r5) := untilAny [')'] (r4.drop 1)
    let val : Option (Option Word) := if v = ['!'] then some none else (wordOf v).map some
    match gapOf g, wordOf k, unhx o, natOf n, val, r5 with
    | some gap, some key, some opn, some neg, some vv, ')' :: r6 =>
      if gap.isEmpty || neg > 2 then none else some (.clause gap key opn neg vv, r6)
    | _, _, _, _, _, _ => none
  | c :: '(' :: r =>
    if c ≠ 'A' ∧ c ≠ 'O' then none else
    let (g, r1) := untilAny [','] r
    let (p, r2) := untilAny [','] (r1.drop 1)
    let (ng, r2') := untilAny [','] (r2.drop 1)
    let (n, r3) := untilAny [')'] (r2'.drop 1)
    match gapOf g, gapOf p, gapOf ng, r3 with
    | some gap, some pgap, some ngap, ')' :: '[' :: r4 =>
      if gap.isEmpty || (n ≠ ['0'] ∧ n ≠ ['1']) then none else
      match pSs r4 with
      | some (kids, r5) => some (.group (c = 'O') gap pgap ngap (n = ['1']) kids, r5)
      | none => none
    | _, _, _, _ => none
  | _ => none
partial def pSs : L → Option (List SCond × L)
  | s => match pS s with
    | some (t, ';' :: r) => match pSs r with
      | some (l, r') => some (t :: l, r')
      | none => none
    | some (t, ']' :: r) => some ([t], r)
    | _ => none
end

def optHexTok (s : L) : Option (Option Tok) := if s = ['!'] then some none else (unhx s).map some

def parseSentence (f : List L) : Option Sentence :=
  match f with
  | [g, p, w, ob, lim, off, st] =>
    let wv : Option (Option SCond) := if w = ['-'] then some none else
      match pS w with | some (c, []) => some (some c) | _ => none
    let obv : Option (Option Word) := if ob = ['-'] then some none else (wordOf ob).map some
    match gapOf g, wordOf p, wv, obv, optHexTok lim, optHexTok off with
    | some gap, some pw, some wc, some obw, some l, some o =>
      if gap.isEmpty || (st ≠ ['0'] ∧ st ≠ ['1']) then none
      else some ⟨gap, pw, wc, obw, l, o, st = ['1']⟩
    | _, _, _, _, _, _ => none
  | _ => none

partial def scondWords : SCond → List Tok
  | .clause _ _ _ _ v => match v with | some w => [w.text] | none => []
  | .group _ _ _ _ _ kids => (kids.map scondWords).flatten

/-! ### ops -/

def handle (line : String) : String :=
  match splitOnC ' ' line.toList with
  | [['l','e','x'], h] =>
    match unhx h with
    | none => "bad-op"
    | some text => match lex text with
      | .error e => "err " ++ e.str
      | .ok toks => if toks.isEmpty then "ok 0" else s!"ok {toks.length} {",".intercalate (toks.map hx)}"
  | [['l','e','x','b'], h] =>
    match unhxB h with
    | none => "bad-op"
    | some text => match B.lexBytes text with
      | .error e => "err " ++ e.str
      | .ok toks => if toks.isEmpty then "ok 0" else s!"ok {toks.length} {",".intercalate (toks.map hxB)}"
  | [['e','s','c','b'], h] =>
    -- Print of New("a:" + t): "query " ++ escapeString("a" + ":" + t)
    match unhxB h with
    | none => "bad-op"
    | some t => hxB ([0x71, 0x75, 0x65, 0x72, 0x79, 0x20] ++ B.escB (0x61 :: 0x3a :: t))
  | [['u','n','i','t','s'], h] =>
    match unhxB h with
    | none => "bad-op"
    | some t =>
      let us := B.units t
      if us.isEmpty then "ok 0" else s!"ok {us.length} {",".intercalate (us.map fun u => s!"{u.src.length}:{u.r}")}"
  | [['p','a','r','s','e'], h, o] =>
    match unhx h, parseOracle o with
    | some text, some es => parseOut (mkOracle es []) es text
    | _, _ => "bad-op"
  | [['r','t'], p, c0, ob, lim, off, o, rm, recs] =>
    -- "C:" = the query object was checked once before the condition was set: no effect on a fresh Check
    let c := match c0 with | 'C' :: ':' :: r => r | _ => c0
    let tree : Option (Option Tree) := if c = ['-'] then some none else
      match pTree c with | some (t, []) => some (some t) | _ => none
    match unhx p, tree, unhx ob, intOf lim, intOf off, parseOracle o, parseRm rm, parseRecs recs with
    | some pfx, some tr, some orderBy, some limit, some offset, some es, some rms, some tabs =>
      let O := mkOracle es rms
      if !(match tr with | none => true | some t => t.tokens.all (known es)) then "oracle-missing" else
      let q : Query := { Query.new pfx with where_ := tr.map (Tree.cond O), orderBy := orderBy, limit := limit, offset := offset }
      match q.check with
      | .error e => "err " ++ e.str
      | .ok q =>
        let p1 := q.print
        if !tablesCover es rms tabs q.where_ then "oracle-missing" else
        let m1 := matchBits O q tabs
        match lex p1 with
        | .error e => s!"ok {dumpQuery q} {hx p1} err {e.str} {m1}"
        | .ok toks =>
          if !toks.all (known es) then "oracle-missing" else
          match parseToks O toks with
          | .error e => s!"ok {dumpQuery q} {hx p1} err {e.str} {m1}"
          | .ok q2 =>
            if !tablesCover es rms tabs q2.where_ then "oracle-missing" else
            s!"ok {dumpQuery q} {hx p1} ok {dumpQuery q2} {hx q2.print} {m1} {matchBits O q2 tabs}"
    | _, _, _, _, _, _, _, _ => "bad-op"
  | ['g','s'] :: rest =>
    match rest with
    | [g, p, w, ob, lim, off, st, o] =>
      match parseSentence [g, p, w, ob, lim, off, st], parseOracle o with
      | some s, some es =>
        let words := match s.where_ with | none => [] | some c => scondWords c
        if !words.all (known es) then "oracle-missing" else
        let text := s.render
        hx text ++ " " ++ parseOut (mkOracle es []) es text
      | _, _ => "bad-op"
    | _ => "bad-op"
  | _ => "bad-op"

end PB.Drv.C11

def main : IO Unit := PB.Drv.lineLoop PB.Drv.C11.handle
