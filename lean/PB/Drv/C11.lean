import PB.Drv.Loop
/- Driver stub for C11 (model not built yet): every op is rejected. -/
def main : IO Unit := PB.Drv.lineLoop (fun _ => "bad-op")
