import PB.Drv.Loop
/- Driver stub for C20 (model not built yet): every op is rejected. -/
def main : IO Unit := PB.Drv.lineLoop (fun _ => "bad-op")
