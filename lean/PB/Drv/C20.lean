import PB.Model.Log
import PB.Drv.Loop
/-
Driver for C20. A case is the recorded trace of one scenario run of the real logger (see
harness/cmd/hx-c20): the driver replays the writer goroutine's events through `wstep` (predicting every
adapter write), every producer call through `pstep`, checks channel FIFO per goroutine on the dequeue
order, and finally runs `checkRun` on the adapter output. `lv` lines are sequential probes of the level
filter (`enabled`), `at` lines of the decision of `AddTracer`; `ta` lines are the `AddTracer` calls recorded in a
scenario (origin, configuration in force, outcome), replayed through the model's `addTracer`.
-/
namespace PB.Drv.C20
open PB.Log

structure DS where
  np : Nat := 0
  cfgs : List (Nat × Levels) := []
  items : List (Nat × Item) := []      -- newest first
  outs : List OutW := []               -- newest first
  w : Writer := Writer.init
  expW : List Write := []              -- predicted adapter writes not yet observed
  last : List (Nat × Nat) := []        -- per goroutine: sequence number of its last dequeued line
  metaFail : Option String := none
  lateFrom : Option Nat := none       -- adapter writes made before Shutdown returned, if some came later
  deriving Inhabited

def nat? (s : String) : Option Nat := s.toNat?

def splitC (s : String) (c : Char) : List String := (s.split (· == c)).map (·.toString) |>.toList

def parsePkgs (s : String) : Option (List (Nat × Nat)) :=
  if s == "-" then some [] else
  (splitC s ',').mapM fun kv =>
    match splitC kv '=' with
    | [k, v] => do let a ← nat? k; let b ← nat? v; pure (a, b)
    | _ => none

def parseLevels (g a p : String) : Option Levels := do
  let glob ← nat? g
  let act ← nat? a
  let pk ← parsePkgs p
  pure { glob := glob, active := act != 0, pkgs := pk }

def parseNatList (s : String) : Option (List Nat) :=
  if s == "" then some [] else (splitC s ',').mapM nat?

def parseSeg (cfgs : List (Nat × Levels)) (s : String) : Option Seg :=
  match splitC s '*' with
  | [k, n] => do
    let cnt ← nat? n
    if k == "u" then pure { cfg := none, before := false, n := cnt }
    else match splitC k ':' with
      | [c, b] => do
        let ci ← nat? c
        let bi ← nat? b
        let lv ← cfgs.lookup ci
        pure { cfg := some lv, before := bi != 0, n := cnt }
      | _ => none
  | _ => none

def parseKind : String → Option Kind
  | "p" => some .plain | "t" => some .tracer | "x" => some .any | _ => none

/-- `gid:item:dups` or `gid:item:dups:e1,2,3` -/
def parseOut (s : String) : Option OutW :=
  match splitC s ':' with
  | [g, i, d] => do pure { gid := ← nat? g, item := ← nat? i, dups := ← nat? d, entries := none }
  | [g, i, d, e] =>
    if e.startsWith "e" then do
      let es ← parseNatList (e.drop 1).toString
      pure { gid := ← nat? g, item := ← nat? i, dups := ← nat? d, entries := some es }
    else none
  | _ => none

/-- `<out>` or `<out>*count`: `count` identical adapter writes in a row -/
def parseOutN (s : String) : Option (List OutW) :=
  match splitC s '*' with
  | [o] => (parseOut o).map ([·])
  | [o, n] => do
    let k ← nat? n
    if k = 0 then none else
    let w ← parseOut o
    pure (List.replicate k w)
  | _ => none

/-- line content `msgkey:lvl:file:line:tr` (file: id of the source file, line: its line number) -/
def parseLine (m l f n t : String) : Option Line := do
  let tr ← nat? t
  pure { msg := ← nat? m, lvl := ← nat? l, file := ← nat? f, line := ← nat? n,
         trace := if tr != 0 then some [] else none }

/-- strings travel hex-encoded (`-` = empty) -/
def hexVal (c : Char) : Option Nat :=
  if '0' ≤ c ∧ c ≤ '9' then some (c.toNat - '0'.toNat)
  else if 'a' ≤ c ∧ c ≤ 'f' then some (c.toNat - 'a'.toNat + 10) else none

def unhexBytes : List Char → Option (List UInt8)
  | [] => some []
  | a :: b :: rest => do
    let x ← hexVal a
    let y ← hexVal b
    let r ← unhexBytes rest
    pure (UInt8.ofNat (x * 16 + y) :: r)
  | _ => none

def unhex (s : String) : Option String :=
  if s == "-" then some "" else do
    let bs ← unhexBytes s.toList
    String.fromUTF8? (ByteArray.mk bs.toArray)

/-- the harness' numbering of package names -/
def pkgId (s : String) : Nat :=
  if s == "orga" then 0 else if s == "orgb" then 1 else if s == "orgc" then 2 else 9

/-- what a sweep over the severities 1…6 observes of a level in force -/
def clampLvl (l : Nat) : Nat := if l < 1 then 1 else if l > 7 then 7 else l

def setLast (l : List (Nat × Nat)) (g v : Nat) : List (Nat × Nat) :=
  (g, v) :: l.filter (fun x => x.1 != g)

/-- One writer token. Returns the new state or the reason for rejecting. -/
def wtoken (d : DS) (tok : String) : Except String DS :=
  let applyEv (d : DS) (e : WEv) : Except String DS :=
    if d.expW != [] then .error "write-missing"
    else match wstep d.w e with
      | none => .error "not-enabled"
      | some (w', o) => .ok { d with w := w', expW := o }
  match splitC tok ':' with
  | ["token"] => applyEv d .token
  | ["unset"] => applyEv d .unset
  | ["force"] => applyEv d .force
  | ["slot"] => applyEv d .slot
  | ["shut"] => applyEv d .shut
  | ["empty"] => applyEv d .empty
  | ["timer"] => applyEv d .timer
  | ["ftimeout"] => applyEv d .ftimeout
  | ["W", m, l, f, n, t, dp] =>
    match parseLine m l f n t, nat? dp with
    | some ln, some dups =>
      match d.expW with
      | [] => .error "write-unpredicted"
      | (el, ed) :: rest =>
        if el == ln && ed == dups then .ok { d with expW := rest } else .error "write-differs"
    | _, _ => .error "bad-token"
  | [k, id, m, l, f, n, t] =>
    match parseLine m l f n t, splitC id '.' with
    | some ln, [g, q] =>
      match nat? g, nat? q with
      | some gi, some qi =>
        -- channel FIFO per goroutine: its lines leave the buffer in the order it created them
        -- (sequence number 0: a line logged before Start, replayed by a helper goroutine — unordered)
        if qi != 0 && (d.last.lookup gi).getD 0 ≥ qi then .error "fifo"
        else
          let d := if qi != 0 then { d with last := setLast d.last gi qi } else d
          if k == "deq" then applyEv d (.deq ln)
          else if k == "fdeq" then applyEv d (.fdeq ln)
          else .error "bad-token"
      | _, _ => .error "bad-token"
    | _, _ => .error "bad-token"
  | _ => .error "bad-token"

def wline (d : DS) (toks : List String) : DS × String :=
  let rec go (d : DS) (k : Nat) : List String → DS × String
    | [] => (d, "ok")
    | t :: ts =>
      match wtoken d t with
      | .ok d' => go d' (k + 1) ts
      | .error why => (d, s!"reject {k} {why}")
  go d 0 toks

/-- One producer call, from the creation of its line to the return of `log()`/`Submit()`. -/
def pline (toks : List String) : String :=
  let rec go (ps : PState) (k : Nat) : List String → String
    | [] => "reject end"
    | t :: ts =>
      let ev : Option (Option PEv) :=     -- none: bad token; some none: `ret`
        match t with
        | "enq" => some (some .enq) | "full" => some (some .full) | "forced" => some (some .forced)
        | "enqB" => some (some .enqB) | "won" => some (some (.flag true)) | "tok" => some (some .tok)
        | "tokFull" => some (some .tokFull) | "ret" => some none | _ => none
      match ev with
      | none => s!"reject {k} bad-token"
      | some none =>
        -- returning without `won`: SetToIf found the flag already set
        let ps' := match ps with | .sent => (pstep ps (.flag false)).getD ps | _ => ps
        if ps' == .idle && ts.isEmpty then "ok" else s!"reject {k} ret"
      | some (some .tokFull) => s!"reject {k} token-dropped"   -- unreachable by `token_never_dropped`
      | some (some e) =>
        match pstep ps e with
        | none => s!"reject {k} not-enabled"
        | some ps' => go ps' (k + 1) ts
  match toks with
  | "line" :: rest => go (.ready default) 1 rest
  | _ => "reject 0 no-line"

def expsOf (d : DS) (gid : Nat) : List Item :=
  (d.items.filter (·.1 == gid)).map (·.2) |>.reverse

def showVerdict : Verdict → String
  | .pass => "pass"
  | .fail c g i => s!"fail {c} g{g} i{i}"

def handle (d : DS) (line : String) : DS × String :=
  match PB.Drv.words line with
  | "scenario" :: _ => (d, "ok")
  | ["np", n] => match nat? n with | some k => ({ d with np := k }, "ok") | none => (d, "bad-op")
  | ["cfg", id, g, a, p] =>
    match nat? id, parseLevels g a p with
    | some i, some lv => ({ d with cfgs := (i, lv) :: d.cfgs }, "ok")
    | _, _ => (d, "bad-op")
  | "item" :: g :: i :: l :: o :: k :: segs :: rest =>
    let ents : Option (List Nat) := match rest with
      | [] => some []
      | [e] => if e.startsWith "e" then parseNatList (e.drop 1).toString else none
      | _ => none
    match nat? g, nat? i, nat? l, nat? o, parseKind k, (splitC segs ',').mapM (parseSeg d.cfgs), ents with
    | some gi, some ii, some li, some oi, some ki, some ss, some es =>
      -- a collected entry travels as `text id * 8 + severity` (harness: entID): the lowest severity carried
      let low := if ki == .tracer then es.foldl (fun m e => min m (e % 8)) li else li
      ({ d with items := (gi, { item := ii, lvl := li, org := oi, kind := ki, segs := ss, entries := es, low := low }) :: d.items }, "ok")
    | _, _, _, _, _, _, _ => (d, "bad-op")
  | "p" :: _ :: _ :: toks => (d, pline toks)
  | "w" :: toks => wline d toks
  | "out" :: toks =>
    match toks.mapM parseOutN with
    | some os => ({ d with outs := os.flatten.reverse ++ d.outs }, "ok")
    | none => (d, "bad-op")
  | "meta" :: kvs =>
    let bad := kvs.filterMap fun kv =>
      if kv.startsWith "quiesce=timeout" then some "quiesce-timeout"
      else if kv == "hang=1" then some "shutdown-hang"
      else none
    let late := kvs.any fun kv => kv.startsWith "after_return=" && kv != "after_return=0"
    let atRet := kvs.findSome? fun kv =>
      if kv.startsWith "writes_at_return=" then nat? (kv.drop "writes_at_return=".length).toString else none
    ({ d with metaFail := bad.head?, lateFrom := if late then atRet else none }, "ok")
  | ["check"] =>
    if d.expW != [] then (d, "fail write-missing")
    else match d.metaFail with
      | some m => (d, s!"fail {m}")
      | none =>
        let outs := d.outs.reverse
        -- writes after Shutdown returned: what had to be written before the return is judged on the
        -- writes made until then
        match d.lateFrom with
        | some n =>
          if checkRun d.np (expsOf d) (outs.take n) != .pass then (d, "fail write-after-return")
          else (d, showVerdict (checkRun d.np (expsOf d) outs))
        | none => (d, showVerdict (checkRun d.np (expsOf d) outs))
  | ["pl", h] =>
    match unhex h with
    | some str => (d, s!"n={parseLevel str}")
    | none => (d, "bad-op")
  | ["nm", n] =>
    match nat? n with
    | some k => (d, s!"s={severityName k}")
    | none => (d, "bad-op")
  | "start" :: lf :: pf :: g :: a :: p :: _ =>
    match unhex lf, unhex pf, parseLevels g a p with
    | some l, some q, some pre =>
      let c := startLevels pkgId pre l q
      (d, s!"thr {clampLvl (threshold c 0)} {clampLvl (threshold c 1)} {clampLvl (threshold c 2)} {c.glob}")
    | _, _, _ => (d, "bad-op")
  | ["at", g, a, p, pk, mode, l] =>
    -- probe of `AddTracer` on the real package: fresh context / nil context / context that carries a tracer;
    -- one line of severity `l` goes through whatever came back and is submitted: a live tracer hands it to the
    -- writer unconditionally, a nil tracer logs it as a plain call (`fastcheck`, then the filter of `log()`)
    match parseLevels g a p, (if pk == "-" then some none else (nat? pk).map some : Option (Option Nat)), nat? l with
    | some lv, some pk', some li =>
      let answer (live : Bool) : String :=
        s!"t={if live then 1 else 0} e={if live || (fastcheck lv li && enabled lv pk' li) then 1 else 0}"
      if !isSeverity li then (d, "bad-op") else
      match mode with
      | "fresh" => (d, answer (addTracer lv false true pk' false))
      | "nil" => (d, answer (addTracer lv true true pk' false))
      | "existing" => (d, answer (addTracer lv false true pk' true))
      | _ => (d, "bad-op")
    | _, _, _ => (d, "bad-op")
  | ["ta", c, o, ex, live] =>
    -- recorded in a scenario: `AddTracer` called from origin `o` while configuration `c` was in force
    match nat? c, nat? o, nat? ex, nat? live with
    | some ci, some oi, some ei, some li =>
      match d.cfgs.lookup ci with
      | some lv => (d, if addTracer lv false true (some oi) (ei != 0) == (li != 0) then "ok" else "reject addtracer")
      | none => (d, "bad-op")
    | _, _, _, _ => (d, "bad-op")
  | ["lv", g, a, p, pk, l] =>
    match parseLevels g a p, nat? l with
    | some lv, some li =>
      let pkg : Option (Option Nat) := if pk == "-" then some none else (nat? pk).map some
      match pkg with
      | some pk' => (d, s!"e={if fastcheck lv li && enabled lv pk' li then 1 else 0}")
      | none => (d, "bad-op")
    | _, _ => (d, "bad-op")
  | _ => (d, "bad-op")

end PB.Drv.C20

def main : IO Unit := PB.Drv.runState (default : PB.Drv.C20.DS) PB.Drv.C20.handle
