import PB.Model.Dsd
import PB.Drv.Loop
/-
Driver for C09: one dsd-package call per line. The third-party codecs and gzip are parameters of the model;
the harness supplies their results as *fact* lines (`enc`, `enci`, `raw`, `cd`, `gz`, `gun`, `gze`) that it
computed with the real libraries (and that the implementation side re-verifies). Everything that is not a
registered fact fails, exactly as the real library does on the inputs of the case.
Values are opaque ids (`vid`); strings travel as hex of their UTF-8 bytes.

`cfg s c` assigns the two package variables (`Cfg`), as the executor does on the real package. Every successful
dump (Dump / DumpIndent / DumpAndCompress / MimeDump / DumpToHTTPRequest / DumpToHTTPResponse) is also *held*
(the last 16); `held` loads every held result again, after whatever was done in between. The model is a set of
pure functions, so for the model a held result is just the value it was; the executor holds the very slice /
body the package returned.
-/
namespace PB.Drv.C09
open PB PB.Dsd PB.Gen.Dsd

/-- A result kept for later: a dsd blob, or (mime type, data) of MimeDump / an HTTP request / response. -/
inductive Held where
  | blob (b : Bytes)
  | mime (t : Str) (d : Bytes)

def heldCap : Nat := 16

structure St where
  cfg : Cfg := Cfg.init
  held : List Held := []   -- newest first
  encs : List (Lib × Bytes) := []
  encIs : List (Str × Bytes) := []
  raw : Option Bytes := none
  decs : List ((Lib × Bytes) × String) := []
  gzs : List (Bytes × Bytes) := []
  gunzs : List (Bytes × Except Err Bytes) := []
  blob : Bytes := []
  mdata : Bytes := []
  mtype : Str := []
  req : Req := {}
  resp : Resp := {}

def St.codec (s : St) : Codec String where
  enc l _ := lookup l s.encs
  encIndent i _ := lookup i s.encIs
  dec l b := lookup (l, b) s.decs
  asBytes _ := s.raw
  gz b := (lookup b s.gzs).getD []
  gunz b := (lookup b s.gunzs).getD (.error .gunzip)

def parseLib : String → Option Lib
  | "json" => some .json | "yaml" => some .yaml | "cbor" => some .cbor
  | "msgpack" => some .msgpack | "gencode" => some .gencode | _ => none

def strOfBytes (b : Bytes) : Option Str :=
  (String.fromUTF8? (ByteArray.mk b.toArray)).map (fun s => s.toList.map Char.toNat)

def bytesOfStr (s : Str) : Bytes := (String.ofList (s.map Char.ofNat)).toUTF8.toList

def parseStr (w : String) : Option Str := (parseHex w).bind strOfBytes

def hexStr (s : Str) : String := toHex (bytesOfStr s)

def optStr : Option Str → String
  | none => "nil"
  | some s => hexStr s

def optBytes : Option Bytes → String
  | none => "nil"
  | some b => toHex b

/-- Byte operand: `@` last dumped blob, `@1` the same without its first byte, `@m` last MimeDump data, else hex. -/
def operand (s : St) (w : String) : Option Bytes :=
  if w = "@" then some s.blob
  else if w = "@1" then some (s.blob.drop 1)
  else if w = "@m" then some s.mdata
  else parseHex w

/-- String operand: `@t` last MimeDump mime type, else hex of UTF-8. -/
def strOperand (s : St) (w : String) : Option Str :=
  if w = "@t" then some s.mtype else parseStr w

def optStrOperand (w : String) : Option (Option Str) :=
  if w = "nil" then some none else (parseStr w).map some

def optBytesOperand (w : String) : Option (Option Bytes) :=
  if w = "nil" then some none else (parseHex w).map some

def showLoad : Nat × Except Err String → String
  | (f, .ok v) => s!"{f} ok {v}"
  | (f, .error e) => s!"{f} err {e.str}"

def St.hold (s : St) (h : Held) : St := { s with held := (h :: s.held).take heldCap }

def showDump (s : St) : Except Err Bytes → St × String
  | .ok b => ({ s with blob := b }.hold (.blob b), s!"ok {toHex b}")
  | .error e => (s, s!"err {e.str}")

/-- Loading a held result now (current `cfg`, current facts). A pure function never changes a value it returned:
    the flag is always `same`. -/
def showHeld (s : St) : Held → String
  | .blob b => "same " ++ showLoad (load s.cfg s.codec b)
  | .mime t d => "same " ++ showLoad (mimeLoad s.cfg s.codec d t)

def errStr : Option Err → String
  | none => "ok"
  | some e => s!"err {e.str}"

def listNat (l : List Nat) : String := " ".intercalate (l.map toString)

/-- Code points ≥ 128 below `0x110000` that `goLower` sends to ASCII (compared with Go's `unicode.ToLower`). -/
def lowerScan : List Nat := (List.range 0x110000).filter (fun c => c ≥ 128 ∧ goLower c < 128)

def spaceScan : List Nat := (List.range 0x110000).filter isSpace

def step (s : St) (line : String) : St × String :=
  let bad := (s, "bad-op")
  match PB.Drv.words line with
  | ["val", _, _] => ({ s with encs := [], encIs := [], raw := none }, "ok")
  | ["cfg", a, b] =>
    match a.toNat?, b.toNat? with
    | some a, some b => if a < 256 ∧ b < 256 then ({ s with cfg := { defSer := a, defComp := b } }, "ok") else bad
    | _, _ => bad
  | ["held"] =>
    (s, if s.held.isEmpty then "none" else " | ".intercalate (s.held.reverse.map (showHeld s)))
  | ["enc", l, h] =>
    match parseLib l, parseHex h with
    | some l, some b => ({ s with encs := (l, b) :: s.encs }, "ok")
    | _, _ => bad
  | ["enci", i, h] =>
    match parseStr i, parseHex h with
    | some i, some b => ({ s with encIs := (i, b) :: s.encIs }, "ok")
    | _, _ => bad
  | ["raw", h] =>
    match parseHex h with
    | some b => ({ s with raw := some b }, "ok")
    | none => bad
  | ["cd", l, h, vid] =>
    match parseLib l, parseHex h with
    | some l, some b => ({ s with decs := ((l, b), vid) :: s.decs }, "ok")
    | _, _ => bad
  | ["gz", p, c] =>
    match parseHex p, parseHex c with
    | some p, some c => ({ s with gzs := (p, c) :: s.gzs, gunzs := (c, .ok p) :: s.gunzs }, "ok")
    | _, _ => bad
  | ["gun", c, p] =>
    match parseHex c, parseHex p with
    | some c, some p => ({ s with gunzs := (c, .ok p) :: s.gunzs }, "ok")
    | _, _ => bad
  | ["gze", c] =>
    match parseHex c with
    | some c => ({ s with gunzs := (c, .error .eof) :: s.gunzs }, "ok")
    | none => bad
  | ["dump", f] =>
    match f.toNat? with
    | some f => showDump s (dump s.cfg s.codec "" f)
    | none => bad
  | ["dumpi", f, i] =>
    match f.toNat?, parseStr i with
    | some f, some i => showDump s (dumpIndent s.cfg s.codec "" f i)
    | _, _ => bad
  | ["dac", f, c] =>
    match f.toNat?, c.toNat? with
    | some f, some c =>
      -- never default silently: the gzip fact for the blob about to be compressed must have been supplied
      match dump s.cfg s.codec "" f with
      | .ok b =>
        if (validateCompressionFormat s.cfg.defComp c).isSome ∧ (lookup b s.gzs).isNone then (s, "missing-fact gz " ++ toHex b)
        else showDump s (dumpAndCompress s.cfg s.codec "" f c)
      | .error _ => showDump s (dumpAndCompress s.cfg s.codec "" f c)
    | _, _ => bad
  | ["load", o] =>
    match operand s o with
    | some b => (s, showLoad (load s.cfg s.codec b))
    | none => bad
  | ["laf", f, o] =>
    match f.toNat?, operand s o with
    | some f, some b =>
      (s, match loadAsFormat s.codec b f with
          | .ok v => s!"ok {v}"
          | .error e => s!"err {e.str}")
    | _, _ => bad
  | ["dal", c, o] =>
    match c.toNat?, operand s o with
    | some c, some b => (s, showLoad (decompressAndLoad s.cfg s.codec b c))
    | _, _ => bad
  | ["ffa", a] =>
    match parseStr a with
    | some a => (s, toString (formatFromAccept s.cfg.defSer a))
    | none => bad
  | ["mimedump", a] =>
    match parseStr a with
    | some a =>
      match mimeDump s.cfg s.codec "" a with
      | .ok (d, m, f) => ({ s with mdata := d, mtype := m }.hold (.mime m d), s!"ok {f} {hexStr m} {toHex d}")
      | .error e => (s, s!"err {e.str}")
    | none => bad
  | ["mimeload", a, o] =>
    match strOperand s a, operand s o with
    | some a, some b => (s, showLoad (mimeLoad s.cfg s.codec b a))
    | _, _ => bad
  | ["newreq"] => ({ s with req := {} }, "ok")
  | ["req", f] =>
    match f.toNat? with
    | some f =>
      let (r, e) := dumpToHTTPRequest s.cfg s.codec s.req "" f
      let s' := { s with req := r }
      let s' := match e, r.contentType, r.body with
        | none, some t, some d => s'.hold (.mime t d)
        | _, _, _ => s'
      (s', s!"{errStr e} a={optStr r.accept} ct={optStr r.contentType} body={optBytes r.body}")
    | none => bad
  | ["setreq", a, ct, b] =>
    match optStrOperand a, optStrOperand ct, optBytesOperand b with
    | some a, some ct, some b => ({ s with req := { accept := a, contentType := ct, body := b } }, "ok")
    | _, _, _ => bad
  | ["loadreq"] => (s, showLoad (loadFromHTTPRequest s.cfg s.codec s.req))
  | ["resp"] =>
    let (w, e) := dumpToHTTPResponse s.cfg s.codec {} s.req ""
    let s' := { s with resp := w }
    let s' := match e, w.contentType with
      | none, some t => s'.hold (.mime t w.body)
      | _, _ => s'
    (s', s!"{errStr e} ct={optStr w.contentType} body={toHex w.body}")
  | ["setresp", ct, b] =>
    match optStrOperand ct, parseHex b with
    | some ct, some b => ({ s with resp := { contentType := ct, body := b } }, "ok")
    | _, _ => bad
  | ["loadresp"] => (s, showLoad (loadFromHTTPResponse s.cfg s.codec s.resp))
  | ["lowerscan"] => (s, listNat lowerScan)
  | ["spacescan"] => (s, listNat spaceScan)
  | _ => bad

end PB.Drv.C09

def main : IO Unit := PB.Drv.runState ({} : PB.Drv.C09.St) PB.Drv.C09.step
