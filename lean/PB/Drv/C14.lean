import PB.Model.Subs
import PB.Model.SubsConc
import PB.Model.HooksConc
import PB.Drv.Loop
/- Driver for C14: one database operation per line on the sequential model (`PB.Subs`), and an acceptor for
   recorded concurrent traces (`ev …` / `obs …` lines) on the interleaving model (`PB.SubsConc`). -/
namespace PB.Drv.C14
open PB.Subs

/-- Conditions of the harness' little condition language (fields N : int, S : string). -/
inductive Cond where
  | gt (k : Int) | lt (k : Int) | eq (k : Int)
  | sa (s : String) | sw (s : String)
  | not (c : Cond) | and (a b : Cond) | or (a b : Cond)
  | bad

def Cond.eval : Cond → Rec → Bool
  | .gt k, r => r.n > k
  | .lt k, r => r.n < k
  | .eq k, r => r.n == k
  | .sa s, r => r.s == s
  | .sw s, r => r.s.startsWith s
  | .not c, r => !c.eval r
  | .and a b, r => a.eval r && b.eval r
  | .or a b, r => a.eval r || b.eval r
  | .bad, _ => false

def Cond.isBad : Cond → Bool
  | .bad => true
  | .not c => c.isBad
  | .and a b => a.isBad || b.isBad
  | .or a b => a.isBad || b.isBad
  | _ => false

/-- Polish notation, `fuel` bounds the recursion. Returns the condition and the remaining tokens. -/
def parseCond : Nat → List String → Option (Cond × List String)
  | 0, _ => none
  | fuel + 1, t =>
    match t with
    | "bad" :: rest => some (.bad, rest)
    | "gt" :: v :: rest => v.toInt?.map (fun k => (.gt k, rest))
    | "lt" :: v :: rest => v.toInt?.map (fun k => (.lt k, rest))
    | "eq" :: v :: rest => v.toInt?.map (fun k => (.eq k, rest))
    | "sa" :: v :: rest => some (.sa v, rest)
    | "sw" :: v :: rest => some (.sw v, rest)
    | "!" :: rest => (parseCond fuel rest).map (fun (c, r) => (.not c, r))
    | "&" :: rest =>
      match parseCond fuel rest with
      | some (a, r1) => (parseCond fuel r1).map (fun (b, r2) => (.and a b, r2))
      | none => none
    | "|" :: rest =>
      match parseCond fuel rest with
      | some (a, r1) => (parseCond fuel r1).map (fun (b, r2) => (.or a b, r2))
      | none => none
    | _ => none

def okKeyChar (c : Char) : Bool := (c ≥ 'a' && c ≤ 'z') || (c ≥ '0' && c ≤ '9') || c == '/'
def okKey (k : String) : Bool := k != "" && k != "-" && k.toList.all okKeyChar
def okStr (s : String) : Bool := s != "" && s.toList.all (fun c => (c ≥ 'a' && c ≤ 'z') || (c ≥ '0' && c ≤ '9') || c == '-')
def okFlags (f : String) : Bool :=
  f == "-" || (f != "" && f.toList.all (fun c => "scdpf".toList.contains c) && !(f.toList.contains 'p' && f.toList.contains 'f'))

def mkQuery (pre : String) (c : Option Cond) : Query :=
  { bad := match c with | some c => c.isBad | none => false
    keyOk := fun k => k.startsWith pre
    recOk := fun r => match c with | some c => c.eval r | none => true }

def parseQuery (pre : String) (toks : List String) : Option Query :=
  if !(pre == "-" || okKey pre) then none else
  let p := if pre == "-" then "" else pre
  match toks with
  | ["T"] => some (mkQuery p none)
  | _ => match parseCond (toks.length + 1) toks with
    | some (c, []) => some (mkQuery p (some c))
    | _ => none

/-- Interface option code: base letters L I S C E (or "-"), optional "+w" (delayed writes). -/
def parseIface (code : String) : Option Opts :=
  let (base, delayed) := match code.splitOn "+" with
    | [b] => (b, some false)
    | [b, "w"] => (b, some true)
    | _ => ("", none)
  match delayed with
  | none => none
  | some d =>
    if base == "-" then (if d then none else some { loc := false, int := false })
    else if base == "" || !(base.toList.all (fun c => "LISCE".toList.contains c)) then none
    else if d && base != "LI" then none
    else some { loc := base.toList.contains 'L', int := base.toList.contains 'I',
                alwaysSecret := base.toList.contains 'S', alwaysCJ := base.toList.contains 'C', delayed := d,
                alwaysExp := base.toList.contains 'E' }

def parseFlags (f : String) : Meta :=
  let l := f.toList
  { secret := l.contains 's', cj := l.contains 'c', deleted := l.contains 'd',
    expires := if l.contains 'p' then 1 else if l.contains 'f' then 2 else 0 }

def fmtRec (r : Rec) : String :=
  let m := r.md
  let fl := (if m.secret then "s" else "-") ++ (if m.cj then "c" else "-") ++ (if m.deleted then "d" else "-")
    ++ (if m.expires == 0 then "-" else if m.expires == 1 then "p" else "f")
  s!"{r.key};{r.n};{r.s};{fl}"

/-- Behaviour token of one hook phase. -/
inductive Beh where
  | unused | pass | veto (c : Nat) | set (n : Int) | hide

def parseBeh (recPhase : Bool) (b : String) : Option Beh :=
  if b == "-" then some .unused
  else if b == "p" then some .pass
  else if recPhase && b == "x" then some .hide
  else if b.startsWith "v" then ((b.drop 1).toString.toNat?).map .veto
  else if recPhase && b.startsWith "s" then ((b.drop 1).toString.toInt?).map .set
  else none

def Beh.uses : Beh → Bool
  | .unused => false
  | _ => true

def Beh.onKey : Beh → Option Nat
  | .veto c => some c
  | _ => none

def Beh.onRec : Beh → Rec → HookRes
  | .veto c, _ => .veto c
  | .set n, r => .replace { r with n := n }
  | .hide, r => .replace { r with md := { r.md with deleted := true } }
  | _, _ => .pass

structure D where
  st : Option St := none
  queries : List (String × Query) := []
  /-- hook values (objects) of the case: identity → behaviour tokens -/
  behs : List (Nat × String × String × String) := []
  /-- registrations: registration identity → hook value -/
  regs : List (Nat × Nat) := []
  /-- providers registered on the runtime registry -/
  pids : List Nat := []
  sids : List Nat := []
  conc : PB.SubsConc.Acc := {}
  hconc : PB.HooksConc.HAcc := {}
  /-- which acceptor the `ev` / `obs` lines of the current case go to: the `hconc` header selects the hook protocol -/
  hmode : Bool := false

/-- A call is printed as the implementation's hook value sees it: `h<hook value>`, not the registration. -/
def fmtCall (d : D) (c : Call) : String :=
  let obj := match d.regs.find? (·.1 == c.hook) with
    | some (_, o) => o
    | none => c.hook
  let (pg, og, pp) := match d.behs.find? (·.1 == obj) with
    | some (_, x) => x
    | none => ("?", "?", "?")
  match c.phase with
  | .preGet => s!"h{obj}.pg({c.key})>{pg}"
  | .postGet => s!"h{obj}.og({match c.arg with | some r => fmtRec r | none => "?"})>{og}"
  | .prePut => s!"h{obj}.pp({match c.arg with | some r => fmtRec r | none => "?"})>{pp}"

def fmtErr : Err → String
  | .notfound => "notfound" | .denied => "denied" | .readonly => "readonly" | .notimpl => "notimpl"
  | .unmanaged => "unmanaged" | .query => "query" | .veto c => s!"veto{c}"
  | .notinjected => "notinjected" | .injected => "injected" | .taken => "taken"

def fmtOut (d : D) (o : Out) : String :=
  let cs := String.join (o.calls.map (fun c => " " ++ fmtCall d c))
  match o.flag, o.res with
  | some b, .ok _ => (if b then "ok true" else "ok false") ++ cs
  | _, _ =>
  match o.res with
  | .ok none => "ok" ++ cs
  | .ok (some r) => "ok " ++ fmtRec r ++ cs
  | .error e => "err " ++ fmtErr e ++ cs

def insertSorted (x : Nat × List Rec × Bool) : List (Nat × List Rec × Bool) → List (Nat × List Rec × Bool)
  | [] => [x]
  | y :: ys => if x.1 ≤ y.1 then x :: y :: ys else y :: insertSorted x ys

def fmtFeeds (fs : List (Nat × List Rec × Bool)) : String :=
  if fs.isEmpty then "-" else
  let sorted := fs.foldr insertSorted []
  " ".intercalate (sorted.map (fun (id, recs, closed) =>
    s!"s{id}=[{",".intercalate (recs.map fmtRec)}]" ++ (if closed then "x" else "")))

def parseSpec : List String → Option PB.SubsConc.SubSpec
  | sid :: ic :: pre :: toks =>
    match PB.SubsConc.tagNum 's' sid, parseIface ic, parseQuery pre toks with
    | some id, some o, some q => if q.bad || o.delayed then none else some ⟨id, o.loc, o.int, q⟩
    | _, _, _ => none
  | _ => none

def parseRecSpec : List String → Option Rec
  | [key, n, s, fl] =>
    match n.toInt? with
    | some n => if !okKey key || !okStr s || !okFlags fl then none else some ⟨key, n, s, parseFlags fl⟩
    | none => none
  | _ => none

/-- Database operations go through the registry front (`rstep`): for every storage but a runtime registry that has
    not been injected yet this is `step`. -/
def doOp (d : D) (st : St) (op : Op) : D × String :=
  let (st', o) := if st.cfg.kind == .reg then rstep st (.db op) else dstep st op
  ({ d with st := some st' }, fmtOut d o)

def doROp (d : D) (st : St) (op : ROp) : D × String :=
  let (st', o) := rstep st op
  ({ d with st := some st' }, fmtOut d o)

def mkHook (rid obj : Nat) (q : Query) (pg og pp : String) : Option Hook :=
  match parseBeh false pg, parseBeh true og, parseBeh true pp with
  | some bpg, some bog, some bpp =>
    some { id := rid, obj := obj, q := q, usesPreGet := bpg.uses, usesPostGet := bog.uses, usesPrePut := bpp.uses,
           preGet := fun _ => bpg.onKey, postGet := bog.onRec, prePut := bpp.onRec }
  | _, _, _ => none

def isNum (s : String) : Bool := s.toNat?.isSome

def handle (d : D) (line : String) : D × String :=
  let bad := (d, "bad-op")
  let w := PB.Drv.words line
  match w with
  | "hconc" :: _ | "ch" :: _ | "cr" :: _ | "cg" :: _ =>
    let (a, o) := PB.HooksConc.accept d.hconc w parseQuery parseRecSpec
    ({ d with hconc := a, hmode := true }, o)
  | "conc" :: _ | "cs" :: _ | "cw" :: _ =>
    let (a, o) := PB.SubsConc.accept d.conc w parseSpec parseRecSpec
    ({ d with conc := a, hmode := false }, o)
  | "ev" :: _ | "obs" :: _ =>
    if d.hmode then
      let (a, o) := PB.HooksConc.accept d.hconc w parseQuery parseRecSpec
      ({ d with hconc := a }, o)
    else
      let (a, o) := PB.SubsConc.accept d.conc w parseSpec parseRecSpec
      ({ d with conc := a }, o)
  | ["db", kind, sh] =>
    if d.st.isSome || !(sh == "0" || sh == "1") then bad else
    let k : Option Kind := match kind with
      | "hashmap" => some .hashmap | "bbolt" => some .bbolt | "inj" => some .inj | "reg" => some .reg | "pushonly" => some .pushonly | _ => none
    match k with
    | none =>
      -- `db regraw 0`: a fresh runtime registry and nothing else — no provider, not injected
      if kind == "regraw" && sh == "0" then ({ d with st := some St.initReg }, "ok") else bad
    | some .reg =>
      -- `db reg 0`: the order the runtime module itself uses — inject, then one provider (0) on the prefix `a/`
      if sh == "1" then bad else
      ({ d with st := some (rrun St.initReg [.inject, .register 0 "a/"]).1, pids := [0] }, "ok")
    | some k => if sh == "1" && k != .hashmap then bad else ({ d with st := some (St.init ⟨k, sh == "1"⟩) }, "ok")
  | _ =>
  match d.st with
  | none => bad
  | some st =>
  match w with
  | "q" :: qid :: pre :: toks =>
    if (d.queries.find? (·.1 == qid)).isSome then bad else
    match parseQuery pre toks with
    | some q => ({ d with queries := d.queries ++ [(qid, q)] }, "ok")
    | none => bad
  | ["sub", sid, ic, qid] =>
    match sid.toNat?, parseIface ic, d.queries.find? (·.1 == qid) with
    | some id, some o, some (_, q) =>
      if o.delayed || d.sids.contains id then bad else
      let (d', out) := doOp d st (.subscribe id o q)
      (if out == "ok" then { d' with sids := d'.sids ++ [id] } else d', out)
    | _, _, _ => bad
  | ["cancel", sid] =>
    match sid.toNat? with
    | some id => if d.sids.contains id then doOp d st (.cancel id) else bad
    | none => bad
  | ["drain"] =>
    let (st', o) := step st .drain
    ({ d with st := some st' }, fmtFeeds o.feeds)
  | ["drain1", sid] =>
    match sid.toNat? with
    | some id =>
      if d.sids.contains id then
        let (st', o) := step st (.drainOne id)
        ({ d with st := some st' }, fmtFeeds o.feeds)
      else bad
    | none => bad
  | ["hook", hid, qid, pg, og, pp] =>
    -- a new hook value, registered once (registration identity = identity of the hook value)
    match hid.toNat?, d.queries.find? (·.1 == qid) with
    | some id, some (_, q) =>
      if (d.behs.find? (·.1 == id)).isSome || (d.regs.find? (·.1 == id)).isSome then bad else
      match mkHook id id q pg og pp with
      | none => bad
      | some h =>
        let (d', out) := doOp d st (.regHook h)
        (if out == "ok" then { d' with behs := d'.behs ++ [(id, pg, og, pp)], regs := d'.regs ++ [(id, id)] } else d', out)
    | _, _ => bad
  | ["rehook", rid, hid, qid] =>
    -- the existing hook value `hid` registered once more, as registration `rid`, with query `qid`
    match rid.toNat?, hid.toNat?, d.queries.find? (·.1 == qid) with
    | some rid, some obj, some (_, q) =>
      if (d.behs.find? (·.1 == rid)).isSome || (d.regs.find? (·.1 == rid)).isSome then bad else
      match d.behs.find? (·.1 == obj) with
      | none => bad
      | some (_, pg, og, pp) =>
        match mkHook rid obj q pg og pp with
        | none => bad
        | some h =>
          let (d', out) := doOp d st (.regHook h)
          (if out == "ok" then { d' with regs := d'.regs ++ [(rid, obj)] } else d', out)
    | _, _, _ => bad
  | ["unhook", hid] =>
    match hid.toNat? with
    | some id => if (d.regs.find? (·.1 == id)).isSome then doOp d st (.cancelHook id) else bad
    | none => bad
  | ["inject"] => if st.cfg.kind == .reg then doROp d st .inject else bad
  | ["prov", pid, key] =>
    match pid.toNat? with
    | some id =>
      if st.cfg.kind != .reg || !okKey key || d.pids.contains id then bad else
      let (d', out) := doROp d st (.register id key)
      (if out == "ok" then { d' with pids := d'.pids ++ [id] } else d', out)
    | none => bad
  | ["ppushn", pid, k, key, n, s, fl] =>
    -- one call of the (variadic) push function with k records: same key / S / flags, N = n, n+1, …
    match pid.toNat?, k.toNat?, n.toInt? with
    | some id, some k, some n =>
      if st.cfg.kind != .reg || !d.pids.contains id || k < 2 || k > 4 || !okKey key || !okStr s || !okFlags fl then bad
      else
        let st' := (List.range k).foldl (fun (acc : St) (i : Nat) => (rstep acc (.push id ⟨key, n + (i : Int), s, parseFlags fl⟩)).1) st
        ({ d with st := some st' }, "ok")
    | _, _, _ => bad
  | ["ppush", pid, key, n, s, fl] =>
    match pid.toNat?, n.toInt? with
    | some id, some n =>
      if st.cfg.kind != .reg || !d.pids.contains id || !okKey key || !okStr s || !okFlags fl then bad
      else doROp d st (.push id ⟨key, n, s, parseFlags fl⟩)
    | _, _ => bad
  | [op, ic, key, n, s, fl] =>
    if !(op == "put" || op == "putnew" || op == "putmany") then bad else
    match parseIface ic, n.toInt? with
    | some o, some n =>
      if !okKey key || !okStr s || !okFlags fl then bad
      else if op == "putmany" then
        (if o.delayed || !(st.cfg.kind == .hashmap || st.cfg.kind == .bbolt) then bad
         else doOp d st (.putMany o [⟨key, n, s, parseFlags fl⟩]))
      else if o.delayed && (op != "put" || !(st.cfg.kind == .hashmap || st.cfg.kind == .bbolt)) then bad
      else doOp d st (.put o ⟨key, n, s, parseFlags fl⟩ (op == "putnew"))
    | _, _ => bad
  | ["push", key, n, s, fl] =>
    match n.toInt? with
    | some n =>
      if !okKey key || !okStr s || !okFlags fl then bad
      else if st.cfg.kind == .reg then
        -- on a runtime registry `push` is the push function of provider 0
        (if d.pids.contains 0 then doROp d st (.push 0 ⟨key, n, s, parseFlags fl⟩) else bad)
      else doOp d st (.push ⟨key, n, s, parseFlags fl⟩)
    | none => bad
  | [op, ic, key] =>
    match parseIface ic with
    | some o =>
      if o.delayed || !okKey key then bad else
      match op with
      | "del" => doOp d st (.modify o key .del)
      | "mksec" => doOp d st (.modify o key .mksec)
      | "mkcj" => doOp d st (.modify o key .mkcj)
      | "get" => doOp d st (.get o key)
      | "exists" => doOp d st (.exists_ o key)
      | _ => bad
    | none => bad
  | [op, ic, key, v] =>
    match parseIface ic with
    | some o =>
      if o.delayed || !okKey key then bad else
      match op with
      | "exp" => if v == "p" then doOp d st (.modify o key (.exp 1)) else if v == "f" then doOp d st (.modify o key (.exp 2)) else bad
      | "ins" => match v.toInt? with | some n => doOp d st (.modify o key (.ins n)) | none => bad
      | "relexp" => if v == "0" || v == "-1" then doOp d st (.modify o key .touch) else bad
      | _ => bad
    | none => bad
  | ["raw", key] =>
    if !okKey key then bad else
    (d, match sGet st.store key with | some r => fmtRec r | none => "none")
  | ["sizes"] => (d, s!"subs={st.subs.length} hooks={st.hooks.length}")
  | ["flush", ic] =>
    match parseIface ic with
    | some o => if o.delayed && (st.cfg.kind == .hashmap || st.cfg.kind == .bbolt) then doOp d st .flush else bad
    | none => bad
  | _ => bad

end PB.Drv.C14

def main : IO Unit := PB.Drv.runState ({} : PB.Drv.C14.D) PB.Drv.C14.handle
