import PB.Model.Config
import PB.Model.ConfigConc
import PB.Drv.Loop
/-
Driver for C04. Sequential part: one call of the config package per line on the model state.
Concurrent part (lines starting with `t`): acceptor for recorded traces of the flag/value hand-over,
replayed through `PB.ConfigConc.step` with the sequential model supplying the values.
Line protocol: see harness/cmd/hx-c04/main.go (the same tokens are produced there).
-/
namespace PB.Drv.C04
open PB PB.Config

/-! ### token parsing -/

def splitOnChar (c : Char) (s : String) : List String :=
  let rec go : List Char → List Char → List String → List String
    | [], cur, acc => (String.ofList cur.reverse :: acc).reverse
    | x :: xs, cur, acc => if x = c then go xs [] (String.ofList cur.reverse :: acc) else go xs (x :: cur) acc
  go s.toList [] []

/-- Split at the first occurrence of `c`. -/
def cut (c : Char) (s : String) : Option (String × String) :=
  let rec go : List Char → List Char → Option (String × String)
    | [], _ => none
    | x :: xs, cur => if x = c then some (String.ofList cur.reverse, String.ofList xs) else go xs (x :: cur)
  go s.toList []

/-- Strings travel as hex of their bytes; the model string has one char per byte. -/
def unhexStr (h : String) : Option String :=
  (parseHex h).map (fun bs => String.ofList (bs.map (fun b => Char.ofNat b.toNat)))

def hexStr (s : String) : String := toHex (s.toList.map (fun c => UInt8.ofNat c.toNat))

def parseKey (s : String) : Key := splitOnChar '/' s
def showKey (k : Key) : String := "/".intercalate k

def mapM? {α β : Type} (f : α → Option β) : List α → Option (List β)
  | [] => some []
  | a :: as => do
    let b ← f a
    let bs ← mapM? f as
    pure (b :: bs)

def parseInt (s : String) : Option Int := s.toInt?

def parseStrList (s : String) : Option (List String) :=
  if s = "" then some [] else mapM? unhexStr (splitOnChar ',' s)

def parseIKind : String → Option IKind
  | "int" => some .int | "i8" => some .i8 | "i16" => some .i16 | "i32" => some .i32 | "i64" => some .i64
  | "uint" => some .uint | "u8" => some .u8 | "u16" => some .u16 | "u32" => some .u32
  | _ => none

def parseFlt (w : String) (x : String) : Option Val := do
  let w32 ← (if w = "32" then some true else if w = "64" then some false else none)
  let (neg, rest) := match x.toList with
    | '-' :: r => (true, String.ofList r)
    | _ => (false, x)
  match cut '.' rest with
  | none => do
    let m ← rest.toNat?
    pure (.flt w32 neg m false)
  | some (a, b) => do
    let m ← a.toNat?
    if b = "5" then pure (.flt w32 neg m true) else none

def parseElem (s : String) : Option (Option String) :=
  match cut ':' s with
  | some ("s", h) => (unhexStr h).map some
  | some ("x", _) => some none
  | _ => Option.none

def parseVal (s : String) : Option Val :=
  if s = "n" then some .nil else
  match cut ':' s with
  | some ("s", h) => (unhexStr h).map .str
  | some ("a", l) => (parseStrList l).map .strs
  | some ("A", _) => some (.strs [])                   -- typed nil []string
  | some ("l", l) =>
    if l = "" then some (.anys []) else (mapM? parseElem (splitOnChar ';' l)).map .anys
  | some ("i", r) => do
    let (k, n) ← cut ':' r
    let k ← parseIKind k
    let n ← parseInt n
    pure (.int k n)
  | some ("u64", n) => n.toNat?.map .u64
  | some ("f", r) => do
    let (w, x) ← cut ':' r
    parseFlt w x
  | some ("b", "1") => some (.bool true)
  | some ("b", "0") => some (.bool false)
  | some ("y", h) => some (.bytes h)
  | some ("o", t) => some (.other t)
  | _ => none

def parseGVal (s : String) : Option GVal :=
  match cut ':' s with
  | some ("s", h) => (unhexStr h).map .s
  | some ("a", l) => (parseStrList l).map .a
  | some ("i", n) => (parseInt n).map .i
  | some ("b", "1") => some (.b true)
  | some ("b", "0") => some (.b false)
  | _ => none

def showGVal : GVal → String
  | .s x => "s:" ++ hexStr x
  | .a l => "a:" ++ ",".intercalate (l.map hexStr)
  | .i n => "i:" ++ toString n
  | .b true => "b:1"
  | .b false => "b:0"

def parsePV (s : String) : Option PV :=
  match cut ':' s with
  | some ("s", h) => (unhexStr h).map .s
  | some ("i", n) => (parseInt n).map .i
  | some ("b", "1") => some (.b true)
  | some ("b", "0") => some (.b false)
  | _ => none

def parsePVs (s : String) : Option (Option (List PV)) :=
  if s = "-" then some none
  else if s = "e" then some (some [])
  else (mapM? parsePV (splitOnChar ';' s)).map some

def parseTy : String → Option OptType
  | "s" => some .str | "a" => some .strs | "i" => some .int | "b" => some .bool | _ => none

def parseKV (s : String) : Option (Key × Val) := do
  let (k, v) ← cut '=' s
  let v ← parseVal v
  pure (parseKey k, v)

def showVErr : VErr → String
  | .notAllowed => "notallowed" | .type => "type" | .regex => "regex" | .entryNotString => "entry-notstring"
  | .entryRegex => "entry-regex" | .entryNotAllowed => "entry-notallowed" | .float => "float"
  | .badType => "badtype" | .func => "func"

def sortStrs (l : List String) : List String := (l.toArray.qsort (· < ·)).toList

def showErrs (es : List (Key × VErr)) : String :=
  " ".intercalate ("errs" :: sortStrs (es.map (fun e => showKey e.1 ++ ":" ++ showVErr e.2)))

def showSetRes : Except SetErr Unit → String
  | .ok () => "ok"
  | .error .unknown => "err unknown"
  | .error (.invalid e) => "err " ++ showVErr e

/-- A JSON-decoded leaf as the harness prints it after reading the real file back. -/
def showJVal : Val → String
  | .str s => "s:" ++ hexStr s
  | .anys l => "l:" ++ ";".intercalate (l.map (fun e => match e with | some s => "s:" ++ hexStr s | none => "x:"))
  | .flt _ neg mag half => "f:" ++ (if neg then "-" else "") ++ toString mag ++ (if half then ".5" else "")
  | .bool true => "b:1"
  | .bool false => "b:0"
  | .nil => "n"
  | _ => "o:"

def showFile : File → String
  | .absent => "absent"
  | .garbage => "garbage"
  | .tree t => " ".intercalate ("tree" :: sortStrs (t.map (fun e => showKey e.1 ++ "=" ++ showJVal e.2)))

/-! ### trace acceptor state -/

/-- What a setter thread of a recorded trace is doing. -/
inductive TOp where
  | set (user : Bool) (k : Key) (v : Val)
  | rep (user : Bool) (m : List (Key × Val))
  | get (cid : Nat)

structure TThread where
  op : TOp
  ver : Option Nat := none            -- version written by this call so far
  res : Option String := none         -- result computed by the model at the write step
  need : Nat := 0                     -- getter: committed at begin

structure TClosure where
  key : Key
  fb : GVal
  g : PB.ConfigConc.Getter

structure Acc where
  on : Bool := false
  sh : PB.ConfigConc.Shared := {}
  hist : List St := []                -- newest first; version v is `hist[hist.length - 1 - v]`
  cls : List (Nat × TClosure) := []
  thr : List (Nat × TThread) := []
  holder : Option Nat := none         -- thread holding validityFlagLock

/-! ### driver state -/

structure DSt where
  st : St := init true
  cls : List (Nat × Closure) := []
  vfs : List (Nat × VFlag) := []
  persps : List (Nat × List POpt) := []
  acc : Acc := {}

def assocSet {α : Type} (l : List (Nat × α)) (i : Nat) (a : α) : List (Nat × α) :=
  (i, a) :: l.filter (fun e => e.1 ≠ i)

def assocGet {α : Type} (l : List (Nat × α)) (i : Nat) : Option α := (l.find? (fun e => e.1 = i)).map (·.2)

def bad (d : DSt) : DSt × String := (d, "bad-op")

def handleSeq (d : DSt) (ws : List String) : DSt × String :=
  match ws with
  | ["init", p] => ({ st := init (p = "1") }, "ok")
  | ["reg", k, ty, rl, rx, pvs, vf, mg, dv] =>
    match parseTy ty, rl.toNat?, rx.toNat?, parsePVs pvs, vf.toNat?, mg.toNat?, parseVal dv with
    | some ty, some rl, some rx, some pvs, some vf, some mg, some dv =>
      match mkOpt (parseKey k) ty rl rx pvs vf mg dv with
      | .ok o => ({ d with st := register d.st o }, "ok")
      | .error .noKey => (d, "err nokey")
      | .error (.badDefault e) => (d, "err default " ++ showVErr e)
    | _, _, _, _, _, _, _ => bad d
  | ["set", k, v] =>
    match parseVal v with
    | some v => let (st, r) := setUser d.st (parseKey k) v; ({ d with st := st }, showSetRes r)
    | none => bad d
  | ["setd", k, v] =>
    match parseVal v with
    | some v => let (st, r) := setDflt d.st (parseKey k) v; ({ d with st := st }, showSetRes r)
    | none => bad d
  | "rep" :: kvs =>
    match mapM? parseKV kvs with
    | some m => let (st, es) := replaceUser d.st m; ({ d with st := st }, showErrs es)
    | none => bad d
  | "repd" :: kvs =>
    match mapM? parseKV kvs with
    | some m => let (st, es) := replaceDflt d.st m; ({ d with st := st }, showErrs es)
    | none => bad d
  | "valc" :: kvs =>
    match mapM? parseKV kvs with
    | some m => let (es, unk) := validateConfig d.st m; (d, showErrs es ++ (if unk then " unk=1" else " unk=0"))
    | none => bad d
  | ["vv", k, v] =>
    match parseVal v with
    | some v =>
      match d.st.find (parseKey k) with
      | none => (d, "err unknown")
      | some o => match check o v with
        | .ok _ => (d, "ok")
        | .error e => (d, "err " ++ showVErr e)
    | none => bad d
  | ["save"] => ({ d with st := save d.st }, "ok")
  | ["load", b] =>
    let (st, r) := load d.st (b = "1")
    ({ d with st := st }, match r with
      | .ok es => "ok " ++ showErrs es
      | .error .noFile => "err nofile"
      | .error .badJson => "err badjson"
      | .error (.invalidEntries n) => "err invalid " ++ toString n)
  | ["wfile", "absent"] => ({ d with st := { d.st with file := .absent } }, "ok")
  | ["wfile", "garbage"] => ({ d with st := { d.st with file := .garbage } }, "ok")
  | "wfile" :: "tree" :: kvs =>
    match mapM? parseKV kvs with
    | some m => ({ d with st := { d.st with file := .tree m } }, "ok")
    | none => bad d
  | ["rfile"] => (d, showFile d.st.file)
  | ["get", k, fb] | ["cget", k, fb] =>
    match parseGVal fb with
    | some fb => (d, showGVal (get d.st (parseKey k) fb))
    | none => bad d
  | ["mk", id, _, k, fb] =>
    match id.toNat?, parseGVal fb with
    | some id, some fb => ({ d with cls := assocSet d.cls id (mkClosure d.st (parseKey k) fb) }, "ok")
    | _, _ => bad d
  | ["call", id] =>
    match id.toNat? with
    | some id =>
      match assocGet d.cls id with
      | some cl => let (cl', v) := cl.call d.st; ({ d with cls := assocSet d.cls id cl' }, showGVal v)
      | none => bad d
    | none => bad d
  | ["vfnew", id] =>
    match id.toNat? with
    | some id => ({ d with vfs := assocSet d.vfs id VFlag.new }, "ok")
    | none => bad d
  | ["vfrefresh", id] =>
    match id.toNat? with
    | some id =>
      match assocGet d.vfs id with
      | some vf => ({ d with vfs := assocSet d.vfs id (vf.refresh d.st) }, "ok")
      | none => bad d
    | none => bad d
  | ["vfvalid", id] =>
    match id.toNat? with
    | some id =>
      match assocGet d.vfs id with
      | some vf => (d, if vf.isValid d.st then "valid" else "invalid")
      | none => bad d
    | none => bad d
  | ["uv", k] =>
    match userValue d.st (parseKey k) with
    | none => (d, "unknown")
    | some none => (d, "unset")
    | some (some v) => (d, "set " ++ showGVal v)
  | ["active"] =>
    (d, " ".intercalate ("active" :: sortStrs ((activeValues d.st).map (fun e => showKey e.1 ++ "=" ++ showGVal e.2))))
  | ["exp", k] =>
    match d.st.find (parseKey k) with
    | none => (d, "unknown")
    | some o =>
      (d, "user=" ++ (match o.user with | some c => showGVal (c.proj o.ty) | none => "-") ++
          " default=" ++ showGVal ((o.dflt.getD o.fallback).proj o.ty))
  | ["rlgate"] => (d, toString d.st.gate)
  | "persp" :: id :: kvs =>
    match id.toNat?, mapM? parseKV kvs with
    | some id, some m =>
      let (p, n) := newPerspective d.st m
      ({ d with persps := assocSet d.persps id p }, if n = 0 then "ok" else "err " ++ toString n)
    | _, _ => bad d
  | ["pget", id, k, ty] =>
    match id.toNat?, parseTy ty with
    | some id, some ty =>
      match assocGet d.persps id with
      | some p => (d, match pGet d.st p (parseKey k) ty with | some v => showGVal v | none => "none")
      | none => bad d
    | _, _ => bad d
  | ["phas", id, k] =>
    match id.toNat? with
    | some id =>
      match assocGet d.persps id with
      | some p => (d, if pHas d.st p (parseKey k) then "true" else "false")
      | none => bad d
    | none => bad d
  | _ => bad d

/-! ### trace acceptor -/

def rej (d : DSt) (why : String) : DSt × String := (d, "reject " ++ why)

def histAt (a : Acc) (v : Nat) : Option St := a.hist[a.hist.length - 1 - v]?

/-- Apply a model action to the shared part (with a throw-away getter). -/
def shStep (a : Acc) (act : PB.ConfigConc.Act) : Option PB.ConfigConc.Shared :=
  (PB.ConfigConc.step { sh := a.sh, g := {} } act).map (·.sh)

/-- Apply a model action to closure `cid`. -/
def gStep (a : Acc) (cid : Nat) (act : PB.ConfigConc.Act) : Option Acc :=
  match assocGet a.cls cid with
  | none => none
  | some c =>
    match PB.ConfigConc.step { sh := a.sh, g := c.g } act with
    | none => none
    | some s' => some { a with cls := assocSet a.cls cid { c with g := s'.g } }

/-- A successful layer write of thread `tid`: new version, state snapshot. -/
def doWrite (d : DSt) (tid : Nat) (t : TThread) (st' : St) (res : Option String) : DSt × String :=
  let a := d.acc
  let act := match t.ver with | some v => PB.ConfigConc.Act.rewrite v | none => PB.ConfigConc.Act.write
  match shStep a act with
  | none => rej d "write-not-enabled"
  | some sh' =>
    let t' := { t with ver := some sh'.ver, res := res }
    ({ d with st := st', acc := { a with sh := sh', hist := st' :: a.hist, thr := assocSet a.thr tid t' } }, "ok")

def handleTrace (d : DSt) (ws : List String) : DSt × String :=
  let a := d.acc
  match ws with
  | ["tstart"] =>
    ({ d with acc := { on := true, hist := [d.st] } }, "ok")
  | ["tmk", cid, k, fb, _] =>
    match cid.toNat?, parseGVal fb with
    | some cid, some fb =>
      let c : TClosure := { key := parseKey k, fb := fb, g := {} }
      let a1 := { a with cls := assocSet a.cls cid c }
      match gStep a1 cid .createFlag with
      | none => rej d "create-flag"
      | some a2 => match gStep a2 cid .createValue with
        | none => rej d "create-value"
        | some a3 => ({ d with acc := a3 }, "ok")
    | _, _ => bad d
  | "tcall" :: tid :: "set" :: [k, v] | "tcall" :: tid :: "setd" :: [k, v] =>
    match tid.toNat?, parseVal v with
    | some tid, some v =>
      let user := ws.getD 2 "" = "set"
      ({ d with acc := { a with thr := assocSet a.thr tid { op := .set user (parseKey k) v } } }, "ok")
    | _, _ => bad d
  | "tcall" :: tid :: "rep" :: kvs | "tcall" :: tid :: "repd" :: kvs =>
    match tid.toNat?, mapM? parseKV kvs with
    | some tid, some m =>
      let user := ws.getD 2 "" = "rep"
      let errs := showErrs (d.st.opts.filterMap (replErr m))
      ({ d with acc := { a with thr := assocSet a.thr tid { op := .rep user m, res := some errs } } }, "ok")
    | _, _ => bad d
  | ["tcall", tid, "get", cid] =>
    match tid.toNat?, cid.toNat? with
    | some tid, some cid =>
      match gStep a cid .begin with
      | none => rej d "begin"
      | some a' =>
        ({ d with acc := { a' with thr := assocSet a'.thr tid { op := .get cid, need := a.sh.committed } } }, "ok")
    | _, _ => bad d
  | "tw" :: tid :: rest =>
    match tid.toNat? with
    | none => bad d
    | some tid =>
      match assocGet a.thr tid with
      | none => rej d "unknown-thread"
      | some t =>
        match t.op, rest with
        | .set user k v, _ =>
          let (st', r) := if user then writeUser d.st k v else writeDflt d.st k v
          (match r with
          | .ok () => doWrite d tid t st' (some "ok")
          | .error _ =>
            -- a rejected value: no layer write, no signal; the state is what the locked section left
            ({ d with st := st', acc := { a with thr := assocSet a.thr tid { t with res := some (showSetRes r) } } }, "ok"))
        | .rep user m, [k] =>
          let st' := if user then replStepUser d.st m (parseKey k) else replStepDflt d.st m (parseKey k)
          doWrite d tid t st' t.res
        | _, _ => rej d "write-by-non-setter"
  | ["tinv", tid, f] =>
    match tid.toNat?, f.toNat? with
    | some tid, some f =>
      match assocGet a.thr tid with
      | some { ver := some v, .. } =>
        if f ≠ a.sh.cur then rej d "invalidated-flag-is-not-current" else
        match shStep a (.invalidate v) with
        | none => rej d "invalidate-not-enabled"
        | some sh' => ({ d with acc := { a with sh := sh', holder := some tid } }, "ok")
      | _ => rej d "invalidate-without-write"
    | _, _ => bad d
  | ["tins", tid, f] =>
    match tid.toNat?, f.toNat? with
    | some tid, some f =>
      if a.holder ≠ some tid then rej d "install-by-non-holder" else
      match shStep a .install with
      | none => rej d "install-not-enabled"
      | some sh' =>
        if f ≠ sh'.cur then rej d "installed-flag-id" else
        ({ d with st := signal d.st, acc := { a with sh := sh', holder := none } }, "ok")
    | _, _ => bad d
  | ["tacq", tid] =>
    match tid.toNat? with
    | some tid =>
      match assocGet a.thr tid with
      | some { op := .get cid, need := n, .. } =>
        (match gStep a cid (.acquire n) with
        | none => rej d "acquire-not-enabled"
        | some a' => ({ d with acc := a' }, "ok"))
      | _ => rej d "unknown-getter-thread"
    | none => bad d
  | ["tstale", tid] | ["tval", tid] =>
    match tid.toNat? with
    | some tid =>
      match assocGet a.thr tid with
      | some { op := .get cid, .. } =>
        let act := if ws.head? = some "tstale" then PB.ConfigConc.Act.checkStale else PB.ConfigConc.Act.fetchValue
        (match gStep a cid act with
        | none => rej d (if ws.head? = some "tstale" then "refresh-although-flag-valid" else "value-fetch-out-of-order")
        | some a' => ({ d with acc := a' }, "ok"))
      | _ => rej d "unknown-getter-thread"
    | none => bad d
  | ["tflag", tid, f] =>
    match tid.toNat?, f.toNat? with
    | some tid, some f =>
      match assocGet a.thr tid with
      | some { op := .get cid, .. } =>
        if f ≠ a.sh.cur then rej d "fetched-flag-is-not-current" else
        (match gStep a cid .fetchFlag with
        | none => rej d "flag-fetch-out-of-order"
        | some a' => ({ d with acc := a' }, "ok"))
      | _ => rej d "unknown-getter-thread"
    | _, _ => bad d
  | "tret" :: tid :: res =>
    match tid.toNat? with
    | none => bad d
    | some tid =>
      let got := " ".intercalate res
      match assocGet a.thr tid with
      | none => rej d "unknown-thread"
      | some t =>
        let a0 := { a with thr := a.thr.filter (fun e => e.1 ≠ tid) }
        match t.op with
        | .get cid =>
          -- a call that saw a valid flag returns the cached value without further events
          let a1 := match assocGet a0.cls cid with
            | some c => if c.g.pc = 1 then (gStep a0 cid .checkValid) else some a0
            | none => none
          (match a1 with
          | none => rej d "returned-cached-value-although-flag-invalid"
          | some a1 =>
            match assocGet a1.cls cid with
            | none => rej d "unknown-closure"
            | some c =>
              match gStep a1 cid .ret, histAt a1 c.g.cval with
              | some a2, some stv =>
                let want := showGVal (get stv c.key c.fb)
                if c.g.cval < t.need then rej d "stale-version"
                else if want ≠ got then rej d ("value model=" ++ want)
                else ({ d with acc := a2 }, "ok")
              | _, _ => rej d "return-not-enabled")
        | .set user _ _ =>
          (match t.res with
          | none =>
            -- no write step happened: only legal for an unknown option
            if got = "err unknown" then ({ d with acc := a0 }, "ok") else rej d "return-without-write"
          | some r =>
            if r ≠ got then rej d ("result model=" ++ r)
            else
              let st' := if user ∧ r = "ok" then save d.st else d.st
              ({ d with st := st', acc := a0 }, "ok"))
        | .rep _ _ =>
          (match t.res with
          | some r => if r ≠ got then rej d ("result model=" ++ r) else ({ d with acc := a0 }, "ok")
          | none => rej d "no-result")
  | ["tend"] =>
    if a.thr.isEmpty ∧ a.holder = none ∧ a.sh.setters.isEmpty then ({ d with acc := {} }, "ok")
    else rej d "unfinished-threads"
  | _ => bad d

def handle (d : DSt) (line : String) : DSt × String :=
  let ws := PB.Drv.words line
  match ws with
  | w :: _ => if w.startsWith "t" then handleTrace d ws else handleSeq d ws
  | [] => bad d

end PB.Drv.C04

def main : IO Unit := PB.Drv.runState ({} : PB.Drv.C04.DSt) PB.Drv.C04.handle
