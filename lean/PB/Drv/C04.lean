import PB.Drv.Loop
/- Driver stub for C04 (model not built yet): every op is rejected. -/
def main : IO Unit := PB.Drv.lineLoop (fun _ => "bad-op")
