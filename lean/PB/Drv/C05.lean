import PB.Model.StopProto
import PB.Drv.Loop
/-!
Driver for C05: trace acceptor. A case is

    scn n=<modules> deps=<d0;d1;…> <scenario json (ignored here)>
    e <mod> <act> [args…] g<goroutine> @<µs>      one atomic protocol event recorded on the real code
                                                    (`workEnter <c> <exec> gen=<k>` / `ctxObs <c> <exec> gen=<k> …`: the
                                                    context held is the module's k-th; `gen=?` = not a context of the
                                                    module that the harness saw being installed ⇒ rejected)
    p stopBegin | stopEnd | startBegin | startEnd   manager pass events
    h …                                             harness-level observation (no model step)
    x <e|p line>  …  xend                           a deliberately corrupted trace: must be rejected somewhere

Every `e`/`p` line is replayed through `PB.StopProto.sstep`; besides the counter-abstracted model (which checks
that *some* thread can take the step) the driver checks each goroutine's own program order: a `dec` must match an
`inc` of the same goroutine and kind, the steps of `checkIfStopComplete` must be taken in order by a goroutine that
has a check pending.
-/
namespace PB.Drv.C05
open PB.StopProto

structure ItemRec where
  gid : Nat
  mod : Nat
  kind : Kind
  isNew : Bool

structure ChkRec where
  gid : Nat
  mod : Nat
  pos : Nat

/-- a service worker goroutine between two runs of its function: back at the head of its restart loop (`late` = its
    function returned while the stop flag was set), or — `bk = some g` — waiting in the back-off select on the `Done()`
    channel of the module's context number `g` -/
structure SwRec where
  gid : Nat
  mod : Nat
  late : Bool
  bk : Option Nat := none

structure DS where
  sys : Sys
  items : List ItemRec
  chks : List ChkRec
  sws : List SwRec
  bad : Option String      -- sticky: first rejection
  ready : Bool

def DS.init : DS := { sys := Sys.init 0 [], items := [], chks := [], sws := [], bad := none, ready := false }

def parseNatList (s : String) : Option (List Nat) :=
  if s = "-" || s = "" then some [] else
  (s.splitOn ",").foldr (fun w acc => match w.toNat?, acc with
    | some k, some l => some (k :: l)
    | _, _ => none) (some [])

def parseDeps (s : String) : Option (List (List Nat)) :=
  (s.splitOn ";").foldr (fun w acc => match parseNatList w, acc with
    | some k, some l => some (k :: l)
    | _, _ => none) (some [])

def parseKind : String → Option Kind
  | "w" => some .w | "t" => some .t | "m" => some .m | _ => none

def parseBool : String → Option Bool
  | "1" => some true | "0" => some false | _ => none

/-- the `gen=<k>` argument of a context observation -/
def parseGen : List String → Option Nat
  | [] => none
  | w :: ws => if w.startsWith "gen=" then (w.drop 4).toString.toNat? else parseGen ws

def isGid (w : String) : Bool :=
  w.length ≥ 2 && w.front == 'g' && (w.drop 1).toString.all Char.isDigit

/-- split an event's words into (payload words, goroutine id) -/
def splitGid (ws : List String) : List String × Nat :=
  let ws := ws.filter (fun w => !(w.startsWith "@"))
  match ws.reverse with
  | g :: rest => if isGid g then (rest.reverse, (g.drop 1).toString.toNat!) else (ws, 0)
  | [] => ([], 0)

/-- remove the most recent item record of this goroutine / module / kind -/
def takeItem (g i : Nat) (k : Kind) : List ItemRec → Option (Bool × List ItemRec)
  | [] => none
  | r :: rs =>
    if r.gid = g ∧ r.mod = i ∧ r.kind = k then some (r.isNew, rs)
    else match takeItem g i k rs with
      | some (b, rs') => some (b, r :: rs')
      | none => none

def findChk (g i : Nat) (pos : Nat) : List ChkRec → Bool
  | [] => false
  | r :: rs => (r.gid = g ∧ r.mod = i ∧ r.pos = pos) || findChk g i pos rs

/-- move one check record of this goroutine from `pos` to `pos'` (`none` = the check ends) -/
def moveChk (g i pos : Nat) (pos' : Option Nat) : List ChkRec → List ChkRec
  | [] => []
  | r :: rs =>
    if r.gid = g ∧ r.mod = i ∧ r.pos = pos then
      match pos' with
      | some p => { r with pos := p } :: rs
      | none => rs
    else r :: moveChk g i pos pos' rs

/-- program order of one goroutine inside `checkIfStopComplete`: (position before, position after; `none` = left).
    0 pending, 1 fast path passed, 2 lock held, 3 flag read, 4 ctrl read, 5 workers read, 6 tasks read,
    7 microtasks read, 8 CAS won, 9 done (about to unlock). -/
def takeSw (g i : Nat) : List SwRec → Option (SwRec × List SwRec)
  | [] => none
  | r :: rs =>
    if r.gid = g ∧ r.mod = i then some (r, rs)
    else match takeSw g i rs with
      | some (b, rs') => some (b, r :: rs')
      | none => none

def checkPos : Act → Option (Nat × Option Nat)
  | .cFast true => some (0, some 1) | .cFast false => some (0, none)
  | .cLock => some (1, some 2)
  | .cFlag true => some (2, some 3) | .cFlag false => some (2, some 9)
  | .cCtrl true => some (3, some 4) | .cCtrl false => some (3, some 9)
  | .cW true => some (4, some 5) | .cW false => some (4, some 9)
  | .cT true => some (5, some 6) | .cT false => some (5, some 9)
  | .cM true => some (6, some 7) | .cM false => some (6, some 9)
  | .cCas true => some (7, some 8) | .cCas false => some (7, some 9)
  | .cClose => some (8, some 9)
  | .cUnlock => some (9, none)
  | _ => none

def modFlag (S : Sys) (i : Nat) : Nat := (S.mods.getD i PB.StopProto.init).flag

def modGen (S : Sys) (i : Nat) : Nat := (S.mods.getD i PB.StopProto.init).gen

/-- The back-off timer is not observable. Just before the stop flag of module `i` is set, the timers of all its
    waiters are taken to have fired (`swTimer`, always enabled): a waiter at the loop head that arrived while the flag
    was clear may still re-run or leave, which covers everything a waiter can be seen doing later; a waiter that
    enters the back-off after the flag was set stays a waiter and can only be seen leaving. -/
def fireTimers (i : Nat) : Sys → List SwRec → Option (Sys × List SwRec)
  | S, [] => some (S, [])
  | S, r :: rs =>
    match r.bk with
    | some g =>
      if r.mod = i then
        match sstep S (.mod i (.swTimer g)) with
        | none => none
        | some S1 =>
          match fireTimers i S1 rs with
          | none => none
          | some (S2, rs') => some (S2, { r with bk := none, late := false } :: rs')
      else
        match fireTimers i S rs with
        | none => none
        | some (S2, rs') => some (S2, r :: rs')
    | none =>
      match fireTimers i S rs with
      | none => none
      | some (S2, rs') => some (S2, r :: rs')

/-- a waiter leaves the back-off towards the loop head (its timer fired just now) -/
def timerNow (S : Sys) (i : Nat) (r : SwRec) : Option (Sys × SwRec) :=
  match r.bk with
  | none => some (S, r)
  | some g =>
    match sstep S (.mod i (.swTimer g)) with
    | none => none
    | some S1 => some (S1, { r with bk := none, late := modFlag S i == 1 })

/-- one `e` event -/
def doEvent (d : DS) (i : Nat) (act : String) (args : List String) (g : Nat) : Except String DS := do
  let stepSys (a : Act) : Except String Sys :=
    match sstep d.sys (.mod i a) with
    | some S' => .ok S'
    | none => .error s!"{act}: not enabled"
  match act, args with
  | "inc", k :: _ =>
    match parseKind k with
    | none => .error "inc: bad kind"
    | some kd =>
      let isNew := modFlag d.sys i == 1
      let S' ← stepSys (.inc kd)
      pure { d with sys := S', items := { gid := g, mod := i, kind := kd, isNew := isNew } :: d.items }
  | "dec", k :: _ =>
    match parseKind k with
    | none => .error "dec: bad kind"
    | some kd =>
      match takeItem g i kd d.items with
      | none => .error "dec: no matching inc by this goroutine"
      | some (isNew, items') =>
        -- a service worker leaving its restart loop
        let (sys1, sws1) ← (match takeSw g i d.sws with
          | none => (.ok (d.sys, d.sws) : Except String (Sys × List SwRec))
          | some (r, sws') =>
            -- a waiter in the back-off: through `<-m.Ctx.Done()` if the model has that context cancelled …
            match (match r.bk with
                   | some gn => sstep d.sys (.mod i (.swCtxDone gn))
                   | none => none) with
            | some S1 => .ok (S1, sws')
            | none =>
              -- … else its timer fired and the head of the loop was left
              match timerNow d.sys i r with
              | none => .error "dec: back-off timer not enabled"
              | some (S0, r0) =>
                match sstep S0 (.mod i (.swExit r0.late)) with
                | some S1 => .ok (S1, sws')
                | none => .error "dec: service worker exit not enabled")
        match sstep sys1 (.mod i (.dec kd (!isNew))) with
        | none => .error "dec: not enabled"
        | some S' =>
          pure { d with sys := S', items := items', sws := sws1, chks := { gid := g, mod := i, pos := 0 } :: d.chks }
  | "sFlag", _ =>
    match fireTimers i d.sys d.sws with
    | none => .error "sFlag: back-off timer not enabled"
    | some (S0, sws0) =>
      match sstep S0 (.mod i .sFlag) with
      | none => .error "sFlag: not enabled"
      | some S' =>
        pure { d with sys := S', sws := sws0,
                      items := d.items.map (fun r => if r.mod = i then { r with isNew := false } else r) }
  | "swReturn", rest =>
    let late := modFlag d.sys i == 1
    let S' ← stepSys .swReturn
    -- `cls=b`: the function ended with an error other than nil / context.Canceled / ErrRestartNow or panicked: the
    -- back-off wait is entered (on the module's current context)
    if rest.contains "cls=b" then
      match sstep S' (.mod i (.swBackoff late)) with
      | none => .error "swReturn: back-off not enabled"
      | some S2 => pure { d with sys := S2, sws := { gid := g, mod := i, late := late, bk := some (modGen S' i) } :: d.sws }
    else
      pure { d with sys := S', sws := { gid := g, mod := i, late := late } :: d.sws }
  | "workEnter", c :: rest =>
    match parseBool c, parseGen rest with
    | none, _ => .error "workEnter: bad flag"
    | _, none => .error "workEnter: the context handed to the function is not one the module was seen installing"
    | some cb, some gn =>
      -- the same goroutine enters its function again: a service worker re-run
      match takeSw g i d.sws with
      | none =>
        match sstep d.sys (.mod i (.workEnter gn cb)) with
        | some S' => pure { d with sys := S' }
        | none => .error s!"workEnter: context {gn} observed cancelled={cb}: not what the model has"
      | some (r, sws') =>
        match timerNow d.sys i r with
        | none => .error "workEnter: back-off timer not enabled"
        | some (S0, r0) =>
          if r0.late then
            .error (if r.bk.isSome then "workEnter: service worker re-run although its back-off ended while the module was stopping"
                    else "workEnter: service worker re-run although its function returned while the module was stopping")
          else
            match sstep S0 (.mod i .swRerun) with
            | none => .error "workEnter: service worker re-run not enabled"
            | some S1 =>
              match sstep S1 (.mod i (.workEnter gn cb)) with
              | none => .error s!"workEnter: context {gn} observed cancelled={cb}: not what the model has"
              | some S' => pure { d with sys := S', sws := sws' }
  | "ctxObs", c :: rest =>
    match parseBool c, parseGen rest with
    | none, _ => .error "ctxObs: bad flag"
    | _, none => .error "ctxObs: the context held is not one the module was seen installing"
    | some cb, some gn =>
      match sstep d.sys (.mod i (.ctxObs gn cb)) with
      | some S' => pure { d with sys := S' }
      | none => .error s!"ctxObs: context {gn} observed cancelled={cb}: not what the model has"
  | "ctrlUnset", _ =>
    let S' ← stepSys .ctrlUnset
    pure { d with sys := S', chks := { gid := g, mod := i, pos := 0 } :: d.chks }
  | "ctrlUnsetNil", _ =>
    let S' ← stepSys .ctrlUnsetNil
    pure { d with sys := S', chks := { gid := g, mod := i, pos := 0 } :: d.chks }
  | _, _ =>
    let a? : Option Act :=
      match act, args with
      | "startBegin", _ => some .startBegin
      | "prepBegin", _ => some .prepBegin
      | "prepDone", _ => some .prepDone
      | "startFail", _ => some .startFail
      | "ctrlSet", _ => some .ctrlSet
      | "fnEnter", c :: _ => (parseBool c).map .fnEnter
      | "fnExit", _ => some .fnExit
      | "online", _ => some .online
      | "stopBegin", _ => some .stopBegin
      | "sCtrl", _ => some .sCtrl
      | "sCancel", _ => some .sCancel
      | "sWake", _ => some .sWake
      | "sTimeout", _ => some .sTimeout
      | "sOffline", _ => some .sOffline
      | "sReport", _ => some .sReport
      | "gate", c :: _ => (parseBool c).map .gate
      | "cFast", c :: _ => (parseBool c).map .cFast
      | "cLock", _ => some .cLock
      | "cUnlock", _ => some .cUnlock
      | "cFlag", c :: _ => (parseBool c).map .cFlag
      | "cCtrl", c :: _ => (parseBool c).map .cCtrl
      | "cW", c :: _ => (parseBool c).map .cW
      | "cT", c :: _ => (parseBool c).map .cT
      | "cM", c :: _ => (parseBool c).map .cM
      | "cCas", c :: _ => (parseBool c).map .cCas
      | "cClose", _ => some .cClose
      | _, _ => none
    match a? with
    | none => .error s!"bad-op {act}"
    | some a =>
      match checkPos a with
      | some (pos, pos') =>
        if findChk g i pos d.chks then do
          let S' ← stepSys a
          pure { d with sys := S', chks := moveChk g i pos pos' d.chks }
        else .error s!"{act}: this goroutine has no check at position {pos}"
      | none => do
        let S' ← stepSys a
        pure { d with sys := S' }

def doPass (d : DS) (w : String) : Except String DS :=
  let a? : Option SAct := match w with
    | "stopBegin" => some (.passBegin true)
    | "startBegin" => some (.passBegin false)
    | "stopEnd" => some .passEnd
    | "startEnd" => some .passEnd
    | _ => none
  match a? with
  | none => .error "bad-op pass"
  | some a =>
    -- the pass-end event must match the kind of pass that is open
    if (w = "stopEnd" ∧ d.sys.mode ≠ 1) ∨ (w = "startEnd" ∧ d.sys.mode ≠ 2) then .error s!"p {w}: no such pass open"
    else match sstep d.sys a with
      | some S' => .ok { d with sys := S' }
      | none => .error s!"p {w}: not enabled (reports {d.sys.reportCnt} of {d.sys.execCnt})"

def doLine (d : DS) (ws : List String) : Except String DS :=
  match ws with
  | "e" :: i :: act :: rest =>
    match i.toNat? with
    | none => .error "bad-op module"
    | some i =>
      let (args, g) := splitGid rest
      doEvent d i act args g
  | "p" :: w :: _ => doPass d w
  | _ => .error "bad-op"

def handle (d : DS) (line : String) : DS × String :=
  let ws := PB.Drv.words line
  match ws with
  | "scn" :: n :: deps :: _ =>
    match (n.drop 2).toString.toNat?, parseDeps (deps.drop 5).toString with
    | some k, some dl =>
      if n.startsWith "n=" ∧ deps.startsWith "deps=" ∧ dl.length = k then
        ({ DS.init with sys := Sys.init k dl, ready := true }, "ok")
      else (d, "bad-op scn")
    | _, _ => (d, "bad-op scn")
  | "h" :: _ => (d, "ok")
  | "xend" :: _ => (d, if d.bad.isSome then "rejected" else "accepted")
  | "x" :: rest =>
    if d.bad.isSome then (d, "-") else
    match doLine d rest with
    | .ok d' => (d', "-")
    | .error e => ({ d with bad := some e }, "-")
  | _ =>
    if !d.ready then (d, "bad-op no-scenario") else
    match d.bad with
    | some _ => (d, "reject (after an earlier rejection)")
    | none =>
      match doLine d ws with
      | .ok d' => (d', "ok")
      | .error e => ({ d with bad := some e }, "reject " ++ e)

end PB.Drv.C05

def main : IO Unit := PB.Drv.runState PB.Drv.C05.DS.init PB.Drv.C05.handle
