import PB.Model.Paths
import PB.Gen.Paths
import PB.Drv.Loop
/-
Driver for C18.  First line of a case: `sb <comp> <rootRel> <variant> <cwdRel>`; then one component call per
line (see harness/cmd/hx-c18/main.go).  The decisions and resulting paths come from `PB.Model.Paths`; what the
operating system then answers (file / directory / absent / blocked by a file) is looked up in the fixed content
the harness puts below the root.  The model never touches anything outside the root, so every line ends in
`outside=none`.
-/
namespace PB.Drv.C18
open PB PB.Paths

def sbx : Path := [47, 83, 66, 88, 55] -- "/SBX7"

def bs (s : String) : Path := s.toUTF8.toList

def hexList (xs : List Path) : String :=
  if xs.isEmpty then "_" else String.intercalate "," (xs.map toHex)

def parseHexList (s : String) : Option (List Path) :=
  if s = "_" then some [] else (s.splitOn ",").mapM parseHex

structure Cfg where
  comp : String
  root : Path        -- clean virtual root
  rootGiven : Path   -- as handed to the component (trailing slash in variant `slash`)
  variant : String
  cwd : Path
  tree : DTree := []   -- comp dsh: the DirStructure tree of this case (ChildDir calls accumulate)

inductive Kind where
  | file | dir | absent | blocked
  deriving DecidableEq

/-- Position of `p` relative to `root` (`none`: not below the root). -/
def relTo (root p : Path) : Option Path :=
  if p = root then some []
  else if hasPrefix p (root ++ [47]) then some (p.drop (root.length + 1))
  else none

def kindIn (files dirs : List Path) (rel : Path) : Kind :=
  if files.contains rel then .file
  else if rel = [] ∨ dirs.contains rel then .dir
  else if files.any (fun f => hasPrefix rel (f ++ [47])) then .blocked
  else .absent

def kindAt (files dirs : List Path) (root p : Path) : Kind :=
  match relTo root p with
  | some rel => kindIn files dirs rel
  | none => .absent

def fstFiles : List Path := [bs "a", bs "d/b", bs "d/e/c"]
def fstDirs : List Path := [bs "d", bs "d/e"]
def updFiles : List Path := [bs "all/sub/y_v2-0-1.txt", bs "all/x_v1-0-0", bs "readme"]
def updIds : List (Path × Path) := [(bs "all/sub/y_v2-0-1.txt", bs "all/sub/y.txt"), (bs "all/x_v1-0-0", bs "all/x")]
def updDirs : List Path := [bs "all", bs "all/sub", bs "tmp"]

def underRel (r f : Path) : Bool := r = [] || f = r || hasPrefix f (r ++ [47])

def fin (dec : String) : String := dec ++ " outside=none"

def rej (e : Err) : String := fin s!"rej {e.str}"

def doFst (c : Cfg) (op : String) (key : Path) : String :=
  let k := kindAt fstFiles fstDirs c.root
  match op with
  | "put" => match buildFilePath c.root key true with
    | .error e => rej e
    | .ok dst => match k dst with
      | .file | .absent => fin s!"acc created {hexList [dst]}"
      | _ => fin "acc oserr"
  | "get" => match buildFilePath c.root key true with
    | .error e => rej e
    | .ok dst => match k dst with
      | .file => fin s!"acc data {toHex dst}"
      | .absent => fin "acc notfound"
      | _ => fin "acc oserr"
  | "del" => match buildFilePath c.root key true with
    | .error e => rej e
    | .ok dst => match k dst with
      | .file => fin s!"acc deleted {hexList [dst]}"
      | .absent => fin "acc deleted _"  -- os.Remove's ENOENT is ignored
      | _ => fin "acc oserr"
  | "qry" =>
    let stat : Path → Option StatKind := fun p => match k p with
      | .dir => some .dir | .file => some .file | .absent => some .absent | .blocked => none
    match buildFilePath c.root key false with
    | .error e => rej e
    | .ok wp => match stat wp with
      | none => fin "acc oserr"
      | some _ =>
        match queryWalkRoot c.root key (fun p => (stat p).getD .absent) with
        | .error e => rej e
        | .ok wr => match k wr, relTo c.root wr with
          | .dir, some r => fin s!"acc keys {hexList ((fstFiles.filter (fun f => underRel r f && queryMatchesKey key f)).map (fun f => c.root ++ 47 :: f))}"
          | _, _ => fin "acc keys _"  -- the walk fails asynchronously and delivers nothing
  | _ => "bad-op"

def dedup : List Path → List Path
  | [] => []
  | x :: xs => x :: (dedup xs).filter (· ≠ x)

def showEnsure (c : Cfg) (r : Except Err (List Path)) : String :=
  match r with
  | .error e => rej e
  | .ok dirs =>
    let ds := dedup (dirs.map clean)
    let ds := if c.variant = "noexist" then ds else ds.filter (· ≠ c.root)
    fin s!"acc dirs {hexList ds}"

def octStr (n : Nat) : String := String.ofList (Nat.toDigits 8 n)

def parseOct (s : String) : Option Nat :=
  if s.isEmpty ∨ s.length > 4 then none
  else s.toList.foldl (fun acc c => match acc with
    | none => none
    | some v => if '0' ≤ c ∧ c ≤ '7' then some (v * 8 + (c.toNat - 48)) else none) (some 0)

/-- Last permission handed to `EnsureDirectory` per directory, in order of first appearance. -/
def lastPerms : List (Path × Nat) → List (Path × Nat) → List (Path × Nat)
  | acc, [] => acc
  | acc, (p, m) :: rest =>
    let q := clean p
    if acc.any (·.1 = q) then lastPerms (acc.map (fun e => if e.1 = q then (q, m) else e)) rest
    else lastPerms (acc ++ [(q, m)]) rest

def bytesLt : Path → Path → Bool
  | [], [] => false
  | [], _ :: _ => true
  | _ :: _, [] => false
  | a :: as, b :: bs => if a < b then true else if b < a then false else bytesLt as bs

def insertSorted (x : Path) : List Path → List Path
  | [] => [x]
  | y :: ys => if bytesLt y x then y :: insertSorted x ys else x :: y :: ys

def sortPaths (xs : List Path) : List Path := xs.foldr insertSorted []

/-- comp dsh: result of an `Ensure*` call on the tree — directories created (root content is emptied before every
    call, the root itself exists with mode 755 unless variant `noexist`) with their final modes. -/
def showEnsureT (c : Cfg) (r : Except Err (List (Path × Nat))) : String :=
  match r with
  | .error e => rej e
  | .ok dirs =>
    let ds := lastPerms [] dirs
    let ds := if c.variant = "noexist" then ds else ds.filter (·.1 ≠ c.root)
    let names := sortPaths (ds.map (·.1))
    let items := names.map (fun p => toHex p ++ ":" ++ octStr ((ds.find? (·.1 = p)).map (·.2) |>.getD 0))
    fin ("acc dirsm " ++ (if items.isEmpty then "_" else String.intercalate "," items))

def underSbx (p : Path) : Bool := p = sbx || hasPrefix p (sbx ++ [47])

def doDsh (c : Cfg) (f : List String) : Cfg × String :=
  let t := c.tree
  match f with
  | ["chd", h, name, perm] =>
    match h.toNat?, parseHex name, parseOct perm with
    | some h, some name, some perm =>
      if h < t.length then
        let (t', idx) := childDir t h name perm
        let p := t'.pathOf idx
        ({ c with tree := t' }, fin s!"child {idx} {if underSbx p then toHex p else "above"}")
      else (c, "bad-op")
    | _, _, _ => (c, "bad-op")
  | ["hens", h] =>
    match h.toNat? with
    | some h => if h < t.length then (c, showEnsureT c (ensureT t h)) else (c, "bad-op")
    | none => (c, "bad-op")
  | ["hena", h, p] =>
    match h.toNat?, parseHex p with
    | some h, some p => if h < t.length then (c, showEnsureT c (ensureAbsPathT t h p)) else (c, "bad-op")
    | _, _ => (c, "bad-op")
  | ["henr", h, p] =>
    match h.toNat?, parseHex p with
    | some h, some p => if h < t.length then (c, showEnsureT c (ensureRelPathT t h p)) else (c, "bad-op")
    | _, _ => (c, "bad-op")
  | ["hend", h, l] =>
    match h.toNat?, parseHexList l with
    | some h, some xs => if h < t.length then (c, showEnsureT c (ensureRelDirT t h xs)) else (c, "bad-op")
    | _, _ => (c, "bad-op")
  | _ => (c, "bad-op")

/-- The unpack loop with the state of the unpack directory: (path, isDir). -/
def unzLoop (tmp : Path) : List (Path × Bool) → List Path → String
  | st, [] =>
    let names := st.map (fun (p, d) => let rel := p.drop (tmp.length + 1); if d then rel ++ [47] else rel)
    fin s!"acc files {hexList (sortPaths names)}"
  | st, n :: ns =>
    match unpackDst tmp n with
    | .error e => rej e
    | .ok dst =>
      let isDir := hasSuffix n [47]
      let parent := dirOf dst
      if parent ≠ tmp ∧ ¬ st.contains (parent, true) then fin "acc oserr"
      else if isDir then
        if st.any (fun e => e.1 = dst) then fin "acc oserr" else unzLoop tmp (st ++ [(dst, true)]) ns
      else if st.contains (dst, true) then fin "acc oserr"
      else if st.contains (dst, false) then unzLoop tmp st ns
      else unzLoop tmp (st ++ [(dst, false)]) ns

def doScan (c : Cfg) (arg : Path) : String :=
  match scanRoot c.root c.cwd arg with
  | .error e => rej e
  | .ok r =>
    if hasPrefix r (join2 c.root (bs "tmp")) then fin "acc ids _"
    else match kindAt updFiles updDirs c.root r, relTo c.root r with
      | .dir, some rel =>
        fin s!"acc ids {hexList ((updIds.filter (fun e => underRel rel e.1)).map (·.2))}"
      | .file, some rel => fin s!"acc ids {hexList ((updIds.filter (fun e => e.1 = rel)).map (·.2))}"
      | _, _ => fin "acc oserr"

def hexOut (p : Path) : String := toHex p

def doLib (f : List String) : String :=
  match f with
  | ["clean", a] => match parseHex a with | some a => hexOut (clean a) | none => "bad-op"
  | ["dir", a] => match parseHex a with | some a => hexOut (dirOf a) | none => "bad-op"
  | ["base", a] => match parseHex a with | some a => hexOut (baseOf a) | none => "bad-op"
  | ["join", a, b] => match parseHex a, parseHex b with
    | some a, some b => hexOut (join2 a b) | _, _ => "bad-op"
  | ["rel", a, b] => match parseHex a, parseHex b with
    | some a, some b => (match relOf a b with | some r => hexOut r | none => "err") | _, _ => "bad-op"
  | ["joinl", l] => match parseHexList l with | some xs => hexOut (joinList xs) | none => "bad-op"
  | ["bridge", a] => match parseHex a with
    | some a => (match bridgeURL PB.Gen.Paths.apiV1Path a with
      | .error e => s!"rej {e.str}" | .ok u => s!"acc url {toHex u}")
    | none => "bad-op"
  | _ => "bad-op"

/-- `s.real(p)` of the harness is the identity on the virtual side. -/
def validRel (p : Path) : Bool :=
  p ≠ [] && p.head? ≠ some 47 && (splitSep p).all (fun s => s ≠ [] && s ≠ dot && s ≠ dotdot && !s.contains 0)

def step (st : Option Cfg) (line : String) : Option Cfg × String :=
  match PB.Drv.words line with
  | ["sb", comp, rr, variant, cw] =>
    match parseHex rr, parseHex cw with
    | some rr, some cw =>
      if ¬ validRel rr ∨ (cw ≠ [] ∧ ¬ validRel cw) then (st, "bad-op")
      else if ¬ (comp = "fst" ∨ comp = "ds" ∨ comp = "dsh" ∨ comp = "upd" ∨ comp = "lib") then (st, "bad-op")
      else if ¬ (variant = "plain" ∨ variant = "slash" ∨ variant = "noexist") then (st, "bad-op")
      else
        let root := sbx ++ 47 :: rr
        let given := if variant = "slash" then root ++ [47] else root
        let cwd := if cw = [] then sbx else sbx ++ 47 :: cw
        (some { comp, root, rootGiven := given, variant, cwd, tree := newDirStructure given 0o755 }, "ok")
    | _, _ => (st, "bad-op")
  | f =>
    match st with
    | none => (st, "bad-op")
    | some c =>
      if c.comp = "dsh" then
        let (c', out) := doDsh c f
        (some c', out)
      else
      let out :=
        if c.comp = "lib" then doLib f
        else match c.comp, f with
          | "fst", [op, k] => match parseHex k with
            | some k => doFst c op k | none => "bad-op"
          | "ds", ["ens", t, p] =>
            if t = "r" ∨ t = "c" ∨ t = "g" then
              match parseHex p with | some p => showEnsure c (ensureAbsPath c.rootGiven p) | none => "bad-op"
            else "bad-op"
          | "ds", ["enr", t, p] =>
            if t = "r" ∨ t = "c" ∨ t = "g" then
              match parseHex p with | some p => showEnsure c (ensureRelPath c.rootGiven p) | none => "bad-op"
            else "bad-op"
          | "ds", ["end", t, l] =>
            if t = "r" ∨ t = "c" ∨ t = "g" then
              match parseHexList l with | some xs => showEnsure c (ensureRelDir c.rootGiven xs) | none => "bad-op"
            else "bad-op"
          | "upd", ["scan", p] => match parseHex p with
            | some p => doScan c p | none => "bad-op"
          | "upd", ["unz", l] => match parseHexList l with
            | some xs => unzLoop (c.root ++ bs "/tmp/thing_v1-0-0") [] xs | none => "bad-op"
          | _, _ => "bad-op"
      (st, out)

end PB.Drv.C18

def main : IO Unit := PB.Drv.runState (none : Option PB.Drv.C18.Cfg) PB.Drv.C18.step
