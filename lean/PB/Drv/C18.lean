import PB.Model.Paths
import PB.Gen.Paths
import PB.Drv.Loop
/-
Driver for C18.  First line of a case: `sb <comp> <rootRel> <variant> <cwdRel>`; then one component call per
line (see harness/cmd/hx-c18/main.go).  The decisions and resulting paths come from `PB.Model.Paths`; what the
operating system then answers (file / directory / absent / blocked by a file) is looked up in the fixed content
the harness puts below the root.  The model never touches anything outside the root, so every line ends in
`outside=none`.
-/
namespace PB.Drv.C18
open PB PB.Paths

def bs (s : String) : Path := s.toUTF8.toList

/-- The virtual sandbox top: the case directory of the harness is `/`, the top sits 8 levels below it. -/
def sbxSegs : List Path := [bs "p1", bs "p2", bs "p3", bs "p4", bs "p5", bs "p6", bs "p7", bs "p8", bs "sb"]
def sbx : Path := 47 :: joinSep sbxSegs

def hexList (xs : List Path) : String :=
  if xs.isEmpty then "_" else String.intercalate "," (xs.map toHex)

def parseHexList (s : String) : Option (List Path) :=
  if s = "_" then some [] else (s.splitOn ",").mapM parseHex

/-- A name on an op line: hex, `-` = empty, and the token `@R` (between hex pieces) stands for the absolute path of
    the case's root without its leading separator — the virtual one here, the real one in the harness: names that
    are built from the root's own absolute path. -/
def parseName (root : Path) (s : String) : Option Path :=
  if s = "-" then some []
  else match (s.splitOn "@R").mapM (fun piece => parseHexChars piece.toList) with
    | some (p :: ps) => some (ps.foldl (fun acc q => acc ++ root.drop 1 ++ q) p)
    | _ => none

def parseNameList (root : Path) (s : String) : Option (List Path) :=
  if s = "_" then some [] else (s.splitOn ",").mapM (parseName root)

/-- An archive entry on an `unz` line: `<name>` or `<name>:d` (the entry's attributes say "directory");
    `FileInfo().IsDir()` is true for those and for every name ending in `/` (archive/zip `FileHeader.Mode`). -/
def parseEntry (root : Path) (s : String) : Option ZEntry :=
  if s.endsWith ":d" then (parseName root (String.ofList s.toList.dropLast.dropLast)).map (fun n => ⟨n, true⟩)
  else (parseName root s).map (fun n => ⟨n, hasSuffix n [47]⟩)

def parseEntryList (root : Path) (s : String) : Option (List ZEntry) :=
  if s = "_" then some [] else (s.splitOn ",").mapM (parseEntry root)

structure Cfg where
  comp : String
  root : Path        -- clean virtual root
  rootGiven : Path   -- as handed to the component (trailing slash in variant `slash`)
  variant : String
  cwd : Path
  fsState : String := "plain"   -- comp fst: what stands at the root's place (set by `fss`)
  tree : DTree := []   -- comp dsh: the DirStructure tree of this case (ChildDir calls accumulate)

inductive Kind where
  | file | dir | absent | blocked
  deriving DecidableEq

/-- Position of `p` relative to `root` (`none`: not below the root). -/
def relTo (root p : Path) : Option Path :=
  if p = root then some []
  else if hasPrefix p (root ++ [47]) then some (p.drop (root.length + 1))
  else none

def kindIn (files dirs : List Path) (rel : Path) : Kind :=
  if files.contains rel then .file
  else if rel = [] ∨ dirs.contains rel then .dir
  else if files.any (fun f => hasPrefix rel (f ++ [47])) then .blocked
  else .absent

def kindAt (files dirs : List Path) (root p : Path) : Kind :=
  match relTo root p with
  | some rel => kindIn files dirs rel
  | none => .absent

def bytesLt : Path → Path → Bool
  | [], [] => false
  | [], _ :: _ => true
  | _ :: _, [] => false
  | a :: as, b :: bs => if a < b then true else if b < a then false else bytesLt as bs

def insertSorted (x : Path) : List Path → List Path
  | [] => [x]
  | y :: ys => if bytesLt y x then y :: insertSorted x ys else x :: y :: ys

def sortPaths (xs : List Path) : List Path := xs.foldr insertSorted []

def updFiles : List Path := [bs "all/sub/y_v2-0-1.txt", bs "all/x_v1-0-0", bs "readme"]
def updIds : List (Path × Path) := [(bs "all/sub/y_v2-0-1.txt", bs "all/sub/y.txt"), (bs "all/x_v1-0-0", bs "all/x")]
def updDirs : List Path := [bs "all", bs "all/sub", bs "tmp"]

def underRel (r f : Path) : Bool := r = [] || f = r || hasPrefix f (r ++ [47])

def fin (dec : String) : String := dec ++ " outside=none"

def rej (e : Err) : String := fin s!"rej {e.str}"

/-! #### The file system of an `fst` case: the sandbox the harness builds (ancestors with notes, siblings with
decoys) and, at the root's place, what the current state (`fss` line) puts there. -/

abbrev Item := Path × (Bool ⊕ Ents)

def insertItem (x : Item) : List Item → List Item
  | [] => [x]
  | y :: ys => if bytesLt y.1 x.1 then y :: insertItem x ys else x :: y :: ys

/-- A directory from its entries, sorted by name as `readDirNames` delivers them. -/
def mkDir (items : List Item) : Ents :=
  (items.foldr insertItem []).foldr (fun (it : Item) acc => match it.2 with
    | .inl ok => Ents.file it.1 ok acc
    | .inr sub => Ents.dir it.1 sub acc) Ents.nil

def firstSegs (ps : List (List Path)) : List Path :=
  ps.foldl (fun acc p => match p with | s :: _ => if acc.contains s then acc else acc ++ [s] | [] => acc) []

/-- A directory tree from the relative paths of its files (with their `ok` bit) and of its (possibly empty) directories. -/
def treeOf : Nat → List (List Path × Bool) → List (List Path) → Ents
  | 0, _, _ => Ents.nil
  | fuel + 1, files, dirs =>
    let names := firstSegs (files.map (·.1) ++ dirs)
    mkDir (names.map (fun n =>
      match files.find? (fun f => f.1 = [n]) with
      | some f => (n, Sum.inl f.2)
      | none =>
        let fs' := files.filterMap (fun f => match f.1 with | s :: t => if s = n ∧ t ≠ [] then some (t, f.2) else none | [] => none)
        let ds' := dirs.filterMap (fun d => match d with | s :: t => if s = n ∧ t ≠ [] then some t else none | [] => none)
        (n, Sum.inr (treeOf fuel fs' ds'))))

def segsOf (p : Path) : List Path := splitSep p

/-- What stands at the root's place in each state; `none`: unknown state. -/
def fstRootNode (state : String) : Option (Option (Bool ⊕ Ents)) :=
  let t := fun (files : List (String × Bool)) (dirs : List String) =>
    some (some (Sum.inr (treeOf 6 (files.map (fun f => (segsOf (bs f.1), f.2))) (dirs.map (fun d => segsOf (bs d))))))
  match state with
  | "plain" => t [("a", true), ("d/b", true), ("d/e/c", true)] ["d", "d/e"]
  | "rmroot" => some none
  | "rootfile" => some (some (Sum.inl true))
  | "rmd" => t [("a", true)] []
  | "dfile" => t [("a", true), ("d", true)] []
  | "extra" => t [("a", true), ("d/b", true), ("d/e/c", true), ("da", true), ("dx/f", true)] ["d", "d/e", "dx"]
  | "bad" => t [("a", true), ("c0", false), ("d/b", true), ("d/e/c", true)] ["d", "d/e"]
  | "empty" => t [] []
  | _ => none

def siblingDir : Ents :=
  mkDir [(bs "plain.txt", Sum.inl false), (bs "secret", Sum.inl true), (bs "sub", Sum.inr Ents.nil)]

/-- The name with the letter case of its first ASCII letter flipped (`root` ↦ `Root`): the sandbox holds a sibling of
this name next to the root (sandbox.go `caseVariant`). -/
def caseVariant : Path → Path
  | [] => []
  | c :: cs =>
    if 97 ≤ c.toNat ∧ c.toNat ≤ 122 then (c - 32) :: cs
    else if 65 ≤ c.toNat ∧ c.toNat ≤ 90 then (c + 32) :: cs
    else c :: caseVariant cs

/-- The directory at one level of the ancestor chain (`first`: the sandbox top). -/
def sandboxLevel (rootNode : Option (Bool ⊕ Ents)) (extraTop : List Item) (first : Bool) : List Path → Ents
  | [] => Ents.nil
  | [name] =>
    mkDir ((if first then extraTop else []) ++ [(if first then bs "top.txt" else bs "note.txt", Sum.inl false),
      (name ++ bs "-other", Sum.inr siblingDir), (name ++ bs "x", Sum.inr siblingDir), (bs "other", Sum.inr siblingDir),
      (caseVariant name, Sum.inr siblingDir), (name ++ bs "-old", Sum.inr (mkDir [(bs "secret", Sum.inl true)]))] ++
      (match rootNode with | some n => [(name, n)] | none => []))
  | seg :: rest =>
    mkDir ((if first then extraTop else []) ++
      [(if first then bs "top.txt" else bs "note.txt", Sum.inl false), (seg, Sum.inr (sandboxLevel rootNode extraTop false rest))])

/-- The whole file system: `/p1/../p8/sb/...`. -/
def sandboxFs (rootRel : Path) (rootNode : Option (Bool ⊕ Ents)) : Ents :=
  -- `<top>/mirror/<absolute path of the root>/`: a foreign tree (with a decoy) whose path embeds the root's own path
  let mirror : Ents := (sbxSegs ++ segsOf rootRel).foldr (fun seg inner => Ents.dir seg inner Ents.nil) siblingDir
  sbxSegs.foldr (fun seg inner => Ents.dir seg inner Ents.nil)
    (sandboxLevel rootNode [(bs "mirror", Sum.inr mirror)] true (segsOf rootRel))

def fsKind (fs : Ents) (p : Path) : Kind :=
  match fsLookup fs p with
  | .file _ => .file | .dir _ => .dir | .absent => .absent | .notdir => .blocked

def insideStr (root p : Path) : Bool := p = root || hasPrefix p (root ++ [47])

def doFst (c : Cfg) (op : String) (key : Path) : String :=
  match fstRootNode c.fsState with
  | none => "bad-op"
  | some rootNode =>
  let fs := sandboxFs (c.root.drop (sbx.length + 1)) rootNode
  let k := fsKind fs
  match op with
  | "put" => match buildFilePath c.root key true with
    | .error e => rej e
    | .ok dst => match k dst with
      | .file | .absent => fin s!"acc created {hexList [dst]}"
      | _ => fin "acc oserr"
  | "get" => match buildFilePath c.root key true with
    | .error e => rej e
    | .ok dst => match k dst with
      | .file => fin s!"acc data {toHex dst}"
      | .absent => fin "acc notfound"
      | _ => fin "acc oserr"
  | "gmt" => match buildFilePath c.root key true with   -- GetMeta = Get, the record's metadata returned
    | .error e => rej e
    | .ok dst => match k dst with
      | .file => fin "acc meta"
      | .absent => fin "acc notfound"
      | _ => fin "acc oserr"
  | "del" => match buildFilePath c.root key true with
    | .error e => rej e
    | .ok dst => match k dst with
      | .file => fin s!"acc deleted {hexList [dst]}"
      | .absent => fin "acc deleted _"  -- os.Remove's ENOENT is ignored
      | _ => fin "acc oserr"
  | "qry" =>
    match queryRun fs c.root key with
    | .error .statErr => fin "acc oserr"
    | .error e => rej e
    | .ok r =>
      let out := if r.acc.all (fun a => insideStr c.root a.path) then "none" else "model-reaches-outside"
      s!"acc keys {hexList (sortPaths (r.keys.map (join2 c.root)))}{if r.stop then " walkerr" else ""} outside={out}"
  | _ => "bad-op"

def dedup : List Path → List Path
  | [] => []
  | x :: xs => x :: (dedup xs).filter (· ≠ x)

def showEnsure (c : Cfg) (r : Except Err (List Path)) : String :=
  match r with
  | .error e => rej e
  | .ok dirs =>
    let ds := dedup (dirs.map clean)
    let ds := if c.variant = "noexist" then ds else ds.filter (· ≠ c.root)
    fin s!"acc dirs {hexList ds}"

def octStr (n : Nat) : String := String.ofList (Nat.toDigits 8 n)

def parseOct (s : String) : Option Nat :=
  if s.isEmpty ∨ s.length > 4 then none
  else s.toList.foldl (fun acc c => match acc with
    | none => none
    | some v => if '0' ≤ c ∧ c ≤ '7' then some (v * 8 + (c.toNat - 48)) else none) (some 0)

/-- Last permission handed to `EnsureDirectory` per directory, in order of first appearance. -/
def lastPerms : List (Path × Nat) → List (Path × Nat) → List (Path × Nat)
  | acc, [] => acc
  | acc, (p, m) :: rest =>
    let q := clean p
    if acc.any (·.1 = q) then lastPerms (acc.map (fun e => if e.1 = q then (q, m) else e)) rest
    else lastPerms (acc ++ [(q, m)]) rest

/-- comp dsh: result of an `Ensure*` call on the tree — directories created (root content is emptied before every
    call, the root itself exists with mode 755 unless variant `noexist`) with their final modes. -/
def showEnsureT (c : Cfg) (r : Except Err (List (Path × Nat))) : String :=
  match r with
  | .error e => rej e
  | .ok dirs =>
    let ds := lastPerms [] dirs
    let ds := if c.variant = "noexist" then ds else ds.filter (·.1 ≠ c.root)
    let names := sortPaths (ds.map (·.1))
    let items := names.map (fun p => toHex p ++ ":" ++ octStr ((ds.find? (·.1 = p)).map (·.2) |>.getD 0))
    fin ("acc dirsm " ++ (if items.isEmpty then "_" else String.intercalate "," items))

def doDsh (c : Cfg) (f : List String) : Cfg × String :=
  let t := c.tree
  match f with
  | ["chd", h, name, perm] =>
    match h.toNat?, parseName c.root name, parseOct perm with
    | some h, some name, some perm =>
      if h < t.length then
        let (t', idx) := childDir t h name perm
        let p := t'.pathOf idx
        ({ c with tree := t' }, fin s!"child {idx} {toHex p}")
      else (c, "bad-op")
    | _, _, _ => (c, "bad-op")
  | ["hens", h] =>
    match h.toNat? with
    | some h => if h < t.length then (c, showEnsureT c (ensureT t h)) else (c, "bad-op")
    | none => (c, "bad-op")
  | ["hena", h, p] =>
    match h.toNat?, parseName c.root p with
    | some h, some p => if h < t.length then (c, showEnsureT c (ensureAbsPathT t h p)) else (c, "bad-op")
    | _, _ => (c, "bad-op")
  | ["henr", h, p] =>
    match h.toNat?, parseName c.root p with
    | some h, some p => if h < t.length then (c, showEnsureT c (ensureRelPathT t h p)) else (c, "bad-op")
    | _, _ => (c, "bad-op")
  | ["hend", h, l] =>
    match h.toNat?, parseNameList c.root l with
    | some h, some xs => if h < t.length then (c, showEnsureT c (ensureRelDirT t h xs)) else (c, "bad-op")
    | _, _ => (c, "bad-op")
  | _ => (c, "bad-op")

/-- `UnpackResources` on an archive with these entries: the loop of the model on the freshly created unpack directory. -/
def doUnz (tmp : Path) (es : List ZEntry) : String :=
  match unpackLoop (osFresh tmp) tmp [] es with
  | (ops, none) =>
    let names := ops.map (fun op => let rel := op.path.drop (tmp.length + 1)
      match op with | .mkdir _ => rel ++ [47] | .create _ => rel)
    fin s!"acc files {hexList (sortPaths (dedup names))}"
  | (_, some .insecure) => rej .insecure
  | (_, some _) => fin "acc oserr"

def doScan (c : Cfg) (arg : Path) : String :=
  match scanRoot c.root c.cwd arg with
  | .error e => rej e
  | .ok r =>
    if hasPrefix r (join2 c.root (bs "tmp")) then fin "acc ids _"
    else match kindAt updFiles updDirs c.root r, relTo c.root r with
      | .dir, some rel =>
        fin s!"acc ids {hexList ((updIds.filter (fun e => underRel rel e.1)).map (·.2))}"
      | .file, some rel => fin s!"acc ids {hexList ((updIds.filter (fun e => e.1 = rel)).map (·.2))}"
      | _, _ => fin "acc oserr"

def hexOut (p : Path) : String := toHex p

def doLib (f : List String) : String :=
  match f with
  | ["clean", a] => match parseHex a with | some a => hexOut (clean a) | none => "bad-op"
  | ["dir", a] => match parseHex a with | some a => hexOut (dirOf a) | none => "bad-op"
  | ["base", a] => match parseHex a with | some a => hexOut (baseOf a) | none => "bad-op"
  | ["join", a, b] => match parseHex a, parseHex b with
    | some a, some b => hexOut (join2 a b) | _, _ => "bad-op"
  | ["rel", a, b] => match parseHex a, parseHex b with
    | some a, some b => (match relOf a b with | some r => hexOut r | none => "err") | _, _ => "bad-op"
  | ["joinl", l] => match parseHexList l with | some xs => hexOut (joinList xs) | none => "bad-op"
  | ["bridge", a] => match parseHex a with
    | some a => (match bridgeURL PB.Gen.Paths.apiV1Path a with
      | .error e => s!"rej {e.str}" | .ok u => s!"acc url {toHex u}")
    | none => "bad-op"
  | _ => "bad-op"

/-- `s.real(p)` of the harness is the identity on the virtual side. -/
def validRel (p : Path) : Bool :=
  p ≠ [] && p.head? ≠ some 47 && (splitSep p).all (fun s => s ≠ [] && s ≠ dot && s ≠ dotdot && !s.contains 0)

def step (st : Option Cfg) (line : String) : Option Cfg × String :=
  match PB.Drv.words line with
  | ["sb", comp, rr, variant, cw] =>
    match parseHex rr, parseHex cw with
    | some rr, some cw =>
      if ¬ validRel rr ∨ (cw ≠ [] ∧ ¬ validRel cw) then (st, "bad-op")
      else if ¬ (comp = "fst" ∨ comp = "ds" ∨ comp = "dsh" ∨ comp = "upd" ∨ comp = "lib") then (st, "bad-op")
      else if ¬ (variant = "plain" ∨ variant = "slash" ∨ variant = "noexist" ∨ (variant = "nested" ∧ comp = "upd")) then (st, "bad-op")
      else
        let root := sbx ++ 47 :: rr
        let given := if variant = "slash" then root ++ [47] else root
        let cwd := if cw = [] then sbx else sbx ++ 47 :: cw
        (some { comp, root, rootGiven := given, variant, cwd, tree := newDirStructure given 0o755 }, "ok")
    | _, _ => (st, "bad-op")
  | f =>
    match st with
    | none => (st, "bad-op")
    | some c =>
      if c.comp = "dsh" then
        let (c', out) := doDsh c f
        (some c', out)
      else if c.comp = "fst" ∧ f.head? = some "fss" then
        match f with
        | ["fss", st] => if (fstRootNode st).isSome then (some { c with fsState := st }, "ok") else (some c, "bad-op")
        | _ => (some c, "bad-op")
      else
      let out :=
        if c.comp = "lib" then doLib f
        else match c.comp, f with
          | "fst", [op, k] => match parseName c.root k with
            | some k => doFst c op k | none => "bad-op"
          | "ds", ["ens", t, p] =>
            if t = "r" ∨ t = "c" ∨ t = "g" then
              match parseName c.root p with | some p => showEnsure c (ensureAbsPath c.rootGiven p) | none => "bad-op"
            else "bad-op"
          | "ds", ["enr", t, p] =>
            if t = "r" ∨ t = "c" ∨ t = "g" then
              match parseName c.root p with | some p => showEnsure c (ensureRelPath c.rootGiven p) | none => "bad-op"
            else "bad-op"
          | "ds", ["end", t, l] =>
            if t = "r" ∨ t = "c" ∨ t = "g" then
              match parseNameList c.root l with | some xs => showEnsure c (ensureRelDir c.rootGiven xs) | none => "bad-op"
            else "bad-op"
          | "upd", ["scan", p] => match parseName c.root p with
            | some p => doScan c p | none => "bad-op"
          | "upd", ["unz", l] => match parseEntryList c.root l with
            | some es => doUnz (c.root ++ bs "/tmp/thing_v1-0-0") es | none => "bad-op"
          | _, _ => "bad-op"
      (st, out)

end PB.Drv.C18

def main : IO Unit := PB.Drv.runState (none : Option PB.Drv.C18.Cfg) PB.Drv.C18.step
