import PB.Bytes
import PB.Model.Varint
/-
Semantics helpers for Lean code generated from Go source by harness/cmd/extract/golean.go
(a translator for a small pure fragment of Go: if/return/switch, :=, integer arithmetic with explicit
wrap-around, len, index and slice expressions with explicit bounds checks, calls).
Every Go integer is an `Int`; `wrapU n` / `wrapI64` are applied where Go would wrap. A Go run-time panic
(index or slice out of range, make with a bad size, PutUvarint into a short buffer) is the value `.panic`.
-/
namespace PB.Go
open PB

inductive Res (α : Type) where
  | ok (a : α)
  | panic
  deriving Repr, DecidableEq

/-- Go `error` values of the translated fragment: `nil`, a package-level sentinel, or `errors.New(msg)`. -/
abbrev Err := Option String

def wrapU (bits : Nat) (x : Int) : Int := x % (2 : Int) ^ bits
def wrapI64 (x : Int) : Int := PB.toInt64 (x % (2 : Int) ^ 64).toNat

def len (b : Bytes) : Int := (b.length : Int)
def inIdx (b : Bytes) (i : Int) : Bool := decide (0 ≤ i ∧ i < (b.length : Int))
def byteAt (b : Bytes) (i : Int) : Int := ((b.getD i.toNat 0).toNat : Int)
/-- `b[lo:hi]` is in range (checked against the length; Go checks against the capacity, which is at least
    the length, so "no panic here" implies "no panic in Go"). -/
def inSlice (b : Bytes) (lo hi : Int) : Bool := decide (0 ≤ lo ∧ lo ≤ hi ∧ hi ≤ (b.length : Int))
def slice (b : Bytes) (lo hi : Int) : Bytes := (b.drop lo.toNat).take (hi - lo).toNat
/-- `[][]byte` values are lists of byte strings. -/
def lenL (xs : List Bytes) : Int := (xs.length : Int)
def inIdxL (xs : List Bytes) (i : Int) : Bool := decide (0 ≤ i ∧ i < (xs.length : Int))
def atL (xs : List Bytes) (i : Int) : Bytes := xs.getD i.toNat []
def mkBytes (xs : List Int) : Bytes := xs.map (fun x => UInt8.ofNat x.toNat)

/-! ### Intrinsics: the two stdlib functions the varint package calls (hand-modelled in `PB.Model.Varint`,
    compared with the real stdlib by the C10 correspondence run) -/

/-- `buf := make([]byte, cap); w := binary.PutUvarint(buf, x); buf[:w]` — PutUvarint panics if the buffer is
    too small. -/
def putUvarintInto (cap : Int) (x : Int) : Res Bytes :=
  let enc := PB.Varint.putUvarint x.toNat
  if cap < 0 then .panic
  else if (enc.length : Int) ≤ cap then .ok enc else .panic

/-- `binary.Uvarint(b)`: (value, n); n = 0: buffer too small; n < 0: overflow (magnitude not modelled). -/
def uvarint (b : Bytes) : Int × Int :=
  match PB.Varint.uvarint b with
  | .ok v n => ((v : Int), (n : Int))
  | .small => (0, 0)
  | .overflow => (0, -1)

end PB.Go
