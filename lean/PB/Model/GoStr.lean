import PB.GoSem
/-
Semantics of the Go string-list fragment that harness/cmd/extract/dbkey.go translates (record.ParseKey):
`strings.SplitN`, `strings.Split`, `strings.Join` for a non-empty separator, `len`, index and slice expressions
on `[]string` with explicit bounds checks. Strings are lists of characters (Go strings are byte sequences; a
separator made of ASCII characters cuts a UTF-8 string at the same places in both readings).
-/
namespace PB.GoStr

abbrev Str := List Char

/-- `strings.Index` + cut: the parts before and after the first occurrence of `sep`. -/
def cut (sep : Str) : Str → Option (Str × Str)
  | [] => none
  | c :: cs =>
    if sep.isPrefixOf (c :: cs) then some ([], (c :: cs).drop sep.length)
    else (cut sep cs).map (fun p => (c :: p.1, p.2))

/-- At most `k` cuts from the left; the last element is the unsplit remainder (`genSplit`). -/
def splitK (sep : Str) : Nat → Str → List Str
  | 0, s => [s]
  | k + 1, s =>
    match cut sep s with
    | none => [s]
    | some (a, b) => a :: splitK sep k b

/-- `strings.SplitN(s, sep, n)` for a non-empty `sep`: n = 0 gives nil, n < 0 all substrings, n > 0 at most n
    substrings, the last one being the unsplit remainder. -/
def splitN (s sep : Str) (n : Int) : List Str :=
  if n = 0 then []
  else if n < 0 then splitK sep s.length s   -- a string has at most `length` occurrences of a non-empty separator
  else splitK sep (n.toNat - 1) s

/-- `strings.Split(s, sep)` = `SplitN(s, sep, -1)`. -/
def split (s sep : Str) : List Str := splitN s sep (-1)

/-- `strings.Join`. -/
def join : List Str → Str → Str
  | [], _ => []
  | [a], _ => a
  | a :: b :: rest, sep => a ++ sep ++ join (b :: rest) sep

def len (l : List Str) : Int := (l.length : Int)
def inIdx (l : List Str) (i : Int) : Bool := decide (0 ≤ i ∧ i < (l.length : Int))
def strAt (l : List Str) (i : Int) : Str := l.getD i.toNat []
/-- `l[lo:hi]` is in range (against the length; Go checks against the capacity ≥ length). -/
def inSlice (l : List Str) (lo hi : Int) : Bool := decide (0 ≤ lo ∧ lo ≤ hi ∧ hi ≤ (l.length : Int))
def slice (l : List Str) (lo hi : Int) : List Str := (l.drop lo.toNat).take (hi - lo).toNat

end PB.GoStr
