/-
Interleaving model of the query result hand-over (database/iterator/iterator.go after the fix):

  producer (storage executor)            consumer
  ---------------------------            --------
  send record … (while Next has room)    receive record …
  Finish(err):                           (Next closed and drained)
    p1: lock; it.err = err; unlock       c1: Err(): lock; read it.err; unlock
    p2: close(it.Next)
    p3: close(it.Done)

One action per atomic step (channel operation, lock-protected section). `Next` is a buffered channel.
-/
namespace PB.Iter

structure St where
  toSend : Nat            -- records the producer still wants to send
  buf : Nat               -- records sitting in Next
  cap : Nat               -- capacity of Next
  ppc : Nat := 0          -- 0 sending, 1 error stored, 2 Next closed, 3 Done closed
  errStored : Bool := false
  nextClosed : Bool := false
  cpc : Nat := 0          -- 0 draining, 1 saw the end of the stream, 2 has read Err()
  received : Nat := 0
  observed : Bool := false  -- what Err() answered (true = the producer's error)
  deriving Repr, DecidableEq

inductive Act where
  | send | storeErr | closeNext | closeDone | recv | seeEnd | readErr
  deriving Repr, DecidableEq

/-- The producer finishes with an error (the case the property speaks about). -/
def step (s : St) : Act → Option St
  | .send => if s.ppc = 0 ∧ s.toSend > 0 ∧ s.buf < s.cap then some { s with toSend := s.toSend - 1, buf := s.buf + 1 } else none
  | .storeErr => if s.ppc = 0 ∧ s.toSend = 0 then some { s with ppc := 1, errStored := true } else none
  | .closeNext => if s.ppc = 1 then some { s with ppc := 2, nextClosed := true } else none
  | .closeDone => if s.ppc = 2 then some { s with ppc := 3 } else none
  | .recv => if s.cpc = 0 ∧ s.buf > 0 then some { s with buf := s.buf - 1, received := s.received + 1 } else none
  | .seeEnd => if s.cpc = 0 ∧ s.buf = 0 ∧ s.nextClosed then some { s with cpc := 1 } else none
  | .readErr => if s.cpc = 1 then some { s with cpc := 2, observed := s.errStored } else none

def init (n cap : Nat) : St := { toSend := n, buf := 0, cap := cap }

/-- Run a schedule; `none` if some action was not enabled. -/
def exec (s : St) : List Act → Option St
  | [] => some s
  | a :: rest => match step s a with
    | some s' => exec s' rest
    | none => none

/-- The order of the pinned tree: close Next (and Done), then store the error. -/
def stepOld (s : St) : Act → Option St
  | .closeNext => if s.ppc = 0 ∧ s.toSend = 0 then some { s with ppc := 1, nextClosed := true } else none
  | .closeDone => if s.ppc = 1 then some { s with ppc := 2 } else none
  | .storeErr => if s.ppc = 2 then some { s with ppc := 3, errStored := true } else none
  | a => step s a

def execOld (s : St) : List Act → Option St
  | [] => some s
  | a :: rest => match stepOld s a with
    | some s' => execOld s' rest
    | none => none

/-!
### Hand-over of records with a per-record permission check, against concurrent re-flagging

The query executors (hashmap/map.go `queryExecutor` after its snapshot, bbolt / badger cursor loops, the fstree
walk) visit the candidate records one by one; for each they check key, condition, validity and
`Meta().CheckPermission(local, internal)` and only then send the record into `Next` (blocking while the buffer
is full). Meanwhile a privileged interface may mark records secret / crown jewel (`protect x` = that call
has returned for record `x`). One action per check, channel operation and re-flag.

`due` is a ghost field: the records that were marked while they were still waiting for their check.
-/
namespace HandOver

structure St where
  todo : List Nat            -- candidates still to be visited (hashmap: the snapshot; distinct keys)
  hand : Option Nat := none  -- passed its check, being sent
  buf : List Nat := []       -- contents of Next, oldest first
  cap : Nat                  -- capacity of Next
  recvd : List Nat := []     -- what the consumer has received, most recent first
  prot : List Nat := []      -- records marked so far
  due : List Nat := []       -- ghost: marked before their hand-over check
  deriving Repr, DecidableEq

inductive Act where
  | check | send | recv | protect (x : Nat)
  deriving Repr, DecidableEq

/-- The executors as written: the permission check is part of the visit that precedes the send. -/
def step (s : St) : Act → Option St
  | .check =>
    match s.hand, s.todo with
    | none, x :: rest => if x ∈ s.prot then some { s with todo := rest } else some { s with todo := rest, hand := some x }
    | _, _ => none
  | .send =>
    match s.hand with
    | some x => if s.buf.length < s.cap then some { s with hand := none, buf := s.buf ++ [x] } else none
    | none => none
  | .recv =>
    match s.buf with
    | x :: rest => some { s with buf := rest, recvd := x :: s.recvd }
    | [] => none
  | .protect x => some { s with prot := x :: s.prot, due := if x ∈ s.todo then x :: s.due else s.due }

def init (todo : List Nat) (cap : Nat) : St := { todo := todo, cap := cap }

def exec (s : St) : List Act → Option St
  | [] => some s
  | a :: rest => match step s a with
    | some s' => exec s' rest
    | none => none

/-- Records the consumer has received plus those that have left the executor or are about to (in the buffer, in
    the blocked send). -/
def inFlight (s : St) : Nat := s.recvd.length + s.buf.length + (if s.hand.isSome then 1 else 0)

/-- A variant that decides the permission when the candidates are collected (at `init`, i.e. before any
    `protect`) and not again at the visit: what is in the snapshot is sent. Kept for the refutation witness. -/
def stepSnapshotCheck (s : St) : Act → Option St
  | .check =>
    match s.hand, s.todo with
    | none, x :: rest => some { s with todo := rest, hand := some x }
    | _, _ => none
  | a => step s a

def execSnapshotCheck (s : St) : List Act → Option St
  | [] => some s
  | a :: rest => match stepSnapshotCheck s a with
    | some s' => execSnapshotCheck s' rest
    | none => none

end HandOver

/-!
### `runtime.Registry.Query`: one goroutine per value provider, a per-record filter, one result stream

`Registry.Query` (runtime/registry.go) starts one goroutine per matching provider (`errgroup`). Each goroutine
asks its provider for the records and then, record by record: locks the record, evaluates the filter
(`MatchesKey`, `CheckValidity`, `CheckPermission(local, internal)`, `MatchesRecord`) into the variable `allowed`,
unlocks the record, and *then* decides: `if !allowed { continue }`, else sends the record into `Next`.

Between the evaluation and the decision other goroutines run. What the decision reads is therefore the question:
a variable of its own (declared inside the record loop or anywhere inside the goroutine's function literal), or a
variable declared in `Query` itself, which all goroutines share (`shared = true`). Where the source declares it is
regenerated (`PB.Gen.DbReg`); the model takes it as the parameter `shared`.

One action per atomic step: `eval g` = lock, evaluate, write `allowed`, unlock; `decide g` = read `allowed`, skip or
send. A record is an id and the verdict of the filter on it (flags and query are constant during the query; the
re-flagging race is `HandOver`'s subject).
-/
namespace RegQuery

/-- One provider goroutine. -/
structure G where
  todo : List (Nat × Bool)            -- records still to look at: (id, filter verdict)
  cur : Option (Nat × Bool) := none    -- evaluated, decision pending
  allowed : Bool := false              -- the goroutine's own `allowed`
  deriving Repr, DecidableEq

structure St where
  gs : List G
  shared : Bool := false               -- the one `allowed` all goroutines write, if it is declared in `Query`
  out : List (Nat × Bool) := []        -- what was sent into `Next`
  deriving Repr, DecidableEq

inductive Act where
  | eval (g : Nat) | decide (g : Nat)
  deriving Repr, DecidableEq

def step (sharedVar : Bool) (s : St) : Act → Option St
  | .eval i =>
    match s.gs[i]? with
    | some g =>
      (match g.cur, g.todo with
       | none, x :: rest =>
         some { s with gs := s.gs.set i { g with todo := rest, cur := some x, allowed := x.2 },
                       shared := if sharedVar then x.2 else s.shared }
       | _, _ => none)
    | none => none
  | .decide i =>
    match s.gs[i]? with
    | some g =>
      (match g.cur with
       | some x =>
         let a := if sharedVar then s.shared else g.allowed
         some { s with gs := s.gs.set i { g with cur := none }, out := if a then s.out ++ [x] else s.out }
       | none => none)
    | none => none

def init (providers : List (List (Nat × Bool))) : St := { gs := providers.map (fun l => { todo := l }) }

def exec (sharedVar : Bool) (s : St) : List Act → Option St
  | [] => some s
  | a :: rest => match step sharedVar s a with
    | some s' => exec sharedVar s' rest
    | none => none

end RegQuery

end PB.Iter
