/-
Interleaving model of the query result hand-over (database/iterator/iterator.go after the fix):

  producer (storage executor)            consumer
  ---------------------------            --------
  send record … (while Next has room)    receive record …
  Finish(err):                           (Next closed and drained)
    p1: lock; it.err = err; unlock       c1: Err(): lock; read it.err; unlock
    p2: close(it.Next)
    p3: close(it.Done)

One action per atomic step (channel operation, lock-protected section). `Next` is a buffered channel.
-/
namespace PB.Iter

structure St where
  toSend : Nat            -- records the producer still wants to send
  buf : Nat               -- records sitting in Next
  cap : Nat               -- capacity of Next
  ppc : Nat := 0          -- 0 sending, 1 error stored, 2 Next closed, 3 Done closed
  errStored : Bool := false
  nextClosed : Bool := false
  cpc : Nat := 0          -- 0 draining, 1 saw the end of the stream, 2 has read Err()
  received : Nat := 0
  observed : Bool := false  -- what Err() answered (true = the producer's error)
  deriving Repr, DecidableEq

inductive Act where
  | send | storeErr | closeNext | closeDone | recv | seeEnd | readErr
  deriving Repr, DecidableEq

/-- The producer finishes with an error (the case the property speaks about). -/
def step (s : St) : Act → Option St
  | .send => if s.ppc = 0 ∧ s.toSend > 0 ∧ s.buf < s.cap then some { s with toSend := s.toSend - 1, buf := s.buf + 1 } else none
  | .storeErr => if s.ppc = 0 ∧ s.toSend = 0 then some { s with ppc := 1, errStored := true } else none
  | .closeNext => if s.ppc = 1 then some { s with ppc := 2, nextClosed := true } else none
  | .closeDone => if s.ppc = 2 then some { s with ppc := 3 } else none
  | .recv => if s.cpc = 0 ∧ s.buf > 0 then some { s with buf := s.buf - 1, received := s.received + 1 } else none
  | .seeEnd => if s.cpc = 0 ∧ s.buf = 0 ∧ s.nextClosed then some { s with cpc := 1 } else none
  | .readErr => if s.cpc = 1 then some { s with cpc := 2, observed := s.errStored } else none

def init (n cap : Nat) : St := { toSend := n, buf := 0, cap := cap }

/-- Run a schedule; `none` if some action was not enabled. -/
def exec (s : St) : List Act → Option St
  | [] => some s
  | a :: rest => match step s a with
    | some s' => exec s' rest
    | none => none

/-- The order of the pinned tree: close Next (and Done), then store the error. -/
def stepOld (s : St) : Act → Option St
  | .closeNext => if s.ppc = 0 ∧ s.toSend = 0 then some { s with ppc := 1, nextClosed := true } else none
  | .closeDone => if s.ppc = 1 then some { s with ppc := 2 } else none
  | .storeErr => if s.ppc = 2 then some { s with ppc := 3, errStored := true } else none
  | a => step s a

def execOld (s : St) : List Act → Option St
  | [] => some s
  | a :: rest => match stepOld s a with
    | some s' => execOld s' rest
    | none => none

end PB.Iter
