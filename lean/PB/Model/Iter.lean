/-
Interleaving model of the query result hand-over (database/iterator/iterator.go after the fix):

  producer (storage executor)            consumer
  ---------------------------            --------
  send record … (while Next has room)    receive record …
  Finish(err):                           (Next closed and drained)
    p1: lock; it.err = err; unlock       c1: Err(): lock; read it.err; unlock
    p2: close(it.Next)
    p3: close(it.Done)

One action per atomic step (channel operation, lock-protected section). `Next` is a buffered channel.
-/
namespace PB.Iter

structure St where
  toSend : Nat            -- records the producer still wants to send
  buf : Nat               -- records sitting in Next
  cap : Nat               -- capacity of Next
  ppc : Nat := 0          -- 0 sending, 1 error stored, 2 Next closed, 3 Done closed
  errStored : Bool := false
  nextClosed : Bool := false
  cpc : Nat := 0          -- 0 draining, 1 saw the end of the stream, 2 has read Err()
  received : Nat := 0
  observed : Bool := false  -- what Err() answered (true = the producer's error)
  deriving Repr, DecidableEq

inductive Act where
  | send | storeErr | closeNext | closeDone | recv | seeEnd | readErr
  deriving Repr, DecidableEq

/-- The producer finishes with an error (the case the property speaks about). -/
def step (s : St) : Act → Option St
  | .send => if s.ppc = 0 ∧ s.toSend > 0 ∧ s.buf < s.cap then some { s with toSend := s.toSend - 1, buf := s.buf + 1 } else none
  | .storeErr => if s.ppc = 0 ∧ s.toSend = 0 then some { s with ppc := 1, errStored := true } else none
  | .closeNext => if s.ppc = 1 then some { s with ppc := 2, nextClosed := true } else none
  | .closeDone => if s.ppc = 2 then some { s with ppc := 3 } else none
  | .recv => if s.cpc = 0 ∧ s.buf > 0 then some { s with buf := s.buf - 1, received := s.received + 1 } else none
  | .seeEnd => if s.cpc = 0 ∧ s.buf = 0 ∧ s.nextClosed then some { s with cpc := 1 } else none
  | .readErr => if s.cpc = 1 then some { s with cpc := 2, observed := s.errStored } else none

def init (n cap : Nat) : St := { toSend := n, buf := 0, cap := cap }

/-- Run a schedule; `none` if some action was not enabled. -/
def exec (s : St) : List Act → Option St
  | [] => some s
  | a :: rest => match step s a with
    | some s' => exec s' rest
    | none => none

/-- The order of the pinned tree: close Next (and Done), then store the error. -/
def stepOld (s : St) : Act → Option St
  | .closeNext => if s.ppc = 0 ∧ s.toSend = 0 then some { s with ppc := 1, nextClosed := true } else none
  | .closeDone => if s.ppc = 1 then some { s with ppc := 2 } else none
  | .storeErr => if s.ppc = 2 then some { s with ppc := 3, errStored := true } else none
  | a => step s a

def execOld (s : St) : List Act → Option St
  | [] => some s
  | a :: rest => match stepOld s a with
    | some s' => execOld s' rest
    | none => none

/-!
### Hand-over of records with a per-record permission check, against concurrent re-flagging

The query executors (hashmap/map.go `queryExecutor` after its snapshot, bbolt / badger cursor loops, the fstree
walk) visit the candidate records one by one; for each they check key, condition, validity and
`Meta().CheckPermission(local, internal)` and only then send the record into `Next` (blocking while the buffer
is full). Meanwhile a privileged interface may mark records secret / crown jewel (`protect x` = that call
has returned for record `x`). One action per check, channel operation and re-flag.

`due` is a ghost field: the records that were marked while they were still waiting for their check.
-/
namespace HandOver

structure St where
  todo : List Nat            -- candidates still to be visited (hashmap: the snapshot; distinct keys)
  hand : Option Nat := none  -- passed its check, being sent
  buf : List Nat := []       -- contents of Next, oldest first
  cap : Nat                  -- capacity of Next
  recvd : List Nat := []     -- what the consumer has received, most recent first
  prot : List Nat := []      -- records marked so far
  due : List Nat := []       -- ghost: marked before their hand-over check
  deriving Repr, DecidableEq

inductive Act where
  | check | send | recv | protect (x : Nat)
  deriving Repr, DecidableEq

/-- The executors as written: the permission check is part of the visit that precedes the send. -/
def step (s : St) : Act → Option St
  | .check =>
    match s.hand, s.todo with
    | none, x :: rest => if x ∈ s.prot then some { s with todo := rest } else some { s with todo := rest, hand := some x }
    | _, _ => none
  | .send =>
    match s.hand with
    | some x => if s.buf.length < s.cap then some { s with hand := none, buf := s.buf ++ [x] } else none
    | none => none
  | .recv =>
    match s.buf with
    | x :: rest => some { s with buf := rest, recvd := x :: s.recvd }
    | [] => none
  | .protect x => some { s with prot := x :: s.prot, due := if x ∈ s.todo then x :: s.due else s.due }

def init (todo : List Nat) (cap : Nat) : St := { todo := todo, cap := cap }

def exec (s : St) : List Act → Option St
  | [] => some s
  | a :: rest => match step s a with
    | some s' => exec s' rest
    | none => none

/-- Records the consumer has received plus those that have left the executor or are about to (in the buffer, in
    the blocked send). -/
def inFlight (s : St) : Nat := s.recvd.length + s.buf.length + (if s.hand.isSome then 1 else 0)

/-- A variant that decides the permission when the candidates are collected (at `init`, i.e. before any
    `protect`) and not again at the visit: what is in the snapshot is sent. Kept for the refutation witness. -/
def stepSnapshotCheck (s : St) : Act → Option St
  | .check =>
    match s.hand, s.todo with
    | none, x :: rest => some { s with todo := rest, hand := some x }
    | _, _ => none
  | a => step s a

def execSnapshotCheck (s : St) : List Act → Option St
  | [] => some s
  | a :: rest => match stepSnapshotCheck s a with
    | some s' => execSnapshotCheck s' rest
    | none => none

end HandOver

end PB.Iter
