import PB.Model.FsAtomic
/-
C17 — the writers of utils/renameio (tempfile.go, writefile.go), utils/atomic.go and fstree.writeFile as PROGRAMS
over the system-call alphabet, written branch by branch from the Go source: every `if err != nil` is a branch on
the answer of the preceding call, every `defer` is spelled out at each return.

A program is run against the file-system model with an ORACLE that, per system call, picks the random temp
name, the descriptor number, and may inject a failure the model itself would not produce (EIO, ENOSPC, …).
An exhausted oracle stops the run: that is a crash point.
-/
namespace PB.FsAtomic

inductive Req where
  /-- os.CreateTemp(dir, pfx): open(dir/<pfx><random>, O_RDWR|O_CREAT|O_EXCL, 0600) -/
  | createTemp (dir : Path) (pfx : String)
  /-- os.MkdirTemp(dir, pfx): mkdir(dir/<pfx><random>, 0700) -/
  | mkdirTemp (dir : Path) (pfx : String)
  | call (c : Call)

inductive Rsp where
  | ok
  | created (p : Path) (fd : Nat)
  | err (e : Errno)

inductive Prog where
  /-- the operation returned; `failed`: it returned an error -/
  | ret (failed : Bool)
  | sys (r : Req) (k : Rsp → Prog)
  /-- a read-only question to the file system (lstat / readdir): not a recorded call, cannot be made to fail -/
  | probeDir (p : Path) (k : Bool → Prog)
  | probeExists (p : Path) (k : Bool → Prog)
  /-- stat(p).Mode().Perm() == m -/
  | probeMode (p : Path) (m : Nat) (k : Bool → Prog)

/-- The permission bits of whatever is at `p` are `m`. -/
def modeIs (s : FS) (p : Path) (m : Nat) : Bool :=
  match lookup s.names p with
  | none => false
  | some i => (inodeAt s i).map (·.mode) == some m

structure Choice where
  fail : Option Errno
  /-- the random part of a temp name -/
  rnd : String
  fd : Nat

/-- The concrete call a request becomes under a choice, and the answer a successful execution gives.
    Temp names are `<prefix>#<random>` (the canonical form the harness gives the random digits). -/
def concretize (r : Req) (c : Choice) : Call × Rsp :=
  match r with
  | .createTemp dir pfx =>
    let p := dir ++ [pfx ++ "#" ++ c.rnd]
    (.openC p true true false 0o600 (some c.fd), .created p c.fd)
  | .mkdirTemp dir pfx =>
    let p := dir ++ [pfx ++ "#" ++ c.rnd]
    (.mkdir p 0o700, .created p 0)
  | .call k => (k, .ok)

/-- The successful calls of a run, in order (a failed call changes nothing and is not listed). -/
def runProg : Prog → FS → List Choice → List Call
  | .ret _, _, _ => []
  | .probeDir p k, s, o => runProg (k (kindAt s p == some .dir)) s o
  | .probeExists p k, s, o => runProg (k (lookup s.names p).isSome) s o
  | .probeMode p m k, s, o => runProg (k (modeIs s p m)) s o
  | .sys _ _, _, [] => []
  | .sys r k, s, c :: cs =>
    match c.fail with
    | some e => runProg (k (.err e)) s cs
    | none =>
      match exec s (concretize r c).1 with
      | (s', .ok) => (concretize r c).1 :: runProg (k (concretize r c).2) s' cs
      | (_, .err e) => runProg (k (.err e)) s cs

/-- The oracle of the exhaustive exploration: the n-th call gets random part `n` and descriptor 5; `fails`
    says which calls fail although the model would let them succeed. -/
def rndOf (n : Nat) : String :=
  ["1", "2", "3", "4", "5", "6", "7", "8", "9", "10", "11", "12", "13", "14", "15", "16", "17", "18", "19", "20", "21", "22", "23", "24", "25", "26", "27", "28", "29", "30", "31", "32", "33", "34", "35", "36", "37", "38", "39", "40"].getD n "x"

def oracleOf (n : Nat) : List Bool → List Choice
  | [] => []
  | f :: fs => { fail := if f then some .EINVAL else none, rnd := rndOf n, fd := 5 } :: oracleOf (n + 1) fs

/-- What a single created path must satisfy for `onlyTemp`. -/
def okCall (dest : Path) (tmp : Path → Bool) (c : Call) : Bool := onlyTemp dest tmp [c]

/-- Exhaustive exploration of a program against the model: at every system call the run may stop (crash /
    kill), the call may fail by injection, or it is executed by the model (and may fail there). Returns true
    iff on every such path the checker state stays `ok` and every call creates only allowed names. -/
def checkAll (dest : Path) (old new : Obs) (tmp : Path → Bool) : Prog → Chk → Nat → Bool
  | .ret _, k, _ => k.ok
  | .probeDir p kont, k, n => checkAll dest old new tmp (kont (kindAt k.s p == some .dir)) k n
  | .probeExists p kont, k, n => checkAll dest old new tmp (kont (lookup k.s.names p).isSome) k n
  | .probeMode p m kont, k, n => checkAll dest old new tmp (kont (modeIs k.s p m)) k n
  | .sys r kont, k, n =>
    let c : Choice := { fail := none, rnd := rndOf n, fd := 5 }
    k.ok &&
    checkAll dest old new tmp (kont (.err .EINVAL)) k (n + 1) &&
    (match exec k.s (concretize r c).1 with
     | (_, .ok) =>
       okCall dest tmp (concretize r c).1 &&
       checkAll dest old new tmp (kont (concretize r c).2) (chkStep dest old new k (concretize r c).1) (n + 1)
     | (_, .err e) => checkAll dest old new tmp (kont (.err e)) k (n + 1))

/-! ### os helpers -/

/-- os.Remove: unlink, and rmdir if that failed; the error is ignored by all callers here. -/
def removeP (p : Path) (k : Prog) : Prog :=
  .sys (.call (.unlink p)) fun r =>
    match r with
    | .err _ => .sys (.call (.rmdir p)) fun _ => k
    | _ => k

/-- os.Rename (os/file_unix.go): an lstat of the new name first — if it is a directory the call is not made
    and the error is EEXIST. -/
def osRenameP (src dst : Path) (k : Rsp → Prog) : Prog :=
  .probeDir dst fun isDir =>
    if isDir then k (.err .EEXIST)
    else .sys (.call (.rename src dst)) k

/-- os.RemoveAll of a directory that holds at most the one entry `child` (os/removeall_at.go): Remove (unlink,
    rmdir); if that failed with something else than "not exist": unlinkat, then remove the entries found by
    reading the directory, then rmdir. All errors are ignored by the callers here. -/
def removeAllP (d child : Path) (k : Prog) : Prog :=
  .sys (.call (.unlink d)) fun r =>
    match r with
    | .err _ =>
      .sys (.call (.rmdir d)) fun r =>
        match r with
        | .err .ENOENT => k
        | .err _ =>
          .sys (.call (.unlink d)) fun r =>
            match r with
            | .err .ENOENT => k
            | .err _ =>
              .probeExists child fun there =>
                if there then .sys (.call (.unlink child)) fun _ => .sys (.call (.rmdir d)) fun _ => k
                else .sys (.call (.rmdir d)) fun _ => k
            | _ => k
        | _ => k
    | _ => k

def tmpPrefix (dest : Path) : String := "." ++ dest.getLast?.getD ""

/-! ### utils/renameio/tempfile.go -/

/-- `tempDir(dir, dest)`; `tmpdir` is os.TempDir(). The result is passed to `k`. -/
def tempDirP (dir : Option Path) (tmpdir dest : Path) (k : Path → Prog) : Prog :=
  match dir with
  | some d => k d                                   -- caller-specified directory always wins
  | none =>
    let fallback := dest.dropLast
    .sys (.createTemp tmpdir (tmpPrefix dest)) fun r1 =>
      match r1 with
      | .created src fd1 =>
        .sys (.call (.close fd1)) fun _ =>
        .sys (.createTemp fallback (tmpPrefix dest)) fun r2 =>
          match r2 with
          | .created dst fd2 =>
            .sys (.call (.close fd2)) fun _ =>
            osRenameP src dst fun r3 =>
              match r3 with
              | .err _ => removeP dst (removeP src (k fallback))   -- defers run last-in first-out
              | _ => removeP dst (k tmpdir)                       -- cleanup = false: testsrc no longer exists
          | _ => removeP src (k fallback)
      | _ => k fallback

/-- `PendingFile.Cleanup` when `done` is false. -/
def cleanupP (t : Path) (fd : Nat) (closed : Bool) (k : Prog) : Prog :=
  if closed then removeP t k
  else .sys (.call (.close fd)) fun _ => removeP t k

/-- `CloseAtomicallyReplace`, followed by the deferred `Cleanup` of the caller; `k failed` is what the caller
    does with the result. -/
def closeAtomicallyReplaceK (t : Path) (fd : Nat) (dest : Path) (k : Bool → Prog) : Prog :=
  .sys (.call (.fsync fd)) fun r =>
    match r with
    | .err _ => cleanupP t fd false (k true)
    | _ =>
      .sys (.call (.close fd)) fun r =>              -- t.closed = true is set before Close
        match r with
        | .err _ => cleanupP t fd true (k true)
        | _ =>
          osRenameP t dest fun r =>
            match r with
            | .err _ => cleanupP t fd true (k true)
            | _ => k false                            -- t.done = true: Cleanup is a no-op

def closeAtomicallyReplaceP (t : Path) (fd : Nat) (dest : Path) : Prog :=
  closeAtomicallyReplaceK t fd dest .ret

/-- `t.Write(data)` / the loop of io.Copy: one write call per chunk the kernel accepted. -/
def writeAllP (fd : Nat) : List Seg → Prog → Prog → Prog
  | [], _, k => k
  | g :: gs, onErr, k =>
    .sys (.call (.write fd g)) fun r =>
      match r with
      | .err _ => onErr
      | _ => writeAllP fd gs onErr k

/-- renameio.WriteFile (writefile.go) and, on Linux, fstree.writeFile (fstree.go:283-302). -/
def writeFileK (tmpdir dest : Path) (perm : Nat) (chunks : List Seg) (k : Bool → Prog) : Prog :=
  tempDirP none tmpdir dest fun d =>
    .sys (.createTemp d (tmpPrefix dest)) fun r =>
      match r with
      | .created t fd =>
        .sys (.call (.fchmod fd perm)) fun r =>
          match r with
          | .err _ => cleanupP t fd false (k true)
          | _ => writeAllP fd chunks (cleanupP t fd false (k true)) (closeAtomicallyReplaceK t fd dest k)
      | _ => k true

def writeFileP (tmpdir dest : Path) (perm : Nat) (chunks : List Seg) : Prog :=
  writeFileK tmpdir dest perm chunks .ret

/-- os.MkdirAll(path, perm) (os/path.go): stat; parents first; mkdir; a failing mkdir is fine if the directory
    exists by now. `fuel` bounds the recursion by the path length. -/
def mkdirAllK : Nat → Path → Nat → (Bool → Prog) → Prog
  | 0, _, _, k => k true
  | fuel + 1, p, perm, k =>
    .probeExists p fun there =>
      if there then .probeDir p fun d => k (!d)
      else
        let mk : Prog :=
          .sys (.call (.mkdir p perm)) fun r =>
            match r with
            | .err _ => .probeDir p fun d => k (!d)
            | _ => k false
        if p.length ≤ 1 then mk
        else mkdirAllK fuel p.dropLast perm fun failed => if failed then k true else mk

/-- fstree.Put after marshalling (fstree.go:119-145): writeFile; on ANY error create the directory and try once
    more. The chunks of a successful attempt are the same data. -/
def fstreePutP (tmpdir dest : Path) (chunks : List Seg) : Prog :=
  writeFileK tmpdir dest 0o644 chunks fun failed =>
    if !failed then .ret false
    else mkdirAllK dest.length dest.dropLast 0o755 fun failed =>
      if failed then .ret true
      else writeFileK tmpdir dest 0o644 chunks .ret

/-- utils.CreateAtomic (atomic.go:31-57): `mode = 0` skips the chmod; `readFails`: the reader returned an error
    after the chunks (io.Copy fails, nothing is published). -/
def createAtomicP (optDir : Option Path) (tmpdir dest : Path) (mode : Nat) (chunks : List Seg) (readFails : Bool) : Prog :=
  tempDirP optDir tmpdir dest fun d =>
    .sys (.createTemp d (tmpPrefix dest)) fun r =>
      match r with
      | .created t fd =>
        let copy := writeAllP fd chunks (cleanupP t fd false (.ret true))
          (if readFails then cleanupP t fd false (.ret true) else closeAtomicallyReplaceP t fd dest)
        if mode = 0 then copy
        else .sys (.call (.fchmod fd mode)) fun r =>
          match r with
          | .err _ => cleanupP t fd false (.ret true)
          | _ => copy
      | _ => .ret true

/-- updater File.Unpack (file.go:116-156): nothing to do when the unpacked file exists; otherwise CreateAtomic
    with the registry's tmp dir and no mode; `readFails`: the unpacker reported an error (corrupt archive). -/
def fileUnpackP (regTmp tmpdir dest : Path) (chunks : List Seg) (readFails : Bool) : Prog :=
  .probeExists dest fun there =>
    if there then .ret false
    else createAtomicP (some regTmp) tmpdir dest 0 chunks readFails

/-! ### utils/fs.go, utils/structure.go, updater/fetch.go -/

/-- utils.EnsureDirectory(path, perm) (fs.go:14-48): an existing directory gets its mode corrected; a file in
    the way is removed; a missing directory is created and chmod-ed. `k failed`. -/
def ensureDirectoryK (p : Path) (perm : Nat) (k : Bool → Prog) : Prog :=
  let create : Prog :=
    .sys (.call (.mkdir p perm)) fun r =>
      match r with
      | .err _ => k true
      | _ => .sys (.call (.chmod p perm)) fun r =>
          match r with
          | .err _ => k true
          | _ => k false
  .probeExists p fun there =>
    if !there then create
    else .probeDir p fun isDir =>
      if isDir then
        .probeMode p perm fun same =>
          if same then k false
          else .sys (.call (.chmod p perm)) fun r =>
            match r with
            | .err _ => k true
            | _ => k false
      else
        -- os.Remove of the file in the way: unlink, then rmdir; an error only if both fail
        .sys (.call (.unlink p)) fun r =>
          match r with
          | .err _ => .sys (.call (.rmdir p)) fun r =>
              match r with
              | .err _ => k true
              | _ => create
          | _ => create

/-- DirStructure.EnsureAbsPath resolved to the list of (directory, permission) pairs it ensures, top down. -/
def ensureDirsK : List (Path × Nat) → (Bool → Prog) → Prog
  | [], k => k false
  | (p, perm) :: rest, k => ensureDirectoryK p perm fun failed => if failed then k true else ensureDirsK rest k

/-- updater.fetchFile without signature verification (fetch.go:22-150) as called by DownloadUpdates (which logs
    the error and returns nil): ensure the folder, TempFile in the registry's tmp dir, the HTTP request
    (`httpFails`: status ≠ 200 / connection error — no file-system call), io.Copy (`bodyFails`: the body ends
    early or the length differs), CloseAtomicallyReplace, chmod 0755 (error only logged). -/
def fetchFileP (dirs : List (Path × Nat)) (regTmp dest : Path) (chunks : List Seg) (httpFails bodyFails : Bool) : Prog :=
  ensureDirsK dirs fun failed =>
    if failed then .ret false
    else
      .sys (.createTemp regTmp (tmpPrefix dest)) fun r =>
        match r with
        | .created t fd =>
          if httpFails then cleanupP t fd false (.ret false)
          else
            writeAllP fd chunks (cleanupP t fd false (.ret false))
              (if bodyFails then cleanupP t fd false (.ret false)
               else closeAtomicallyReplaceK t fd dest fun failed =>
                 if failed then .ret false
                 else .sys (.call (.chmod dest 0o755)) fun _ => .ret false)
        | _ => .ret false

/-- renameio.Symlink (tempfile.go:139-171). -/
def symlinkP (target : String) (dest : Path) : Prog :=
  .sys (.call (.symlink target dest)) fun r =>
    match r with
    | .err .EEXIST =>
      .sys (.mkdirTemp dest.dropLast (tmpPrefix dest)) fun r =>
        match r with
        | .created d _ =>
          let link := d ++ ["tmp.symlink"]
          let removeAll (k : Prog) : Prog := removeAllP d link k
          .sys (.call (.symlink target link)) fun r =>
            match r with
            | .err _ => removeAll (.ret true)
            | _ =>
              osRenameP link dest fun r =>
                match r with
                | .err _ => removeAll (.ret true)
                | _ => removeAll (.ret false)
        | _ => .ret true
    | .err _ => .ret true
    | _ => .ret false

/-! ### Acceptor: is a recorded run (calls with their results) a path of the program? -/

def tempNameOk (dir : Path) (pfx : String) (p : Path) : Bool :=
  p.dropLast == dir && (match p.getLast? with
    | some c => (pfx ++ "#").toList.isPrefixOf c.toList
    | none => false)

/-- Match an observed call against a request; the answer is what the program is told. -/
def matchReq (r : Req) (c : Call) (res : Res) : Option Rsp :=
  match r, c with
  | .createTemp dir pfx, .openC p true true false 0o600 fd =>
    if tempNameOk dir pfx p then
      match res, fd with
      | .ok, some n => some (.created p n)
      | .err e, none => some (.err e)
      | _, _ => none
    else none
  | .mkdirTemp dir pfx, .mkdir p 0o700 =>
    if tempNameOk dir pfx p then
      match res with
      | .ok => some (.created p 0)
      | .err e => some (.err e)
    else none
  | .call c0, c =>
    if c0 == c then
      match res with
      | .ok => some .ok
      | .err e => some (.err e)
    else none
  | _, _ => none

/-- `none`: the run is not a path of the program. `some none`: it is a proper prefix (killed run).
    `some (some failed)`: the program returned, with or without error. -/
def accepts : Prog → FS → List (Call × Res) → Option (Option Bool)
  | .ret f, _, [] => some (some f)
  | .ret _, _, _ :: _ => none
  | .probeDir p k, s, t => accepts (k (kindAt s p == some .dir)) s t
  | .probeExists p k, s, t => accepts (k (lookup s.names p).isSome) s t
  | .probeMode p m k, s, t => accepts (k (modeIs s p m)) s t
  | .sys _ _, _, [] => some none
  | .sys r k, s, (c, res) :: t =>
    match matchReq r c res with
    | some rsp => accepts (k rsp) (step s c) t
    | none => none

end PB.FsAtomic
