import PB.Model.FsAtomic
/-
C17 — the writers of utils/renameio (tempfile.go, writefile.go), utils/atomic.go and fstree.writeFile as PROGRAMS
over the system-call alphabet, written branch by branch from the Go source: every `if err != nil` is a branch on
the answer of the preceding call, every `defer` is spelled out at each return.

A program is run against the file-system model with an ORACLE that, per system call, picks the random temp
name, the descriptor number, and may inject a failure the model itself would not produce (EIO, ENOSPC, …).
An exhausted oracle stops the run: that is a crash point.
-/
namespace PB.FsAtomic

inductive Req where
  /-- os.CreateTemp(dir, pfx): open(dir/<pfx><random>, O_RDWR|O_CREAT|O_EXCL, 0600) -/
  | createTemp (dir : Path) (pfx : String)
  /-- os.MkdirTemp(dir, pfx): mkdir(dir/<pfx><random>, 0700) -/
  | mkdirTemp (dir : Path) (pfx : String)
  | call (c : Call)

inductive Rsp where
  | ok
  | created (p : Path) (fd : Nat)
  | err (e : Errno)

inductive Prog where
  /-- the operation returned; `failed`: it returned an error -/
  | ret (failed : Bool)
  | sys (r : Req) (k : Rsp → Prog)

structure Choice where
  fail : Option Errno
  name : String
  fd : Nat

/-- The concrete call a request becomes under a choice, and the answer a successful execution gives. -/
def concretize (r : Req) (c : Choice) : Call × Rsp :=
  match r with
  | .createTemp dir _ => (.openC (dir ++ [c.name]) true true false 0o600 (some c.fd), .created (dir ++ [c.name]) c.fd)
  | .mkdirTemp dir _ => (.mkdir (dir ++ [c.name]) 0o700, .created (dir ++ [c.name]) 0)
  | .call k => (k, .ok)

/-- The successful calls of a run, in order (a failed call changes nothing and is not listed). -/
def runProg : Prog → FS → List Choice → List Call
  | .ret _, _, _ => []
  | .sys _ _, _, [] => []
  | .sys r k, s, c :: cs =>
    match c.fail with
    | some e => runProg (k (.err e)) s cs
    | none =>
      match exec s (concretize r c).1 with
      | (s', .ok) => (concretize r c).1 :: runProg (k (concretize r c).2) s' cs
      | (_, .err e) => runProg (k (.err e)) s cs

/-! ### os helpers -/

/-- os.Remove: unlink, and rmdir if that failed; the error is ignored by all callers here. -/
def removeP (p : Path) (k : Prog) : Prog :=
  .sys (.call (.unlink p)) fun r =>
    match r with
    | .err _ => .sys (.call (.rmdir p)) fun _ => k
    | _ => k

def tmpPrefix (dest : Path) : String := "." ++ dest.getLast?.getD ""

/-! ### utils/renameio/tempfile.go -/

/-- `tempDir(dir, dest)`; `tmpdir` is os.TempDir(). The result is passed to `k`. -/
def tempDirP (dir : Option Path) (tmpdir dest : Path) (k : Path → Prog) : Prog :=
  match dir with
  | some d => k d                                   -- caller-specified directory always wins
  | none =>
    let fallback := dest.dropLast
    .sys (.createTemp tmpdir (tmpPrefix dest)) fun r1 =>
      match r1 with
      | .created src fd1 =>
        .sys (.call (.close fd1)) fun _ =>
        .sys (.createTemp fallback (tmpPrefix dest)) fun r2 =>
          match r2 with
          | .created dst fd2 =>
            .sys (.call (.close fd2)) fun _ =>
            .sys (.call (.rename src dst)) fun r3 =>
              match r3 with
              | .err _ => removeP dst (removeP src (k fallback))   -- defers run last-in first-out
              | _ => removeP dst (k tmpdir)                       -- cleanup = false: testsrc no longer exists
          | _ => removeP src (k fallback)
      | _ => k fallback

/-- `PendingFile.Cleanup` when `done` is false. -/
def cleanupP (t : Path) (fd : Nat) (closed : Bool) (k : Prog) : Prog :=
  if closed then removeP t k
  else .sys (.call (.close fd)) fun _ => removeP t k

/-- `CloseAtomicallyReplace`, followed by the deferred `Cleanup` of the caller. -/
def closeAtomicallyReplaceP (t : Path) (fd : Nat) (dest : Path) : Prog :=
  .sys (.call (.fsync fd)) fun r =>
    match r with
    | .err _ => cleanupP t fd false (.ret true)
    | _ =>
      .sys (.call (.close fd)) fun r =>              -- t.closed = true is set before Close
        match r with
        | .err _ => cleanupP t fd true (.ret true)
        | _ =>
          .sys (.call (.rename t dest)) fun r =>
            match r with
            | .err _ => cleanupP t fd true (.ret true)
            | _ => .ret false                         -- t.done = true: Cleanup is a no-op

/-- `t.Write(data)` / the loop of io.Copy: one write call per chunk the kernel accepted. -/
def writeAllP (fd : Nat) : List Seg → Prog → Prog → Prog
  | [], _, k => k
  | g :: gs, onErr, k =>
    .sys (.call (.write fd g)) fun r =>
      match r with
      | .err _ => onErr
      | _ => writeAllP fd gs onErr k

/-- renameio.WriteFile (writefile.go) and, on Linux, fstree.writeFile (fstree.go:283-302). -/
def writeFileP (tmpdir dest : Path) (perm : Nat) (chunks : List Seg) : Prog :=
  tempDirP none tmpdir dest fun d =>
    .sys (.createTemp d (tmpPrefix dest)) fun r =>
      match r with
      | .created t fd =>
        .sys (.call (.fchmod fd perm)) fun r =>
          match r with
          | .err _ => cleanupP t fd false (.ret true)
          | _ => writeAllP fd chunks (cleanupP t fd false (.ret true)) (closeAtomicallyReplaceP t fd dest)
      | _ => .ret true

/-- utils.CreateAtomic (atomic.go:31-57): `mode = 0` skips the chmod; `readFails`: the reader returned an error
    after the chunks (io.Copy fails, nothing is published). -/
def createAtomicP (optDir : Option Path) (tmpdir dest : Path) (mode : Nat) (chunks : List Seg) (readFails : Bool) : Prog :=
  tempDirP optDir tmpdir dest fun d =>
    .sys (.createTemp d (tmpPrefix dest)) fun r =>
      match r with
      | .created t fd =>
        let copy := writeAllP fd chunks (cleanupP t fd false (.ret true))
          (if readFails then cleanupP t fd false (.ret true) else closeAtomicallyReplaceP t fd dest)
        if mode = 0 then copy
        else .sys (.call (.fchmod fd mode)) fun r =>
          match r with
          | .err _ => cleanupP t fd false (.ret true)
          | _ => copy
      | _ => .ret true

/-- renameio.Symlink (tempfile.go:139-171). os.RemoveAll(d) is the unlink of the (possibly already renamed)
    link followed by the rmdir of the directory. -/
def symlinkP (target : String) (dest : Path) : Prog :=
  .sys (.call (.symlink target dest)) fun r =>
    match r with
    | .err .EEXIST =>
      .sys (.mkdirTemp dest.dropLast (tmpPrefix dest)) fun r =>
        match r with
        | .created d _ =>
          let link := d ++ ["tmp.symlink"]
          let removeAll (k : Prog) : Prog := removeP link (.sys (.call (.rmdir d)) fun _ => k)
          .sys (.call (.symlink target link)) fun r =>
            match r with
            | .err _ => removeAll (.ret true)
            | _ =>
              .sys (.call (.rename link dest)) fun r =>
                match r with
                | .err _ => removeAll (.ret true)
                | _ => removeAll (.ret false)
        | _ => .ret true
    | .err _ => .ret true
    | _ => .ret false

end PB.FsAtomic
