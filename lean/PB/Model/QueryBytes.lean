import PB.Model.Query
/-
Byte-level model of the tokenizer / escaper pair of /repo/database/query (parser.go: `extractSnippets`,
`prepToken`, `escapeString`). Go strings are byte strings: a token handed to the query API need not be valid
UTF-8 (Latin-1 text, truncated sequences, binary keys). `PB.Model.Query` works on `List Char`; this file states what
the same code does on ARBITRARY bytes, as it is written:

* `for pos, char = range text` decodes one rune per iteration (`decode1` = `utf8.DecodeRuneInString`: an invalid
  or truncated sequence yields U+FFFD with width 1) — the loop DECIDES on the decoded rune `char`, but it COPIES
  source bytes (`text[start:pos]`). A decode unit `U` therefore carries both: the bytes it covers and the rune seen.
* the escape regexp `(?s)\\(.)` steps through its input with the same decoder (`.` = one decode unit) and `$1`
  copies the matched source bytes.
* `escapeString` (`strings.ContainsAny` with an ASCII set, `strings.ReplaceAll` of one-byte strings, `%s`) and
  `strings.TrimPrefix` are byte operations.

A byte is a `Nat` (values < 256 in every run; no definition or theorem needs the bound).
-/
namespace PB.Query.B
open PB.Query

abbrev BStr := List Nat

/-- `utf8.RuneError`. -/
def runeError : Nat := 0xFFFD

/-- `acceptRanges[first[b0] >> 4].lo` / `.hi`: the range of the second byte. -/
def lo2 (b0 : Nat) : Nat := if b0 = 0xE0 then 0xA0 else if b0 = 0xF0 then 0x90 else 0x80
def hi2 (b0 : Nat) : Nat := if b0 = 0xED then 0x9F else if b0 = 0xF4 then 0x8F else 0xBF
/-- `locb ≤ b ≤ hicb`. -/
def isCont (b : Nat) : Bool := 0x80 ≤ b && b ≤ 0xBF

/-- `utf8.DecodeRuneInString`: (rune, width). Lead bytes: 00–7F ASCII, C2–DF two bytes, E0–EF three, F0–F4 four,
    everything else invalid; a missing or out-of-range following byte makes the FIRST byte an invalid unit of
    width 1 (Go tests the length before the ranges; both orders answer `(RuneError, 1)`). -/
def decode1 : BStr → Nat × Nat
  | [] => (runeError, 0)
  | b0 :: rest =>
    if b0 < 0x80 then (b0, 1)
    else if b0 < 0xC2 ∨ 0xF5 ≤ b0 then (runeError, 1)
    else match rest with
      | [] => (runeError, 1)
      | b1 :: r1 =>
        if b1 < lo2 b0 ∨ hi2 b0 < b1 then (runeError, 1)
        else if b0 < 0xE0 then ((b0 % 32) * 64 + b1 % 64, 2)
        else match r1 with
          | [] => (runeError, 1)
          | b2 :: r2 =>
            if isCont b2 = false then (runeError, 1)
            else if b0 < 0xF0 then ((b0 % 16) * 4096 + (b1 % 64) * 64 + b2 % 64, 3)
            else match r2 with
              | [] => (runeError, 1)
              | b3 :: _ =>
                if isCont b3 = false then (runeError, 1)
                else ((b0 % 8) * 262144 + (b1 % 64) * 4096 + (b2 % 64) * 64 + b3 % 64, 4)

/-- One iteration of `for pos, char = range text`: the source bytes `text[pos:pos+width]` and the rune seen. -/
structure U where
  src : BStr
  r : Nat
  deriving DecidableEq, Repr

/-- What `range text` visits, in order. -/
def units (s : BStr) : List U :=
  match s with
  | [] => []
  | b :: rest =>
    let d := decode1 (b :: rest)
    ⟨b :: rest.take (d.2 - 1), d.1⟩ :: units (rest.drop (d.2 - 1))
termination_by s.length
decreasing_by simp [List.length_drop]; omega

/-- The source bytes of a run of units (`text[a:b]` at unit boundaries). -/
def flat : List U → BStr
  | [] => []
  | u :: rest => u.src ++ flat rest

/-! ## `prepToken` -/

/-- `escapeReplacer.ReplaceAllString(_, "$1")`, pattern `(?s)\\(.)`, over the decode units of the text: a backslash
    and the unit after it are replaced by the SOURCE BYTES of that unit; a final lone backslash stays. -/
def unescU : List U → BStr
  | [] => []
  | u :: rest =>
    if u.r = 0x5c then
      match rest with
      | [] => u.src
      | d :: rest' => d.src ++ unescU rest'
    else u.src ++ unescU rest

/-- `strings.TrimPrefix(text, "\"")`. -/
def trimQuoteB : BStr → BStr
  | [] => []
  | b :: rest => if b = 0x22 then rest else b :: rest

def prepTokenB (t : BStr) : BStr := unescU (units (trimQuoteB t))

/-! ## `extractSnippets` -/

/-- The first `switch`: `'\t', '\n', '\r', ' ', '(', ')'` compared with the decoded rune. -/
def isSepR (r : Nat) : Bool := r = 9 || r = 10 || r = 13 || r = 32 || r = 40 || r = 41

inductive ModeB where
  | idle
  | word (acc : BStr)
  | quote (acc : BStr)
  deriving DecidableEq, Repr

def ModeB.push : ModeB → U → ModeB
  | .idle, _ => .idle
  | .word acc, u => .word (acc ++ u.src)
  | .quote acc, u => .quote (acc ++ u.src)

/-- The loop of `extractSnippets`, one decode unit per step (same shape as `PB.Query.lexAux`); a parenthesis
    snippet is `text[pos:pos+1]`, the first byte of the unit. -/
def lexU : Bool → ModeB → List U → Except Err (List BStr)
  | _, .idle, [] => .ok []
  | _, .word acc, [] => .ok [prepTokenB acc]
  | _, .quote acc, [] => .ok [prepTokenB (0x22 :: acc)]
  | true, m, u :: rest => lexU false (m.push u) rest
  | false, .quote acc, u :: rest =>
    if u.r = 0x22 then (prepTokenB acc :: ·) <$> lexU false .idle rest
    else lexU (u.r = 0x5c) (.quote (acc ++ u.src)) rest
  | false, .idle, u :: rest =>
    if isSepR u.r then
      (if u.r = 40 ∨ u.r = 41 then (u.src.take 1 :: ·) else id) <$> lexU false .idle rest
    else if u.r = 0x22 then lexU false (.quote []) rest
    else lexU (u.r = 0x5c) (.word u.src) rest
  | false, .word acc, u :: rest =>
    if isSepR u.r then
      (fun ts => prepTokenB acc :: (if u.r = 40 ∨ u.r = 41 then u.src.take 1 :: ts else ts)) <$> lexU false .idle rest
    else if u.r = 0x22 then .error .quote
    else lexU (u.r = 0x5c) (.word (acc ++ u.src)) rest

/-- `extractSnippets` on a byte string. -/
def lexBytes (s : BStr) : Except Err (List BStr) := lexU false .idle (units s)

/-! ## `escapeString` -/

/-- `strings.ContainsAny(token, "()\"\\\t\r\n ")`: an ASCII set, tested byte by byte. -/
def isSpecialB (b : Nat) : Bool :=
  b = 40 || b = 41 || b = 0x22 || b = 0x5c || b = 9 || b = 13 || b = 10 || b = 32

/-- `ReplaceAll(ReplaceAll(token, "\\", "\\\\"), "\"", "\\\"")`. -/
def escBodyB : BStr → BStr
  | [] => []
  | b :: rest => if b = 0x5c ∨ b = 0x22 then 0x5c :: b :: escBodyB rest else b :: escBodyB rest

/-- `escapeString`. -/
def escB (t : BStr) : BStr :=
  if t = [] ∨ t.any isSpecialB then 0x22 :: escBodyB t ++ [0x22] else t

end PB.Query.B
