import PB.Bytes
/-
Model of /repo/formats/varint (varint.go, helpers.go) and of the stdlib functions it calls
(encoding/binary.PutUvarint / Uvarint, re-implemented here and compared by the correspondence run).
-/
namespace PB.Varint
open PB

/-- Result of Go's `binary.Uvarint`: value and byte count, "buffer too small" (n == 0), or overflow (n < 0). -/
inductive UvRes where
  | ok (v n : Nat)
  | small
  | overflow
  deriving Repr, DecidableEq

/-- `binary.PutUvarint`: base-128 groups, least significant first, continuation bit on all but the last. -/
def putUvarint (n : Nat) : Bytes :=
  if h : n < 128 then [UInt8.ofNat n] else UInt8.ofNat (n % 128 + 128) :: putUvarint (n / 128)
termination_by n
decreasing_by omega

/-- The loop of `binary.Uvarint`: `i` is the byte index, `x` the value accumulated so far (shift = 7*i). -/
def uvarintAux : Nat → Nat → Bytes → UvRes
  | _, _, [] => .small
  | i, x, b :: bs =>
    if i = 10 then .overflow
    else if b.toNat < 128 then
      if i = 9 ∧ b.toNat > 1 then .overflow
      else .ok (x + b.toNat * 2 ^ (7 * i)) (i + 1)
    else uvarintAux (i + 1) (x + (b.toNat % 128) * 2 ^ (7 * i)) bs

def uvarint (bs : Bytes) : UvRes := uvarintAux 0 0 bs

/-- Error classes of the varint package. -/
inductive Err where
  | small     -- ErrBufTooSmall
  | large     -- "encoded integer greater than ..."
  | nodata    -- "not enough data for given block length"
  deriving Repr, DecidableEq

def Err.str : Err → String
  | .small => "small" | .large => "large" | .nodata => "nodata"

def pack8 (n : Nat) : Bytes :=
  if n < 128 then [UInt8.ofNat n] else [UInt8.ofNat n, 1]

def pack16 (n : Nat) : Bytes := putUvarint n
def pack32 (n : Nat) : Bytes := putUvarint n
def pack64 (n : Nat) : Bytes := putUvarint n

/-- `Unpack8` as written in varint.go (hand-rolled two-byte decoder). -/
def unpack8 : Bytes → Except Err (Nat × Nat)
  | [] => .error .small
  | b0 :: rest =>
    if b0.toNat < 128 then .ok (b0.toNat, 1)
    else match rest with
      | [] => .error .small
      | b1 :: _ => if b1 ≠ 1 then .error .large else .ok (b0.toNat, 2)

def unpackW (limit : Nat) (bs : Bytes) : Except Err (Nat × Nat) :=
  match uvarint bs with
  | .small => .error .small
  | .overflow => .error .large
  | .ok v n => if v > limit then .error .large else .ok (v, n)

def unpack16 := unpackW 65535
def unpack32 := unpackW 4294967295
/-- `Unpack64` has no range check after `Uvarint`. -/
def unpack64 (bs : Bytes) : Except Err (Nat × Nat) :=
  match uvarint bs with
  | .small => .error .small
  | .overflow => .error .large
  | .ok v n => .ok (v, n)

def prependLength (d : Bytes) : Bytes := pack64 d.length ++ d

/-- `GetNextBlock`: returns the block and the total number of bytes consumed (prefix + block). -/
def getNextBlock (bs : Bytes) : Except Err (Bytes × Nat) :=
  match unpack64 bs with
  | .error e => .error e
  | .ok (l, n) =>
    if l > bs.length then .error .nodata
    else
      let total := l + n
      if total > bs.length then .error .nodata
      else .ok ((bs.drop n).take l, total)

end PB.Varint
