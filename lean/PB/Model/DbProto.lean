import PB.Model.Db
import PB.Model.DbInj
import PB.Gen.DbIter
/-
Line protocol of the C02 / C03 drivers: parsing of op lines, canonical printing of results, and the
multi-interface system state (one shared controller storage, per-interface caches, subscriptions).
Core-only. Nothing here is used by the theorems except through `PB.Db.step`.
-/
namespace PB.Db.Proto
open PB.Db

/-- Logical "now" of a case: the harness maps its wall clock at case start to this value. -/
def T : Int := 1000000000

def splitChars (sep : Char) (cs : List Char) : List (List Char) :=
  let rec go (cur : List Char) (acc : List (List Char)) : List Char → List (List Char)
    | [] => (cur.reverse :: acc).reverse
    | c :: rest => if c = sep then go [] (cur.reverse :: acc) rest else go (c :: cur) acc rest
  go [] [] cs

def splitStr (sep : Char) (s : String) : List String := (splitChars sep s.toList).map String.ofList

def parseInt (s : String) : Option Int := s.toInt?

/-! Keys and key prefixes are opaque strings. In op lines and outputs the characters the protocol itself uses
    (space and everything below, `~`, DEL) and the escape character `^` are written `^` + two hex digits
    (see `EncKey` / `DecKey` in harness/dbx). -/

def hexDigit (n : Nat) : Char := if n < 10 then Char.ofNat (48 + n) else Char.ofNat (55 + n)

def hexVal (c : Char) : Option Nat :=
  if '0' ≤ c ∧ c ≤ '9' then some (c.toNat - 48)
  else if 'A' ≤ c ∧ c ≤ 'F' then some (c.toNat - 55)
  else none

def needsEsc (c : Char) : Bool := c.toNat ≤ 32 || c = '~' || c = '^' || c.toNat = 127

def encKeyChars : List Char → List Char
  | [] => []
  | c :: cs => if needsEsc c then '^' :: hexDigit (c.toNat / 16) :: hexDigit (c.toNat % 16) :: encKeyChars cs
               else c :: encKeyChars cs

def encKey (k : String) : String := String.ofList (encKeyChars k.toList)

def decKeyChars : List Char → Option (List Char)
  | [] => some []
  | '^' :: a :: b :: cs =>
    match hexVal a, hexVal b, decKeyChars cs with
    | some x, some y, some r => some (Char.ofNat (16 * x + y) :: r)
    | _, _, _ => none
  | '^' :: _ => none
  | c :: cs => (decKeyChars cs).map (c :: ·)

def decKey (t : String) : Option String := (decKeyChars t.toList).map String.ofList

/-- `123`, `-5`, `@+3600`, `@-100`, `@` -/
def parseTs (s : String) : Option Int :=
  match s.toList with
  | '@' :: [] => some T
  | '@' :: '+' :: rest => (String.ofList rest).toInt?.map (fun n => T + n)
  | '@' :: '-' :: rest => (String.ofList rest).toInt?.map (fun n => T - n)
  | _ => s.toInt?

def parseBool (s : String) : Option Bool :=
  if s = "1" then some true else if s = "0" then some false else none

/-- Canonical rendering of a timestamp: values near "now" are printed relative to it, rounded to 100 s,
    so that the wall clock of the implementation run and the logical clock agree. -/
def showTs (v : Int) : String :=
  if v > T - 1000000 ∧ v < T + 10000000 then
    let d := (v - T + 50) / 100 * 100
    if d < 0 then s!"@-{-d}" else s!"@+{d}"
  else toString v

def parseMeta (s : String) : Option Meta :=
  match splitStr ',' s with
  | [c, m, e, d, sec, cj] => do
    let c ← parseTs c
    let m ← parseTs m
    let e ← parseTs e
    let d ← parseTs d
    let sec ← parseBool sec
    let cj ← parseBool cj
    pure { created := c, modified := m, expires := e, deleted := d, secret := sec, crown := cj }
  | _ => none

def b01 (b : Bool) : String := if b then "1" else "0"

def showMeta (m : Meta) : String :=
  s!"{showTs m.created},{showTs m.modified},{showTs m.expires},{showTs m.deleted},{b01 m.secret},{b01 m.crown}"

/-- An `int64` token (`strconv.ParseInt(v, 10, 64)` on the other side). -/
def parseInt64 (s : String) : Option Int :=
  match s.toInt? with
  | some i => if -9223372036854775808 ≤ i ∧ i ≤ 9223372036854775807 then some i else none
  | none => none

/-- A float token: thousandths, any number of digits. Integral values of any magnitude below 10^21 (where
    encoding/json switches to exponent notation); fractional values only below 10^12 (see the number model in
    `PB.Model.Db`) — everything else is refused (`bad-op`). The value the Go side holds is the nearest float64. -/
def parseMilli (s : String) : Option Int :=
  match s.toInt? with
  | some m =>
    if m.natAbs ≥ 1000000000000000000000000 then none
    else if m % 1000 ≠ 0 ∧ m.natAbs ≥ 1000000000000000 then none
    else some (f64m m)
  | none => none

def parsePrim (s : String) : Option Prim :=
  match s.toList with
  | 's' :: ':' :: rest => some (.str (String.ofList rest))
  | 'i' :: ':' :: rest => (parseInt64 (String.ofList rest)).map Prim.int
  | 'f' :: ':' :: rest => (parseMilli (String.ofList rest)).map Prim.flt
  | 'b' :: ':' :: rest => (parseBool (String.ofList rest)).map Prim.bool
  | _ => none

def showPrim : Prim → String
  | .str s => s!"s:{s}"
  | .int i => s!"n:{i * 1000}"   -- numbers are printed type-agnostic, in thousandths
  | .flt m => s!"n:{m}"
  | .bool b => s!"b:{b01 b}"

def parseNamed {α : Type} (p : String → Option α) (s : String) : Option (String × α) :=
  let cs := s.toList
  let n := cs.takeWhile (· ≠ '=')
  match cs.dropWhile (· ≠ '=') with
  | '=' :: v => (p (String.ofList v)).map (fun x => (String.ofList n, x))
  | _ => none

def allSome {α : Type} : List (Option α) → Option (List α)
  | [] => some []
  | none :: _ => none
  | some x :: rest => (allSome rest).map (x :: ·)

def parseVal (s : String) : Option Val :=
  match s.toList with
  | 'o' :: '{' :: rest =>
    (match rest.reverse with
     | '}' :: inner =>
       let body := inner.reverse
       if body.isEmpty then some (.obj [])
       else (allSome ((splitChars '+' body).map (fun f => parseNamed parsePrim (String.ofList f)))).map Val.obj
     | _ => none)
  | 'a' :: '[' :: rest =>
    (match rest.reverse with
     | ']' :: inner =>
       let body := inner.reverse
       if body.isEmpty then some (.arr []) else some (.arr ((splitChars ',' body).map String.ofList))
     | _ => none)
  | _ => (parsePrim s).map Val.prim

def showVal : Val → String
  | .prim p => showPrim p
  | .obj fs => "o{" ++ "+".intercalate (fs.map (fun (n, p) => s!"{n}={showPrim p}")) ++ "}"
  | .arr xs => "a[" ++ ",".intercalate xs ++ "]"

def parseFields (s : String) : Option Fields :=
  if s = "-" then some []
  else allSome ((splitStr ';' s).map (parseNamed parseVal))

def insertSorted (x : String × String) : List (String × String) → List (String × String)
  | [] => [x]
  | y :: ys => if x.1 < y.1 then x :: y :: ys else y :: insertSorted x ys

def sortPairs (l : List (String × String)) : List (String × String) := l.foldr insertSorted []

/-- Fields are printed sorted by name (JSON object member order is not observable through the accessors). -/
def showFields (fs : Fields) : String :=
  if fs.isEmpty then "-"
  else ";".intercalate ((sortPairs (fs.map (fun (n, v) => (n, showVal v)))).map (fun (n, v) => s!"{n}={v}"))

def parseForm (s : String) : Option Form :=
  if s = "T" then some .struct else if s = "J" then some .json else if s = "R" then some .raw else none

/-- `<key> <T|J|R> <meta> <payload>` -/
def parseRec (key form md payload : String) : Option Rec := do
  let f ← parseForm form
  let m ← parseMeta md
  match f with
  | .raw => pure { key := key, md := m, form := .raw, fields := [], raw := if payload = "-" then "" else payload }
  | _ => do
    let fs ← parseFields payload
    pure { key := key, md := m, form := f, fields := fs, raw := "" }

def showPayload (r : Rec) : String :=
  match r.form with
  | .raw => if r.raw.isEmpty then "-" else r.raw
  | _ => showFields r.fields

def showRec (r : Rec) : String := s!"{encKey r.key}~{showMeta r.md}~{showPayload r}"

/-- The database API's JSON rendering is compared on key and data only. -/
def showRecNoMeta (r : Rec) : String := s!"{encKey r.key}~{showPayload r}"

/-! ### conditions -/

def parseCmp (s : String) : Option Cmp :=
  match s with
  | "eq" => some .eq | "gt" => some .gt | "ge" => some .ge | "lt" => some .lt | "le" => some .le
  | _ => none

def parseLeaf (op arg : String) : Option Leaf :=
  match op with
  | "eq" | "gt" | "ge" | "lt" | "le" => do
    let c ← parseCmp op
    let v ← parseInt64 arg
    pure (.intCmp c v)
  | "feq" | "fgt" | "fge" | "flt" | "fle" => do
    let c ← parseCmp (String.ofList (op.toList.drop 1))
    let v ← parseMilli arg
    pure (.fltCmp c v)
  | "sa" => some (.strOp .sameAs arg)
  | "co" => some (.strOp .contains arg)
  | "sw" => some (.strOp .startsWith arg)
  | "ew" => some (.strOp .endsWith arg)
  | "in" => some (.inList (splitStr ';' arg))
  | "re" =>
    (match arg.toList with
     | a :: e :: lit => do
       let a ← parseBool (String.ofList [a])
       let e ← parseBool (String.ofList [e])
       pure (.re a e (String.ofList lit))
     | _ => none)
  | "is" => (parseBool arg).map Leaf.is
  | "ex" => some .ex
  | _ => none

def foldAnd : List Cond → Cond
  | [] => .tt
  | c :: cs => .and c (foldAnd cs)

def foldOr : List Cond → Cond
  | [] => .ff
  | c :: cs => .or c (foldOr cs)

/-- Recursive descent over the condition token; returns the condition and the unread rest. -/
def parseCondAux : Nat → List Char → Option (Cond × List Char)
  | 0, _ => none
  | fuel + 1, cs =>
    let rec args (f : Nat) (cs : List Char) (acc : List Cond) : Option (List Cond × List Char) :=
      match f with
      | 0 => none
      | f + 1 =>
        match cs with
        | ')' :: rest => some (acc.reverse, rest)
        | ',' :: rest =>
          (match parseCondAux fuel rest with
           | some (c, rest) => args f rest (c :: acc)
           | none => none)
        | _ =>
          (match parseCondAux fuel cs with
           | some (c, rest) => args f rest (c :: acc)
           | none => none)
    match cs with
    | 'T' :: rest => some (.tt, rest)
    | 'F' :: rest => some (.ff, rest)
    | 'E' :: rest => some (.err, rest.dropWhile Char.isDigit)
    | '!' :: rest => (parseCondAux fuel rest).map (fun (c, r) => (.not c, r))
    | '&' :: '(' :: rest => (args cs.length rest []).map (fun (l, r) => (foldAnd l, r))
    | '|' :: '(' :: rest => (args cs.length rest []).map (fun (l, r) => (foldOr l, r))
    | '[' :: rest =>
      let body := rest.takeWhile (· ≠ ']')
      let after := (rest.dropWhile (· ≠ ']')).drop 1
      (match splitChars ':' body with
       | [sel, op, arg] =>
         (parseLeaf (String.ofList op) (String.ofList arg)).map
           (fun l => (Cond.leaf (splitStr '.' (String.ofList sel)) l, after))
       | _ => none)
    | _ => none

/-- `-` = no where clause. -/
def parseCond (s : String) : Option (Option Cond) :=
  if s = "-" then some none
  else match parseCondAux (s.length + 1) s.toList with
    | some (c, []) => some (some c)
    | _ => none

def parseQuery (pfx cond : String) : Option Query :=
  (parseCond cond).map (fun c => { pfx := if pfx = "-" then "" else pfx, cond := c })

/-! ### system state -/

structure Iface where
  id : String
  opts : Opts
  cache : Store := []
  wcache : Store := []
  batch : Option (List Rec) := none

structure Sys where
  cfg : Cfg := {}
  store : Store := []
  ifs : List Iface := []
  subs : List Sub := []
  /-- seconds the case's clock has been advanced by `waitsec` -/
  dt : Int := 0
  /-- further databases of the case (`addcfg` / `usecfg`): configuration and content while not in use -/
  parked : List (Cfg × Store) := []
  /-- the case's database is an injected runtime registry (`rtinit`); `store` is what its provider holds -/
  inj : Bool := false
  /-- log of the records the provider's `Set` received since the last `rtsets` -/
  sets : List Rec := []

/-- The time of the next operation. -/
def Sys.now (s : Sys) : Int := T + s.dt

def Sys.iface (s : Sys) (id : String) : Option Iface := s.ifs.find? (·.id == id)

def Sys.setIface (s : Sys) (i : Iface) : Sys :=
  { s with ifs := i :: s.ifs.filter (·.id != i.id) }

def errStr : Err → String
  | .notFound => "notfound" | .denied => "denied" | .notImpl => "notimpl" | .badQuery => "badquery"
  | .setFailed => "setfailed" | .outOfScope => "outofscope"

def insertRec (x : Rec) : List Rec → List Rec
  | [] => [x]
  | y :: ys => if x.key < y.key then x :: y :: ys else y :: insertRec x ys

def sortRecs (l : List Rec) : List Rec := l.foldr insertRec []

def showRecs (rs : List Rec) : String :=
  let l := rs.map showRec
  if l.isEmpty then s!"ok 0" else s!"ok {l.length} " ++ " ".intercalate l

def showOut : Out → String
  | .ok => "ok"
  | .err e => errStr e
  | .one r => "ok " ++ showRec r
  | .bool b => if b then "true" else "false"
  | .recs rs => showRecs (sortRecs rs) ++ " err=nil"
  | .count n => s!"ok {n}"

/-- Run one model operation of interface `id` against the shared storage, then hand the records the
    controller passed to `notifySubscribers` to the subscriptions. -/
def Sys.exec (s : Sys) (id : String) (op : Op) : Sys × String :=
  match s.iface id with
  | none => (s, "bad-op")
  | some i =>
    match s.inj with
    | true =>
      let (st', out) := Inj.step i.opts { prov := s.store } op s.now
      ({ s with store := st'.prov, sets := s.sets ++ st'.sets, subs := deliver s.subs st'.notes }, showOut out)
    | false =>
      let st : ISt := { store := s.store, cache := i.cache, wcache := i.wcache, notes := [] }
      let (st', out) := step s.cfg i.opts st op s.now
      let s' := { s with store := st'.store, subs := deliver s.subs st'.notes }
      (s'.setIface { i with cache := st'.cache, wcache := st'.wcache }, showOut out)

def parseBackend (s : String) : Option Backend :=
  match s with
  | "h" => some .hashmap | "b" => some .bbolt | "f" => some .fstree | "g" => some .badger | _ => none

def parseCache (s : String) : Option CacheMode :=
  match s with
  | "n" => some .none | "r" => some .read | "s" => some .read | "d" => some .delay | "e" => some .delay | _ => none

/-- Recently deleted records (deleted "now") are hidden from raw dumps: whether the global maintenance,
    whose threshold is the wall clock, purges them depends on a second boundary. -/
def dumpVisible (r : Rec) : Bool := !(r.md.deleted > T - 1000 && r.md.deleted < T + 1000)

/-- The harness runs record-state maintenance six times in a row (see dbx.go: one bbolt pass may skip records). -/
def maintainN : Nat → Cfg → Store → Int → Int → Store
  | 0, _, s, _, _ => s
  | n + 1, cfg, s, now, thr => maintainN n cfg (maintain cfg s now thr) now thr

def showDump (s : Store) : String :=
  let l := (sortRecs (s.filter dumpVisible)).map (fun r => s!"{encKey r.key}~{showMeta r.md}")
  if l.isEmpty then "ok 0" else s!"ok {l.length} " ++ " ".intercalate l

/-- Ops whose third token is a record key. -/
def keyOps : List String :=
  ["get", "exists", "put", "putnew", "del", "reput", "setabs", "setrel", "mksecret", "mkcrown", "insert"]

/-- Position of the key / key-prefix token of an op. -/
def keyPos (op : String) : Option Nat :=
  if keyOps.contains op || op = "pmput" || op = "query" || op = "purge" || op = "rtgq" || op = "rtfq" then some 2
  else if op = "sub" then some 3 else none

def handleToks (s : Sys) (toks : List String) : Sys × String :=
  match toks with
  | ["cfg", b, sh] =>
    (match parseBackend b, parseBool sh with
     | some b, some sh =>
       -- the database API opens its interface with `NewInterface(nil)`: neither local nor internal, no cache
       ({ cfg := { backend := b, shadow := sh }, ifs := [{ id := "@api", opts := { loc := false, int := false } }] }, "ok")
     | _, _ => (s, "bad-op"))
  | ["if", id, l, i, c, ms, mj, rel, abs] =>
    (match parseBool l, parseBool i, parseCache c, parseBool ms, parseBool mj, rel.toInt?, parseTs abs with
     | some l, some i, some c, some ms, some mj, some rel, some abs =>
       (s.setIface { id := id, opts := { loc := l, int := i, cache := c, mkSecret := ms, mkCrown := mj, relExp := rel, absExp := abs } }, "ok")
     | _, _, _, _, _, _, _ => (s, "bad-op"))
  | ["get", id, k] => s.exec id (.get k)
  | ["exists", id, k] => s.exec id (.exists_ k)
  | ["put", id, k, f, m, p] =>
    (match parseRec k f m p with | some r => s.exec id (.put r) | none => (s, "bad-op"))
  | ["putnew", id, k, f, m, p] =>
    (match parseRec k f m p with | some r => s.exec id (.putNew r) | none => (s, "bad-op"))
  | ["del", id, k] => s.exec id (.delete k)
  | ["reput", id, k] =>
    -- Get, then Put of the object that came back
    (match s.iface id with
     | some i =>
       let st : ISt := { store := s.store, cache := i.cache, wcache := i.wcache, notes := [] }
       (match getRecord s.cfg i.opts st k s.now with
        | (.error e, st1) =>
          ((({ s with store := st1.store, subs := deliver s.subs st1.notes } : Sys).setIface
              { i with cache := st1.cache, wcache := st1.wcache }), errStr e)
        | (.ok r, st1) =>
          (match s.inj with
           | true => s.exec id (.put r)
           | false =>
             let (st2, out) := ifPut s.cfg i.opts st1 r s.now false
             ((({ s with store := st2.store, subs := deliver s.subs st2.notes } : Sys).setIface
                 { i with cache := st2.cache, wcache := st2.wcache }), showOut out)))
     | none => (s, "bad-op"))
  | ["setabs", id, k, t] => (match parseTs t with | some t => s.exec id (.setAbs k t) | none => (s, "bad-op"))
  | ["setrel", id, k, d] => (match d.toInt? with | some d => s.exec id (.setRel k d) | none => (s, "bad-op"))
  | ["mksecret", id, k] => s.exec id (.mkSecret k)
  | ["mkcrown", id, k] => s.exec id (.mkCrown k)
  | ["insert", id, k, a, p] =>
    (match parsePrim p with | some p => s.exec id (.insert k a p) | none => (s, "bad-op"))
  | ["pmbegin", id] =>
    (match s.iface id with
     | some i => (s.setIface { i with batch := some [] }, "ok")
     | none => (s, "bad-op"))
  | ["pmput", id, k, f, m, p] =>
    (match s.iface id, parseRec k f m p with
     | some i, some r =>
       (match i.batch with
        | none => (s, "bad-op")
        | some b =>
          if !i.opts.all then (s, "denied")
          else if !s.cfg.backend.hasBatch || s.inj then (s, "notimpl")
          else (s.setIface { i with batch := some (b ++ [r]) }, "ok"))
     | _, _ => (s, "bad-op"))
  | ["pmputx", id] =>
    (match s.iface id with
     | some i =>
       (match i.batch with
        | none => (s, "bad-op")
        | some _ =>
          if !i.opts.all then (s, "denied")
          else if !s.cfg.backend.hasBatch || s.inj then (s, "notimpl")
          else (s, "outofscope"))
     | none => (s, "bad-op"))
  | ["pmend", id] =>
    (match s.iface id with
     | some i =>
       (match i.batch with
        | none => (s, "bad-op")
        | some b =>
          let (s', out) := s.exec id (.putMany b)
          (match s'.iface id with
           | some i' => (s'.setIface { i' with batch := none }, out)
           | none => (s', out)))
     | none => (s, "bad-op"))
  | ["query", id, p, c] => (match parseQuery p c with | some q => s.exec id (.query q) | none => (s, "bad-op"))
  | ["purge", id, p, c] => (match parseQuery p c with | some q => s.exec id (.purge q) | none => (s, "bad-op"))
  | ["maintain", t] =>
    (match parseTs t with
     | some t => if s.inj then (s, "ok") else ({ s with store := maintainN 6 s.cfg s.store s.now t }, "ok")
     | none => (s, "bad-op"))
  | ["gmaintain"] => if s.inj then (s, "ok") else ({ s with store := maintainN 6 s.cfg s.store s.now s.now }, "ok")
  | ["dump"] => (s, showDump s.store)
  | ["iter", n, e, _forced] =>
    -- the iterator hand-over: the consumer drains all n records and then sees the producer's error
    (match n.toNat?, parseBool e with
     | some n, some e => (s, s!"ok {n} err=" ++ (if e then "E" else "nil"))
     | _, _ => (s, "bad-op"))
  | ["rtinit"] => ({ s with inj := true, store := [], sets := [] }, "ok")
  | ["rtinit", sh] =>
    -- the case's database becomes an injected runtime registry with one provider; the argument is the
    -- ShadowDelete flag of the registration, which `InjectDatabase` does not look at
    (match parseBool sh with
     | some _ => ({ s with inj := true, store := [], sets := [] }, "ok")
     | none => (s, "bad-op"))
  | ["rtinit", sh, _multi] =>
    -- the provider registered under several key prefixes (`m2`..`m4`): several providers for the registry, which
    -- serves a query above them with one goroutine each; routing is by key, so one store models them all
    (match parseBool sh with
     | some _ => ({ s with inj := true, store := [], sets := [] }, "ok")
     | none => (s, "bad-op"))
  | ["rtgq", id, p, _seed] =>
    -- a query on the runtime database with the provider goroutines under a seeded scheduler: whatever the
    -- interleaving, the records listed are those of the sequential filter (`registry_query_concurrent_permitted`)
    (match s.inj, parseQuery p "-" with
     | true, some q => s.exec id (.query q)
     | _, _ => (s, "bad-op"))
  | ["rtfq", id, p, _n] =>
    -- the same query n times, free running: every repetition lists the same records
    (match s.inj, parseQuery p "-" with
     | true, some q => s.exec id (.query q)
     | _, _ => (s, "bad-op"))
  | ["rtsets"] =>
    -- what the provider's `Set` received since the last `rtsets`, in order
    ({ s with sets := [] }, showRecs s.sets)
  | ["rtpush", k] =>
    -- the provider pushes its current record through the `PushFunc` it got from `Register`
    (match s.inj, s.store.get k with
     | true, some r => ({ s with subs := deliver s.subs [r] }, "ok")
     | true, none => (s, "notfound")
     | false, _ => (s, "bad-op"))
  | ["addcfg", b, sh] =>
    (match parseBackend b, parseBool sh with
     | some b, some sh =>
       let c : Cfg := { backend := b, shadow := sh }
       ({ s with cfg := c, store := [], parked := (s.cfg, s.store) :: (s.parked.filter (fun x => x.1 != s.cfg && x.1 != c)) }, "ok")
     | _, _ => (s, "bad-op"))
  | ["usecfg", b, sh] =>
    (match parseBackend b, parseBool sh with
     | some b, some sh =>
       let c : Cfg := { backend := b, shadow := sh }
       if c == s.cfg then (s, "ok")
       else (match s.parked.find? (fun x => x.1 == c) with
         | some (_, st) =>
           ({ s with cfg := c, store := st, parked := (s.cfg, s.store) :: (s.parked.filter (fun x => x.1 != s.cfg && x.1 != c)) }, "ok")
         | none => (s, "bad-op"))
     | _, _ => (s, "bad-op"))
  | ["waitsec", n] =>
    (match n.toNat? with
     | some n => ({ s with dt := n }, "ok")
     | none => (s, "bad-op"))
  | ["clock"] => (s, s!"@+{s.dt}")
  | ["rtput", k, f, m, p] =>
    -- a record an injected runtime provider hands out as it is (no `Apply`, no storage representation)
    (match parseRec k f m p with
     | some r => ({ s with store := s.store.put r }, "ok")
     | none => (s, "bad-op"))
  | ["apivia", _] =>
    -- which constructor of a DatabaseAPI serves the `api` operations that follow (Handle / real websocket):
    -- every one of them opens its interface with the options of `@api` (theorem `api_constructors_unprivileged`)
    (s, "ok")
  | ["api", "get", k] =>
    (match s.iface "@api" with
     | some i =>
       (match (getRecord s.cfg i.opts { store := s.store } k s.now).1 with
        | .ok r => if r.form = .raw then (s, "err-format") else (s, "ok " ++ showRecNoMeta r)
        | .error e => (s, errStr e))
     | none => (s, "bad-op"))
  | ["api", "query", p, c] =>
    (match s.iface "@api", parseQuery p c with
     | some i, some q =>
       (match (ifQuery i.opts { store := s.store } q s.now).2 with
        | .recs rs =>
          let l := (sortRecs (rs.filter (fun r => r.form != .raw))).map showRecNoMeta
          (s, (if l.isEmpty then "ok 0" else s!"ok {l.length} " ++ " ".intercalate l) ++ " err=nil")
        | o => (s, showOut o))
     | _, _ => (s, "bad-op"))
  | ["api", "sub", sid, p] =>
    -- a subscription through the database API: the API's interface subscribes (neither local nor internal)
    (match s.iface "@api", parseQuery p "-" with
     | some i, some q => ({ s with subs := s.subs ++ [{ id := sid, loc := i.opts.loc, int := i.opts.int, q := q }] }, "ok")
     | _, _ => (s, "bad-op"))
  | ["api", "feed", sid, _sentinel] =>
    -- `processSub`: a record marked deleted is announced as `del`, one the API cannot render as a JSON object
    -- (RAW data, no data) only gives a warning, everything else is sent as `upd` / `new` with its data
    (match s.subs.find? (·.id == sid) with
     | some sb =>
       let items := sb.feed.filterMap (fun r =>
         if r.md.isDeleted then some s!"del:{encKey r.key}"
         else if r.form == .raw || r.fields.isEmpty then none
         else some ("upd:" ++ showRecNoMeta r))
       ({ s with subs := s.subs.map (fun x => if x.id == sid then { x with feed := [] } else x) },
        if items.isEmpty then "ok 0" else s!"ok {items.length} " ++ " ".intercalate items)
     | none => (s, "bad-op"))
  | ["api", "create", k, p] =>
    (match parseRec k "J" "0,0,0,0,0,0" p with | some r => s.exec "@api" (.putNew r) | none => (s, "bad-op"))
  | ["api", "update", k, p] =>
    (match parseRec k "J" "0,0,0,0,0,0" p with | some r => s.exec "@api" (.put r) | none => (s, "bad-op"))
  | ["api", "delete", k] => s.exec "@api" (.delete k)
  | ["api", "insert", k, a, p] =>
    -- handleInsert: Get, accessor Set (JSON numbers arrive as float64), Put
    (match s.iface "@api", parsePrim p with
     | some i, some pv =>
       let pv := match pv with | .int n => Prim.flt (f64m (n * 1000)) | x => x
       (match (getRecord s.cfg i.opts { store := s.store } k s.now).1 with
        | .error e => (s, errStr e)
        | .ok r =>
          (match setField r.form r.fields a pv with
           | none => (s, "setfailed")
           | some fs => s.exec "@api" (.put { r with fields := fs })))
     | _, _ => (s, "bad-op"))
  | ["pq", a, _pfx, p, op, ks] =>
    -- a parked query against concurrent writes (see `pq` in harness/dbx): which records arrive depends on the schedule
    -- (model `PB.Iter.HandOver`, run on the implementation only); for replays the writes of interface `p` are applied,
    -- so that the operations that follow agree, and the buffer capacity of the source is shown
    (match s.iface a, s.iface p with
     | some _, some _ =>
       let keys := (splitStr ',' ks).filterMap decKey
       let ops : List Op := keys.flatMap (fun k =>
         match op with
         | "mksecret" => [Op.mkSecret k]
         | "mkcrown" => [Op.mkCrown k]
         | "mkboth" => [Op.mkSecret k, Op.mkCrown k]
         | "del" => [Op.delete k]
         | "expire" => [Op.setAbs k 5]
         | _ => [])
       let s' := ops.foldl (fun st o => (st.exec p o).1) s
       (s', s!"ok cap={PB.Gen.DbIter.nextCap} (arrivals depend on the schedule)")
     | _, _ => (s, "bad-op"))
  | ["flush", id] => s.exec id .flush
  | ["clear", id] => s.exec id .clear
  | ["sub", id, sid, p, c] =>
    (match s.iface id, parseQuery p c with
     | some i, some q =>
       if !q.check then (s, "badquery")
       else ({ s with subs := s.subs ++ [{ id := sid, loc := i.opts.loc, int := i.opts.int, q := q }] }, "ok")
     | _, _ => (s, "bad-op"))
  | ["feed", sid] =>
    (match s.subs.find? (·.id == sid) with
     | some sb =>
       ({ s with subs := s.subs.map (fun x => if x.id == sid then { x with feed := [] } else x) }, showRecs sb.feed)
     | none => (s, "bad-op"))
  | _ => (s, "bad-op")

/-- One op line: the key token is decoded; a storage backend that does not take the key (`Backend.acceptsKey`)
    refuses every single-key operation before anything else happens (`getRecord` / `getMeta` ask the storage first). -/
def handle (s : Sys) (line : String) : Sys × String :=
  let toks := (line.splitOn " ").filter (· ≠ "")
  match toks with
  | [] => (s, "bad-op")
  | op :: _ =>
    match keyPos op with
    | none => handleToks s toks
    | some p =>
      match toks[p]? with
      | none => handleToks s toks
      | some t =>
        match decKey t with
        | none => (s, "bad-op")
        | some k =>
          if keyOps.contains op && !s.inj && (s.iface (toks.getD 1 "")).isSome && !s.cfg.backend.acceptsKey k then (s, "badkey")
          else handleToks s (toks.set p k)

end PB.Db.Proto
