import PB.Gen.DbTime
import PB.Gen.DbAcc
/-
Model of the portbase-owned layers of /repo/database (C02, C03):

* `record.Meta`                       (database/record/meta.go)
* query conditions and both accessors (database/query/condition-*.go, database/accessor/*.go)
* the storage contract ("is a map") with the per-backend differences that portbase itself adds:
  serialisation (`MarshalRecord` / `NewRawWrapper`), `queryExecutor` filter pipeline, `MaintainRecordStates`,
  `Purge`, `PutMany`                  (database/storage/{hashmap,bbolt,fstree,badger})
* `Controller.Get/GetMeta/Put`        (database/controller.go)
* `Interface` incl. read cache, delayed write cache, evict handler, flush (database/interface.go, interface_cache.go)
* subscription notification filter    (database/controller.go notifySubscribers)
* runtime registry query filter       (runtime/registry.go)

Written branch by branch from the Go source *after* the `fix:` commits on branch verif-c02.
Core Lean only. Time is logical: every operation that consults `time.Now()` takes `now : Int` (unix seconds).
The storage engine (Go map, bbolt, badger, file tree) is a parameter with the contract "is a map":
`Store` is an association list with get-after-put semantics.
-/
namespace PB.Db

/-! ## record.Meta -/

structure Meta where
  created : Int := 0
  modified : Int := 0
  expires : Int := 0
  deleted : Int := 0
  secret : Bool := false
  crown : Bool := false
  deriving DecidableEq, Repr, Inhabited

namespace Meta

/-- `SetAbsoluteExpiry` -/
def setAbsoluteExpiry (m : Meta) (s : Int) : Meta := { m with expires := s, deleted := 0 }

/-- `SetRelativateExpiry` -/
def setRelativeExpiry (m : Meta) (s : Int) : Meta := if s ≥ 0 then { m with deleted := -s } else m

/-- `Update` -/
def update (m : Meta) (now : Int) : Meta :=
  let m1 : Meta := { m with modified := now, created := if m.created = 0 then now else m.created }
  if m1.deleted < 0 then { m1 with expires := now - m1.deleted } else m1

/-- `Reset`: everything but the flags. -/
def reset (m : Meta) : Meta := { m with created := 0, modified := 0, expires := 0, deleted := 0 }

/-- `Delete` -/
def delete (m : Meta) (now : Int) : Meta := { m with deleted := now }

def isDeleted (m : Meta) : Bool := decide (m.deleted > 0)

/-- `CheckValidity` -/
def valid (m : Meta) (now : Int) : Bool :=
  if m.deleted > 0 then false
  else if m.expires > 0 ∧ m.expires < now then false
  else true

/-- `CheckPermission(local, internal)` -/
def permitted (m : Meta) (loc int : Bool) : Bool :=
  if !loc && m.crown then false
  else if !int && m.secret then false
  else true

def makeSecret (m : Meta) : Meta := { m with secret := true }
def makeCrown (m : Meta) : Meta := { m with crown := true }

end Meta

/-! ## record payloads and the two accessors -/

/-! ### Go numbers: `int64` wrap-around and `float64` rounding

Numbers are exact decimals in thousandths (`1500` = 1.5). Two classes:

* **integral** values (`m % 1000 = 0`, any magnitude): `int64` fields and operands over the whole `int64` range,
  `float64` fields / operands that hold an integer (2^53, 2^62, 2^63 …), JSON numbers written as integer
  literals. Their conversion to `float64` (`strconv.ParseFloat`, `float64(int64)`) is modelled exactly: round to
  53 significant bits, ties to even (`f64Nat`).
* **fractional** values: of small magnitude only (|value| < 10^12, enforced by the protocol parser, which answers
  `bad-op` otherwise); on those, float64 comparison coincides with comparison of the thousandths and the
  truncation `int64(f)` with truncation of the decimal, so the model keeps the decimal. -/

/-- 2^53: below it every integer is a float64. -/
def two53 : Nat := 9007199254740992

/-- How many low bits the conversion to float64 drops from `n` (53 significant bits remain). `fuel ≥ n` always
    suffices; the recursion ends after `log2 n - 52` steps. -/
def f64Exp : Nat → Nat → Nat
  | 0, _ => 0
  | fuel + 1, n => if n < two53 then 0 else f64Exp fuel (n / 2) + 1

/-- The float64 nearest to the natural number `n`, ties to even (IEEE-754 round-to-nearest-even on an integer;
    exact below 2^1024 where float64 overflows — the protocol's numbers stay below 2^70). -/
def f64Nat (n : Nat) : Nat :=
  let e := f64Exp n n
  let q := n / 2 ^ e
  let r := n % 2 ^ e
  let q' := if 2 * r > 2 ^ e ∨ (2 * r = 2 ^ e ∧ q % 2 = 1) then q + 1 else q
  q' * 2 ^ e

def f64Int (i : Int) : Int :=
  if i < 0 then -((f64Nat i.natAbs : Nat) : Int) else ((f64Nat i.natAbs : Nat) : Int)

/-- The float64 value (in thousandths) of the decimal `m / 1000`: `strconv.ParseFloat` of a JSON number or of a
    query operand, `float64(v)` of an integer operand. -/
def f64m (m : Int) : Int := if m % 1000 = 0 then f64Int (m / 1000) * 1000 else m

/-- Two's-complement `int64` of an integer (what arithmetic that overflows leaves behind). -/
def wrap64 (i : Int) : Int := (i + 9223372036854775808) % 18446744073709551616 - 9223372036854775808

/-- Go's `int64(f)` of a float64 (in thousandths): truncation toward zero; outside the `int64` range the result
    is what amd64's CVTTSD2SQ answers, the "integer indefinite" -2^63. -/
def truncToInt64 (f : Int) : Int :=
  let t := Int.tdiv f 1000
  if t < -9223372036854775808 ∨ t > 9223372036854775807 then -9223372036854775808 else t

/-- `gjson.Result.Int()` on a JSON number with value `m / 1000`, as written in gjson.go:
    `safeInt(t.Num)` — the float64 if it lies within ±(2^53-1); else `parseInt(t.Raw)` — the raw text if it is
    an integer literal (encoding/json writes every integral number below 1e21 as one), digits accumulated in an
    `int64`; else `int64(t.Num)`. -/
def gjsonInt (m : Int) : Int :=
  let f := f64m m
  if f < -9007199254740991000 ∨ f > 9007199254740991000 then
    if m % 1000 = 0 then wrap64 (m / 1000) else truncToInt64 f
  else Int.tdiv f 1000

/-- What `JSONBytesAccessor.GetInt` makes of the gjson result — the conversion found in the source on this run
    (`PB.Gen.DbAcc.jsonIntVia`, regenerated by harness/cmd/extract/dbacc.go): 0 = `result.Int()`,
    otherwise `int64(result.Num)`. -/
def jsonNumToInt (m : Int) : Int :=
  if PB.Gen.DbAcc.jsonIntVia = 0 then gjsonInt m else truncToInt64 (f64m m)

/-- What `JSONBytesAccessor.GetFloat` makes of it: `result.Float()` / `result.Num` (0 / 1, the same float64),
    otherwise `float64(result.Int())`. -/
def jsonNumToFloat (m : Int) : Int :=
  if PB.Gen.DbAcc.jsonFloatVia ≤ 1 then f64m m else f64m (gjsonInt m * 1000)

/-- Scalar values of the harness schema. Floats are exact decimals in thousandths (`flt 1500` = 1.5). -/
inductive Prim where
  | str (s : String)
  | int (i : Int)
  | flt (milli : Int)
  | bool (b : Bool)
  deriving DecidableEq, Repr, Inhabited

inductive Val where
  | prim (p : Prim)
  | obj (fs : List (String × Prim))
  | arr (xs : List String)
  deriving DecidableEq, Repr, Inhabited

abbrev Fields := List (String × Val)

/-- What a Go value of that kind can hold: an `int64` is in range, a `float64` is a float64. -/
def Prim.goValue : Prim → Prop
  | .int i => -9223372036854775808 ≤ i ∧ i ≤ 9223372036854775807
  | .flt m => f64m m = m
  | _ => True

/-- How a record object is held: typed Go struct, `record.Wrapper` with JSON data, wrapper with any other
    format (no accessor). -/
inductive Form where
  | struct | json | raw
  deriving DecidableEq, Repr, Inhabited

structure Rec where
  key : String
  md : Meta := {}
  form : Form := .json
  fields : Fields := []
  raw : String := ""
  deriving DecidableEq, Repr, Inhabited

/-- A selector is the condition key split at `.` (gjson path syntax; the generators use no other gjson
    meta characters). -/
abbrev Sel := List String

def lookup {α : Type} (k : String) : List (String × α) → Option α
  | [] => none
  | (k', v) :: rest => if k' = k then some v else lookup k rest

/-- What gjson finds under a path (result type classes of gjson). -/
inductive JV where
  | str (s : String)
  | num (milli : Int)
  | bool (b : Bool)
  | other            -- object / array (gjson type JSON)
  deriving DecidableEq, Repr

def primJV : Prim → JV
  | .str s => .str s
  | .int i => .num (i * 1000)
  | .flt m => .num m
  | .bool b => .bool b

/-- `gjson.GetBytes(data, path)` on the documents the harness stores: root-level names, one sub-level
    (`N.X`), array length (`L.#`) and array index (`L.0`). -/
def jsonGet (fs : Fields) : Sel → Option JV
  | [name] => match lookup name fs with
    | none => none
    | some (.prim p) => some (primJV p)
    | some _ => some .other
  | [name, sub] => match lookup name fs with
    | some (.obj ofs) => (lookup sub ofs).map primJV
    | some (.arr xs) =>
      if sub = "#" then some (.num ((xs.length : Int) * 1000))
      else match sub.toNat? with
        | some i => (xs[i]?).map JV.str
        | none => none
    | _ => none
  | _ => none

/-- `reflect.Value.FieldByName(key)` on the harness struct: root-level field names only. -/
def structGet (fs : Fields) : Sel → Option Val
  | [name] => lookup name fs
  | _ => none

/-- Accessor results as the conditions consume them. `acc` is `none` when `GetAccessor` returns nil. -/
inductive View where
  | struct (fs : Fields)
  | json (fs : Fields)
  | nil

def Rec.view (r : Rec) : View :=
  match r.form with
  | .struct => .struct r.fields
  | .json => if r.fields.isEmpty && r.raw.isEmpty then .nil else .json r.fields   -- `len(w.Data) > 0`
  | .raw => .nil

def View.getString : View → Sel → Option String
  | .struct fs, sel => match structGet fs sel with | some (.prim (.str s)) => some s | _ => none
  | .json fs, sel => match jsonGet fs sel with | some (.str s) => some s | _ => none
  | .nil, _ => none

/-- `GetInt`: struct accessor insists on an integer kind (`field.Int()`, exact); the JSON accessor accepts every
    JSON number and converts it as `gjson.Result.Int` does (`jsonNumToInt`). -/
def View.getInt : View → Sel → Option Int
  | .struct fs, sel => match structGet fs sel with | some (.prim (.int i)) => some i | _ => none
  | .json fs, sel => match jsonGet fs sel with | some (.num m) => some (jsonNumToInt m) | _ => none
  | .nil, _ => none

/-- `GetFloat` (in thousandths): struct accessor insists on a float kind (`field.Float()`, the float64 the field
    holds); JSON accepts every number and parses it as a float64 (`jsonNumToFloat`). -/
def View.getFloat : View → Sel → Option Int
  | .struct fs, sel => match structGet fs sel with | some (.prim (.flt m)) => some m | _ => none
  | .json fs, sel => match jsonGet fs sel with | some (.num m) => some (jsonNumToFloat m) | _ => none
  | .nil, _ => none

def View.getBool : View → Sel → Option Bool
  | .struct fs, sel => match structGet fs sel with | some (.prim (.bool b)) => some b | _ => none
  | .json fs, sel => match jsonGet fs sel with | some (.bool b) => some b | _ => none
  | .nil, _ => none

def View.exists : View → Sel → Bool
  | .struct fs, sel => (structGet fs sel).isSome
  | .json fs, sel => (jsonGet fs sel).isSome
  | .nil, _ => false

/-! ## query conditions -/

inductive Cmp where
  | eq | gt | ge | lt | le
  deriving DecidableEq, Repr

def Cmp.eval (c : Cmp) (a b : Int) : Bool :=
  match c with
  | .eq => a == b | .gt => decide (a > b) | .ge => decide (a ≥ b) | .lt => decide (a < b) | .le => decide (a ≤ b)

inductive StrOp where
  | sameAs | contains | startsWith | endsWith
  deriving DecidableEq, Repr

def isInfix (needle : List Char) : List Char → Bool
  | [] => needle.isEmpty
  | c :: cs => needle.isPrefixOf (c :: cs) || isInfix needle cs

def StrOp.eval (o : StrOp) (comp value : String) : Bool :=
  match o with
  | .sameAs => value == comp
  | .contains => isInfix value.toList comp.toList
  | .startsWith => value.toList.isPrefixOf comp.toList
  | .endsWith => value.toList.isSuffixOf comp.toList

/-- One `Where(key, operator, value)`. Regular expressions are restricted to quoted literals with optional
    anchors (`^lit$`), which is what the generator produces; `regexp` itself is trusted. -/
inductive Leaf where
  | intCmp (c : Cmp) (v : Int)
  | fltCmp (c : Cmp) (milli : Int)
  | strOp (o : StrOp) (v : String)
  | inList (vs : List String)
  | re (anchorStart anchorEnd : Bool) (lit : String)
  | is (b : Bool)
  | ex
  deriving DecidableEq, Repr

def Leaf.eval (v : View) (sel : Sel) : Leaf → Bool
  | .intCmp c x => match v.getInt sel with | some a => c.eval a x | none => false
  | .fltCmp c x => match v.getFloat sel with | some a => c.eval a (f64m x) | none => false   -- `newFloatCondition` keeps a float64
  | .strOp o x => match v.getString sel with | some a => o.eval a x | none => false
  | .inList vs => match v.getString sel with | some a => vs.contains a | none => false
  | .re s e lit => match v.getString sel with
    | some a =>
      (match s, e with
       | true, true => a == lit
       | true, false => lit.toList.isPrefixOf a.toList
       | false, true => lit.toList.isSuffixOf a.toList
       | false, false => isInfix lit.toList a.toList)
    | none => false
  | .is b => match v.getBool sel with | some a => a == b | none => false
  | .ex => v.exists sel

/-- Condition trees. `And(c1..cn)` / `Or(c1..cn)` are folded to binary nodes ending in `tt` / `ff`
    (the Go loops return true / false on an empty list). `err` is any condition whose constructor
    recorded an error (`errorPresent`, `errorCondition`). -/
inductive Cond where
  | leaf (sel : Sel) (l : Leaf)
  | and (a b : Cond)
  | or (a b : Cond)
  | not (c : Cond)
  | tt
  | ff
  | err
  deriving DecidableEq, Repr

def Cond.complies (v : View) : Cond → Bool
  | .leaf sel l => l.eval v sel
  | .and a b => a.complies v && b.complies v
  | .or a b => a.complies v || b.complies v
  | .not c => !c.complies v
  | .tt => true
  | .ff => false
  | .err => false

/-- `check()`: true = no error recorded anywhere in the tree. -/
def Cond.check : Cond → Bool
  | .leaf _ _ => true
  | .and a b => a.check && b.check
  | .or a b => a.check && b.check
  | .not c => c.check
  | .tt => true
  | .ff => true
  | .err => false

/-- "Req. Type" of the README: the operator of a `Where` fits the kind of the root-level field it names
    (`exists` fits every root-level selector). -/
def Leaf.typedFor (fs : Fields) (sel : Sel) (l : Leaf) : Prop :=
  match sel with
  | [name] =>
    (match l, lookup name fs with
     | .ex, _ => True
     | .intCmp _ _, some (.prim (.int _)) => True
     | .fltCmp _ _, some (.prim (.flt _)) => True
     | .strOp _ _, some (.prim (.str _)) => True
     | .inList _, some (.prim (.str _)) => True
     | .re _ _ _, some (.prim (.str _)) => True
     | .is _, some (.prim (.bool _)) => True
     | _, _ => False)
  | _ => False

/-- The root-level scalar fields hold Go values (an `int64` field cannot hold 2^63, a `float64` field cannot hold
    2^53 + 1). -/
def goValues (fs : Fields) : Prop := ∀ name p, lookup name fs = some (.prim p) → p.goValue

def Cond.typedFor (fs : Fields) : Cond → Prop
  | .leaf sel l => l.typedFor fs sel
  | .and a b => a.typedFor fs ∧ b.typedFor fs
  | .or a b => a.typedFor fs ∧ b.typedFor fs
  | .not c => c.typedFor fs
  | .tt => True
  | .ff => True
  | .err => True

/-- A query: key prefix + optional condition (`where == nil` ⇒ `none`). -/
structure Query where
  pfx : String
  cond : Option Cond
  deriving DecidableEq, Repr

def Query.check (q : Query) : Bool := match q.cond with | none => true | some c => c.check

/-- `MatchesKey` -/
def Query.matchesKey (q : Query) (k : String) : Bool := q.pfx.toList.isPrefixOf k.toList

/-- `MatchesRecord`: no condition ⇒ true; no accessor ⇒ false. -/
def Query.matchesRecord (q : Query) (r : Rec) : Bool :=
  match q.cond with
  | none => true
  | some c => match r.view with
    | .nil => false
    | v => c.complies v

/-- `Matches` (subscriptions, hooks). -/
def Query.matchesFull (q : Query) (r : Rec) : Bool := q.matchesKey r.key && q.matchesRecord r

/-! ## storage -/

inductive Backend where
  | hashmap | bbolt | fstree | badger
  deriving DecidableEq, Repr, Inhabited

/-- bbolt, fstree and badger keep `MarshalRecord` bytes and hand out fresh `record.Wrapper`s. -/
def Backend.serializes : Backend → Bool
  | .hashmap => false | _ => true
/-- `storage.Batcher` -/
def Backend.hasBatch : Backend → Bool
  | .hashmap => true | .bbolt => true | _ => false
/-- `storage.Purger` -/
def Backend.hasPurge : Backend → Bool
  | .bbolt => true | _ => false

/-- The segments of a key between `/` separators. -/
def keySegments : List Char → List (List Char)
  | [] => [[]]
  | c :: cs =>
    match keySegments cs with
    | [] => [[c]]   -- unreachable: the result is never empty
    | seg :: rest => if c = '/' then [] :: seg :: rest else (c :: seg) :: rest

/-- Which keys a backend takes. hashmap, bbolt and badger take every key as an opaque string. fstree stores key
    `k` in the file `filepath.Join(basePath, k)` — `Join` cleans the path — and `buildFilePath` refuses every key
    whose cleaned path is not `basePath/k` (it leaves the base directory, or `Clean` changed it): accepted are
    exactly the clean relative paths, i.e. keys without an empty, `.` or `..` segment. -/
def Backend.acceptsKey : Backend → String → Bool
  | .fstree, k => (keySegments k.toList).all (fun s => s != [] && s != ['.'] && s != ['.', '.'])
  | _, _ => true
/-- `MaintainRecordStates` implemented (fstree, badger: `TODO`, returns nil) — as found in the source on this run
    (`PB.Gen.DbTime`, regenerated by harness/cmd/extract/dbtime.go). -/
def Backend.maintains : Backend → Bool
  | .hashmap => PB.Gen.DbTime.hashmapMaintains | .bbolt => PB.Gen.DbTime.bboltMaintains
  | .fstree => PB.Gen.DbTime.fstreeMaintains | .badger => PB.Gen.DbTime.badgerMaintains

/-- First case of the decision switch in the backend's `MaintainRecordStates`, with the comparisons as they
    stand in the source (regenerated): "expired and not marked deleted yet". -/
def Backend.expiredCase (b : Backend) (m : Meta) (now thr : Int) (shadow : Bool) : Bool :=
  match b with
  | .hashmap => PB.Gen.DbTime.hashmapExpired m.deleted m.expires now thr shadow
  | .bbolt => PB.Gen.DbTime.bboltExpired m.deleted m.expires now thr shadow
  | _ => false

/-- The stamp an expired record is marked deleted with under shadow delete (`meta.Deleted = meta.Expires`). -/
def Backend.expiredMark (b : Backend) (m : Meta) (now thr : Int) : Int :=
  match b with
  | .hashmap => PB.Gen.DbTime.hashmapMark m.deleted m.expires now thr
  | .bbolt => PB.Gen.DbTime.bboltMark m.deleted m.expires now thr
  | _ => m.deleted

/-- Second case of the switch: "deleted, and either no shadow delete or older than the purge threshold". -/
def Backend.removeCase (b : Backend) (m : Meta) (now thr : Int) (shadow : Bool) : Bool :=
  match b with
  | .hashmap => PB.Gen.DbTime.hashmapRemove m.deleted m.expires now thr shadow
  | .bbolt => PB.Gen.DbTime.bboltRemove m.deleted m.expires now thr shadow
  | _ => false

structure Cfg where
  backend : Backend := .hashmap
  shadow : Bool := false
  deriving DecidableEq, Repr, Inhabited

/-- Physical storage content: association list, newest first, one entry per key. -/
abbrev Store := List Rec

def Store.get (s : Store) (k : String) : Option Rec := s.find? (fun r => r.key == k)
def Store.del (s : Store) (k : String) : Store := s.filter (fun r => r.key != k)
def Store.put (s : Store) (r : Rec) : Store := r :: Store.del s r.key
def Store.has (s : Store) (k : String) : Bool := (Store.get s k).isSome

/-- What a later `Get` of the backend hands out for a record stored with `Put`:
    `MarshalRecord` drops the data section of deleted records (`Marshal` returns nil) and
    `NewRawWrapper` then yields format RAW with empty data; a typed struct comes back as JSON wrapper. -/
def stored (b : Backend) (r : Rec) : Rec :=
  if b.serializes then
    if r.md.deleted > 0 then { r with form := .raw, fields := [], raw := "" }
    else if r.form = .struct then { r with form := .json }
    else r
  else r

inductive Err where
  | notFound | denied | notImpl | badQuery | setFailed | outOfScope
  deriving DecidableEq, Repr

/-- `Controller.Get` / `Controller.GetMeta` (no hooks): storage lookup, then `CheckValidity`. -/
def ctlGet (s : Store) (k : String) (now : Int) : Except Err Rec :=
  match s.get k with
  | none => .error .notFound
  | some r => if r.md.valid now then .ok r else .error .notFound

/-- The storage half of `Controller.Put`, also `batchPutOrDelete`: immediate vs. shadow delete. -/
def storePut (cfg : Cfg) (s : Store) (r : Rec) : Store :=
  if !cfg.shadow && r.md.isDeleted then s.del r.key else s.put (stored cfg.backend r)

/-- The query filter pipeline shared by all four `queryExecutor`s (the order of the checks differs
    between backends, the conjunction does not). -/
def Query.selects (q : Query) (loc int : Bool) (now : Int) (r : Rec) : Bool :=
  q.matchesKey r.key && r.md.valid now && r.md.permitted loc int && q.matchesRecord r

def storeQuery (s : Store) (q : Query) (loc int : Bool) (now : Int) : List Rec :=
  s.filter (q.selects loc int now)

/-- `MaintainRecordStates` of hashmap and bbolt, one record. `none` = physically removed.
    The switch: first case — with shadow delete mark the record deleted, write it back and `continue`, otherwise
    `fallthrough` to the body of the second case, the physical delete. The case conditions and the stamp are the
    source's (`Backend.expiredCase` / `expiredMark` / `removeCase` over `PB.Gen.DbTime`). -/
def maintainRec (cfg : Cfg) (now thr : Int) (r : Rec) : Option Rec :=
  if cfg.backend.expiredCase r.md now thr cfg.shadow then
    if cfg.shadow then some (stored cfg.backend { r with md := { r.md with deleted := cfg.backend.expiredMark r.md now thr } })
    else none
  else if cfg.backend.removeCase r.md now thr cfg.shadow then none
  else some r

/-- One maintenance pass. `skip` is the set of keys the pass does not look at: inside one bbolt transaction
    that has already rewritten a record, `Cursor.Delete` followed by `Next` steps over a record; which ones
    is decided by the storage engine, so the model takes the set from the environment. -/
def maintainSkip (cfg : Cfg) (s : Store) (now thr : Int) (skip : List String) : Store :=
  if cfg.backend.maintains then
    s.filterMap (fun r => if skip.contains r.key then some r else maintainRec cfg now thr r)
  else s

/-- A complete pass (nothing skipped). -/
def maintain (cfg : Cfg) (s : Store) (now thr : Int) : Store := maintainSkip cfg s now thr []

/-- bbolt `Purge`, one record: permitted ∧ valid ∧ matches ⇒ shadow delete or immediate delete. -/
def Query.purges (q : Query) (loc int : Bool) (now : Int) (r : Rec) : Bool :=
  q.matchesKey r.key && r.md.permitted loc int && r.md.valid now && q.matchesRecord r

def purgeRec (cfg : Cfg) (q : Query) (loc int : Bool) (now : Int) (r : Rec) : Option Rec :=
  if q.purges loc int now r then
    if cfg.shadow then some (stored cfg.backend { r with md := r.md.delete now }) else none
  else some r

def purge (cfg : Cfg) (s : Store) (q : Query) (loc int : Bool) (now : Int) : Store × Nat :=
  (s.filterMap (purgeRec cfg q loc int now), (s.filter (q.purges loc int now)).length)

/-! ## Interface -/

inductive CacheMode where
  | none | read | delay
  deriving DecidableEq, Repr, Inhabited

structure Opts where
  loc : Bool := true
  int : Bool := true
  mkSecret : Bool := false
  mkCrown : Bool := false
  relExp : Int := 0
  absExp : Int := 0
  cache : CacheMode := .none
  deriving DecidableEq, Repr, Inhabited

def Opts.all (o : Opts) : Bool := o.loc && o.int

/-- `Options.Apply` -/
def Opts.apply (o : Opts) (m : Meta) (now : Int) : Meta :=
  let m := m.update now
  let m := if o.mkSecret then m.makeSecret else m
  let m := if o.mkCrown then m.makeCrown else m
  if o.absExp > 0 then m.setAbsoluteExpiry o.absExp
  else if o.relExp > 0 then m.setRelativeExpiry o.relExp
  else m

/-- `hasAccessPermission` -/
def Opts.hasAccess (o : Opts) (r : Rec) : Bool := o.all || r.md.permitted o.loc o.int

/-- State seen by one interface: the controller's storage, this interface's ARC cache content and delayed
    write set, plus the log of records handed to `notifySubscribers` (consumed by `deliver`). -/
structure ISt where
  store : Store := []
  cache : Store := []
  wcache : Store := []
  notes : List Rec := []
  deriving Repr, Inhabited

/-- `Controller.Put` (no hooks): storage write, then `notifySubscribers(r)`. -/
def ctlPut (cfg : Cfg) (st : ISt) (r : Rec) : ISt :=
  { st with store := storePut cfg st.store r, notes := st.notes ++ [r] }

/-- gcache removes / expires / evicts entry `k`: `cacheEvictHandler` writes a pending delayed write. -/
def evict (cfg : Cfg) (st : ISt) (k : String) : ISt :=
  let st1 := { st with cache := st.cache.del k }
  match st.wcache.get k with
  | none => st1
  | some r => ctlPut cfg { st1 with wcache := st.wcache.del k } r

/-- `checkCache` (with the validity check of the fix): a cached record that is no longer valid is removed
    from the cache (which runs the evict handler) and reported as a miss. -/
def checkCache (cfg : Cfg) (o : Opts) (st : ISt) (k : String) (now : Int) : Option Rec × ISt :=
  if o.cache = .none then (none, st)
  else match st.cache.get k with
    | none => (none, st)
    | some r => if r.md.valid now then (some r, st) else (none, evict cfg st k)

/-- `updateCache(r, write, remove, ttl)`; the result says whether the write was absorbed by the write cache.
    Capacity evictions caused by `Set` are separate `evict` environment steps. -/
def updateCache (cfg : Cfg) (o : Opts) (st : ISt) (r : Rec) (write remove : Bool) : ISt × Bool :=
  if o.cache = .none then (st, false)
  else if remove then ((if st.cache.has r.key then evict cfg st r.key else st), false)
  else
    let st := { st with cache := st.cache.put r }
    if write && o.cache = .delay then ({ st with wcache := st.wcache.put r }, true)
    else (st, false)

/-- `getRecord` -/
def getRecord (cfg : Cfg) (o : Opts) (st : ISt) (k : String) (now : Int) : Except Err Rec × ISt :=
  match checkCache cfg o st k now with
  | (some r, st) => if o.hasAccess r then (.ok r, st) else (.error .denied, st)
  | (none, st) =>
    match ctlGet st.store k now with
    | .error e => (.error e, st)
    | .ok r =>
      if !o.hasAccess r then (.error .denied, st)
      else (.ok r, (updateCache cfg o st r false false).1)

/-- `getMeta` (the permission pre-check of `Put` / `PutNew`): like `getRecord`, nothing is cached on a miss. -/
def getMeta (cfg : Cfg) (o : Opts) (st : ISt) (k : String) (now : Int) : Except Err Meta × ISt :=
  match checkCache cfg o st k now with
  | (some r, st) => if o.hasAccess r then (.ok r.md, st) else (.error .denied, st)
  | (none, st) =>
    match ctlGet st.store k now with
    | .error e => (.error e, st)
    | .ok r => if r.md.permitted o.loc o.int then (.ok r.md, st) else (.error .denied, st)

/-- Results of one interface operation. -/
inductive Out where
  | ok
  | err (e : Err)
  | one (r : Rec)
  | bool (b : Bool)
  | recs (rs : List Rec)
  | count (n : Nat)
  deriving Repr, DecidableEq

/-- `Interface.Put` / `PutNew`. -/
def ifPut (cfg : Cfg) (o : Opts) (st : ISt) (r : Rec) (now : Int) (isNew : Bool) : ISt × Out :=
  let pre : Option Err × ISt :=
    if !o.all then
      match getMeta cfg o st r.key now with
      | (.error .notFound, st) => (none, st)
      | (.error e, st) => (some e, st)
      | (.ok _, st) => (none, st)
    else (none, st)
  match pre with
  | (some e, st) => (st, .err e)
  | (none, st) =>
    let m := if isNew then r.md.reset else r.md
    let r := { r with md := o.apply m now }
    match updateCache cfg o st r true r.md.isDeleted with
    | (st, true) => (st, .ok)
    | (st, false) => (ctlPut cfg st r, .ok)

/-- The record objects held by the cache and the write cache are the object the setters mutate in place. -/
def aliasUpdate (st : ISt) (r : Rec) : ISt :=
  { st with
    cache := if st.cache.has r.key then st.cache.put r else st.cache,
    wcache := if st.wcache.has r.key then st.wcache.put r else st.wcache }

/-- `Delete`, `SetAbsoluteExpiry`, `SetRelativateExpiry`, `MakeSecret`, `MakeCrownJewel`:
    `getRecord`, `Apply`, mutate the meta in place, `db.Put(r)`. -/
def ifModify (cfg : Cfg) (o : Opts) (st : ISt) (k : String) (now : Int) (f : Meta → Meta) : ISt × Out :=
  match getRecord cfg o st k now with
  | (.error e, st) => (st, .err e)
  | (.ok r, st) =>
    let r := { r with md := f (o.apply r.md now) }
    (ctlPut cfg (aliasUpdate st r) r, .ok)

/-- `accessor.Set` for root-level attributes: the struct accessor needs an existing field of the same kind;
    the JSON accessor type-checks only an existing value and creates missing ones. -/
def primClass : Prim → Nat
  | .str _ => 0 | .int _ => 1 | .flt _ => 1 | .bool _ => 2

def setAttr (l : Fields) (attr : String) (v : Val) : Fields :=
  match l with
  | [] => [(attr, v)]
  | (k, x) :: rest => if k = attr then (k, v) :: rest else (k, x) :: setAttr rest attr v

def setField (form : Form) (fs : Fields) (attr : String) (p : Prim) : Option Fields :=
  match form with
  | .struct =>
    (match lookup attr fs with
     | some (.prim old) =>
       (match old, p with
        | .str _, .str _ => some (setAttr fs attr (.prim p))
        | .int _, .int _ => some (setAttr fs attr (.prim p))
        | .flt _, .flt _ => some (setAttr fs attr (.prim p))
        | .bool _, .bool _ => some (setAttr fs attr (.prim p))
        | _, _ => none)
     | _ => none)
  | .json =>
    (match lookup attr fs with
     | some (.prim old) => if primClass old = primClass p then some (setAttr fs attr (.prim p)) else none
     | some _ => none
     | none => some (setAttr fs attr (.prim p)))
  | .raw => none

/-- `InsertValue` -/
def ifInsert (cfg : Cfg) (o : Opts) (st : ISt) (k attr : String) (p : Prim) (now : Int) : ISt × Out :=
  match getRecord cfg o st k now with
  | (.error e, st) => (st, .err e)
  | (.ok r, st) =>
    match setField r.form r.fields attr p with
    | none => (st, .err .setFailed)
    | some fs =>
      let r := { r with fields := fs, md := o.apply r.md now }
      (ctlPut cfg (aliasUpdate st r) r, .ok)

/-- `Get` -/
def ifGet (cfg : Cfg) (o : Opts) (st : ISt) (k : String) (now : Int) : ISt × Out :=
  match getRecord cfg o st k now with
  | (.error e, st) => (st, .err e)
  | (.ok r, st) => (st, .one r)

/-- `Exists` -/
def ifExists (cfg : Cfg) (o : Opts) (st : ISt) (k : String) (now : Int) : ISt × Out :=
  match getRecord cfg o st k now with
  | (.error .notFound, st) => (st, .bool false)
  | (.error .denied, st) => (st, .bool true)
  | (.error e, st) => (st, .err e)
  | (.ok _, st) => (st, .bool true)

/-- `Query` (does not see the write cache). -/
def ifQuery (o : Opts) (st : ISt) (q : Query) (now : Int) : ISt × Out :=
  if !q.check then (st, .err .badQuery)
  else (st, .recs (storeQuery st.store q o.loc o.int now))

/-- `Purge` -/
def ifPurge (cfg : Cfg) (o : Opts) (st : ISt) (q : Query) (now : Int) : ISt × Out :=
  if !q.check then (st, .err .badQuery)
  else if !cfg.backend.hasPurge then (st, .err .notImpl)
  else
    let (s, n) := purge cfg st.store q o.loc o.int now
    ({ st with store := s }, .count n)

/-- One complete `PutMany` batch (`put(r1) … put(rn); put(nil)`): needs all permissions and a `Batcher`;
    every record gets `Apply`; no cache, no subscriptions. -/
def batchApply (cfg : Cfg) (o : Opts) (now : Int) (s : Store) : List Rec → Store
  | [] => s
  | r :: rest => batchApply cfg o now (storePut cfg s { r with md := o.apply r.md now }) rest

def ifPutMany (cfg : Cfg) (o : Opts) (st : ISt) (rs : List Rec) (now : Int) : ISt × Out :=
  if !o.all then (st, .err .denied)
  else if !cfg.backend.hasBatch then (st, .err .notImpl)
  else ({ st with store := batchApply cfg o now st.store rs }, .ok)

/-- `flushWriteCache(0)` through `FlushCache`: every pending record goes through `PutMany` (which applies the
    options again, on the very object the cache holds), then the write set is cleared. `PutMany` refuses an
    interface that is not both local and internal (`ifPutMany`): the batch function it hands out answers every
    record with `ErrPermissionDenied`, `flushWriteCache` logs that and clears the write set all the same — the
    pending records of such an interface are dropped, nothing reaches the storage. -/
def flushOne (cfg : Cfg) (o : Opts) (now : Int) (st : ISt) (r : Rec) : ISt :=
  let r := { r with md := o.apply r.md now }
  let st := { st with cache := if st.cache.has r.key then st.cache.put r else st.cache }
  { st with store := storePut cfg st.store r }

def ifFlush (cfg : Cfg) (o : Opts) (st : ISt) (now : Int) : ISt × Out :=
  if o.cache ≠ .delay then (st, .ok)
  else if o.all then
    let st' := st.wcache.foldl (flushOne cfg o now) st
    ({ st' with wcache := [] }, .ok)
  else ({ st with wcache := [] }, .ok)

/-- `ClearCache`: gcache `Purge` drops all entries without running the evict handler. -/
def ifClear (st : ISt) : ISt × Out := ({ st with cache := [] }, .ok)

/-- Operations of one interface; `evict` is the environment step "the ARC cache drops entry k now"
    (capacity eviction or TTL expiry), enabled at any time. -/
inductive Op where
  | get (k : String)
  | exists_ (k : String)
  | put (r : Rec)
  | putNew (r : Rec)
  | delete (k : String)
  | setAbs (k : String) (t : Int)
  | setRel (k : String) (d : Int)
  | mkSecret (k : String)
  | mkCrown (k : String)
  | insert (k attr : String) (p : Prim)
  | putMany (rs : List Rec)
  | query (q : Query)
  | purge (q : Query)
  | maintain (thr : Int) (skip : List String)
  | flush
  | clear
  | evict (k : String)
  deriving Repr

def step (cfg : Cfg) (o : Opts) (st : ISt) (op : Op) (now : Int) : ISt × Out :=
  match op with
  | .get k => ifGet cfg o st k now
  | .exists_ k => ifExists cfg o st k now
  | .put r => ifPut cfg o st r now false
  | .putNew r => ifPut cfg o st r now true
  | .delete k => ifModify cfg o st k now (fun m => m.delete now)
  | .setAbs k t => ifModify cfg o st k now (fun m => m.setAbsoluteExpiry t)
  | .setRel k d => ifModify cfg o st k now (fun m => m.setRelativeExpiry d)
  | .mkSecret k => ifModify cfg o st k now Meta.makeSecret
  | .mkCrown k => ifModify cfg o st k now Meta.makeCrown
  | .insert k a p => ifInsert cfg o st k a p now
  | .putMany rs => ifPutMany cfg o st rs now
  | .query q => ifQuery o st q now
  | .purge q => ifPurge cfg o st q now
  | .maintain thr skip => ({ st with store := maintainSkip cfg st.store now thr skip }, .ok)
  | .flush => ifFlush cfg o st now
  | .clear => ifClear st
  | .evict k => ((if st.cache.has k then evict cfg st k else st), .ok)

/-- Run a history (operation, time) from a state, collecting the outputs. -/
def run (cfg : Cfg) (o : Opts) : ISt → List (Op × Int) → List Out
  | _, [] => []
  | st, (op, now) :: rest =>
    let (st', out) := step cfg o st op now
    out :: run cfg o st' rest

/-! ## subscriptions and injected runtime databases (C03) -/

structure Sub where
  id : String
  loc : Bool
  int : Bool
  q : Query
  feed : List Rec := []
  deriving Repr

/-- `notifySubscribers(r)` for one subscriber. -/
def Sub.notify (s : Sub) (r : Rec) : Sub :=
  if r.md.permitted s.loc s.int && s.q.matchesFull r then { s with feed := s.feed ++ [r] } else s

def deliver (subs : List Sub) (notes : List Rec) : List Sub :=
  notes.foldl (fun ss r => ss.map (fun s => s.notify r)) subs

/-- `runtime.Registry.Query` over the records a provider returns. -/
def registryQuery (provided : List Rec) (q : Query) (loc int : Bool) (now : Int) : List Rec :=
  provided.filter (fun r => q.matchesKey r.key && r.md.valid now && r.md.permitted loc int && q.matchesRecord r)

end PB.Db
