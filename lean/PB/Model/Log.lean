import PB.Gen.Log
/-
Model of /repo/log (logging.go, input.go, output.go, trace.go): the producer/writer protocol of the
logger, written branch by branch from the Go source.

* `Line`, `Line.equal`            — `logLine` (observable fields) and `logLine.Equal`; the merge decision
                                    itself is `PB.Gen.Log.lineEqual`, regenerated from the switch in
                                    logging.go on every run (PBProofs/C20 states what it must be)
* `Levels`, `fastcheck`, `enabled` — `fastcheck()` (regenerated: `PB.Gen.Log.fastcheck`) and the level filter at
                                    the top of `log()`
* `addTracer`                     — the decision tree of `AddTracer` (regenerated: `PB.Gen.Log.addTracer`)
* `submitLine`                    — `ContextTracer.Submit`: last collected line becomes the main line
* `wstep`                         — the writer goroutine (`writer()` + `finalizeWriting()`), one event per
                                    channel operation / atomic store, with the adapter writes it performs
* `pstep`                         — one producer goroutine inside `log()` / `Submit()`
* `St`, `step`                    — the interleaving semantics: shared state (`logBuffer`, `logsWaitingFlag`,
                                    `logsWaiting`, `shutdownSignal`, `writeTrigger`, levels) + any number of
                                    producers + the writer + ghost history (who enqueued what, in which order)
Core-only (no Mathlib): the driver `pbdrv-c20` links against this file.
-/
namespace PB.Log

/-! ## Lines -/

/-- A collected tracer entry (`ContextTracer.logs` element): message, level, call site (file, line). -/
structure Entry where
  msg : Nat
  lvl : Nat
  file : Nat
  line : Nat
  deriving DecidableEq, Repr, Inhabited

/-- The observable content of a `logLine`: message, severity, call site (`file`, `line` — two fields, as
    in the struct), and for lines submitted by a context tracer the collected entries (`tracer != nil`).
    The timestamp is not compared by `Equal` and not modelled. -/
structure Line where
  msg : Nat
  lvl : Nat
  file : Nat
  line : Nat
  trace : Option (List Entry)
  deriving DecidableEq, Repr, Inhabited

/-- What `Equal` can see of a line (`tracer != nil` ⇔ the line was submitted by a context tracer). -/
def Line.key (l : Line) : PB.Gen.Log.LineKey :=
  { msg := l.msg, tracer := l.trace.isSome, file := l.file, line := l.line, level := l.lvl }

/-- `ll.Equal(ol)`: the switch of logging.go as regenerated from the source (`PB.Gen.Log.lineEqual`). -/
def Line.equal (ll ol : Line) : Bool := PB.Gen.Log.lineEqual ll.key ol.key

/-- `ContextTracer.Submit`: nothing for an empty tracer; otherwise the last collected entry is the main
    line and the remaining entries stay attached to it. -/
def submitLine (logs : List Entry) : Option Line :=
  match logs.getLast? with
  | none => none
  | some m => some { msg := m.msg, lvl := m.lvl, file := m.file, line := m.line, trace := some logs.dropLast }

/-- All entries a submitted line carries, in collection order (attached entries, then the main line). -/
def Line.entries (l : Line) : List Entry :=
  match l.trace with
  | none => [{ msg := l.msg, lvl := l.lvl, file := l.file, line := l.line }]
  | some es => es ++ [{ msg := l.msg, lvl := l.lvl, file := l.file, line := l.line }]

/-! ## Levels -/

/-- `logLevel`, `pkgLevelsActive`, `pkgLevels` (Go map: keys unique; modelled as association list,
    first match wins). -/
structure Levels where
  glob : Nat
  active : Bool
  pkgs : List (Nat × Nat)
  deriving DecidableEq, Repr, Inhabited

def lookupPkg : List (Nat × Nat) → Nat → Option Nat
  | [], _ => none
  | (k, v) :: rest, p => if k = p then some v else lookupPkg rest p

/-- `fastcheck(level)`: the function of log/input.go as regenerated from the source
    (`PB.Gen.Log.fastcheck`; PBProofs/C20 `fastcheck_decision` states what it must be). -/
def fastcheck (c : Levels) (lvl : Nat) : Bool := PB.Gen.Log.fastcheck c.active c.glob lvl

/-- The level filter of `log()`. `pkg = none` stands for a caller file path with fewer than two
    segments ("file too short for package levels"). -/
def enabled (c : Levels) (pkg : Option Nat) (lvl : Nat) : Bool :=
  if c.active then
    match pkg with
    | none => false
    | some p =>
      match lookupPkg c.pkgs p with
      | some sev => if lvl < sev then false else true
      | none => if lvl < c.glob then false else true
  else if lvl < c.glob then false
  else true

/-- The level in force for an origin, stated declaratively: the package level if package levels are
    active and the package has one, the global level otherwise. -/
def threshold (c : Levels) (p : Nat) : Nat :=
  if c.active then (lookupPkg c.pkgs p).getD c.glob else c.glob

/-- `AddTracer(ctx)` called from origin `pkg` (`none`: a caller file path with fewer than two segments) under
    the levels `c`: is a live tracer handed out? The decision tree is the code's own, regenerated from
    log/trace.go (`PB.Gen.Log.addTracer`): `fastcheck(TraceLevel)`, then — package levels active — the entry of
    the caller's package or else the global level, — inactive — the global level, then the check for a tracer
    already in the context. `callerOk = false`: `runtime.Caller(1)` failed. -/
def addTracer (c : Levels) (ctxNil callerOk : Bool) (pkg : Option Nat) (existing : Bool) : Bool :=
  PB.Gen.Log.addTracer ctxNil callerOk pkg.isNone c.active c.glob (pkg.bind (lookupPkg c.pkgs)) existing

/-! ## The levels in force when the logger starts: `-log` / `-plog` flags, `ParseLevel`, `Severity.Name` -/

/-- The switch of `ParseLevel` on the (already lower-cased) name; 0 for any other name. -/
def lookupLevel (t : String) : Nat := (PB.Gen.Log.levelNames.lookup t).getD 0

/-- `ParseLevel(name)` = that switch on `strings.ToLower(name)`. -/
def parseLevel (s : String) : Nat := lookupLevel s.toLower

/-- `Severity(n).Name()`. -/
def severityName (n : Nat) : String :=
  match PB.Gen.Log.severities.find? (·.2 == n) with
  | some c => (PB.Gen.Log.severityNames.lookup c.1).getD PB.Gen.Log.severityNameDefault
  | none => PB.Gen.Log.severityNameDefault

/-- `newPkgLevels[k] = v` (a Go map: one entry per key). -/
def setPkg {κ : Type} [BEq κ] (m : List (κ × Nat)) (k : κ) (v : Nat) : List (κ × Nat) :=
  (k, v) :: m.filter (fun x => !(x.1 == k))

/-- The loop of `Start()` over the pairs of `-plog` (each pair already split at "="): a pair that is not
    `name=level` with a known level name ends the loop ("ignoring"); what was read before it is kept, what
    follows it is not read. -/
def parsePairs : List (List String) → List (String × Nat) → List (String × Nat)
  | [], acc => acc
  | [k, v] :: rest, acc => if parseLevel v = 0 then acc else parsePairs rest (setPkg acc k (parseLevel v))
  | _ :: _, acc => acc

/-- `Start()`: the levels in force afterwards, given the levels set before (`SetLogLevel`/`SetPkgLevels`
    calls made before Start) and the two flags. An unknown `-log` name falls back to info; a non-empty
    `-plog` REPLACES the package levels and activates them (also when nothing of it could be read).
    `pkgId`: the harness' numbering of package names. -/
def startLevels (pkgId : String → Nat) (pre : Levels) (logFlag plogFlag : String) : Levels :=
  let g := if logFlag = "" then pre.glob
           else if parseLevel logFlag = 0 then PB.Gen.Log.infoLevel else parseLevel logFlag
  if plogFlag = "" then { pre with glob := g }
  else { glob := g, active := true,
         pkgs := (parsePairs ((plogFlag.splitOn ",").map (·.splitOn "=")) []).map fun kv => (pkgId kv.1, kv.2) }

/-! ## Adapter output -/

/-- One `adapter.Write(line, duplicates)` call. -/
abbrev Write := Line × Nat

/-- What an adapter write stands for: the line, `duplicates + 1` times. -/
def expand : List Write → List Line
  | [] => []
  | (l, d) :: rest => List.replicate (d + 1) l ++ expand rest

/-! ## The writer goroutine -/

/-- Program locations of `writer()`. -/
inductive WPc where
  | waitLogs   -- first select: logsWaiting / forceEmptyingOfBuffer / shutdownSignal
  | gotToken   -- received from logsWaiting, `logsWaitingFlag.UnSet()` not yet executed
  | waitSlot   -- second select: writeTrigger / forceEmptyingOfBuffer / shutdownSignal
  | drain      -- writeLoop
  | backoff    -- third select: 10 ms timer / shutdownSignal
  | fin        -- finalizeWriting
  | done       -- writer returned (shutdownWaitGroup.Done)
  deriving DecidableEq, Repr, Inhabited

structure Writer where
  pc : WPc
  cur : Option Line     -- currentLine
  dups : Nat            -- duplicates
  deriving DecidableEq, Repr, Inhabited

/-- Events of the writer goroutine (one per channel operation / atomic store). -/
inductive WEv where
  | token          -- `<-logsWaiting`
  | unset          -- `logsWaitingFlag.UnSet()`
  | force          -- `<-forceEmptyingOfBuffer` (first or second select)
  | slot           -- `<-writeTrigger`
  | shut           -- `<-shutdownSignal` (any of the three selects) → finalizeWriting
  | deq (l : Line) -- `nextLine := <-logBuffer` in the writeLoop
  | empty          -- `default:` of the writeLoop (buffer empty), final line written
  | timer          -- `<-time.After(10ms)` of the back-off select
  | fdeq (l : Line) -- `line := <-logBuffer` in finalizeWriting
  | ftimeout       -- `<-time.After(10ms)` in finalizeWriting with `len(logBuffer) == 0` (else: keep draining)
  deriving DecidableEq, Repr

/-- One step of the writer goroutine: new local state and the adapter writes performed. -/
def wstep (w : Writer) : WEv → Option (Writer × List Write)
  | .token => if w.pc = .waitLogs then some ({ w with pc := .gotToken }, []) else none
  | .unset => if w.pc = .gotToken then some ({ w with pc := .waitSlot }, []) else none
  | .force =>
    if w.pc = .waitLogs then some ({ w with pc := .waitSlot }, [])
    else if w.pc = .waitSlot then some ({ w with pc := .drain }, [])
    else none
  | .slot => if w.pc = .waitSlot then some ({ w with pc := .drain }, []) else none
  | .shut =>
    if w.pc = .waitLogs ∨ w.pc = .waitSlot ∨ w.pc = .backoff then some ({ w with pc := .fin }, [])
    else none
  | .deq l =>
    if w.pc = .drain then
      match w.cur with
      | none => some ({ w with cur := some l }, [])
      | some c =>
        if l.equal c then some ({ w with dups := w.dups + 1 }, [])
        else some ({ w with cur := some l, dups := 0 }, [(c, w.dups)])
    else none
  | .empty =>
    if w.pc = .drain then
      match w.cur with
      | none => some ({ pc := .backoff, cur := none, dups := 0 }, [])
      | some c => some ({ pc := .backoff, cur := none, dups := 0 }, [(c, w.dups)])
    else none
  | .timer => if w.pc = .backoff then some ({ w with pc := .waitLogs }, []) else none
  | .fdeq l => if w.pc = .fin then some (w, [(l, 0)]) else none
  | .ftimeout => if w.pc = .fin then some ({ w with pc := .done }, []) else none

/-- Lines the writer has taken from the buffer but not yet handed to the adapter. -/
def Writer.pending (w : Writer) : List Line :=
  match w.cur with
  | none => []
  | some c => List.replicate (w.dups + 1) c

def Writer.init : Writer := { pc := .waitLogs, cur := none, dups := 0 }

/-- One uninterrupted writeLoop over a batch of lines (used for the merge/expand law). -/
def drainBatch : Writer → List Line → Writer × List Write
  | w, [] => (w, [])
  | w, l :: ls =>
    match wstep w (.deq l) with
    | none => (w, [])
    | some (w', o) => let r := drainBatch w' ls; (r.1, o ++ r.2)

/-- The adapter writes of one complete writeLoop round over `ls`. -/
def mergeRuns (ls : List Line) : List Write :=
  let r := drainBatch { pc := .drain, cur := none, dups := 0 } ls
  match wstep r.1 .empty with
  | none => r.2
  | some (_, o) => r.2 ++ o

/-! ## One producer goroutine -/

/-- Where a producer is inside `Info()/…`/`log()`/`Submit()`. -/
inductive PState where
  | idle
  | inLog (l : Line) (pkg : Option Nat)  -- passed `fastcheck`, before the level filter of `log()`
  | ready (l : Line)                     -- `logLine` created, before the non-blocking send
  | forcing (l : Line)                   -- inside `forceEmptyingLoop`
  | sent                                 -- enqueued, before `logsWaitingFlag.SetToIf(false, true)`
  | won                                  -- SetToIf succeeded, before the send on `logsWaiting`
  deriving DecidableEq, Repr, Inhabited

/-- Events of a producer goroutine; Boolean payloads are the outcome observed on shared state. -/
inductive PEv where
  | call (l : Line) (pkg : Option Nat) (pass : Bool) -- `Info(msg)` …: `fastcheck`
  | filter (pass : Bool)      -- level filter of `log()`
  | submit (l : Line)         -- `tracer.Submit()` with a non-empty tracer
  | enq                       -- `case logBuffer <- log` of the non-blocking select
  | full                      -- its `default`
  | forced                    -- `case forceEmptyingOfBuffer <- struct{}{}` (loops)
  | enqB                      -- `case logBuffer <- log` inside the loop
  | flag (won : Bool)         -- `logsWaitingFlag.SetToIf(false, true)`
  | tok                       -- `logsWaiting <- struct{}{}`
  | tokFull                   -- `default` of the wake-up select in `log()` (token dropped)
  deriving DecidableEq, Repr

def pstep (ps : PState) : PEv → Option PState
  | .call l pkg pass =>
    match ps with
    | .idle => some (if pass then .inLog l pkg else .idle)
    | _ => none
  | .filter pass =>
    match ps with
    | .inLog l _ => some (if pass then .ready l else .idle)
    | _ => none
  | .submit l =>
    match ps with
    | .idle => if l.trace.isSome then some (.ready l) else none
    | _ => none
  | .enq => match ps with | .ready _ => some .sent | _ => none
  | .full => match ps with | .ready l => some (.forcing l) | _ => none
  | .forced => match ps with | .forcing l => some (.forcing l) | _ => none
  | .enqB => match ps with | .forcing _ => some .sent | _ => none
  | .flag won => match ps with | .sent => some (if won then .won else .idle) | _ => none
  | .tok => match ps with | .won => some .idle | _ => none
  | .tokFull => match ps with | .won => some .idle | _ => none

/-- The line a producer has accepted (filter passed) but not yet enqueued. -/
def PState.pending : PState → List Line
  | .ready l => [l]
  | .forcing l => [l]
  | _ => []

/-! ## The interleaving semantics -/

/-- One line collected by a live tracer (`tracer.log`), with ghost notes about the collecting call: the origin
    it was made from and the levels in force at that moment. -/
structure Collected where
  e : Entry
  pkg : Option Nat
  lv : Levels
  deriving DecidableEq, Repr, Inhabited

/-- A live context tracer: what `AddTracer` put into the context of a goroutine. `lv`/`pkg` are ghost: the
    levels in force when `AddTracer` took its decision and the origin it was called from. -/
structure Tracer where
  logs : List Collected
  lv : Levels
  pkg : Option Nat
  deriving DecidableEq, Repr, Inhabited

/-- A submission as accepted (ghost history): the line `Submit` built and the tracer it came from. -/
structure Sub where
  line : Line
  tr : Tracer
  deriving DecidableEq, Repr, Inhabited

/-- Is `lvl` one of the `Severity` constants (what the logging functions pass on, see `levelCalls`)? -/
def isSeverity (lvl : Nat) : Bool := PB.Gen.Log.severities.any (·.2 == lvl)

/-- A buffered line with the (ghost) id of the goroutine that enqueued it. -/
abbrev Owned := Nat × Line

structure St where
  cap : Nat                 -- capacity of `logBuffer` (code: 1024)
  paced : Bool              -- `EnableScheduling()` was called: `writeTrigger` is open, not closed
  lv : Levels
  buf : List Owned          -- `logBuffer`, head = oldest
  flag : Bool               -- `logsWaitingFlag`
  token : Bool              -- `logsWaiting` holds its one token
  shut : Bool               -- `shutdownSignal` closed (Shutdown requested)
  w : Writer
  prods : Nat → PState
  tr : Nat → Option Tracer  -- the live tracer in the context the goroutine works with (one context at a time)
  -- ghost history
  subs : Nat → List Sub     -- per goroutine: its tracer submissions, in program order
  out : List Write          -- adapter calls so far
  enq : List Owned          -- everything ever enqueued, in channel order
  deq : List Owned          -- everything ever dequeued by the writer, in order
  logged : Nat → List Line  -- per goroutine: the lines that passed the filter, in program order
  enqAtShut : Nat           -- `enq.length` at the moment Shutdown was requested
  deriving Inhabited

def upd {α : Type} (f : Nat → α) (p : Nat) (x : α) : Nat → α := fun q => if q = p then x else f q

def St.init (cap : Nat) (paced : Bool) (lv : Levels) : St :=
  { cap := cap, paced := paced, lv := lv, buf := [], flag := false, token := false, shut := false,
    w := Writer.init, prods := fun _ => .idle, tr := fun _ => none, subs := fun _ => [], out := [], enq := [], deq := [],
    logged := fun _ => [], enqAtShut := 0 }

inductive Act where
  | p (pid : Nat) (e : PEv)
  | w (e : WEv)
  | addTracer (pid : Nat) (pkg : Option Nat) (live : Bool)
                                  -- `AddTracer(ctx)` by goroutine `pid` from origin `pkg`; `live`: a tracer came back
  | collect (pid : Nat) (e : Entry) (pkg : Option Nat)
                                  -- `tracer.Info(msg)` … on the goroutine's LIVE tracer from origin `pkg` (`tracer.log`:
                                  -- no level check at all); on a nil tracer the same call is `.p pid (.call …)`
  | wforce (pid : Nat)            -- rendezvous on `forceEmptyingOfBuffer` between producer `pid` and the writer
  | trigger                       -- `TriggerWriter()` (non-blocking send on `writeTrigger`)
  | setLevel (g : Nat)
  | setPkgs (m : List (Nat × Nat))
  | unsetPkgs
  | shutdown                      -- `Shutdown()`: close(shutdownSignal)
  deriving Repr

/-- Append producer `pid`'s accepted line to its ghost log. -/
def St.accept (s : St) (pid : Nat) (l : Line) : St :=
  { s with prods := upd s.prods pid (.ready l), logged := upd s.logged pid (s.logged pid ++ [l]) }

/-- Enqueue `l` for producer `pid` (channel send completed). -/
def St.push (s : St) (pid : Nat) (l : Line) : St :=
  { s with prods := upd s.prods pid .sent, buf := s.buf ++ [(pid, l)], enq := s.enq ++ [(pid, l)] }

/-- The global step. Producer and writer moves are written out flat (one guard on the shared state,
    one local move); `step_p_pstep` / `step_w_wstep` (PBProofs) show that the local moves are exactly
    `pstep` / `wstep`, which the driver uses to replay recorded per-goroutine traces. -/
def step (s : St) : Act → Option St
  -- producers
  | .p pid (.call l pkg pass) =>
    match s.prods pid with
    | .idle =>   -- every logging function calls `log(…, nil)`: a plain line (`levelCalls`), pre-checked at its own severity
      if l.trace = none ∧ pass = fastcheck s.lv l.lvl then
        some { s with prods := upd s.prods pid (if pass then .inLog l pkg else .idle) }
      else none
    | _ => none
  | .p pid (.filter pass) =>
    match s.prods pid with
    | .inLog l pkg =>
      if pass = enabled s.lv pkg l.lvl then
        if pass then some (s.accept pid l)
        else some { s with prods := upd s.prods pid .idle }
      else none
    | _ => none
  | .p pid (.submit l) =>      -- `Submit` on the live tracer: no level check; the decision was `AddTracer`'s
    match s.prods pid with
    | .idle =>
      if l.trace.isSome then
        match s.tr pid with
        | some t =>
          if submitLine (t.logs.map (·.e)) = some l then
            some { (s.accept pid l) with tr := upd s.tr pid none, subs := upd s.subs pid (s.subs pid ++ [⟨l, t⟩]) }
          else none
        | none => none
      else none
    | _ => none
  | .p pid .enq =>
    match s.prods pid with
    | .ready l => if s.buf.length < s.cap then some (s.push pid l) else none
    | _ => none
  | .p pid .full =>
    match s.prods pid with
    | .ready l =>
      if s.buf.length < s.cap then none else some { s with prods := upd s.prods pid (.forcing l) }
    | _ => none
  | .p _ .forced => none      -- only jointly with the writer: `wforce`
  | .p pid .enqB =>
    match s.prods pid with
    | .forcing l => if s.buf.length < s.cap then some (s.push pid l) else none
    | _ => none
  | .p pid (.flag won) =>
    match s.prods pid with
    | .sent =>
      if won = !s.flag then
        some { s with flag := true, prods := upd s.prods pid (if won then .won else .idle) }
      else none
    | _ => none
  | .p pid .tok =>
    match s.prods pid with
    | .won => if s.token then none else some { s with token := true, prods := upd s.prods pid .idle }
    | _ => none
  | .p pid .tokFull =>
    match s.prods pid with
    | .won => if s.token then some { s with prods := upd s.prods pid .idle } else none
    | _ => none
  -- context tracers
  | .addTracer pid pkg live =>
    match s.prods pid with
    | .idle =>
      if live = addTracer s.lv false true pkg (s.tr pid).isSome then
        if live then some { s with tr := upd s.tr pid (some { logs := [], lv := s.lv, pkg := pkg }) }
        else some s
      else none
    | _ => none
  | .collect pid e pkg =>
    match s.prods pid, s.tr pid with
    | .idle, some t =>
      if isSeverity e.lvl then
        some { s with tr := upd s.tr pid (some { t with logs := t.logs ++ [⟨e, pkg, s.lv⟩] }) }
      else none
    | _, _ => none
  -- the writer
  | .w .token =>
    if s.token ∧ s.w.pc = .waitLogs then some { s with token := false, w := { s.w with pc := .gotToken } }
    else none
  | .w .unset =>
    if s.w.pc = .gotToken then some { s with flag := false, w := { s.w with pc := .waitSlot } } else none
  | .w .force => none         -- only jointly with a producer: `wforce`
  | .wforce pid =>
    match s.prods pid with
    | .forcing _ =>
      if s.w.pc = .waitLogs then some { s with w := { s.w with pc := .waitSlot } }
      else if s.w.pc = .waitSlot then some { s with w := { s.w with pc := .drain } }
      else none
    | _ => none
  | .w .slot =>             -- closed channel: always ready
    if ¬ s.paced ∧ s.w.pc = .waitSlot then some { s with w := { s.w with pc := .drain } } else none
  | .trigger =>               -- non-blocking send: succeeds only if the writer is waiting for it
    if s.paced ∧ s.w.pc = .waitSlot then some { s with w := { s.w with pc := .drain } } else some s
  | .w .shut =>
    if s.shut ∧ (s.w.pc = .waitLogs ∨ s.w.pc = .waitSlot ∨ s.w.pc = .backoff) then
      some { s with w := { s.w with pc := .fin } }
    else none
  | .w (.deq l) =>
    match s.buf with
    | (o, x) :: rest =>
      if x = l ∧ s.w.pc = .drain then
        match s.w.cur with
        | none => some { s with buf := rest, deq := s.deq ++ [(o, x)], w := { s.w with cur := some l } }
        | some c =>
          if l.equal c then
            some { s with buf := rest, deq := s.deq ++ [(o, x)], w := { s.w with dups := s.w.dups + 1 } }
          else
            some { s with buf := rest, deq := s.deq ++ [(o, x)], w := { s.w with cur := some l, dups := 0 },
                          out := s.out ++ [(c, s.w.dups)] }
      else none
    | [] => none
  | .w .empty =>
    if s.buf = [] ∧ s.w.pc = .drain then
      match s.w.cur with
      | none => some { s with w := { pc := .backoff, cur := none, dups := 0 } }
      | some c => some { s with w := { pc := .backoff, cur := none, dups := 0 }, out := s.out ++ [(c, s.w.dups)] }
    else none
  | .w .timer =>
    if s.w.pc = .backoff then some { s with w := { s.w with pc := .waitLogs } } else none
  | .w (.fdeq l) =>
    match s.buf with
    | (o, x) :: rest =>
      if x = l ∧ s.w.pc = .fin then
        some { s with buf := rest, deq := s.deq ++ [(o, x)], out := s.out ++ [(l, 0)] }
      else none
    | [] => none
  | .w .ftimeout =>
    if s.buf = [] ∧ s.w.pc = .fin then some { s with w := { s.w with pc := .done } } else none
  -- environment
  | .setLevel g => some { s with lv := { s.lv with glob := g } }
  | .setPkgs m => some { s with lv := { s.lv with pkgs := m, active := true } }
  | .unsetPkgs => some { s with lv := { s.lv with active := false } }
  | .shutdown =>
    if s.shut then some s else some { s with shut := true, enqAtShut := s.enq.length }

/-- Run a list of actions; `none` if one of them is not enabled. -/
def run : St → List Act → Option St
  | s, [] => some s
  | s, a :: as => match step s a with | none => none | some s' => run s' as

/-- States reachable from an initial state (any capacity, paced or not, any initial levels). -/
inductive Reachable : St → Prop where
  | init (cap paced lv) : Reachable (St.init cap paced lv)
  | step {s s' a} : Reachable s → step s a = some s' → Reachable s'

/-- The lines of goroutine `p` in an owned sequence. -/
def proj (p : Nat) (xs : List Owned) : List Line := (xs.filter (fun x => x.1 == p)).map (·.2)

/-! ## Checking a recorded run of the real logger against the property

The harness records, per goroutine, the calls it made (grouped per message "item": identical
consecutive calls from one call site) together with the level configuration in force during each call,
and the adapter output. `checkRun` decides whether the output is what the property allows. -/

inductive Kind where
  | plain    -- `Info(msg)` …: subject to the level filter
  | tracer   -- `tracer.Submit()`: no filter, carries its collected entries
  | any      -- a call cut off by the end of the run: optional, any form
  deriving DecidableEq, Repr

/-- Some completed calls of one item. `cfg = none`: the level configuration changed during the call. For a
    tracer submission "the call" is the tracer's whole life, from `AddTracer` to the return of `Submit`: the
    level decision for everything it carries is taken once, by `AddTracer`. -/
structure Seg where
  cfg : Option Levels
  before : Bool          -- the call returned before Shutdown was requested
  n : Nat
  deriving Repr

structure Item where
  item : Nat
  lvl : Nat
  org : Nat
  kind : Kind
  segs : List Seg
  entries : List Nat     -- tracer: the items of the attached entries
  low : Nat              -- the lowest severity among the lines the call hands over: `lvl` for a plain call; for a
                         -- submission the minimum over its collected entries and its main line
  deriving Repr

/-- Is a call of this kind emitted under configuration `c`? A plain call: iff its severity is at or above the
    level in force for its origin. A submission (configuration unchanged from `AddTracer` to `Submit`): iff EVERY
    line it carries is — "messages below the level in force are never emitted" holds for collected lines too. -/
def Item.on (e : Item) (c : Levels) : Bool :=
  match e.kind with
  | .plain => enabled c (some e.org) e.lvl
  | .tracer => enabled c (some e.org) e.low
  | .any => true

/-- Lines that MUST reach the adapter: enabled under a stable configuration, completed before Shutdown. -/
def Item.lo (e : Item) : Nat :=
  (e.segs.map fun s =>
    match s.cfg with
    | none => 0
    | some c => if e.kind != .any && s.before && e.on c then s.n else 0).sum

/-- Lines that MAY reach the adapter: everything except calls that were disabled under a stable configuration. -/
def Item.hi (e : Item) : Nat :=
  (e.segs.map fun s =>
    match s.cfg with
    | none => s.n
    | some c => if e.on c then s.n else 0).sum

/-- One line of the expanded adapter output attributed to a goroutine. -/
structure Got where
  item : Nat
  entries : Option (List Nat)
  deriving DecidableEq, Repr

/-- One adapter write as recorded: owner goroutine, item, duplicates, attached entries. -/
structure OutW where
  gid : Nat
  item : Nat
  dups : Nat
  entries : Option (List Nat)
  deriving Repr

def expandOut (gid : Nat) : List OutW → List Got
  | [] => []
  | o :: rest =>
    if o.gid = gid then List.replicate (o.dups + 1) ⟨o.item, o.entries⟩ ++ expandOut gid rest
    else expandOut gid rest

inductive Verdict where
  | pass
  | fail (cls : String) (gid item : Nat)
  deriving DecidableEq, Repr

/-- Does an output line have the form the item prescribes? -/
def Item.formOk (e : Item) (g : Got) : Bool :=
  match e.kind with
  | .plain => g.entries == none
  | .tracer => g.entries == some e.entries
  | .any => true

/-- Can this output line belong to the block of item `e`: it carries its item id AND has the form it
    prescribes. A tracer submission is therefore never taken for a repetition of a plain line or of a
    submission that collected other lines. -/
def Item.matches (e : Item) (g : Got) : Bool := g.item == e.item && e.formOk g

/-- The leading lines of `got` that can form the block of item `e`. -/
def takeBlock (e : Item) : List Got → List Got
  | [] => []
  | g :: gs => if e.matches g then g :: takeBlock e gs else []

/-- Does the output continue with a line of this item (in whatever form)? -/
def nextIs (item : Nat) : List Got → Bool
  | [] => false
  | g :: _ => g.item == item

/-- Greedy walk along one goroutine's expected items (program order): every item takes as many lines as it
    can. Its verdict names the first item at which this walk fails. -/
def greedyProd (gid : Nat) : List Item → List Got → Verdict
  | [], [] => .pass
  | [], g :: _ => .fail "unexpected" gid g.item
  | e :: es, got =>
    let blk := takeBlock e got
    if blk.length < e.lo then
      .fail (if nextIs e.item (got.drop blk.length) then "trace" else "lost") gid e.item
    else if blk.length > e.hi then .fail (if e.hi = 0 then "filtered" else "duplicated") gid e.item
    else greedyProd gid es (got.drop blk.length)

/-! The exact decision: is there ANY way to cut the output into consecutive blocks, one per item, block `i`
    made of `lo … hi` lines of item `i`? (The greedy walk is not exact when an optional or disabled item
    stands between two items of identical lines: `A B A` with `B` absent legitimately arrives as `A A`.)
    The frontier holds the remainders (with their lengths) that the items so far can leave. -/

abbrev Rem := Nat × List Got

/-- The remainders after taking a block of item `e` off the front of `got`; `k` lines taken so far,
    `n` = length of `got`. -/
def splits (e : Item) : Nat → Nat → List Got → List Rem
  | k, n, [] => if e.lo ≤ k then [(n, [])] else []
  | k, n, g :: gs =>
    (if e.lo ≤ k then [(n, g :: gs)] else []) ++
      (if k < e.hi ∧ e.matches g = true then splits e (k + 1) (n - 1) gs else [])

def addRem (x : Rem) (fr : List Rem) : List Rem := if fr.any (·.1 == x.1) then fr else x :: fr

/-- One representative per remainder length. -/
def dedupRem (fr : List Rem) : List Rem := fr.foldr addRem []

def splitsAll (e : Item) : List Rem → List Rem
  | [] => []
  | x :: xs => splits e 0 x.1 x.2 ++ splitsAll e xs

def conformsFrom : List Item → List Rem → Bool
  | [], fr => fr.any (·.2.isEmpty)
  | e :: es, fr => conformsFrom es (dedupRem (splitsAll e fr))

def conformsB (es : List Item) (got : List Got) : Bool := conformsFrom es [(got.length, got)]

/-- Where the exact decision gets stuck: the first item after which no remainder is left — whichever way the
    items before it are cut, the output does not continue with the `lo` lines this item needs. -/
def stuckAt : List Item → List Rem → Option Item
  | [], _ => none
  | e :: es, fr =>
    match dedupRem (splitsAll e fr) with
    | [] => some e
    | fr' => stuckAt es fr'

/-- Is some line of item `i` emitted more often than all the items that can take it allow together? -/
def overEmitted (es : List Item) (got : List Got) (i : Nat) : Bool :=
  let cand := got.filter (·.item == i)
  cand.any fun g => ((es.filter (·.matches g)).map (·.hi)).sum < cand.countP (· == g)

/-- The verdict of the greedy walk, corrected where it is known to misname: `A B A` with `B` LOST arrives as
    `A A`, which the walk calls a duplicate of `A`. A `duplicated` is kept only if the line really is emitted
    more often than allowed; otherwise the item at which every cutting gets stuck is named as lost. -/
def diagnose (gid : Nat) (es : List Item) (got : List Got) (v : Verdict) : Verdict :=
  match v with
  | .pass => .fail "unexpected" gid 0
  | .fail cls g i =>
    if cls == "duplicated" && !overEmitted es got i then
      match stuckAt es [(got.length, got)] with
      | some e => .fail "lost" gid e.item
      | none => .fail cls g i
    else .fail cls g i

/-- One goroutine's part of the expanded output against its items: accepted iff it can be cut into
    conforming blocks; otherwise the (corrected) verdict of the greedy walk says where. -/
def checkProd (gid : Nat) (es : List Item) (got : List Got) : Verdict :=
  match greedyProd gid es got with
  | .pass => .pass
  | v => if conformsB es got then .pass else diagnose gid es got v

/-- All goroutines `0 … np-1`, in order; first failure wins. -/
def checkProds (outs : List OutW) (exps : Nat → List Item) : Nat → Nat → Verdict
  | _, 0 => .pass
  | gid, n + 1 =>
    match checkProd gid (exps gid) (expandOut gid outs) with
    | .pass => checkProds outs exps (gid + 1) n
    | v => v

/-- A tracer line written with a repetition count: a second submission was merged away together with
    the entries it collected. -/
def OutW.mergedTracer (o : OutW) : Bool := o.entries.isSome && o.dups > 0

/-! Every tracer submission is accounted for on its own: the submissions that MUST arrive (stable
    configuration, completed before Shutdown was requested) are, in program order and with exactly their
    collected entries, a subsequence of the tracer lines the adapter received from that goroutine. -/

def Item.mustTracer (e : Item) : List Got :=
  if e.kind = .tracer then List.replicate e.lo ⟨e.item, some e.entries⟩ else []

def tracerMust : List Item → List Got
  | [] => []
  | e :: es => e.mustTracer ++ tracerMust es

def tracerGot (gid : Nat) (outs : List OutW) : List Got := (expandOut gid outs).filter (·.entries.isSome)

/-- Greedy subsequence matching: the first required line that does not arrive. -/
def firstMissing : List Got → List Got → Option Got
  | [], _ => none
  | m :: _, [] => some m
  | m :: ms, g :: gs => if m = g then firstMissing ms gs else firstMissing (m :: ms) gs

def checkTracers (outs : List OutW) (exps : Nat → List Item) : Nat → Nat → Verdict
  | _, 0 => .pass
  | gid, n + 1 =>
    match firstMissing (tracerMust (exps gid)) (tracerGot gid outs) with
    | some m => .fail "tracer-lost" gid m.item
    | none => checkTracers outs exps (gid + 1) n

/-! "Messages below the level in force are never emitted", line by line: an output line that belongs to items
    of its goroutine none of which may be emitted at all (every call of them was made below the level in force,
    under a configuration that did not change during the call) is named first — the walk along the items would
    only report the first place where its cutting into blocks fails, which may be elsewhere. -/

/-- The line has the identity and form of some item, and every such item has `hi = 0`. -/
def neverAllowed (es : List Item) (g : Got) : Bool :=
  es.any (·.matches g) && !es.any (fun e => e.matches g && decide (0 < e.hi))

/-- (Only lines that match an item with `hi = 0` need the full test; usually there are few such items.) -/
def checkFiltered (outs : List OutW) (exps : Nat → List Item) : Nat → Nat → Verdict
  | _, 0 => .pass
  | gid, n + 1 =>
    let dead := (exps gid).filter (·.hi == 0)
    match (expandOut gid outs).find? (fun g => dead.any (·.matches g) && neverAllowed (exps gid) g) with
    | some g => .fail "filtered" gid g.item
    | none => checkFiltered outs exps (gid + 1) n

def checkRun (np : Nat) (exps : Nat → List Item) (outs : List OutW) : Verdict :=
  match outs.find? (fun o => o.gid ≥ np) with
  | some o => .fail "unexpected" o.gid o.item
  | none =>
    match outs.find? OutW.mergedTracer with
    | some o => .fail "trace" o.gid o.item
    | none =>
      match checkFiltered outs exps 0 np with
      | .pass =>
        match checkTracers outs exps 0 np with
        | .pass => checkProds outs exps 0 np
        | v => v
      | v => v

end PB.Log
