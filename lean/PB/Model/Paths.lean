import PB.Spec.Paths
/-
Model for C18: the path computations of the four components that turn an externally supplied name
into a file path, branch by branch from the Go source (after the `fix:` commits):

* `database/storage/fstree/fstree.go`  `buildFilePath`, the walk root of `Query`
* `utils/structure.go`                 `DirStructure.EnsureAbsPath` / `EnsureRelPath` / `EnsureRelDir` / `ensure`
* `updater/unpacking.go`               destination of a zip entry in `unpackZipArchive`
* `updater/storage.go`                 root check of `ScanStorage`
* `api/api_bridge.go`                  scope check of `callAPI` (URL path, same pattern)

and of the stdlib functions they call (`path/filepath` on POSIX: `Clean`, `Join`, `Dir`, `Rel`, `Abs`;
`path.Base`, `path.Join`; `strings.HasPrefix/HasSuffix/TrimSuffix/Split`).  The stdlib functions are
re-implemented on path segments and compared with the real ones by the correspondence run.
Paths are byte strings (`Path = List UInt8`).
-/
namespace PB.Paths
open PB

/-- `strings.Join(ss, "/")`. -/
def joinSep : List Path → Path
  | [] => []
  | [s] => s
  | s :: t :: ss => s ++ 47 :: joinSep (t :: ss)

def hasPrefix (s pre : Path) : Bool := pre.isPrefixOf s
def hasSuffix (s suf : Path) : Bool := suf.isSuffixOf s
def trimSuffix (s suf : Path) : Path := if hasSuffix s suf then s.take (s.length - suf.length) else s

/-- One element of `filepath.Clean`'s loop, on the list of elements written so far.
    `rooted`: `..` at the root is dropped; otherwise leading `..` elements are kept. -/
def cleanStep (rooted : Bool) (st : List Path) (s : Path) : List Path :=
  if s = [] ∨ s = dot then st
  else if s = dotdot then
    if st = [] then (if rooted then [] else [dotdot])
    else if st.getLast? = some dotdot then st ++ [dotdot]
    else st.dropLast
  else st ++ [s]

def cleanSegs (rooted : Bool) (p : Path) : List Path := (splitSep p).foldl (cleanStep rooted) []

/-- `filepath.Clean` / `path.Clean` (POSIX). -/
def clean (p : Path) : Path :=
  if p = [] then dot
  else if isAbs p then 47 :: joinSep (cleanSegs true p)
  else
    let out := cleanSegs false p
    if out = [] then dot else joinSep out

/-- `filepath.Join(a, b)` / `path.Join(a, b)`: leading empty elements are skipped, the rest is joined
    with `/` and cleaned. -/
def join2 (a b : Path) : Path :=
  if a ≠ [] then clean (a ++ 47 :: b)
  else if b ≠ [] then clean b
  else []

/-- `filepath.Join(elems...)`. -/
def joinList : List Path → Path
  | [] => []
  | e :: es => if e = [] then joinList es else clean (joinSep (e :: es))

/-- The part of `p` up to and including the last separator. -/
def throughLastSep (p : Path) : Path := (p.reverse.dropWhile (· ≠ 47)).reverse

/-- `filepath.Dir`. -/
def dirOf (p : Path) : Path := clean (throughLastSep p)

/-- `path.Base`. -/
def baseOf (p : Path) : Path :=
  if p = [] then dot
  else
    let q := (p.reverse.dropWhile (· = 47)).reverse
    let b := (q.reverse.takeWhile (· ≠ 47)).reverse
    if b = [] then [47] else b

/-- `filepath.Abs` with the working directory as a parameter. -/
def absOf (cwd p : Path) : Path := if isAbs p then clean p else join2 cwd p

/-- The elements `filepath.Rel` iterates over, for a cleaned path (the leading separator is skipped;
    `Rel` replaces a base of `.` by the empty string before, but not the target). -/
def relElems (c : Path) : List Path :=
  match c with
  | [] => []
  | 47 :: rest => if rest = [] then [] else splitSep rest
  | _ => splitSep c

def stripCommon : List Path → List Path → List Path × List Path
  | b :: bs, t :: ts => if b = t then stripCommon bs ts else (b :: bs, t :: ts)
  | bs, ts => (bs, ts)

/-- `filepath.Rel(base, targ)`; `none` is the "can't make relative" error. -/
def relOf (basepath targpath : Path) : Option Path :=
  let base := clean basepath
  let targ := clean targpath
  if targ = base then some dot
  else
    let base' := if base = dot then [] else base
    if isAbs base' ≠ isAbs targ then none
    else
      let (br, tr) := stripCommon (relElems base') (relElems targ)
      if br.head? = some dotdot then none
      else if br ≠ [] then some (joinSep (List.replicate br.length dotdot ++ tr))
      else some (joinSep tr)

/-! ### The components -/

inductive Err where
  | tooShort   -- fstree: "key too short"
  | integrity  -- fstree: "key integrity check failed"
  | outside    -- DirStructure: "is outside of DirStructure scope"; ScanStorage: "not within storage"
  | relErr     -- DirStructure: "failed to get relative path"
  | insecure   -- unpacking: archive entry outside of the unpack dir
  | scope      -- api bridge: "violates scope"
  | statErr    -- fstree: "could not stat query root"
  | unclean    -- fstree: "key is not a clean path" (record keys only)
  | copyFailed -- unpacking: "failed to extract archive file" (the operating system refused the Mkdir / OpenFile)
  deriving Repr, DecidableEq

def Err.str : Err → String
  | .tooShort => "tooshort" | .integrity => "integrity" | .outside => "outside"
  | .relErr => "rel" | .insecure => "insecure" | .scope => "scope" | .statErr => "staterr" | .unclean => "unclean"
  | .copyFailed => "copyfailed"

/-- `fstree.buildFilePath` (fstree.go).  Record keys (`checkKeyLength`) must name something strictly
    below the base path and must be clean relative paths (the joined path is literally base + "/" + key);
    a query prefix may also resolve to the base path itself and need not be clean. -/
def buildFilePath (base key : Path) (checkKeyLength : Bool) : Except Err Path :=
  if checkKeyLength ∧ key.length < 1 then .error .tooShort
  else
    let dst := join2 base key
    if !hasPrefix dst (base ++ [47]) && (checkKeyLength || dst != base) then .error .integrity
    else if checkKeyLength && dst != base ++ 47 :: key then .error .unclean
    else .ok dst

/-- What `os.Stat` says about the query's walk prefix (`other`: an error that is not "does not exist",
    e.g. a path that leads through a file). -/
inductive StatKind where
  | dir | file | absent | other
  deriving Repr, DecidableEq

/-- The directory `fstree.Query` hands to `filepath.Walk`; `none`: no walk at all, the query is finished and empty.
    A key prefix that resolves to the database directory itself is answered without a walk when that directory
    is missing or not a directory (a walk never starts above it).  Otherwise a directory is walked itself only if
    the key prefix names it as a directory (empty prefix, trailing `/`) or if it is the base path; in all other
    cases the prefix may end within a segment and the parent directory is walked (the key prefix is applied to
    every record found, `queryMatchesKey`). -/
def queryWalkRoot (base pre : Path) (stat : Path → StatKind) : Except Err (Option Path) :=
  match buildFilePath base pre false with
  | .error e => .error e
  | .ok walkPrefix =>
    let st := stat walkPrefix
    if walkPrefix = base ∧ (st = .absent ∨ st = .file) then .ok none
    else match st with
    | .dir =>
      if pre = [] ∨ hasSuffix pre [47] = true ∨ walkPrefix = base then .ok (some walkPrefix)
      else .ok (some (dirOf walkPrefix))
    | .file | .absent => .ok (some (dirOf walkPrefix))
    | .other => .error .statErr

/-- `Query.MatchesKey`: the key (path relative to the base path) must start with the query's key prefix. -/
def queryMatchesKey (pre key : Path) : Bool := hasPrefix key pre

/-! ### The file system the query runs on, and `filepath.Walk` with the callback of `queryExecutor`

The state of the file system is an input of `Query` (it consults `os.Stat`, and the walk visits what is there).
A directory is the list of its entries, in the order `readDirNames` delivers them (sorted); the whole file
system is the directory `/`.  A file carries one bit: whether it is a well-formed, valid, permitted record that
matches the query (delivered) or not (`NewRawWrapper` fails: the walk stops with an error). -/

inductive Ents where
  | nil : Ents
  | file (name : Path) (ok : Bool) (rest : Ents) : Ents
  | dir (name : Path) (sub : Ents) (rest : Ents) : Ents
  deriving Repr

inductive FKind where
  | file (ok : Bool) | dir (e : Ents) | absent | notdir

/-- The entry `name` of a directory: `none` no such entry, `some (.inl ok)` a file, `some (.inr sub)` a directory. -/
def Ents.get : Ents → Path → Option (Bool ⊕ Ents)
  | .nil, _ => none
  | .file n ok rest, name => if n = name then some (.inl ok) else rest.get name
  | .dir n sub rest, name => if n = name then some (.inr sub) else rest.get name

/-- Follow directory entries from a directory (ENOENT / ENOTDIR as the kernel reports them). -/
def lookupSegs : Ents → List Path → FKind
  | e, [] => .dir e
  | e, s :: ss =>
    match e.get s with
    | none => .absent
    | some (.inl ok) => if ss = [] then .file ok else .notdir
    | some (.inr sub) => lookupSegs sub ss

/-- `os.Stat` / `os.Lstat` of an absolute path (the code only passes cleaned paths; no symbolic links). -/
def fsLookup (fs : Ents) (p : Path) : FKind := lookupSegs fs (resolve p)

def statKindOf (fs : Ents) (p : Path) : StatKind :=
  match fsLookup fs p with
  | .file _ => .file | .dir _ => .dir | .absent => .absent | .notdir => .other

/-- What the query does to the file system. -/
inductive Access where
  | stat (p : Path)   -- os.Stat / os.Lstat
  | list (p : Path)   -- readDirNames: the directory is opened and its entries are read
  | read (p : Path)   -- os.ReadFile
  deriving Repr, DecidableEq

def Access.path : Access → Path
  | .stat p => p | .list p => p | .read p => p

structure WalkRes where
  acc : List Access := []    -- accesses, in order
  keys : List Path := []     -- keys of the records delivered to the iterator
  stop : Bool := false       -- the callback returned an error: the walk ends
  deriving Repr, DecidableEq

/-- Directory entries have proper names (not empty, not `.` / `..`, no separator), at every level. -/
def Ents.NamesNormal : Ents → Prop
  | .nil => True
  | .file n _ rest => Normal n ∧ rest.NamesNormal
  | .dir n sub rest => Normal n ∧ sub.NamesNormal ∧ rest.NamesNormal

def WalkRes.andThen (a : WalkRes) (b : WalkRes) : WalkRes :=
  if a.stop then a else { acc := a.acc ++ b.acc, keys := a.keys ++ b.keys, stop := b.stop }

/-- The callback of `queryExecutor` on a file (after the walk's `lstat`): scope check without separator,
    `ReadFile`, `Rel`, key prefix, parsing. -/
def visitFile (base pre p : Path) (ok : Bool) : WalkRes :=
  if !hasPrefix p base then { acc := [.stat p] }
  else match relOf base p with
    | none => { acc := [.stat p, .read p], stop := true }
    | some key =>
      if !queryMatchesKey pre key then { acc := [.stat p, .read p] }
      else if !ok then { acc := [.stat p, .read p], stop := true }
      else { acc := [.stat p, .read p], keys := [key] }

/-- `filepath.walk` over the entries of the directory `dirPath`: `lstat` every entry; a file goes to the
    callback; a directory is listed first, then the callback decides (`SkipDir` if its path does not start
    with the base path), then its entries are walked. -/
def walkEnts (base pre dirPath : Path) : Ents → WalkRes
  | .nil => {}
  | .file name ok rest =>
    (visitFile base pre (join2 dirPath name) ok).andThen (walkEnts base pre dirPath rest)
  | .dir name sub rest =>
    let p := join2 dirPath name
    let here : WalkRes :=
      if hasPrefix p base then
        WalkRes.andThen { acc := [.stat p, .list p] } (walkEnts base pre p sub)
      else { acc := [.stat p, .list p] }
    here.andThen (walkEnts base pre dirPath rest)

/-- `filepath.Walk(walkRoot, callback)`. -/
def walkTop (fs : Ents) (base pre walkRoot : Path) : WalkRes :=
  match fsLookup fs walkRoot with
  | .absent => { acc := [.stat walkRoot] }                 -- the callback gets ErrNotExist: nothing is stored there
  | .notdir => { acc := [.stat walkRoot], stop := true }   -- any other error ends the walk
  | .file ok => visitFile base pre walkRoot ok
  | .dir e =>
    if hasPrefix walkRoot base then
      WalkRes.andThen { acc := [.stat walkRoot, .list walkRoot] } (walkEnts base pre walkRoot e)
    else { acc := [.stat walkRoot, .list walkRoot] }

/-- `fstree.Query` + `queryExecutor` on the file system `fs`. -/
def queryRun (fs : Ents) (base pre : Path) : Except Err WalkRes :=
  match buildFilePath base pre false with
  | .error e => .error e
  | .ok walkPrefix =>
    match queryWalkRoot base pre (statKindOf fs) with
    | .error e => .error e
    | .ok none => .ok { acc := [.stat walkPrefix] }
    | .ok (some wr) => .ok (WalkRes.andThen { acc := [.stat walkPrefix] } (walkTop fs base pre wr))

/-- The directories `DirStructure.ensure` passes to `EnsureDirectory`, in order: the root as given,
    then `filepath.Join` of the path so far with each element.  (A child registered with `ChildDir`
    has `Path = filepath.Join(parent.Path, name)`, so both branches of `ensure` touch the same paths.) -/
def ensureChain (cur : Path) : List Path → List Path
  | [] => []
  | d :: ds => let nxt := join2 cur d; nxt :: ensureChain nxt ds

/-- `DirStructure.EnsureAbsPath` on the top-level structure with `Path = root`:
    the list of directories ensured, or the error. -/
def ensureAbsPath (root dirPath : Path) : Except Err (List Path) :=
  let dirPath := clean dirPath
  if dirPath = root then .ok [root]
  else
    let slashed := if hasSuffix root [47] then root else root ++ [47]
    if !hasPrefix dirPath slashed then .error .outside
    else match relOf root dirPath with
      | none => .error .relErr
      | some rel => .ok (root :: ensureChain root (splitSep rel))

def ensureRelPath (root rel : Path) : Except Err (List Path) := ensureAbsPath root (join2 root rel)
def ensureRelDir (root : Path) (names : List Path) : Except Err (List Path) :=
  ensureAbsPath root (joinList (root :: names))

/-- Destination of one zip entry in `unpackZipArchive` (`tmpDir` is the per-archive unpack dir). -/
def unpackDst (tmpDir name : Path) : Except Err Path :=
  let dst := join2 tmpDir name
  if !hasPrefix dst (tmpDir ++ [47]) then .error .insecure else .ok dst

/-- The loop over the archive entries: destinations written so far, and the error that stopped it. -/
def unpackAll (tmpDir : Path) : List Path → List Path × Option Err
  | [] => ([], none)
  | n :: ns =>
    match unpackDst tmpDir n with
    | .error e => ([], some e)
    | .ok d => let (ds, e) := unpackAll tmpDir ns; (d :: ds, e)

/-! #### The archive as a sequence of entries, and what `copyFromZipArchive` asks of the operating system

An entry is its name (any byte string: `archive/zip` hands it over as stored) and the answer of
`file.FileInfo().IsDir()` (an input of its own: a name ending in `/` is a directory, but so is any name whose
external attributes say so).  `copyFromZipArchive(file, dstPath)` makes exactly one path-carrying call:
`os.Mkdir(dstPath, mode)` for a directory entry, `os.OpenFile(dstPath, O_WRONLY|O_CREATE|O_TRUNC, mode)`
otherwise — with the `dstPath` the loop has just validated, byte for byte (no further translation of the
name: on POSIX a backslash, a colon, a NUL, a full-width solidus … are ordinary bytes of one path element).
The loop keeps no state between entries: the verdict on an entry is a function of the unpack directory and
that entry's name alone.  Whether the operating system grants a call depends on what the earlier calls
created; that is a parameter (`os done op`), so that the statements hold for every file-system behaviour. -/

structure ZEntry where
  name : Path
  isDir : Bool
  deriving Repr, DecidableEq

inductive FsOp where
  | mkdir (p : Path)    -- os.Mkdir(p, mode)
  | create (p : Path)   -- os.OpenFile(p, O_WRONLY|O_CREATE|O_TRUNC, mode) + write
  deriving Repr, DecidableEq

def FsOp.path : FsOp → Path
  | .mkdir p => p | .create p => p

/-- `copyFromZipArchive(file, dstPath)`: the call that carries the path. -/
def copyFromZip (e : ZEntry) (dstPath : Path) : FsOp := if e.isDir then .mkdir dstPath else .create dstPath

/-- The loop of `unpackZipArchive` over `archiveReader.File`: the file-system calls made (in order, including
    a call the operating system refused) and the error that ended the loop.  `done`: calls granted so far. -/
def unpackLoop (os : List FsOp → FsOp → Bool) (tmpDir : Path) : List FsOp → List ZEntry → List FsOp × Option Err
  | done, [] => (done, none)
  | done, e :: es =>
    match unpackDst tmpDir e.name with
    | .error err => (done, some err)
    | .ok dst =>
      let op := copyFromZip e dst
      if os done op then unpackLoop os tmpDir (done ++ [op]) es
      else (done ++ [op], some .copyFailed)

/-- The operating system on an unpack directory that `EnsureAbsPath(tmpDir)` has just created (only the calls of
    this loop fill it): `mkdir` needs an existing parent directory and a free name, `O_CREATE|O_TRUNC` needs an
    existing parent directory and no directory under that name (an existing file is truncated); a path with a NUL
    byte never reaches the kernel, an element longer than NAME_MAX is refused by it. -/
def osFresh (tmpDir : Path) (done : List FsOp) (op : FsOp) : Bool :=
  let p := op.path
  let parent := dirOf p
  !p.contains 0 && (splitSep p).all (fun s => s.length ≤ 255) &&
  (parent = tmpDir || done.contains (.mkdir parent)) &&
  match op with
  | .mkdir _ => !done.any (fun o => o.path = p)
  | .create _ => !done.contains (.mkdir p)

/-- `ScanStorage`: the directory handed to `filepath.Walk`. -/
def scanRoot (storage cwd root : Path) : Except Err Path :=
  if root = [] then .ok storage
  else
    let r := absOf cwd root
    if r != storage && !hasPrefix r (storage ++ [47]) then .error .outside
    else .ok r

/-- `callAPI`: the URL path of a bridged request. -/
def bridgeURL (apiV1Path p : Path) : Except Err Path :=
  let u := join2 apiV1Path p
  if !hasPrefix u apiV1Path then .error .scope else .ok u

/-! ### `utils.DirStructure` as a stateful object: the tree of registered children

A `DirStructure` value is a node: `Path`, `Perm`, `Parent`, `Children` (a map from the *name given to
`ChildDir`* to the child).  The model keeps all nodes of one tree in a list; a handle is an index,
node 0 is the structure made by `NewDirStructure`.  `ChildDir` is the only call that changes the
tree; the `Ensure*` calls read it (`ensure` follows registered children element by element). -/

structure DNode where
  parent : Option Nat   -- `Parent` (none: the top-level structure)
  key : Path            -- the key under which `Parent.Children` holds this node (= `Dir`)
  path : Path           -- `Path`
  perm : Nat            -- `Perm`
  deriving Repr, DecidableEq

abbrev DTree := List DNode

/-- `NewDirStructure(path, perm)`. -/
def newDirStructure (path : Path) (perm : Nat) : DTree := [{ parent := none, key := [], path := path, perm := perm }]

def DTree.pathOf (t : DTree) (h : Nat) : Path := match t[h]? with | some n => n.path | none => []
def DTree.permOf (t : DTree) (h : Nat) : Nat := match t[h]? with | some n => n.perm | none => 0

/-- `ds.Children[name]` for the node with handle `h`: the first node registered with this parent and key. -/
def findChildFrom (h : Nat) (name : Path) : Nat → List DNode → Option Nat
  | _, [] => none
  | i, n :: rest => if n.parent = some h ∧ n.key = name then some i else findChildFrom h name (i + 1) rest

def findChild (t : DTree) (h : Nat) (name : Path) : Option Nat := findChildFrom h name 0 t

/-- `ds.ChildDir(dirName, perm)` on handle `h`: the new tree and the handle of the child.
    An existing child (same key) gets the new permissions; a new child has
    `Path = filepath.Join(ds.Path, dirName)` and is registered under `dirName` as given. -/
def childDir (t : DTree) (h : Nat) (dirName : Path) (perm : Nat) : DTree × Nat :=
  match findChild t h dirName with
  | some c => (t.modify c (fun n => { n with perm := perm }), c)
  | none => (t ++ [{ parent := some h, key := dirName, path := join2 (t.pathOf h) dirName, perm := perm }], t.length)

/-- The remaining directories `ensure` creates once no registered child matches: all with the
    permissions of the structure where the registered tree ended. -/
def ensureChainP (perm : Nat) (cur : Path) : List Path → List (Path × Nat)
  | [] => []
  | d :: ds => let nxt := join2 cur d; (nxt, perm) :: ensureChainP perm nxt ds

/-- `ds.ensure(pathDirs)` on handle `h`: the calls `EnsureDirectory(path, perm)` in order. -/
def ensureFrom (t : DTree) : Nat → List Path → List (Path × Nat)
  | h, [] => [(t.pathOf h, t.permOf h)]
  | h, d :: ds =>
    (t.pathOf h, t.permOf h) ::
      match findChild t h d with
      | none => ensureChainP (t.permOf h) (t.pathOf h) (d :: ds)
      | some c => ensureFrom t c ds

/-- "always start at the top": follow `Parent` until there is none (fuel = number of nodes). -/
def topOf (t : DTree) : Nat → Nat → Nat
  | 0, h => h
  | f + 1, h => match t[h]? with
    | some n => (match n.parent with | some p => topOf t f p | none => h)
    | none => h

/-- `EnsureAbsPath(dirPath)` called on any node of the tree. -/
def ensureAbsPathT (t : DTree) (h : Nat) (dirPath : Path) : Except Err (List (Path × Nat)) :=
  let top := topOf t t.length h
  let root := t.pathOf top
  let dirPath := clean dirPath
  if dirPath = root then .ok (ensureFrom t top [])
  else
    let slashed := if hasSuffix root [47] then root else root ++ [47]
    if !hasPrefix dirPath slashed then .error .outside
    else match relOf root dirPath with
      | none => .error .relErr
      | some rel => .ok (ensureFrom t top (splitSep rel))

/-- `Ensure()`, `EnsureRelPath(p)`, `EnsureRelDir(names...)` on handle `h`. -/
def ensureT (t : DTree) (h : Nat) : Except Err (List (Path × Nat)) := ensureAbsPathT t h (t.pathOf h)
def ensureRelPathT (t : DTree) (h : Nat) (rel : Path) : Except Err (List (Path × Nat)) :=
  ensureAbsPathT t h (join2 (t.pathOf h) rel)
def ensureRelDirT (t : DTree) (h : Nat) (names : List Path) : Except Err (List (Path × Nat)) :=
  ensureAbsPathT t h (joinList (t.pathOf h :: names))

/-- The calls a caller can make on a tree (handles and names are arbitrary). -/
inductive DCall where
  | childDir (h : Nat) (name : Path) (perm : Nat)
  | ensure (h : Nat)
  | ensureAbs (h : Nat) (p : Path)
  | ensureRel (h : Nat) (rel : Path)
  | ensureRelDir (h : Nat) (names : List Path)

/-- One call: the tree afterwards and the directories handed to `EnsureDirectory` (none for `ChildDir`,
    none if the call is refused).  A handle that does not exist is not a call. -/
def dcall (t : DTree) : DCall → DTree × Except Err (List (Path × Nat))
  | .childDir h name perm => if h < t.length then ((childDir t h name perm).1, .ok []) else (t, .ok [])
  | .ensure h => (t, if h < t.length then ensureT t h else .ok [])
  | .ensureAbs h p => (t, if h < t.length then ensureAbsPathT t h p else .ok [])
  | .ensureRel h rel => (t, if h < t.length then ensureRelPathT t h rel else .ok [])
  | .ensureRelDir h names => (t, if h < t.length then ensureRelDirT t h names else .ok [])

/-- A history of calls: everything handed to `EnsureDirectory` along the way. -/
def dhistory (t : DTree) : List DCall → List (Path × Nat)
  | [] => []
  | c :: cs =>
    let (t', r) := dcall t c
    (match r with | .ok ds => ds | .error _ => []) ++ dhistory t' cs

/-- The tree after a history of calls. -/
def treeAfter (t : DTree) : List DCall → DTree
  | [] => t
  | c :: cs => treeAfter (dcall t c).1 cs

end PB.Paths
