import PB.Gen.Subs
/-!
# Model of the database controller's subscriptions and hooks (property C14)

Written branch by branch from `database/controller.go`, `database/subscription.go`, `database/hook.go`,
`database/interface.go` (Put / PutNew / Delete / MakeSecret / MakeCrownJewel / SetAbsoluteExpiry /
InsertValue / Get / Subscribe) and `database/record/md.go` of the repo *after* the fix commit that
makes `Subscription.Cancel` / `RegisteredHook.Cancel` match on the object itself.

Part 1 (`PB.Subs`): sequential semantics of one database (controller + storage + interfaces).
Part 2 (`PB.SubsConc`): interleaving semantics of writers / notifiers / cancels under the
`subscriptionLock` (lock-granular atomic actions), with feeds as heap objects carrying a closed flag.

Core Lean only (the driver `pbdrv-c14` links this file).
-/
namespace PB.Subs

/-! ## Records -/

/-- The part of `record.Meta` the property talks about. `expires`: 0 = never, 1 = in the past, 2 = in the future
    (the harness pins the two non-zero values far away from the wall clock). -/
structure Meta where
  secret : Bool := false
  cj : Bool := false
  deleted : Bool := false
  expires : Nat := 0
deriving DecidableEq, Repr, Inhabited

structure Rec where
  key : String
  n : Int
  s : String
  md : Meta
deriving DecidableEq, Repr, Inhabited

/-- `Meta.CheckValidity`. -/
def Meta.valid (m : Meta) : Bool := !m.deleted && m.expires != 1

/-- `Meta.CheckPermission(local, internal)` — the regenerated decision switch. -/
def permitted (loc int : Bool) (m : Meta) : Bool := PB.Gen.Subs.checkPermission loc int m.secret m.cj

/-! ## Queries, hooks -/

/-- A query as the controller uses it: `Check()` result, `MatchesKey`, `MatchesRecord`. The two match functions
    are arbitrary (every key prefix, every condition). -/
structure Query where
  bad : Bool
  keyOk : String → Bool
  recOk : Rec → Bool

/-- `Query.Matches`. -/
def Query.matches (q : Query) (r : Rec) : Bool := q.keyOk r.key && q.recOk r

/-- What a hook method returns: the record it was given (same object), an error, or another record. -/
inductive HookRes where
  | pass
  | veto (code : Nat)
  | replace (r : Rec)
deriving DecidableEq, Repr

/-- A registration (`RegisteredHook`, one entry of `c.hooks`): its own identity, its own query, and the `Hook` value
    it was made with — the declared phases and the three methods as arbitrary pure functions, and `obj`, the identity
    of that hook value. One and the same hook value may be registered any number of times (same `obj`, same methods,
    different `id`, any queries): `RegisterHook` and `RegisteredHook.Cancel` never look at it. -/
structure Hook where
  id : Nat
  q : Query
  usesPreGet : Bool
  usesPostGet : Bool
  usesPrePut : Bool
  preGet : String → Option Nat
  postGet : Rec → HookRes
  prePut : Rec → HookRes
  /-- identity of the hook value (`RegisteredHook.h`) -/
  obj : Nat := 0

inductive Phase where
  | preGet | postGet | prePut
deriving DecidableEq, Repr

/-- One observed hook call: which hook, which phase, the argument (key, and record for the record phases), the result. -/
structure Call where
  hook : Nat
  phase : Phase
  key : String
  arg : Option Rec
  res : HookRes
deriving DecidableEq, Repr

/-- `runPreGetHooks`: in registration order; skip hooks that do not use the phase or whose query does not match
    the key; stop at the first error. -/
def runPreGet : List Hook → String → List Call × Option Nat
  | [], _ => ([], none)
  | h :: hs, key =>
    if h.usesPreGet && h.q.keyOk key then
      match h.preGet key with
      | some c => ([⟨h.id, .preGet, key, none, .veto c⟩], some c)
      | none =>
        let (cs, r) := runPreGet hs key
        (⟨h.id, .preGet, key, none, .pass⟩ :: cs, r)
    else runPreGet hs key

/-- `runPostGetHooks` / `runPrePutHooks` (same loop): the record is threaded through the hooks; each hook is
    matched against the *current* record. The Boolean tracks whether the current record is still the object the
    loop started with (no hook replaced it) — needed for storages that hand out their own objects. -/
def runRec (ph : Phase) (uses : Hook → Bool) (f : Hook → Rec → HookRes) :
    List Hook → Rec → Bool → List Call × Except Nat (Rec × Bool)
  | [], r, same => ([], .ok (r, same))
  | h :: hs, r, same =>
    if uses h && h.q.matches r then
      match f h r with
      | .veto c => ([⟨h.id, ph, r.key, some r, .veto c⟩], .error c)
      | .pass =>
        let (cs, res) := runRec ph uses f hs r same
        (⟨h.id, ph, r.key, some r, .pass⟩ :: cs, res)
      | .replace r' =>
        let (cs, res) := runRec ph uses f hs r' false
        (⟨h.id, ph, r.key, some r, .replace r'⟩ :: cs, res)
    else runRec ph uses f hs r same

def runPostGet (hs : List Hook) (r : Rec) := runRec .postGet (·.usesPostGet) (·.postGet) hs r true
def runPrePut (hs : List Hook) (r : Rec) := runRec .prePut (·.usesPrePut) (·.prePut) hs r true

/-! ## Interfaces, configuration -/

/-- `database.Options` as far as they matter here; `delayed` = read cache with `DelayCachedWrites` for this database. -/
structure Opts where
  loc : Bool
  int : Bool
  alwaysSecret : Bool := false
  alwaysCJ : Bool := false
  delayed : Bool := false
  /-- `AlwaysSetAbsoluteExpiry` with a time in the far future -/
  alwaysExp : Bool := false
deriving DecidableEq, Repr

def Opts.all (o : Opts) : Bool := o.loc && o.int

/-- `Options.Apply` (the time stamps it updates are not modelled): `MakeSecret`, `MakeCrownJewel`, then
    `SetAbsoluteExpiry` — which also clears the deletion mark (`m.Deleted = 0`). -/
def applyOpts (o : Opts) (r : Rec) : Rec :=
  let m := { r.md with secret := r.md.secret || o.alwaysSecret, cj := r.md.cj || o.alwaysCJ }
  { r with md := if o.alwaysExp then { m with expires := 2, deleted := false } else m }

/-- Storage kinds the harness runs: the in-memory hashmap (hands out its own record objects), bbolt (serialises),
    a harness-owned injected storage whose `Put` returns a normalised copy (like `config`'s), and the
    runtime registry with its value providers (no `Delete`; keys no provider is responsible for are unmanaged),
    and `pushonly`: an injected database built directly on `storage.InjectBase` — it keeps the base's
    `ReadOnly() == true` (accepts no Put), serves nothing, and only pushes updates through `Controller.PushUpdate`. -/
inductive Kind where
  | hashmap | bbolt | inj | reg | pushonly
deriving DecidableEq, Repr

structure Cfg where
  kind : Kind
  shadow : Bool
deriving DecidableEq, Repr

def Cfg.aliasing (c : Cfg) : Bool := c.kind == .hashmap

/-- `Controller.ReadOnly()` = the storage's answer: `storage.InjectBase`'s default is true; the `config` and `runtime`
    storages and the harness' `inj` storage override it, hashmap and bbolt say false. -/
def Cfg.readOnly (c : Cfg) : Bool := c.kind == .pushonly

/-- A value provider registered on a `runtime.Registry`: identity, the key or (ending in `/`) key prefix it was
    registered for, and — ghost — whether the registry had already been injected as a database when `Register` made
    this provider's push function. -/
structure Prov where
  id : Nat
  key : String
  injAtReg : Bool
deriving DecidableEq, Repr

/-- `isPrefixKey` of runtime/registry.go. -/
def isPrefixKey (k : String) : Bool := k.endsWith "/"

/-- `radix.Tree.LongestPrefix`: the registered entry with the longest key that is a prefix of `key`. -/
def longestPrefix (provs : List Prov) (key : String) : Option Prov :=
  provs.foldl (fun (best : Option Prov) (p : Prov) =>
    if key.startsWith p.key && (match best with | none => true | some b => b.key.length < p.key.length) then some p else best) none

/-- `Registry.getMatchingProvider`: the longest registered prefix of the key, if it is a prefix registration or
    the key itself. -/
def matchingProv (provs : List Prov) (key : String) : Option Prov :=
  match longestPrefix provs key with
  | none => none
  | some p => if !isPrefixKey p.key && p.key != key then none else some p

def managed (provs : List Prov) (key : String) : Bool := (matchingProv provs key).isSome

/-- The two checks of `Registry.Register`: a provider on a prefix of (or on) the new key, or — for a new prefix — a
    provider somewhere below it. -/
def provTaken (provs : List Prov) (k : String) : Bool :=
  (match longestPrefix provs k with
   | some p => isPrefixKey p.key || p.key == k
   | none => false) ||
  (isPrefixKey k && provs.any (fun (p : Prov) => p.key.startsWith k))

/-! ## State -/

/-- A subscription in the controller's list, together with its feed buffer. `since`/`attempts` are ghost fields:
    the number of successful writes before `Subscribe` returned, and every send attempt with its outcome. -/
structure Sub where
  id : Nat
  loc : Bool
  int : Bool
  q : Query
  buf : List Rec
  since : Nat
  attempts : List (Rec × Bool)

abbrev Store := List (String × Rec)

def sGet (s : Store) (k : String) : Option Rec := (s.find? (·.1 == k)).map (·.2)
def sErase (s : Store) (k : String) : Store := s.filter (·.1 != k)
def sPut (s : Store) (k : String) (r : Rec) : Store := sErase s k ++ [(k, r)]

structure St where
  cfg : Cfg
  store : Store := []
  wcache : Store := []
  subs : List Sub := []
  /-- cancelled subscriptions (feed closed; what is still buffered stays readable) with the number of
      successful writes at the time `Cancel` ran (ghost) -/
  closed : List (Sub × Nat) := []
  hooks : List Hook := []
  /-- ghost: the records of all successful writes / pushed updates, in order -/
  writes : List Rec := []
  /-- runtime registry: the registered value providers, in registration order -/
  provs : List Prov := []
  /-- does the controller exist? Always for the storages the database package opens itself; for a runtime registry:
      `Registry.dbController != nil`, i.e. `InjectAsDatabase` has been called -/
  injected : Bool := true

def St.storeGet (st : St) (key : String) : Option Rec :=
  match st.cfg.kind with
  | .reg => if managed st.provs key then sGet st.store key else none
  | _ => sGet st.store key

/-! ## Notification -/

/-- The condition in `notifySubscribers`: `r.Meta().CheckPermission(sub.local, sub.internal) && sub.q.Matches(r)`. -/
def Sub.visible (s : Sub) (r : Rec) : Bool := permitted s.loc s.int r.md && s.q.matches r

/-- One iteration of the loop in `notifySubscribers`: non-blocking send into the buffered feed. -/
def Sub.offer (s : Sub) (r : Rec) : Sub :=
  if s.visible r then
    if s.buf.length < PB.Gen.Subs.feedCap then
      { s with buf := s.buf ++ [r], attempts := s.attempts ++ [(r, true)] }
    else { s with attempts := s.attempts ++ [(r, false)] }
  else s

/-- The loop `for _, sub := range c.subscriptions` of `notifySubscribers`, iteration by iteration as it is written:
    test, non-blocking send (`select { case sub.Feed <- r: … default: … }`), and then — for each of the three paths an
    iteration can take — either the next subscription or the end of the loop. Which of the two is regenerated from
    the source (`PB.Gen.Subs.notify…Exits`: a `return`/`break` on that path). -/
def notifyLoop (r : Rec) : List Sub → List Sub
  | [] => []
  | s :: ss =>
    if s.visible r then
      if s.buf.length < PB.Gen.Subs.feedCap then
        { s with buf := s.buf ++ [r], attempts := s.attempts ++ [(r, true)] } ::
          (if PB.Gen.Subs.notifySentExits then ss else notifyLoop r ss)
      else
        { s with attempts := s.attempts ++ [(r, false)] } ::
          (if PB.Gen.Subs.notifyFullExits then ss else notifyLoop r ss)
    else s :: (if PB.Gen.Subs.notifySkipExits then ss else notifyLoop r ss)

/-- `notifySubscribers` (sequentially: the whole loop). Also extends the ghost list of successful writes. -/
def notify (st : St) (r : Rec) : St :=
  { st with subs := notifyLoop r st.subs, writes := st.writes ++ [r] }

/-! ## Controller and interface operations -/

inductive Err where
  | notfound | denied | readonly | notimpl | unmanaged | query
  | veto (code : Nat)
  /-- `getController` of an injected database nobody has injected yet -/
  | notinjected
  /-- `runtime.ErrInjected`, `runtime.ErrKeyTaken` -/
  | injected | taken
deriving DecidableEq, Repr

/-- Result of one operation: the hook calls it made (in order) and its result (`some r` for a successful Get). -/
structure Out where
  calls : List Call := []
  res : Except Err (Option Rec) := .ok none
  feeds : List (Nat × List Rec × Bool) := []
  /-- answer of `Interface.Exists` -/
  flag : Option Bool := none

/-- What `storage.Put` stores and returns for `r`: the injected storage of the harness returns a normalised copy
    (as `config`'s storage returns the exported option), the others the record itself. -/
def Cfg.putForm (c : Cfg) (r : Rec) : Rec :=
  match c.kind with
  | .inj => { r with s := r.s ++ "~" }
  | _ => r

/-- The storage part of `Controller.Put`: immediate delete (`storage.Delete`) or put / shadow delete
    (`storage.Put`). Returns the new storage content and the record that is handed to the subscribers. -/
def storeWrite (cfg : Cfg) (provs : List Prov) (store : Store) (r : Rec) : Except Err (Store × Rec) :=
  if !cfg.shadow && r.md.deleted then
    -- immediate delete; the registry's storage wrapper has no Delete
    if cfg.kind == .reg then .error .notimpl else .ok (sErase store r.key, r)
  else if cfg.kind == .reg && !managed provs r.key then .error .unmanaged
  else .ok (sPut store (cfg.putForm r).key (cfg.putForm r), cfg.putForm r)

/-- `Controller.Put` after the shutdown / read-only checks: pre-put hooks, storage, then `notifySubscribers` with
    the record the storage returned. -/
def ctrlPut (st : St) (r : Rec) : St × Out :=
  match runPrePut st.hooks r with
  | (cs, .error c) => (st, { calls := cs, res := .error (.veto c) })
  | (cs, .ok (r', _)) =>
    match storeWrite st.cfg st.provs st.store r' with
    | .error e => (st, { calls := cs, res := .error e })
    | .ok (store', w) => (notify { st with store := store' } w, { calls := cs })

/-- `Controller.Get`: pre-get hooks by key, storage, post-get hooks by record, validity of the result. -/
def ctrlGet (st : St) (key : String) : List Call × Except Err (Rec × Bool) :=
  match runPreGet st.hooks key with
  | (cs, some c) => (cs, .error (.veto c))
  | (cs, none) =>
    match st.storeGet key with
    | none => (cs, .error .notfound)
    | some r =>
      match runPostGet st.hooks r with
      | (cs2, .error c) => (cs ++ cs2, .error (.veto c))
      | (cs2, .ok (r', same)) =>
        if r'.md.valid then (cs ++ cs2, .ok (r', same)) else (cs ++ cs2, .error .notfound)

/-- `Interface.getRecord` without cache: `Controller.Get`, then the interface's permission check. -/
def ifaceGetRec (st : St) (o : Opts) (key : String) : List Call × Except Err (Rec × Bool) :=
  match ctrlGet st key with
  | (cs, .error e) => (cs, .error e)
  | (cs, .ok (r, same)) =>
    if permitted o.loc o.int r.md then (cs, .ok (r, same)) else (cs, .error .denied)

/-- The `getMeta` pre-check of `Interface.Put`/`PutNew` for interfaces without full permissions:
    an existing valid record the interface may not see cannot be overwritten. -/
def putDenied (st : St) (o : Opts) (key : String) : Bool :=
  if o.all then false
  else match st.storeGet key with
    | some old => old.md.valid && !permitted o.loc o.int old.md
    | none => false

/-- `PutNew` resets the metadata except the secret / crown-jewel flags (`Meta.Reset`). -/
def newForm (r : Rec) (isNew : Bool) : Rec :=
  if isNew then { r with md := { r.md with deleted := false, expires := 0 } } else r

/-- The second half of `Interface.Put`/`PutNew`: `updateCache` (delayed writes), then `Controller.Put`. -/
def putPrepared (st : St) (o : Opts) (r2 : Rec) : St × Out :=
  if o.delayed then
    if !r2.md.deleted then
      -- delayed write: into the write cache, no controller involved
      ({ st with wcache := sPut st.wcache r2.key r2 }, {})
    else
      -- a deleted record is removed from the read cache and written through; removing the cache entry
      -- evicts a pending delayed write of the same key, which `cacheEvictHandler` puts first (its error is only logged)
      match sGet st.wcache r2.key with
      | some old =>
        let (st1, o1) := ctrlPut { st with wcache := sErase st.wcache r2.key } old
        let (st2, o2) := ctrlPut st1 r2
        (st2, { o2 with calls := o1.calls ++ o2.calls })
      | none => ctrlPut st r2
  else ctrlPut st r2

/-- `Interface.Put` (`isNew = false`) / `Interface.PutNew` (`isNew = true`). -/
def ifacePut (st : St) (o : Opts) (r : Rec) (isNew : Bool) : St × Out :=
  if putDenied st o r.key then (st, { res := .error .denied })
  else putPrepared st o (applyOpts o (newForm r isNew))

/-- The in-place modifications of `Interface.Delete/MakeSecret/MakeCrownJewel/SetAbsoluteExpiry/InsertValue`. -/
inductive Mod where
  | del | mksec | mkcj
  | exp (t : Nat)
  | ins (n : Int)
  /-- `SetRelativateExpiry` with a duration ≤ 0: the metadata stays as it is (`Deleted = -0`, or no assignment at
      all), the record is put all the same -/
  | touch
deriving DecidableEq, Repr

def Mod.run (m : Mod) (o : Opts) (r : Rec) : Rec :=
  match m with
  | .del => let r := applyOpts o r; { r with md := { r.md with deleted := true } }
  | .mksec => let r := applyOpts o r; { r with md := { r.md with secret := true } }
  | .mkcj => let r := applyOpts o r; { r with md := { r.md with cj := true } }
  | .exp t => let r := applyOpts o r; { r with md := { r.md with expires := t, deleted := false } }
  | .ins n => applyOpts o { r with n := n }
  | .touch => applyOpts o r

/-- Get the record (hooks run), modify it in place, `Controller.Put` it. On a storage that hands out its own
    objects the modification is visible in the storage before the pre-put hooks run. -/
def ifaceModify (st : St) (o : Opts) (key : String) (m : Mod) : St × Out :=
  match ifaceGetRec st o key with
  | (cs, .error e) => (st, { calls := cs, res := .error e })
  | (cs, .ok (r, same)) =>
    let r' := m.run o r
    let st1 := if st.cfg.aliasing && same then { st with store := sPut st.store r.key r' } else st
    let (st2, out) := ctrlPut st1 r'
    (st2, { out with calls := cs ++ out.calls })

def ifaceGet (st : St) (o : Opts) (key : String) : Out :=
  match ifaceGetRec st o key with
  | (cs, .error e) => { calls := cs, res := .error e }
  | (cs, .ok (r, _)) => { calls := cs, res := .ok (some r) }

/-- `Interface.Exists`: a `Get` whose answer is reduced to a Boolean — not found = no, permission denied = yes
    (the record is there), any other error (a hook's veto) is handed on. The hooks run as for `Get`. -/
def ifaceExists (st : St) (o : Opts) (key : String) : Out :=
  match ifaceGetRec st o key with
  | (cs, .ok _) => { calls := cs, flag := some true }
  | (cs, .error .notfound) => { calls := cs, flag := some false }
  | (cs, .error .denied) => { calls := cs, flag := some true }
  | (cs, .error e) => { calls := cs, res := .error e }

/-- Flush of the delayed-write cache: `PutMany` → `batchPutOrDelete`; no hooks, no subscribers. -/
def flushStore (cfg : Cfg) (store : Store) : Store → Store
  | [] => store
  | (k, r) :: rest =>
    flushStore cfg (if !cfg.shadow && r.md.deleted then sErase store k else sPut store k r) rest

/-- Remove the first subscription with the given identity (the loop in `Subscription.Cancel`). -/
def removeSub (id : Nat) : List Sub → Option (Sub × List Sub)
  | [] => none
  | s :: ss =>
    if s.id == id then some (s, ss)
    else match removeSub id ss with
      | some (x, rest) => some (x, s :: rest)
      | none => none

def removeHook (id : Nat) : List Hook → List Hook
  | [] => []
  | h :: hs => if h.id == id then hs else h :: removeHook id hs

inductive Op where
  | subscribe (id : Nat) (o : Opts) (q : Query)
  | cancel (id : Nat)
  | regHook (h : Hook)
  | cancelHook (id : Nat)
  | put (o : Opts) (r : Rec) (isNew : Bool)
  | modify (o : Opts) (key : String) (m : Mod)
  | get (o : Opts) (key : String)
  | exists_ (o : Opts) (key : String)
  | push (r : Rec)
  | flush
  | putMany (o : Opts) (rs : List Rec)
  | drain
  | drainOne (id : Nat)

def step (st : St) : Op → St × Out
  | .subscribe id o q =>
    if q.bad then (st, { res := .error .query })
    else ({ st with subs := st.subs ++ [⟨id, o.loc, o.int, q, [], st.writes.length, []⟩] }, {})
  | .cancel id =>
    match removeSub id st.subs with
    | none => (st, {})
    | some (s, rest) => ({ st with subs := rest, closed := st.closed ++ [(s, st.writes.length)] }, {})
  | .regHook h =>
    if h.q.bad then (st, { res := .error .query }) else ({ st with hooks := st.hooks ++ [h] }, {})
  | .cancelHook id => ({ st with hooks := removeHook id st.hooks }, {})
  | .put o r isNew => ifacePut st o r isNew
  | .modify o key m => ifaceModify st o key m
  | .get o key => (st, ifaceGet st o key)
  | .exists_ o key => (st, ifaceExists st o key)
  | .push r => (notify st r, {})
  | .flush => ({ st with store := flushStore st.cfg st.store st.wcache, wcache := [] }, {})
  | .putMany o rs =>
    -- `Interface.PutMany` (one batch, committed): all permissions required; `Options.Apply` on every record, then the
    -- storage's batch writer — "nearly a direct database access": no hooks, no subscribers
    if !o.all then (st, { res := .error .denied })
    else ({ st with store := flushStore st.cfg st.store (rs.map (fun r => (r.key, applyOpts o r))) }, {})
  | .drain =>
    ({ st with subs := st.subs.map ({ · with buf := [] }),
               closed := st.closed.map (fun (s, u) => ({ s with buf := [] }, u)) },
     { feeds := st.subs.map (fun s => (s.id, s.buf, false)) ++ st.closed.map (fun (s, _) => (s.id, s.buf, true)) })
  | .drainOne id =>
    -- the subscriber of one subscription reads everything that is in its feed; the other feeds are left alone
    ({ st with subs := st.subs.map (fun s => if s.id == id then { s with buf := [] } else s),
               closed := st.closed.map (fun (s, u) => (if s.id == id then { s with buf := [] } else s, u)) },
     { feeds := (st.subs.filter (·.id == id)).map (fun s => (s.id, s.buf, false)) ++
                (st.closed.filter (·.1.id == id)).map (fun (s, _) => (s.id, s.buf, true)) })

/-- Run a history; returns the final state and the outputs in order. -/
def run (st : St) : List Op → St × List Out
  | [] => (st, [])
  | op :: ops =>
    let (st1, o) := step st op
    let (st2, os) := run st1 ops
    (st2, o :: os)

def St.init (cfg : Cfg) : St := { cfg := cfg }

/-! ## Databases whose storage is read-only

`step` is the interface / controller on a writable database. Every write path of `Interface` (`Put`, `PutNew`,
`PutMany`, `Delete`, `MakeSecret`, …: `getRecord` / `getMeta` with `mustBeWriteable`, or the explicit check) answers
`ErrReadOnly` before a hook runs or the storage is touched when `Controller.ReadOnly()`; reads, subscriptions and
hooks do not look at it. `Controller.PushUpdate` is the one entry that leads to `notifySubscribers` on such a
database; its guards are regenerated from the source (`PB.Gen.Subs.pushUpdateSkipsReadOnly`). -/

/-- Is a pushed update dropped by `Controller.PushUpdate`'s guards (shutdown is not modelled)? -/
def pushDropped (cfg : Cfg) : Bool := PB.Gen.Subs.pushUpdateSkipsReadOnly && cfg.readOnly

/-- One operation on a database whose storage may be read-only. -/
def dstep (st : St) : Op → St × Out
  | .push r => if pushDropped st.cfg then (st, {}) else step st (.push r)
  | .put o r isNew => if st.cfg.readOnly then (st, { res := .error .readonly }) else step st (.put o r isNew)
  | .modify o key m => if st.cfg.readOnly then (st, { res := .error .readonly }) else step st (.modify o key m)
  | .putMany o rs =>
    if st.cfg.readOnly && o.all then (st, { res := .error .readonly }) else step st (.putMany o rs)
  | op => step st op

def drun (st : St) : List Op → St × List Out
  | [] => (st, [])
  | op :: ops =>
    let (st1, o) := dstep st op
    let (st2, os) := drun st1 ops
    (st2, o :: os)

/-! ## The runtime registry in front of its database

`runtime.Registry` is an object of its own: value providers are registered on it (`Register`, which hands out a push
function per provider), it is injected as a database at most once (`InjectAsDatabase`, which makes the controller),
and only from then on the database operations (`Op`) reach a controller. The order of these calls is the caller's. -/

inductive ROp where
  /-- an operation through the database package (interfaces, subscriptions, hooks) on the registry's database -/
  | db (op : Op)
  /-- `Registry.Register(key, provider)` -/
  | register (id : Nat) (key : String)
  /-- `Registry.InjectAsDatabase(name)` -/
  | inject
  /-- a call of the push function `Register` returned for provider `id` -/
  | push (id : Nat) (r : Rec)

/-- Which controller the push function of provider `p` pushes to, as `Register` builds that function (shape
    regenerated from the source): `r.dbController` read when the function is called, or the value it had when the
    provider was registered. `true` = there is a controller. -/
def pushTarget (st : St) (p : Prov) : Bool :=
  if PB.Gen.Subs.pushReadsControllerAtPush then st.injected else p.injAtReg

def rstep (st : St) : ROp → St × Out
  | .db op =>
    if st.injected then step st op
    else
      -- `getController`: "database storage is not injected" — after the query check of `Subscribe` / `RegisterHook`
      match op with
      | .subscribe _ _ q => (st, { res := .error (if q.bad then .query else .notinjected) })
      | .regHook h => (st, { res := .error (if h.q.bad then .query else .notinjected) })
      | _ => (st, { res := .error .notinjected })
  | .register id key =>
    if provTaken st.provs key then (st, { res := .error .taken })
    else ({ st with provs := st.provs ++ [⟨id, key, st.injected⟩] }, {})
  | .inject =>
    if st.injected then (st, { res := .error .injected }) else ({ st with injected := true }, {})
  | .push id r =>
    match st.provs.find? (·.id == id) with
    | none => (st, { res := .error .notfound })
    | some p =>
      -- `if ctrl == nil { return }`, else `ctrl.PushUpdate(rec)`: whatever the record's key is — the provider's
      -- prefix is not looked at
      if pushTarget st p then (notify st r, {}) else (st, {})

def rrun (st : St) : List ROp → St × List Out
  | [] => (st, [])
  | op :: ops =>
    let (st1, o) := rstep st op
    let (st2, os) := rrun st1 ops
    (st2, o :: os)

/-- A fresh registry (`runtime.NewRegistry()`): no providers, not injected. -/
def St.initReg : St := { cfg := ⟨.reg, false⟩, injected := false }

/-- All subscriptions ever made that are still known: the listed ones (active) and the cancelled ones. -/
def St.allSubs (st : St) : List Sub := st.subs ++ st.closed.map (·.1)

end PB.Subs
