import PB.Model.Db
/-
Model of an *injected runtime database* (C03): `runtime.Registry.InjectAsDatabase` makes the registry the storage
of a database; the registry routes every key to a value provider (`runtime/registry.go`, `runtime/storage.go`,
`database/storage/injectbase.go`, `database/controller.go`).

What differs from the four storage backends, branch by branch:

* the storage (`runtime.storageWrapper` over `storage.InjectBase`) implements `Get`, `Put`, `Query` only:
  no `storage.MetaHandler` (so `Controller.GetMeta` takes its fallback branch: `storage.Get(key)`, then
  `r.Meta()`), no `Batcher` (`Controller.PutMany` answers `ErrNotImplemented`), no `Purger`
  (`Controller.Purge` answers `ErrNotImplemented`), no `Maintainer`; `MaintainRecordStates` is `return nil`;
  `Delete` is `InjectBase.Delete` = `ErrNotImplemented`, which is what an immediate delete runs into;
* `Registry.Get` asks the provider for the key and returns the record whose key matches exactly;
  `Registry.Put` hands the record to the provider's `Set` and returns what `Set` returns;
  `Registry.Query` filters what the provider lists by key prefix, `CheckValidity`, `CheckPermission`, condition.

The value provider is a parameter of the registry (user code). The model's provider is the one of the harness
(hx-c03 `logProvider`): it keeps what `Set` receives under the record's key, answers `Get` with copies of what it
keeps, and logs every `Set`. Keys are managed (inside the provider's registration prefix). Interfaces have no
cache here (the cache layer does not depend on the storage; it is modelled in `PB.Db`).
-/
namespace PB.Db.Inj
open PB.Db

/-- State of an injected database: what the provider holds, the log of records its `Set` received (in order),
    and the records handed to `notifySubscribers`. -/
structure PSt where
  prov : Store := []
  sets : List Rec := []
  notes : List Rec := []
  deriving Repr, Inhabited

/-- `Registry.Get` (through `storageWrapper.Get`): `provider.Get(key)`, then the exact key match. -/
def regGet (p : Store) (k : String) : Option Rec := p.get k

/-- `Controller.Get`: `storage.Get`, then `CheckValidity`. -/
def ctlGet (p : Store) (k : String) (now : Int) : Except Err Rec :=
  match regGet p k with
  | none => .error .notFound
  | some r => if r.md.valid now then .ok r else .error .notFound

/-- `Controller.GetMeta` on a storage that is no `storage.MetaHandler`: the fallback branch
    `r, err := c.storage.Get(key)` … `m = r.Meta()`, then `m.CheckValidity()`. -/
def ctlGetMeta (p : Store) (k : String) (now : Int) : Except Err Meta :=
  match regGet p k with
  | none => .error .notFound
  | some r =>
    let m := r.md
    if m.valid now then .ok m else .error .notFound

/-- `Controller.Put`. The controller of an injected database never shadow-deletes
    (`InjectDatabase`: `newController(registeredDB, storageInt, false)`, whatever the registration says), so a record
    marked deleted goes to `storage.Delete` (`InjectBase`: `ErrNotImplemented`); everything else to
    `storage.Put` = `Registry.Put` = `provider.Set(r)`, then `notifySubscribers`. -/
def ctlPut (st : PSt) (r : Rec) : PSt × Out :=
  if r.md.isDeleted then (st, .err .notImpl)
  else ({ prov := st.prov.put r, sets := st.sets ++ [r], notes := st.notes ++ [r] }, .ok)

/-- `Interface.getRecord` without cache. -/
def getRecord (o : Opts) (st : PSt) (k : String) (now : Int) : Except Err Rec :=
  match ctlGet st.prov k now with
  | .error e => .error e
  | .ok r => if o.hasAccess r then .ok r else .error .denied

/-- `Interface.getMeta` without cache (the permission pre-check of `Put` / `PutNew`). -/
def getMeta (o : Opts) (st : PSt) (k : String) (now : Int) : Except Err Meta :=
  match ctlGetMeta st.prov k now with
  | .error e => .error e
  | .ok m => if m.permitted o.loc o.int then .ok m else .error .denied

/-- The permission pre-check of `Interface.Put` / `PutNew`: without all permissions `getMeta` first, where
    not-found means "nothing there, go ahead". -/
def putPre (o : Opts) (st : PSt) (k : String) (now : Int) : Option Err :=
  if !o.all then
    match getMeta o st k now with
    | .error .notFound => none
    | .error e => some e
    | .ok _ => none
  else none

/-- `Interface.Put` / `PutNew`. -/
def ifPut (o : Opts) (st : PSt) (r : Rec) (now : Int) (isNew : Bool) : PSt × Out :=
  match putPre o st r.key now with
  | some e => (st, .err e)
  | none =>
    let m := if isNew then r.md.reset else r.md
    ctlPut st { r with md := o.apply m now }

/-- `Delete`, `SetAbsoluteExpiry`, `SetRelativateExpiry`, `MakeSecret`, `MakeCrownJewel`. -/
def ifModify (o : Opts) (st : PSt) (k : String) (now : Int) (f : Meta → Meta) : PSt × Out :=
  match getRecord o st k now with
  | .error e => (st, .err e)
  | .ok r => ctlPut st { r with md := f (o.apply r.md now) }

/-- `InsertValue` -/
def ifInsert (o : Opts) (st : PSt) (k attr : String) (p : Prim) (now : Int) : PSt × Out :=
  match getRecord o st k now with
  | .error e => (st, .err e)
  | .ok r =>
    match setField r.form r.fields attr p with
    | none => (st, .err .setFailed)
    | some fs => ctlPut st { r with fields := fs, md := o.apply r.md now }

/-- One interface operation on an injected database. -/
def step (o : Opts) (st : PSt) (op : Op) (now : Int) : PSt × Out :=
  match op with
  | .get k => (st, match getRecord o st k now with | .ok r => .one r | .error e => .err e)
  | .exists_ k =>
    (st, match getRecord o st k now with
         | .ok _ => .bool true
         | .error .notFound => .bool false
         | .error .denied => .bool true
         | .error e => .err e)
  | .put r => ifPut o st r now false
  | .putNew r => ifPut o st r now true
  | .delete k => ifModify o st k now (fun m => m.delete now)
  | .setAbs k t => ifModify o st k now (fun m => m.setAbsoluteExpiry t)
  | .setRel k d => ifModify o st k now (fun m => m.setRelativeExpiry d)
  | .mkSecret k => ifModify o st k now Meta.makeSecret
  | .mkCrown k => ifModify o st k now Meta.makeCrown
  | .insert k a p => ifInsert o st k a p now
  | .putMany _ => (st, if !o.all then .err .denied else .err .notImpl)
  | .query q => (st, if !q.check then .err .badQuery else .recs (registryQuery st.prov q o.loc o.int now))
  | .purge q => (st, if !q.check then .err .badQuery else .err .notImpl)
  | .maintain _ _ => (st, .ok)
  | .flush => (st, .ok)
  | .clear => (st, .ok)
  | .evict _ => (st, .ok)

/-- Run a history, collecting the outputs. -/
def run (o : Opts) : PSt → List (Op × Int) → List Out
  | _, [] => []
  | st, (op, now) :: rest =>
    let (st', out) := step o st op now
    out :: run o st' rest

end PB.Db.Inj
