import PB.Gen.Managed
/-
Model of managed execution in /repo/modules (worker.go, tasks.go, microtasks.go, events.go, error.go,
modules.go, start.go, stop.go, mgmt.go) and of the request wrapper in /repo/api/router.go, for C06.

One module with its work counters (`workerCnt`, `taskCnt`, `microTaskCnt`), the package-global microtask
counter (`microTasks`), the flags `ctrlFuncRunning`, `stopFlag`, `stopCompleted`, the module context, the
error-reporting channel and `lastReportedError`; and any number of *items* — managed executions of user
functions. Every item runs the straight-line program of its kind, one atomic step of the Go code per model
step (one atomic add, one flag write, one run of the user function, one deferred recover block, one
`checkIfStopComplete`). Items interleave arbitrarily (`step` picks the item).

The outcome of a user function is data: `ok | err | canceled | restart | panic v`. Go's `defer`/`recover`
semantics (a deferred function runs on the panic path; `recover()` in it returns the panic value and stops
the panic) are encoded in the programs — that is trusted base, and it is what the correspondence run
(isolated child processes on the real code) checks at every synchronisation point.
-/
namespace PB.Managed

/-- Classes of panic values (what the deferred function gets from `recover()`). -/
inductive PCls where
  | nil      -- `panic(nil)` as written by the caller
  | nilerr   -- *runtime.PanicNilError
  | err      -- an error value that is and wraps none of the sentinels below (also: a typed-nil error pointer,
             -- a `*ModuleError`, an error whose `Error()` panics)
  | errCanceled   -- an error `e` with `errors.Is(e, context.Canceled)`: the sentinel itself, `fmt.Errorf("…%w")`,
                  -- `errors.Join`, a type with an `Is` method
  | errRestart    -- … `errors.Is(e, ErrRestartNow)`
  | errDeadline   -- … `errors.Is(e, context.DeadlineExceeded)`
  | errCleanExit  -- … `errors.Is(e, ErrCleanExit)`
  | str      -- a string
  | rt       -- a runtime.Error (index out of range, nil dereference, division by zero, nil map)
  | strct    -- a struct value
  | other    -- anything else (int, pointer, slice)
  deriving DecidableEq, Repr, Inhabited

/-- `recover()` for a panic raised with a value of class `c`. Since Go 1.21 (the repo's go.mod says 1.21.1,
    GODEBUG panicnil=0) `panic(nil)` is turned into a `*runtime.PanicNilError`. -/
def recovered : PCls → PCls
  | .nil => .nilerr
  | c => c

/-- The sentinel errors which the code of package modules compares errors with (`errors.Is`): worker.go
    (`StartWorker`, `runServiceWorker`), tasks.go (`executeWithLocking`), start.go (`ErrCleanExit`);
    `context.DeadlineExceeded` is compared with nowhere and stands for "any other sentinel". -/
inductive Sentinel where
  | canceled | restartNow | deadline | cleanExit
  deriving DecidableEq, Repr, Inhabited

/-- `errors.Is(v, s)` for a panic value `v` that is an error. -/
def PCls.wraps : PCls → Sentinel → Bool
  | .errCanceled, .canceled => true
  | .errRestart, .restartNow => true
  | .errDeadline, .deadline => true
  | .errCleanExit, .cleanExit => true
  | _, _ => false

/-- Outcome of one run of a managed user function. -/
inductive Outcome where
  | ok
  | err        -- an ordinary error
  | canceled   -- wraps context.Canceled
  | restart    -- wraps ErrRestartNow
  | panic (v : PCls)
  deriving DecidableEq, Repr, Inhabited

def Outcome.isPanic : Outcome → Bool
  | .panic _ => true
  | _ => false

/-- `ModuleError.TaskType`. -/
inductive TType where
  | worker | task | microtask | ctrl | custom | none
  deriving DecidableEq, Repr, Inhabited

/-- `ModuleError.Severity`. -/
inductive Sev where
  | panic | error
  deriving DecidableEq, Repr, Inhabited

/-- The observable part of a `*ModuleError`. -/
structure Report where
  sev : Sev
  typ : TType
  val : PCls      -- class of `PanicValue` (`.nil`: the nil interface of a non-panic report)
  stack : Bool    -- `StackTrace` is non-empty
  deriving DecidableEq, Repr, Inhabited

/-- `Module.NewPanicError(name, taskType, panicVal)` applied to what `recover()` returned. -/
def panicReport (t : TType) (v : PCls) : Report := ⟨.panic, t, recovered v, true⟩

/-- `Module.NewErrorMessage(name, err)` (used by prepareModules / startModules / stopModules). -/
def errorReport : Report := ⟨.error, .none, .nil, true⟩

/-- `IsPanic(err)` of error.go together with the severity the error carries. -/
def Report.isPanic (r : Report) : Bool := r.sev == .panic

/-- What a blocking run variant (`RunWorker`, `Run*MicroTask`) returns. -/
inductive Ret where
  | nil
  | err
  | canceled
  | restart
  | panicErr (r : Report)
  deriving DecidableEq, Repr, Inhabited

def Ret.isNil : Ret → Bool
  | .nil => true
  | _ => false

/-- A `*ModuleError` takes part in `errors.Is` / `errors.As` chains only through methods `Unwrap`, `Is`, `As`;
    error.go declares none of them (regenerated from the source on every run). With one of them declared the
    model lets the comparison look through the panic error at the panic value. -/
def panicErrOpaque : Bool := PB.Gen.Managed.moduleErrorChainMethods.isEmpty

/-- `errors.Is(err, s)` for what `runWorker` returned. -/
def Ret.is (r : Ret) (s : Sentinel) : Bool :=
  match r with
  | .nil => false
  | .err => false
  | .canceled => s == .canceled
  | .restart => s == .restartNow
  | .panicErr rp => !panicErrOpaque && rp.val.wraps s

/-- What the service-worker loop does after a run. -/
inductive SvcAct where
  | finished     -- `return`
  | restartNow   -- continue with the loop
  | backoff      -- failCnt++, select { time.After(sleepFor) | m.Ctx.Done() }
  deriving DecidableEq, Repr, Inhabited

/-- A case condition of the switch in `runServiceWorker`, as written in the source. -/
def svcCond (c : String) (r : Ret) : Bool :=
  if c == "err == nil" then r.isNil
  else if c == "errors.Is(err, context.Canceled)" then r.is .canceled
  else if c == "errors.Is(err, ErrRestartNow)" then r.is .restartNow
  else if c == "errors.Is(err, context.DeadlineExceeded)" then r.is .deadline
  else c == "default"

def svcActOf (a : String) : SvcAct :=
  if a == "return" then .finished else if a == "loop" then .restartNow else .backoff

/-- A tagless Go `switch`: the first case whose condition holds. -/
def svcDecideIn : List (String × String) → Ret → SvcAct
  | [], _ => .restartNow      -- no case applies: the loop goes on
  | (c, a) :: rest, r => if svcCond c r then svcActOf a else svcDecideIn rest r

/-- The decision of `runServiceWorker` (worker.go:92-116) as a function of the error `runWorker` returned,
    over the case list regenerated from the source. -/
def svcDecide (r : Ret) : SvcAct := svcDecideIn PB.Gen.Managed.svcSwitch r

/-- What arrives on the `ctrlFnError` channel of `startCtrlFn`. -/
inductive CtrlRet where
  | nil
  | err            -- the routine's own error
  | panicMsg       -- fmt.Errorf("panic: %s", panicVal)
  deriving DecidableEq, Repr, Inhabited

def CtrlRet.isErr : CtrlRet → Bool
  | .nil => false
  | _ => true

/-- Kinds of managed execution. -/
inductive Kind where
  | runWorker                 -- Module.RunWorker
  | startWorker               -- Module.StartWorker (goroutine around RunWorker)
  | hook                      -- runEventHook → hookingModule.RunWorker
  | api (afterWrite : Bool) (dev : Bool)  -- mainHandler.ServeHTTP: RunWorker("http request") around handle + handler;
                              -- `dev`: the option core/devMode when the handler-level recover runs
  | svc                       -- runServiceWorker
  | task                      -- Task.runWithLocking / executeWithLocking
  | mt (blocking : Bool)      -- Run*MicroTask / Start*MicroTask (all three priorities)
  | ctrl                      -- prep / start routine through startCtrlFn
  | stop                      -- Module.stop, stopAllTasks and the stop routine through startCtrlFn
  deriving DecidableEq, Repr, Inhabited

def Kind.workerLike : Kind → Bool
  | .runWorker | .startWorker | .hook | .api _ _ => true
  | _ => false

/-- One managed execution. -/
structure Item where
  kind : Kind
  pc : Nat := 0
  outs : List Outcome := []   -- outcomes of the runs of the user function still to come (then `ok` forever)
  cur : Outcome := .ok        -- outcome of the run in progress / of the last run
  ret : Option Ret := none    -- the error returned by the blocking variant
  cret : Option CtrlRet := none -- the result of the routine as startCtrlFn will send it on ctrlFnError
  http : Nat := 0             -- status of the HTTP response (api)
  detail : Bool := false      -- the response carries the dev-mode page (panic value and stack trace)
  reps : Nat := 0             -- reports made by this item
  pans : Nat := 0             -- panics raised in this item's function
  runs : Nat := 0             -- runs of the user function started so far
  failCnt : Nat := 0          -- service worker: failCnt
  executing : Bool := false   -- Task.executing
  canceled : Bool := false    -- Task.canceled
  hasFn : Bool := true        -- control routine present (nil routines are "run" without a goroutine)
  sent : Bool := false        -- the result has been sent on ctrlFnError
  waited : Option Bool := none -- stop: how the wait of `stopAllTasks` ended (`false`: `stopComplete` was closed,
                              --   `true`: the stop timeout fired); `none`: it is still waiting
  sawSent : Bool := false     -- stop: the stop routine's result was on `stopFnError` when the stopper fetched it
  passErr : CtrlRet := .nil   -- stop: the `err` that `stopAllTasks` puts into its report to the pass
  deriving Repr, Inhabited

/-- Effect of one atomic step on the shared state. -/
structure Eff where
  dw : Int := 0
  dt : Int := 0
  dm : Int := 0
  dg : Int := 0
  setC : Option Bool := none        -- ctrlFuncRunning.Set / UnSet
  rep : Option Report := none       -- ModuleError.Report()
  check : Bool := false             -- checkIfStopComplete()
  setStop : Bool := false           -- stopFlag.Set()
  setCtx : Bool := false            -- cancelCtx()
  clrCompleted : Bool := false      -- stopCompleted.SetTo(false) in Module.stop
  deriving Repr, Inhabited

/-- What a step of an item may read of the shared state. -/
structure Env where
  stopFlag : Bool
  ctxDone : Bool
  ctrlFree : Bool   -- no control function of this module is in flight (status machine + mgmtLock)
  deriving Repr

/-- The user function returns (or panics): the next programmed outcome becomes current. -/
def Item.take (it : Item) : Item :=
  match it.outs with
  | [] => { it with cur := .ok, runs := it.runs + 1 }
  | o :: r => { it with cur := o, outs := r, runs := it.runs + 1, pans := it.pans + (if o.isPanic then 1 else 0) }

/-- The deferred recover block of runWorker / runMicroTask: `if panicVal != nil { me := NewPanicError; me.Report(); err = me }`. -/
def recoverRet (t : TType) : Outcome → Ret × Option Report
  | .panic v =>
    if recovered v ≠ .nil then (.panicErr (panicReport t v), some (panicReport t v)) else (.nil, none)
  | .ok => (.nil, none)
  | .err => (.err, none)
  | .canceled => (.canceled, none)
  | .restart => (.restart, none)

/-- The deferred recover block of startCtrlFn: report, then `ctrlFnError <- fmt.Errorf("panic: %s", panicVal)`. -/
def recoverCtrl : Outcome → CtrlRet × Option Report
  | .panic v =>
    if recovered v ≠ .nil then (.panicMsg, some (panicReport .ctrl v)) else (.nil, none)
  | .ok => (.nil, none)
  | _ => (.err, none)

/-- Status answered by the API for an endpoint function that ended with outcome `o`
    (`afterWrite`: the handler had already sent status 202 and body bytes). -/
def httpStatus (afterWrite : Bool) : Outcome → Nat
  | .ok => if afterWrite then 202 else 200
  | .panic _ => if afterWrite then 202 else 500
  | _ => if afterWrite then 202 else 500

/-- Does the service-worker loop run the function again after this outcome? (The decision the code takes
    on the error `runWorker` makes of the outcome.) -/
def Outcome.restarts (o : Outcome) : Bool :=
  svcDecide (recoverRet .worker o).1 != .finished

/-! ### Programs. `ch` resolves the only nondeterministic choice (back-off timer vs. module context). -/

/-- RunWorker, StartWorker, event hooks, API requests (worker.go:40-53,119-135; router.go:108-112,285-306). -/
def workerStep (it : Item) : Option (Item × Eff) :=
  match it.pc with
  | 0 => some ({ it with pc := 1 }, { dw := 1 })                    -- atomic.AddInt32(m.workerCnt, 1)
  | 1 => some ({ it.take with pc := 2 }, {})                        -- fn(m.Ctx) returns or panics
  | 2 =>                                                            -- deferred recover
    match it.kind with
    | .api aw dev =>
      -- handler-level recover in mainHandler.handle (router.go:286-307):
      --   me := module.NewPanicError("api request", "custom", panicValue); me.Report()
      --   if devMode() { http.Error(lrw, "Internal Server Error: <value>\n\n<stack>", 500) }
      --   else { http.Error(lrw, "Internal Server Error.", 500) }
      -- handle returns nil, so runWorker's own recover sees nothing and RunWorker returns nil
      match it.cur with
      | .panic v =>
        if recovered v ≠ .nil then
          if dev then
            some ({ it with pc := 3, ret := some .nil, http := httpStatus aw it.cur, detail := true, reps := it.reps + 1 },
                  { rep := some (panicReport .custom v) })
          else
            some ({ it with pc := 3, ret := some .nil, http := httpStatus aw it.cur, detail := false, reps := it.reps + 1 },
                  { rep := some (panicReport .custom v) })
        else some ({ it with pc := 3, ret := some .nil, http := httpStatus aw .ok }, {})
      | o => some ({ it with pc := 3, ret := some .nil, http := httpStatus aw o }, {})
    | _ =>
      match recoverRet .worker it.cur with
      | (r, some rp) => some ({ it with pc := 3, ret := some r, reps := it.reps + 1 }, { rep := some rp })
      | (r, none) => some ({ it with pc := 3, ret := some r }, {})
  | 3 => some ({ it with pc := 4 }, { dw := -1 })                   -- deferred atomic.AddInt32(m.workerCnt, -1)
  | 4 => some ({ it with pc := 5 }, { check := true })              -- deferred m.checkIfStopComplete()
  | _ => none

/-- runServiceWorker (worker.go:66-117). -/
def svcStep (env : Env) (it : Item) (ch : Bool) : Option (Item × Eff) :=
  match it.pc with
  | 0 => some ({ it with pc := 1 }, { dw := 1 })
  | 1 => if env.stopFlag then some ({ it with pc := 5 }, {}) else some ({ it with pc := 2 }, {})  -- m.IsStopping()
  | 2 => some ({ it.take with pc := 3 }, {})                        -- fn(m.Ctx) inside runWorker
  | 3 =>                                                            -- runWorker's recover, then the switch on `err`
    match recoverRet .worker it.cur with
    | (r, rp) =>
      let n := if rp.isSome then 1 else 0
      match svcDecide r with
      | .finished => some ({ it with pc := 5, ret := some r, reps := it.reps + n }, { rep := rp })
      | .restartNow => some ({ it with pc := 1, ret := some r, reps := it.reps + n }, { rep := rp })
      | .backoff =>
        some ({ it with pc := 4, ret := some r, reps := it.reps + n, failCnt := it.failCnt + 1 }, { rep := rp })
  | 4 =>                                                            -- select: time.After(sleepFor) | m.Ctx.Done()
    if ch then (if env.ctxDone then some ({ it with pc := 5 }, {}) else none)
    else some ({ it with pc := 1 }, {})
  | 5 => some ({ it with pc := 6 }, { dw := -1 })
  | 6 => some ({ it with pc := 7 }, { check := true })
  | _ => none

/-- Task: pc 0 queued (the handler's runWithLocking attempt), 1-6 executeWithLocking, 7 idle after a run,
    8 idle after a dropped attempt (tasks.go:276-394). -/
def taskStep (env : Env) (it : Item) : Option (Item × Eff) :=
  match it.pc with
  | 0 =>
    if it.executing || it.canceled || env.stopFlag || env.ctxDone then some ({ it with pc := 8 }, {})
    else some ({ it with pc := 1, executing := true }, {})          -- t.executing = true under t.lock
  | 1 => some ({ it with pc := 2 }, { dt := 1 })                    -- atomic.AddInt32(t.module.taskCnt, 1)
  | 2 => some ({ it.take with pc := 3 }, {})                        -- t.taskFn(t.ctx, t)
  | 3 =>                                                            -- deferred recover: report (nothing is returned)
    match recoverRet .task it.cur with
    | (_, some rp) => some ({ it with pc := 4, reps := it.reps + 1 }, { rep := some rp })
    | (_, none) => some ({ it with pc := 4 }, {})
  | 4 => some ({ it with pc := 5 }, { dt := -1 })
  | 5 => some ({ it with pc := 6 }, { check := true })
  | 6 => some ({ it with pc := 7, executing := false }, {})         -- t.executing = false under t.lock
  | _ => none

/-- Run*/Start*MicroTask (microtasks.go:93-166,228-239). The global counter is raised before the task
    runs (by the caller for high priority, by the scheduler or the max-delay fallback otherwise). -/
def mtStep (it : Item) : Option (Item × Eff) :=
  match it.pc with
  | 0 => some ({ it with pc := 1 }, { dg := 1 })
  | 1 => some ({ it with pc := 2 }, { dm := 1 })
  | 2 => some ({ it.take with pc := 3 }, {})
  | 3 =>
    match recoverRet .microtask it.cur with
    | (r, some rp) => some ({ it with pc := 4, ret := some r, reps := it.reps + 1 }, { rep := some rp })
    | (r, none) => some ({ it with pc := 4, ret := some r }, {})
  | 4 => some ({ it with pc := 5 }, { dm := -1 })                   -- concludeMicroTask
  | 5 => some ({ it with pc := 6 }, { check := true })
  | 6 => some ({ it with pc := 7 }, { dg := -1 })
  | _ => none

/-- startCtrlFn for prep / start (worker.go:149-210). The result is sent on `ctrlFnError` last, after the
    flag has been cleared and `checkIfStopComplete` has run. -/
def ctrlStep (env : Env) (it : Item) : Option (Item × Eff) :=
  match it.pc with
  | 0 =>
    if !env.ctrlFree then none
    else if it.hasFn then some ({ it with pc := 1 }, { setC := some true })           -- m.ctrlFuncRunning.Set()
    else some ({ it with pc := 4, cret := some .nil }, { setC := some false })         -- fn == nil: UnSet, check, send nil
  | 1 => some ({ it.take with pc := 2 }, {})
  | 2 =>                                                            -- deferred recover: report, err = "panic: …"
    match recoverCtrl it.cur with
    | (r, some rp) => some ({ it with pc := 3, cret := some r, reps := it.reps + 1 }, { rep := some rp })
    | (r, none) => some ({ it with pc := 3, cret := some r }, {})
  | 3 => some ({ it with pc := 4 }, { setC := some false })
  | 4 => some ({ it with pc := 5 }, { check := true })
  | 5 => some ({ it with pc := 6, sent := true }, {})               -- ctrlFnError <- err
  | _ => none

/-- Module.stop + stopAllTasks (modules.go:302-400) with the stop routine through startCtrlFn. -/
def stopStep (env : Env) (it : Item) : Option (Item × Eff) :=
  match it.pc with
  | 0 => if !env.ctrlFree then none
         else some ({ it with pc := 1 }, { clrCompleted := true, setC := some true })
  | 1 => some ({ it with pc := 2 }, { setStop := true })
  | 2 => some ({ it with pc := 3 }, { setCtx := true })
  | 3 => if it.hasFn then some ({ it with pc := 4 }, { setC := some true })
         else some ({ it with pc := 7, cret := some .nil }, { setC := some false })       -- fn == nil: UnSet, check, send nil
  | 4 => some ({ it.take with pc := 5 }, {})
  | 5 =>
    match recoverCtrl it.cur with
    | (r, some rp) => some ({ it with pc := 6, cret := some r, reps := it.reps + 1 }, { rep := some rp })
    | (r, none) => some ({ it with pc := 6, cret := some r }, {})
  | 6 => some ({ it with pc := 7 }, { setC := some false })
  | 7 => some ({ it with pc := 8 }, { check := true })
  | 8 => some ({ it with pc := 9, sent := true }, {})               -- ctrlFnError <- err (stopAllTasks receives it after stopComplete)
  | _ => none

/-! ### `stopAllTasks`: the wait and the two places where the stop routine's result is fetched (modules.go)

    var err error
    select {
    case <-m.stopComplete:                 err = <-stopFnError
    case <-time.After(moduleStopTimeout):  select { case err = <-stopFnError: default: }
    }
    … reports <- &report{module: m, err: err}

The shape of the two receives is regenerated from the source (`PB.Gen.Managed.stopFetch`): a receive written with
`:=` inside a case clause declares a new `err` there and leaves the reported one nil. -/

/-- Does the receive at this site (`"completed"` / `"timeout"`) assign to the function's own `err`? -/
def fetchAssigns (site : String) : Bool :=
  PB.Gen.Managed.stopFetch.any fun x => x.1 == site && x.2.2 == "="

/-- `err` of `stopAllTasks` after its wait: `sent` = the stop routine's goroutine has put its result on the (buffered)
    channel, `cret` = that result. On completion the receive blocks until the result is there (the guard of the step);
    on timeout it is taken only if it is there already. -/
def stopErr (timeout sent : Bool) (cret : Option CtrlRet) : CtrlRet :=
  if timeout then (if sent && fetchAssigns "timeout" then cret.getD .nil else .nil)
  else (if fetchAssigns "completed" then cret.getD .nil else .nil)

/-- The stopper (the goroutine of `stopAllTasks`) of this stop item is inside its wait: `startCtrlFn` has returned
    (with a routine: right after the flag was set and the routine's goroutine launched; without: after UnSet, check and
    the send of nil, which it does itself). -/
def Item.stopperWaiting (it : Item) : Bool :=
  it.kind == .stop && it.waited.isNone && (if it.hasFn then 4 ≤ it.pc else it.pc == 9)

def itemStep (env : Env) (it : Item) (ch : Bool) : Option (Item × Eff) :=
  match it.kind with
  | .runWorker | .startWorker | .hook | .api _ _ => workerStep it
  | .svc => svcStep env it ch
  | .task => taskStep env it
  | .mt _ => mtStep it
  | .ctrl => ctrlStep env it
  | .stop => stopStep env it

/-- pc at which the item has finished (for a task: is idle). -/
def Item.done (it : Item) : Bool :=
  match it.kind with
  | .runWorker | .startWorker | .hook | .api _ _ => it.pc == 5
  | .svc => it.pc == 7
  | .task => it.pc == 7 || it.pc == 8
  | .mt _ => it.pc == 7
  | .ctrl => it.pc == 6
  | .stop => it.pc == 9

/-- pc at which the item is inside its user function (held by the scenario until released). -/
def Item.inFn (it : Item) : Bool :=
  match it.kind with
  | .runWorker | .startWorker | .hook | .api _ _ => it.pc == 1
  | .svc => it.pc == 2
  | .task => it.pc == 2
  | .mt _ => it.pc == 2
  | .ctrl => it.pc == 1
  | .stop => it.pc == 4

/-! ### Contributions of an item to the shared counters -/

def Item.cw (it : Item) : Int :=
  match it.kind with
  | .runWorker | .startWorker | .hook | .api _ _ => if 1 ≤ it.pc ∧ it.pc ≤ 3 then 1 else 0
  | .svc => if 1 ≤ it.pc ∧ it.pc ≤ 5 then 1 else 0
  | _ => 0

def Item.ct (it : Item) : Int :=
  match it.kind with
  | .task => if 2 ≤ it.pc ∧ it.pc ≤ 4 then 1 else 0
  | _ => 0

def Item.cm (it : Item) : Int :=
  match it.kind with
  | .mt _ => if 2 ≤ it.pc ∧ it.pc ≤ 4 then 1 else 0
  | _ => 0

def Item.cg (it : Item) : Int :=
  match it.kind with
  | .mt _ => if 1 ≤ it.pc ∧ it.pc ≤ 6 then 1 else 0
  | _ => 0

/-- 1 while the item keeps `ctrlFuncRunning` set. -/
def Item.cc (it : Item) : Int :=
  match it.kind with
  | .ctrl => if 1 ≤ it.pc ∧ it.pc ≤ 3 then 1 else 0
  | .stop => if 1 ≤ it.pc ∧ it.pc ≤ 6 then 1 else 0
  | _ => 0

/-- 1 while a `checkIfStopComplete` of this item is still to come. -/
def Item.pendingCheck (it : Item) : Int :=
  match it.kind with
  | .runWorker | .startWorker | .hook | .api _ _ => if it.pc ≤ 4 then 1 else 0
  | .svc => if it.pc ≤ 6 then 1 else 0
  | .task => if 1 ≤ it.pc ∧ it.pc ≤ 5 then 1 else 0
  | .mt _ => if it.pc ≤ 5 then 1 else 0
  | .ctrl => if it.pc ≤ 4 then 1 else 0
  | .stop => if it.pc ≤ 7 then 1 else 0

/-- 1 between the panic of the user function and the deferred recover block that reports it. -/
def Item.pendingReport (it : Item) : Nat :=
  if it.cur.isPanic then
    match it.kind with
    | .runWorker | .startWorker | .hook | .api _ _ => if it.pc = 2 then 1 else 0
    | .svc => if it.pc = 3 then 1 else 0
    | .task => if it.pc = 3 then 1 else 0
    | .mt _ => if it.pc = 3 then 1 else 0
    | .ctrl => if it.pc = 2 then 1 else 0
    | .stop => if it.pc = 5 then 1 else 0
  else 0

def sumBy (f : Item → Int) : List Item → Int
  | [] => 0
  | a :: l => f a + sumBy f l

def sumNat (f : Item → Nat) : List Item → Nat
  | [] => 0
  | a :: l => f a + sumNat f l

/-! ### Shared state and the interleaving semantics -/

structure St where
  w : Int := 0             -- *m.workerCnt
  t : Int := 0             -- *m.taskCnt
  m : Int := 0             -- *m.microTaskCnt
  g : Int := 0             -- *microTasks (package global)
  c : Bool := false        -- m.ctrlFuncRunning
  stopFlag : Bool := false
  ctxDone : Bool := false  -- m.Ctx cancelled
  stopCompleted : Bool := true   -- abool.NewBool(true) in initNewModule
  chanSet : Bool := true   -- errorReportingChannel != nil (SetErrorReportingChannel was called)
  cap : Nat := 0           -- capacity of errorReportingChannel
  feed : List Report := [] -- what was delivered to errorReportingChannel, in order
  taken : Nat := 0         -- how many of them the consumer has received (the others sit in the buffer)
  waiting : Nat := 0       -- consumers parked in a receive on the (empty) channel
  dropped : Nat := 0       -- reports that could not be delivered (no channel; buffer full and nobody receiving)
  last : Option Report := none -- lastReportedError
  items : List Item := []
  deriving Repr, Inhabited

/-- A send on the reporting channel can proceed at once: a consumer is parked in a receive, or the buffer has room. -/
def St.canSend (s : St) : Bool := s.chanSet && (0 < s.waiting || s.feed.length < s.taken + s.cap)

/-- `ModuleError.Report()` (error.go:98-119), under `reportingLock`: remember as last; if a channel is set,
    `select { case errorReportingChannel <- me: default: }`. -/
def St.report (s : St) (r : Report) : St :=
  if !s.chanSet then { s with last := some r, dropped := s.dropped + 1 }
  else if 0 < s.waiting then
    { s with last := some r, feed := s.feed ++ [r], taken := s.taken + 1, waiting := s.waiting - 1 }
  else if s.feed.length < s.taken + s.cap then { s with last := some r, feed := s.feed ++ [r] }
  else { s with last := some r, dropped := s.dropped + 1 }

/-- Is the send in `Report()` a plain `ch <- me`? (Regenerated from the source: it is the non-blocking select.) -/
def reportSendBlocking : Bool := PB.Gen.Managed.reportSend != "select-default"

/-- `Report()` would block the reporting goroutine (inside the deferred recover block, before the counters
    are decremented): only a blocking send, on a set channel that cannot take the report now. -/
def St.reportBlocks (s : St) : Bool := reportSendBlocking && s.chanSet && !s.canSend

/-- `checkIfStopComplete` (modules.go:263-300): evaluated and signalled under the module lock, hence one atomic step. -/
def St.check (s : St) : St :=
  if s.stopFlag && !s.c && s.w == 0 && s.t == 0 && s.m == 0 then
    (if s.stopCompleted then s else { s with stopCompleted := true })
  else s

def St.env (s : St) : Env :=
  { stopFlag := s.stopFlag, ctxDone := s.ctxDone,
    ctrlFree := decide (sumBy Item.cc s.items = 0) }

/-- Apply the effect of a step of item `i` (already replaced by `it'`). -/
def St.apply (s : St) (i : Nat) (it' : Item) (e : Eff) : St :=
  let s1 : St := { s with
    w := s.w + e.dw, t := s.t + e.dt, m := s.m + e.dm, g := s.g + e.dg,
    c := (match e.setC with | some b => b | none => s.c),
    stopFlag := s.stopFlag || e.setStop,
    ctxDone := s.ctxDone || e.setCtx,
    stopCompleted := (if e.clrCompleted then false else s.stopCompleted),
    items := s.items.set i it' }
  let s2 := match e.rep with
    | some r => s1.report r
    | none => s1
  if e.check then s2.check else s2

inductive Act where
  | item (i : Nat) (ch : Bool)    -- item i takes its next atomic step
  | recv                          -- the consumer of the error channel receives (or parks in the receive)
  | spawn (it : Item)             -- a new managed execution arrives
  | queue (i : Nat) (outs : List Outcome)  -- an idle task is queued again (Task.Queue & co.)
  | stopper (i : Nat) (timeout : Bool)     -- the wait of `stopAllTasks` of stop item `i` ends (completion / stop timeout)
                                           --   and the stop routine's result is fetched into the reported `err`
  deriving Repr

/-- A freshly arriving item starts at the beginning of its program with nothing recorded. -/
def Item.fresh (it : Item) : Bool :=
  it.pc == 0 && it.reps == 0 && it.pans == 0 && it.runs == 0 && !it.executing && it.ret.isNone && it.cret.isNone &&
    !it.sent && it.waited.isNone

def step (s : St) : Act → Option St
  | .item i ch =>
    match s.items[i]? with
    | none => none
    | some it =>
      match itemStep s.env it ch with
      | none => none
      | some (it', e) => if e.rep.isSome && s.reportBlocks then none else some (s.apply i it' e)
  | .recv =>
    if !s.chanSet then none
    else if s.taken < s.feed.length then some { s with taken := s.taken + 1 }
    else some { s with waiting := s.waiting + 1 }
  | .spawn it => if it.fresh then some { s with items := s.items ++ [it] } else none
  | .queue i outs =>
    match s.items[i]? with
    | none => none
    | some it =>
      if it.kind = .task ∧ (it.pc = 7 ∨ it.pc = 8) then
        some { s with items := s.items.set i { it with pc := 0, outs := it.outs ++ outs } }
      else none
  | .stopper i timeout =>
    match s.items[i]? with
    | none => none
    | some it =>
      -- `case <-m.stopComplete` needs the closed channel, and the receive `err = <-stopFnError` in it the result;
      -- `case <-time.After(moduleStopTimeout)` can be taken at any time
      if it.stopperWaiting = true ∧ (timeout = true ∨ (s.stopCompleted = true ∧ it.sent = true)) then
        let it' : Item := { it with waited := some timeout, sawSent := it.sent, passErr := stopErr timeout it.sent it.cret }
        some { s with items := s.items.set i it' }
      else none

def run (s : St) : List Act → Option St
  | [] => some s
  | a :: as => match step s a with
    | none => none
    | some s' => run s' as

def St.allDone (s : St) : Bool := s.items.all Item.done

/-! ### Deterministic helpers used by the scenario driver (and by the lifecycle functions below) -/

/-- Item `i` takes steps (timer choice) until it is inside its user function or finished. -/
def runHeld (fuel : Nat) (s : St) (i : Nat) : St :=
  match fuel with
  | 0 => s
  | fuel + 1 =>
    match s.items[i]? with
    | none => s
    | some it =>
      if it.inFn || it.done then s
      else match step s (.item i false) with
        | none => s
        | some s' => runHeld fuel s' i

/-- Release item `i` from its user function and let it run on until held again or finished. -/
def finishItem (s : St) (i : Nat) : St :=
  match s.items[i]? with
  | none => s
  | some it =>
    if it.inFn then
      match step s (.item i false) with
      | none => s
      | some s' => runHeld 16 s' i
    else s

/-- Run a control routine on its own module to completion: what startCtrlFn's channel delivers, and the reports. -/
def runCtrl (k : Kind) (fn : Option Outcome) : CtrlRet × List Report :=
  let it : Item := { kind := k, outs := (match fn with | some o => [o] | none => []), hasFn := fn.isSome }
  let s0 : St := { cap := 16, items := [it] }
  let s1 := runHeld 16 s0 0
  let s2 := runHeld 16 (finishItem s1 0) 0
  ((s2.items[0]?.bind (fun it => if it.sent then it.cret else none)).getD .nil, s2.feed)

/-- A module is stopped: its stop program runs to the end (the routine's result is sent), then the wait of
    `stopAllTasks` ends — by completion, or, when a piece of work of the module does not return (`linger`: a worker
    that stays inside its function), by the stop timeout — and the result is fetched. What the pass receives in the
    report, and the reports made on the error channel. -/
def runStop (fn : Option Outcome) (linger : Bool) : CtrlRet × List Report :=
  let it : Item := { kind := .stop, outs := (match fn with | some o => [o] | none => []), hasFn := fn.isSome }
  let w : Item := { kind := .startWorker }
  let n := if linger then 1 else 0
  let s0 : St := { cap := 16, items := if linger then [w, it] else [it] }
  let s0 := if linger then runHeld 16 s0 0 else s0
  let s1 := runHeld 16 s0 n
  let s2 := runHeld 16 (finishItem s1 n) n
  match step s2 (.stopper n (!s2.stopCompleted)) with
  | some s3 => ((s3.items[n]?.map (·.passErr)).getD .nil, s3.feed)
  | none => (.nil, s2.feed)

/-! ### Lifecycle passes: what Start / ManageModules / Shutdown return (start.go, stop.go, mgmt.go)

The passes receive one report per executed routine, in the order the reports arrive. -/

/-- prepareModules / startModules: the first failing report ends the pass with an error. -/
def passFirstErr : List CtrlRet → Option CtrlRet
  | [] => none
  | r :: rs => if r.isErr then some r else passFirstErr rs

/-- stopModules: every module is stopped, the last error is returned. -/
def passLastErr : List CtrlRet → Option CtrlRet
  | [] => none
  | r :: rs => match passLastErr rs with
    | some e => some e
    | none => if r.isErr then some r else none

/-- `Start()`: prep pass, then start pass. -/
def startResult (preps starts : List CtrlRet) : Option CtrlRet :=
  match passFirstErr preps with
  | some e => some e
  | none => passFirstErr starts

/-- `ManageModules()`: stop pass, then start pass; a start error wins. -/
def manageResult (stops starts : List CtrlRet) : Option CtrlRet :=
  match passFirstErr starts with
  | some e => some e
  | none => passLastErr stops

/-- `Shutdown()`. -/
def shutdownResult (stops : List CtrlRet) : Option CtrlRet := passLastErr stops

/-! ### Modules and lifecycle passes as the scenario driver runs them

Each module's routines run through `runCtrl` (the ctrl / stop programs above, on that module's own state).
Within one round every ready module is handled; a round in which a prep/start routine failed ends the pass
(prepareModules / startModules return on the first failing report), a stop pass handles every round. -/

structure Mod where
  name : String
  prep : Option Outcome      -- `none`: no routine
  start : Option Outcome
  stop : Option Outcome
  deps : List String
  status : Nat := 0          -- StatusDead 0, Preparing 1, Offline 2, Stopping 3, Starting 4, Online 5
  enabled : Bool := false
  deriving Repr, Inhabited

def statusOf (ms : List Mod) (n : String) : Nat :=
  match ms.find? (·.name == n) with
  | some m => m.status
  | none => 0

/-- Reports of one routine as the pass sees them: the routine's own panic report, then the pass's error message. -/
def routineReports (r : CtrlRet × List Report) : List Report :=
  r.2 ++ (if r.1.isErr then [errorReport] else [])

structure PassOut where
  mods : List Mod
  rets : List CtrlRet := []
  reps : List Report := []
  deriving Repr, Inhabited

/-- One round of the prep pass: every Dead module whose dependencies are prepped. -/
def prepRound (ms : List Mod) : List Mod × List CtrlRet × List Report :=
  ms.foldl (fun (acc : List Mod × List CtrlRet × List Report) m =>
    if m.status == 0 && m.deps.all (fun d => statusOf ms d ≥ 2) then
      let r := runCtrl .ctrl m.prep
      (acc.1 ++ [{ m with status := if r.1.isErr then 1 else 2 }], acc.2.1 ++ [r.1], acc.2.2 ++ routineReports r)
    else (acc.1 ++ [m], acc.2.1, acc.2.2)) ([], [], [])

def wanted (mgmt : Bool) (needed : List String) (m : Mod) : Bool :=
  !mgmt || m.enabled || needed.contains m.name

/-- One round of the start pass: every wanted Offline module whose dependencies are Online. -/
def startRound (mgmt : Bool) (needed : List String) (ms : List Mod) : List Mod × List CtrlRet × List Report :=
  ms.foldl (fun (acc : List Mod × List CtrlRet × List Report) m =>
    if wanted mgmt needed m && m.status == 2 && m.deps.all (fun d => statusOf ms d ≥ 5) then
      let r := runCtrl .ctrl m.start
      (acc.1 ++ [{ m with status := if r.1.isErr then 2 else 5 }], acc.2.1 ++ [r.1], acc.2.2 ++ routineReports r)  -- a failed start returns the module to Offline
    else (acc.1 ++ [m], acc.2.1, acc.2.2)) ([], [], [])

/-- One round of the stop pass: every Online module that is no longer wanted and has no running dependant.
    `stopOf` runs the stop program of a module (the subject module's own state is supplied by the driver). -/
def stopRound (keep : Mod → Bool) (stopOf : Mod → CtrlRet × List Report) (ms : List Mod) :
    List Mod × List CtrlRet × List Report :=
  ms.foldl (fun (acc : List Mod × List CtrlRet × List Report) m =>
    if !keep m && m.status == 5 && ms.all (fun d => !(d.deps.contains m.name) || d.status ≤ 2) then
      let r := stopOf m
      (acc.1 ++ [{ m with status := 2 }], acc.2.1 ++ [r.1], acc.2.2 ++ routineReports r)
    else (acc.1 ++ [m], acc.2.1, acc.2.2)) ([], [], [])

/-- Rounds until nothing is ready any more; `failFast` ends the pass after a round with a failure. -/
def passRounds (fuel : Nat) (failFast : Bool) (round : List Mod → List Mod × List CtrlRet × List Report)
    (acc : PassOut) : PassOut :=
  match fuel with
  | 0 => acc
  | fuel + 1 =>
    let (ms, rets, reps) := round acc.mods
    if rets.isEmpty then acc
    else
      let acc' : PassOut := { mods := ms, rets := acc.rets ++ rets, reps := acc.reps ++ reps }
      if failFast && (passFirstErr rets).isSome then acc' else passRounds fuel failFast round acc'

/-- Transitive dependencies of the enabled modules (buildEnabledTree / markDependencies). -/
def neededDeps (fuel : Nat) (ms : List Mod) (acc : List String) : List String :=
  match fuel with
  | 0 => acc
  | fuel + 1 =>
    let acc' := ms.foldl (fun a m =>
      if m.enabled || a.contains m.name then m.deps.foldl (fun a d => if a.contains d then a else a ++ [d]) a else a) acc
    neededDeps fuel ms acc'

end PB.Managed
