import PB.Bytes
/-
Executable model of the version-selection / purge / file-name logic of `updater`
(updater/resource.go, registry.go, filename.go, file.go, and the part of get.go that hands out files),
written branch by branch from the Go source (after the `fix:` commits on branch verif-c19).

Go strings are lists of byte values (`Str := List Nat`): every character the code looks at
(`/ . - _ v`, digits, `a-z`) is ASCII, so byte-level matching is exact for any UTF-8 input.
Pointers to `ResourceVersion` are modelled by the version number, which is a unique key of
`Resource.Versions` (theorem `PB.C19.reachable_inv`).  Core-only (the driver links without Mathlib).
-/
namespace PB.Updater

abbrev Str := List Nat

def isDigit (c : Nat) : Bool := 48 ≤ c && c ≤ 57
def isLower (c : Nat) : Bool := 97 ≤ c && c ≤ 122

/-! ## Version numbers (hashicorp/go-version restricted to `x[.y[.z]][-]alpha`) -/

structure Ver where
  maj : Nat
  min : Nat
  pat : Nat
  pre : Str
deriving DecidableEq, Repr, Inhabited

/-- `devVersion`, i.e. `semver.NewVersion("0")`. -/
def devVer : Ver := ⟨0, 0, 0, []⟩

/-- Go's `<` on strings (bytewise lexicographic, a proper prefix is smaller). -/
def strLt : Str → Str → Bool
  | [], [] => false
  | [], _ :: _ => true
  | _ :: _, [] => false
  | a :: as, b :: bs => if a < b then true else if b < a then false else strLt as bs

/-- go-version's pre-release comparison for equal segments: "no pre-release" is the greatest,
    two alphabetic single-part pre-releases compare as strings (`comparePart`). -/
def preLt (a b : Str) : Bool :=
  if a.isEmpty then false else if b.isEmpty then true else strLt a b

/-- `a.Compare(b) < 0`. -/
def Ver.lt (a b : Ver) : Bool :=
  if a.maj ≠ b.maj then decide (a.maj < b.maj)
  else if a.min ≠ b.min then decide (a.min < b.min)
  else if a.pat ≠ b.pat then decide (a.pat < b.pat)
  else preLt a.pre b.pre

def natDigits (n : Nat) : Str := (Nat.repr n).toList.map Char.toNat

/-- `Version.String()`: the normalised version number. -/
def Ver.str (v : Ver) : Str :=
  natDigits v.maj ++ 46 :: natDigits v.min ++ 46 :: natDigits v.pat ++
    (if v.pre.isEmpty then [] else 45 :: v.pre)

def natOfDigits (ds : Str) : Nat := ds.foldl (fun n c => n * 10 + (c - 48)) 0

/-- up to `fuel` further `.digits` groups -/
def parseSegs : Nat → Str → List Nat × Str
  | 0, s => ([], s)
  | fuel + 1, s =>
    match s with
    | 46 :: r =>
      let d := r.takeWhile isDigit
      if d.isEmpty then ([], s) else
        let (more, rest) := parseSegs fuel (r.dropWhile isDigit)
        (natOfDigits d :: more, rest)
    | _ => ([], s)

/-- `semver.NewVersion` on the modelled syntax `v?D(.D){0,2}(-?[a-z]+)?`; everything else is `none`
    (the harness sends other strings only when go-version rejects them too, or outside the model diff). -/
def parseVer (s : Str) : Option Ver :=
  let s := match s with | 118 :: r => r | _ => s
  let d0 := s.takeWhile isDigit
  if d0.isEmpty then none else
  let (more, rest) := parseSegs 2 (s.dropWhile isDigit)
  let segs := natOfDigits d0 :: more
  if segs.any (fun n => n ≥ 2 ^ 63) then none else
  let pre := match rest with | 45 :: r => r | _ => rest
  let okPre : Bool := match rest with
    | [] => true
    | _ => !pre.isEmpty && pre.all isLower
  if !okPre then none else
  some ⟨segs.getD 0 0, segs.getD 1 0, segs.getD 2 0, pre⟩

/-! ## Resource versions, flags, selection -/

structure RV where
  ver : Ver
  avail : Bool := false
  cur : Bool := false
  pre : Bool := false
  bl : Bool := false
deriving DecidableEq, Repr, Inhabited

structure Flags where
  online : Bool := false
  dev : Bool := false
  usePre : Bool := false
deriving DecidableEq, Repr, Inhabited

/-- `ResourceVersion.isSelectable`; `idx` is `Resource.Index`: `none` = nil, `some a` = AutoDownload a. -/
def selectable (fl : Flags) (idx : Option Bool) (rv : RV) : Bool :=
  if rv.bl then false
  else if rv.avail then true
  else if !fl.online then false
  else match idx with
    | none => false
    | some auto => auto

/-- insertion into a newest-first list; an element goes behind all strictly newer ones (stable). -/
def insertDesc (x : RV) : List RV → List RV
  | [] => [x]
  | y :: ys => if x.ver.lt y.ver then y :: insertDesc x ys else x :: y :: ys

/-- `sort.Sort(res)` with `Less(i,j) = Versions[i] > Versions[j]`: newest first. -/
def sortDesc : List RV → List RV
  | [] => []
  | x :: xs => insertDesc x (sortDesc xs)

/-- The cascade of `selectVersion` on the sorted list. -/
def selectFrom (fl : Flags) (idx : Option Bool) (s : List RV) : Option RV :=
  match s with
  | [] => none
  | first :: _ =>
    -- 1) dev release if dev mode is active, ignoring blacklisting
    let devPick := if fl.dev then s.find? (fun rv => rv.ver == devVer && rv.avail) else none
    -- 2) the current release, if selectable; only the first one flagged is looked at
    let curPick := match s.find? (·.cur) with
      | some rv => if selectable fl idx rv then some rv else none
      | none => none
    -- 3) with UsePreReleases: newest selectable
    let prePick := if fl.usePre then s.find? (selectable fl idx) else none
    -- 4) newest selectable stable
    let stablePick := s.find? (fun rv => !rv.pre && selectable fl idx rv)
    -- 5) newest
    devPick <|> curPick <|> prePick <|> stablePick <|> some first

/-- Files of one version on disk: 0 = the resource file, 1 = its signature, 2 = the unpacked copy. -/
abbrev FileKey := Ver × Nat

structure Res where
  versions : List RV := []
  active : Option Ver := none
  selected : Option Ver := none
  index : Option Bool := none
  disk : List FileKey := []
deriving DecidableEq, Repr, Inhabited

def Res.selectVersion (fl : Flags) (r : Res) : Res :=
  let s := sortDesc r.versions
  { r with versions := s, selected := (selectFrom fl r.index s).map (·.ver) }

/-- apply `f` to the first element satisfying `p` (the Go loops `break` after the first match) -/
def updateFirst (p : RV → Bool) (f : RV → RV) : List RV → List RV
  | [] => []
  | x :: xs => if p x then f x :: xs else x :: updateFirst p f xs

def diskAdd (k : FileKey) (d : List FileKey) : List FileKey := if d.contains k then d else d ++ [k]

/-- `Resource.AddVersion` (+ `res.Index = index` of `addResource`); when `avail` the caller has put the file on disk.
    Returns `none` for the result when the version does not parse. -/
def Res.addVersion (r : Res) (raw : Str) (avail cur pre : Bool) (idx : Option Bool) : Res × Bool :=
  let vs1 := if cur then r.versions.map (fun rv => { rv with cur := false }) else r.versions
  match parseVer raw with
  | none => ({ r with versions := vs1, index := idx }, false)
  | some v =>
    let vs2 := if vs1.any (fun rv => rv.ver == v) then vs1 else vs1 ++ [{ ver := v }]
    let vs3 := updateFirst (fun rv => rv.ver == v)
      (fun rv => { rv with avail := rv.avail || avail, cur := rv.cur || cur,
                           pre := rv.pre || pre || !v.pre.isEmpty }) vs2
    ({ r with versions := vs3, index := idx, disk := if avail then diskAdd (v, 0) r.disk else r.disk }, true)

inductive BlErr | last | notFound
deriving DecidableEq, Repr

/-- number of non-blacklisted versions, dev versions not counted -/
def validCount (vs : List RV) : Nat := (vs.filter (fun rv => !(rv.ver == devVer) && !rv.bl)).length

/-- `Resource.Blacklist(version)`; `version` is compared with the normalised version number as a string. -/
def Res.blacklist (fl : Flags) (r : Res) (version : Str) : Res × Option BlErr :=
  if validCount r.versions ≤ 1 then (r, some .last)
  else if r.versions.any (fun rv => rv.ver.str == version) then
    let vs := updateFirst (fun rv => rv.ver.str == version) (fun rv => { rv with bl := true }) r.versions
    (Res.selectVersion fl { r with versions := vs }, none)
  else (r, some .notFound)

/-- The boundary search of `Purge`: index of the first entry at which the active version (if set), the
    selected version (if set) and a stable version have all been passed. -/
def boundaryIdx (act sel : Option Ver) : Bool → Bool → Bool → Nat → List RV → Option Nat
  | _, _, _, _, [] => none
  | skA, skS, skT, i, rv :: rest =>
    if (!skA && act.isSome) || (!skS && sel.isSome) || !skT then
      boundaryIdx act sel (skA || act == some rv.ver) (skS || sel == some rv.ver) (skT || !rv.pre) (i + 1) rest
    else some i

def keepOf (keep : Int) : Nat := if keep < 2 then 2 else keep.toNat

/-- `Resource.Purge(keepExtra)`. -/
def Res.purge (r : Res) (keep : Int) : Res :=
  if r.versions.any (·.bl) then r else
  let k := keepOf keep
  let s := sortDesc r.versions
  match boundaryIdx r.active r.selected false false false 0 s with
  | none => { r with versions := s }
  | some i =>
    let b := i + k
    if b ≤ k || b ≥ s.length then { r with versions := s } else
    let gone := (s.drop b).filter (·.avail)
    { r with versions := s.take b,
             disk := r.disk.filter (fun fk => !gone.any (fun rv => rv.ver == fk.1)) }

/-! ## File names (updater/filename.go) -/

/-- `path.Split`: (directory including the final slash, file name). -/
def pathSplit : Str → Str × Str
  | [] => ([], [])
  | c :: cs =>
    match pathSplit cs with
    | ([], f) => if c = 47 then ([47], f) else ([], c :: f)
    | (d, f) => (c :: d, f)

/-- `strings.SplitN(s, ".", 2)`. -/
def splitDot : Str → Str × Option Str
  | [] => ([], none)
  | c :: cs => if c = 46 then ([], some cs) else
    let r := splitDot cs
    (c :: r.1, r.2)

/-- `strings.Replace(s, old, new, n)` for one-byte `old`/`new`. -/
def replaceN (old new : Nat) : Str → Nat → Str
  | [], _ => []
  | c :: cs, n =>
    match n with
    | 0 => c :: cs
    | m + 1 => if c = old then new :: replaceN old new cs m else c :: replaceN old new cs (m + 1)

/-- `GetVersionedPath`. -/
def getVersionedPath (identifier version : Str) : Str :=
  let (dir, file) := pathSplit identifier
  let (stem, ext) := splitDot file
  let tv := replaceN 46 45 version 2
  dir ++ stem ++ [95, 118] ++ tv ++ (match ext with | some e => 46 :: e | none => [])

/-- `[0-9]+` at the start of `s`, then `k digits rest` -/
def digitsThen (s : Str) (k : Str → Str → Option Str) : Option Str :=
  let d := s.takeWhile isDigit
  if d.isEmpty then none else k d (s.dropWhile isDigit)

/-- `-` at the start of `s`, then `k rest` -/
def dashThen (s : Str) (k : Str → Option Str) : Option Str :=
  match s with
  | 45 :: r => k r
  | _ => none

/-- the optional group `(-[a-z]+)?` after `base` (taken whenever it matches) -/
def optPre (base s : Str) : Str :=
  match s with
  | 45 :: r =>
    let a := r.takeWhile isLower
    if a.isEmpty then base else base ++ 45 :: a
  | _ => base

/-- the regular expression `_v[0-9]+-[0-9]+-[0-9]+(-[a-z]+)?` matched at the start of `s`: the matched text
    (leftmost-first semantics: every repetition is greedy, the optional group is taken when it matches). -/
def matchFileVer (s : Str) : Option Str :=
  match s with
  | 95 :: 118 :: r0 =>
    digitsThen r0 fun d1 s1 => dashThen s1 fun r1 =>
    digitsThen r1 fun d2 s2 => dashThen s2 fun r2 =>
    digitsThen r2 fun d3 s3 => some (optPre (95 :: 118 :: d1 ++ 45 :: d2 ++ 45 :: d3) s3)
  | _ => none

/-- `fileVersionRegex.FindString` with its position: (text before, match, text after). -/
def findFileVer : Str → Option (Str × Str × Str)
  | [] => none
  | c :: cs =>
    match matchFileVer (c :: cs) with
    | some m => some ([], m, (c :: cs).drop m.length)
    | none => (findFileVer cs).map (fun r => (c :: r.1, r.2.1, r.2.2))

/-- `GetIdentifierAndVersion`. -/
def getIdentifierAndVersion (versionedPath : Str) : Option (Str × Str) :=
  let (dir, file) := pathSplit versionedPath
  match findFileVer file with
  | none => none
  | some (before, raw, after) =>
    let version := replaceN 45 46 (raw.dropWhile (fun c => c = 95 || c = 118)) 2
    some (dir ++ (before ++ after), version)

/-- the regular expression `^[0-9]+\.[0-9]+\.[0-9]+(-[a-z]+)?$` -/
def matchRawVersion (s : Str) : Bool :=
  let d1 := s.takeWhile isDigit
  if d1.isEmpty then false else
  match s.dropWhile isDigit with
  | 46 :: r1 =>
    let d2 := r1.takeWhile isDigit
    if d2.isEmpty then false else
    match r1.dropWhile isDigit with
    | 46 :: r2 =>
      let d3 := r2.takeWhile isDigit
      if d3.isEmpty then false else
      match r2.dropWhile isDigit with
      | [] => true
      | 45 :: r3 => !r3.isEmpty && r3.all isLower
      | _ => false
    | _ => false
  | _ => false

/-- `filepath.Ext` of the last path element is non-empty -/
def hasExt (p : Str) : Bool := (pathSplit p).2.contains 46

/-! ## The registry: flags + resources, one step per API call -/

structure St where
  fl : Flags := {}
  res : List (Str × Res) := []
deriving DecidableEq, Repr, Inhabited

def St.get (s : St) (id : Str) : Option Res := (s.res.find? (fun p => p.1 == id)).map (·.2)

def St.set (s : St) (id : Str) (r : Res) : St :=
  if s.res.any (fun p => p.1 == id) then
    { s with res := s.res.map (fun p => if p.1 == id then (id, r) else p) }
  else { s with res := s.res ++ [(id, r)] }

def St.mapRes (s : St) (f : Res → Res) : St := { s with res := s.res.map (fun p => (p.1, f p.2)) }

inductive Op
  | setFlags (online dev usePre : Bool)
  | add (id ver : Str) (avail cur pre : Bool) (idx : Option Bool)
  | addMany (items : List (Str × Str)) (avail cur pre : Bool) (idx : Option Bool)
  | addVersion (id ver : Str) (avail cur pre : Bool)
  | touch (id ver : Str) (kind : Nat)
  | select
  | getFile (id : Str)
  | blacklist (id ver : Str)
  | purge (keep : Int)
  | selected
  | getVersion (id : Str)
deriving Repr

inductive Out
  | ok
  | errParse
  | errNotFound
  | errNotLocal
  | errLast
  | errNoVersion
  | nilSelected            -- Go dereferences a nil SelectedVersion here (panic); never produced on a reachable state with versions
  | file (ver : Ver) (path : Str)
  | version (v : Option Ver)
  | selectedMap (m : List (Str × Ver))
deriving Repr

/-- `ResourceRegistry.GetFile` up to the point where the file is handed out. -/
def Res.getFile (fl : Flags) (id : Str) (r : Res) : Res × Out :=
  let r1 := if r.selected.isNone then r.selectVersion fl else r
  match r1.selected with
  | none => (r1, .nilSelected)
  | some v =>
    match r1.versions.find? (fun rv => rv.ver == v) with
    | none => (r1, .nilSelected)
    | some rv =>
      let out := Out.file v (getVersionedPath id v.str)
      if rv.avail then ({ r1 with active := some v }, out)
      else if !fl.online then (r1, .errNotLocal)
      else ({ r1 with active := some v, disk := diskAdd (v, 0) r1.disk }, out)   -- downloaded

/-- `ResourceRegistry.addResource`: the resource is created if unknown, `res.Index = index`, then `AddVersion`. -/
def St.addResource (s : St) (id ver : Str) (avail cur pre : Bool) (idx : Option Bool) : St × Bool :=
  let r := (s.get id).getD {}
  let (r', ok) := r.addVersion ver avail cur pre idx
  (s.set id r', ok)

def step (s : St) : Op → St × Out
  | .setFlags o d p => ({ s with fl := { online := o, dev := d, usePre := p } }, .ok)
  | .add id ver avail cur pre idx =>
    let (s', ok) := s.addResource id ver avail cur pre idx
    (s', if ok then .ok else .errParse)
  -- `AddResources`: `addResource` for every (identifier, version) of the map with the same index and flags; errors are
  -- only logged (the returned "last error" depends on the map iteration order and is not observed)
  | .addMany items avail cur pre idx =>
    (items.foldl (fun s it => (s.addResource it.1 it.2 avail cur pre idx).1) s, .ok)
  -- `Resource.AddVersion` called on an existing resource (its index stays)
  | .addVersion id ver avail cur pre =>
    match s.get id with
    | none => (s, .errNotFound)
    | some r =>
      let (r', ok) := r.addVersion ver avail cur pre r.index
      (s.set id r', if ok then .ok else .errParse)
  | .touch id ver kind =>
    match s.get id, parseVer ver with
    | some r, some v =>
      if kind = 1 || (kind = 2 && hasExt (getVersionedPath id v.str)) then
        (s.set id { r with disk := diskAdd (v, kind) r.disk }, .ok)
      else (s, .errNotFound)
    | _, _ => (s, .errNotFound)
  | .select => (s.mapRes (Res.selectVersion s.fl), .ok)
  | .getFile id =>
    match s.get id with
    | none => (s, .errNotFound)
    | some r => let (r', o) := r.getFile s.fl id; (s.set id r', o)
  | .blacklist id ver =>
    match s.get id with
    | none => (s, .errNotFound)
    | some r =>
      match r.blacklist s.fl ver with
      | (r', none) => (s.set id r', .ok)
      | (r', some .last) => (s.set id r', .errLast)
      | (r', some .notFound) => (s.set id r', .errNoVersion)
  | .purge keep => (s.mapRes (fun r => r.purge keep), .ok)
  | .selected =>
    (s, .selectedMap (s.res.filterMap (fun p => p.2.selected.map (fun v => (p.1, v)))))
  | .getVersion id =>
    match s.get id with
    | none => (s, .errNotFound)
    | some r => (s, .version r.selected)

def run (s : St) (ops : List Op) : St := ops.foldl (fun s o => (step s o).1) s

end PB.Updater
