import PB.Model.SubsConc
/-!
# Interleaving model of hook runners and `RegisteredHook.Cancel` (property C14)

`runPreGetHooks` / `runPostGetHooks` / `runPrePutHooks` (database/controller.go) against `RegisterHook` and
`RegisteredHook.Cancel` (database/hook.go), one action per atomic step with respect to the controller's
`hooksLock` (a `sync.RWMutex`), for any number of concurrent runners, registrations and cancels:

* runner `g` (one execution of one of the three `run…Hooks` functions; `phaseOf g` says which):
  `RLock` + snapshot of the range expression `c.hooks` (`rLock`) · an iteration whose hook does not declare the
  phase or does not match (`rSkip`) · the call of a hook's method begins (`rCallBegin`) · it returns, with or
  without a veto (`rCallEnd`; a veto ends the loop) · `RUnlock` (`rUnlock`, deferred: after the loop) ·
  and, only where the source releases the lock before it calls the hooks (`LockCfg.callsUnderLock`,
  regenerated from the source: `RLock(); defer RUnlock()` or not), `rRelease`: the read lock is given up while
  hooks are still to be called
* `RegisterHook` of hook `h`: `Lock; append; Unlock` — one action (`reg`)
* cancel thread `x` on hook `h`: call (`xEnter`) · `Lock` (`xLock`) · search + removal (`xRemove`) · `Unlock` and
  return (`xUnlock`). With `LockCfg.cancelExclusive = false` (the source takes only the read lock) `xLock` does
  not exclude the runners.

`applies g h` abstracts "hook `h` declares runner `g`'s phase and its query matches `g`'s key / current record".

Ghost fields: `calls` — every call begin `(runner, hook)` in temporal order; `cancelReturned h` — some `Cancel`
of `h` has returned; `late` — the call begins that happened although `cancelReturned` was already set for that
hook (the violation of "a hook is no longer called once its cancel returned"); `snap`, `vetoed`, `madeAtLock`.
-/
namespace PB.HooksConc
open PB.SubsConc (upd)
open PB.Subs (Phase)

/-- How the source uses `hooksLock` (regenerated, see `PB.Gen.Subs`). -/
structure LockCfg where
  callsUnderLock : Phase → Bool
  cancelExclusive : Bool

/-- The locking of the code as it is written. -/
def LockCfg.code : LockCfg where
  callsUnderLock := fun ph =>
    match ph with
    | .preGet => PB.Gen.Subs.preGetCallsUnderLock
    | .postGet => PB.Gen.Subs.postGetCallsUnderLock
    | .prePut => PB.Gen.Subs.prePutCallsUnderLock
  cancelExclusive := PB.Gen.Subs.hookCancelWriteLocked

/-- Program counter of a runner. -/
inductive RPc where
  | idle
  | running (rem : List Nat)
  | calling (h : Nat) (rem : List Nat)
  | done
deriving DecidableEq, Repr

/-- Program counter of a `RegisteredHook.Cancel` call. -/
inductive XPc where
  | idle | entered | locked | removed | done
deriving DecidableEq, Repr

def XPc.inCS : XPc → Bool
  | .locked | .removed => true
  | _ => false

structure HSt where
  /-- `c.hooks` (identities of the `RegisteredHook` objects, in list order) -/
  hooks : List Nat := []
  /-- write lock of `hooksLock` held -/
  wl : Bool := false
  /-- runners holding the read lock -/
  rd : List Nat := []
  made : Nat → Bool := fun _ => false
  rpc : Nat → RPc := fun _ => .idle
  xpc : Nat → XPc := fun _ => .idle
  xtarget : Nat → Nat := fun _ => 0
  /-- ghost: some `Cancel` of this hook has been called -/
  cancelReq : Nat → Bool := fun _ => false
  /-- ghost: some `Cancel` of this hook has returned -/
  cancelReturned : Nat → Bool := fun _ => false
  /-- ghost: every call begin (runner, hook), in temporal order -/
  calls : List (Nat × Nat) := []
  /-- ghost: the call begins of hooks whose `Cancel` had already returned -/
  late : List (Nat × Nat) := []
  /-- ghost: the list a runner iterates over (value of `c.hooks` when it took the read lock) -/
  snap : Nat → List Nat := fun _ => []
  /-- ghost: the runner's loop was ended by a veto -/
  vetoed : Nat → Bool := fun _ => false
  /-- ghost: `madeAtLock g h` — hook `h` had been registered when runner `g` took the read lock -/
  madeAtLock : Nat → Nat → Bool := fun _ _ => false

inductive Act where
  | reg (h : Nat)
  | rLock (g : Nat)
  | rSkip (g : Nat)
  | rCallBegin (g : Nat)
  | rCallEnd (g : Nat) (veto : Bool)
  | rRelease (g : Nat)
  | rUnlock (g : Nat)
  | xEnter (x h : Nat)
  | xLock (x : Nat)
  | xRemove (x : Nat)
  | xUnlock (x : Nat)
deriving DecidableEq, Repr

/-- One atomic step; `none` = the action is not enabled in this state. -/
def step (cfg : LockCfg) (phaseOf : Nat → Phase) (applies : Nat → Nat → Bool) (st : HSt) : Act → Option HSt
  | .reg h =>
    if st.wl || !st.rd.isEmpty || st.made h then none
    else some { st with made := upd st.made h true, hooks := st.hooks ++ [h] }
  | .rLock g =>
    match st.rpc g with
    | .idle =>
      if st.wl then none
      else some { st with rpc := upd st.rpc g (.running st.hooks), rd := g :: st.rd, snap := upd st.snap g st.hooks,
                          madeAtLock := upd st.madeAtLock g st.made }
    | _ => none
  | .rSkip g =>
    match st.rpc g with
    | .running (h :: rem) => if applies g h then none else some { st with rpc := upd st.rpc g (.running rem) }
    | _ => none
  | .rCallBegin g =>
    match st.rpc g with
    | .running (h :: rem) =>
      if applies g h then
        some { st with rpc := upd st.rpc g (.calling h rem), calls := st.calls ++ [(g, h)],
                       late := if st.cancelReturned h then st.late ++ [(g, h)] else st.late }
      else none
    | _ => none
  | .rCallEnd g veto =>
    match st.rpc g with
    | .calling _ rem =>
      if veto then some { st with rpc := upd st.rpc g (.running []), vetoed := upd st.vetoed g true }
      else some { st with rpc := upd st.rpc g (.running rem) }
    | _ => none
  | .rRelease g =>
    match st.rpc g with
    | .running rem =>
      if !cfg.callsUnderLock (phaseOf g) && st.rd.contains g then
        some { st with rpc := upd st.rpc g (.running rem), rd := st.rd.erase g }
      else none
    | _ => none
  | .rUnlock g =>
    match st.rpc g with
    | .running [] => some { st with rpc := upd st.rpc g .done, rd := st.rd.erase g }
    | _ => none
  | .xEnter x h =>
    match st.xpc x with
    | .idle =>
      if st.made h then
        some { st with xpc := upd st.xpc x .entered, xtarget := upd st.xtarget x h, cancelReq := upd st.cancelReq h true }
      else none
    | _ => none
  | .xLock x =>
    match st.xpc x with
    | .entered =>
      if cfg.cancelExclusive then
        if st.wl || !st.rd.isEmpty then none else some { st with xpc := upd st.xpc x .locked, wl := true }
      else if st.wl then none else some { st with xpc := upd st.xpc x .locked }
    | _ => none
  | .xRemove x =>
    match st.xpc x with
    | .locked => some { st with hooks := st.hooks.erase (st.xtarget x), xpc := upd st.xpc x .removed }
    | _ => none
  | .xUnlock x =>
    match st.xpc x with
    | .removed =>
      some { st with xpc := upd st.xpc x .done, wl := if cfg.cancelExclusive then false else st.wl,
                     cancelReturned := upd st.cancelReturned (st.xtarget x) true }
    | _ => none

/-- Reachability from the initial state by enabled actions. -/
inductive Reach (cfg : LockCfg) (phaseOf : Nat → Phase) (applies : Nat → Nat → Bool) : HSt → Prop where
  | init : Reach cfg phaseOf applies {}
  | step {st st' : HSt} (a : Act) : Reach cfg phaseOf applies st → step cfg phaseOf applies st a = some st' →
      Reach cfg phaseOf applies st'

def runActs (cfg : LockCfg) (phaseOf : Nat → Phase) (applies : Nat → Nat → Bool) : List Act → HSt → Option HSt
  | [], st => some st
  | a :: as, st =>
    match step cfg phaseOf applies st a with
    | some st' => runActs cfg phaseOf applies as st'
    | none => none

/-- The calls runner `g` has begun so far, in order. -/
def callsOf (calls : List (Nat × Nat)) (g : Nat) : List Nat := (calls.filter (·.1 == g)).map (·.2)

/-! ## Trace acceptor (used by `pbdrv-c14`)

`hconc` header, `ch h<i> <uses> <prefix> <cond…>` hook specs (registered in this order before the threads start),
`cr <key> <n> <s> <flags>` stored records, `cg g<k> get <key>` / `cg g<k> put <key> <n> <s> <flags>` the operations of
the runner threads, then the recorded events:
`ev g<k> rlocked <ph>` · `ev g<k> callbegin h<i> <ph>` · `ev g<k> callend h<i> <ph> <pass|veto>` ·
`ev x<j> enter h<i>` · `ev x<j> locked h<i>` · `ev x<j> returned h<i>` (and `begin`/`end`/`call` lines of the harness
threads, which carry no model step). `RUnlock` of a runner and the removal + `Unlock` of a cancel have no event of
their own: the acceptor performs them when the next step of another thread needs the lock — a runner's unlock only
if the model's loop is finished (every remaining hook skipped), which is exactly what `RLock(); defer RUnlock()`
guarantees; an implementation that lets a `Cancel` into its locked section while a runner still has a hook to call
is rejected there. Runner index in the model: `3·k + phase`. -/

structure HookSpec where
  id : Nat
  usesPreGet : Bool
  usesPostGet : Bool
  usesPrePut : Bool
  vetoPreGet : Bool
  vetoPostGet : Bool
  vetoPrePut : Bool
  q : PB.Subs.Query

inductive GOp where
  | get (key : String)
  | put (r : PB.Subs.Rec)

structure HAcc where
  st : HSt := {}
  hooks : List HookSpec := []
  stored : List PB.Subs.Rec := []
  ops : List (Nat × GOp) := []
  /-- cancel threads: (thread tag number, target) — the model's cancel index is the position in this list -/
  cancs : List (Nat × Nat) := []
  dead : Bool := false

def phaseNum : Phase → Nat
  | .preGet => 0 | .postGet => 1 | .prePut => 2

def phaseOfRunner (g : Nat) : Phase :=
  if g % 3 = 0 then .preGet else if g % 3 = 1 then .postGet else .prePut

def parsePhase : String → Option Phase
  | "pg" => some .preGet | "og" => some .postGet | "pp" => some .prePut | _ => none

def HAcc.applies (a : HAcc) (g h : Nat) : Bool :=
  match a.ops.find? (·.1 == g / 3), a.hooks.find? (·.id == h) with
  | some (_, .get key), some s =>
    match phaseOfRunner g with
    | .preGet => s.usesPreGet && s.q.keyOk key
    | .postGet =>
      match a.stored.find? (·.key == key) with
      | some r => s.usesPostGet && s.q.matches r
      | none => false
    | .prePut => false
  | some (_, .put r), some s =>
    match phaseOfRunner g with
    | .prePut => s.usesPrePut && s.q.matches r
    | _ => false
  | _, _ => false

def HAcc.vetoes (a : HAcc) (g h : Nat) : Bool :=
  match a.hooks.find? (·.id == h) with
  | some s =>
    match phaseOfRunner g with
    | .preGet => s.vetoPreGet | .postGet => s.vetoPostGet | .prePut => s.vetoPrePut
  | none => false

def HAcc.act (a : HAcc) (x : Act) : Option HAcc :=
  (step LockCfg.code phaseOfRunner a.applies a.st x).map (fun s => { a with st := s })

/-- Skip the hooks that do not apply until the head of runner `g`'s remaining list is `h`
    (or, with `h = none`, until the list is empty). -/
def HAcc.skipTo (a : HAcc) (g : Nat) (h : Option Nat) : Nat → Option HAcc
  | 0 => none
  | fuel + 1 =>
    match a.st.rpc g with
    | .running [] => if h.isNone then some a else none
    | .running (j :: _) =>
      if some j == h then (if a.applies g j then some a else none)
      else if a.applies g j then none  -- the model would call j here; the implementation did not
      else match a.act (.rSkip g) with
        | some a' => a'.skipTo g h fuel
        | none => none
    | _ => none

/-- Everything that holds `hooksLock` and can let go of it does so: runners whose loop is finished unlock,
    a cancel in its locked section removes and unlocks. `none`: somebody still needs the lock (a runner with a hook
    left to call, or inside a call). -/
def HAcc.releaseAll (a : HAcc) : Option HAcc :=
  let a1 : Option HAcc := a.st.rd.foldl (fun acc g =>
    match acc with
    | none => none
    | some b =>
      match b.skipTo g none (b.st.hooks.length + 2) with
      | some b1 => b1.act (.rUnlock g)
      | none => none) (some a)
  match a1 with
  | none => none
  | some b =>
    (List.range b.cancs.length).foldl (fun acc x =>
      match acc with
      | none => none
      | some c =>
        match c.st.xpc x with
        | .locked => (c.act (.xRemove x)).bind (fun c1 => c1.act (.xUnlock x))
        | .removed => c.act (.xUnlock x)
        | _ => some c) (some b)

def fmtHooks (l : List Nat) : String := ",".intercalate (l.map (fun h => s!"h{h}"))

def parseUses (u : String) : Option (Bool × Bool × Bool × Bool × Bool × Bool) :=
  match u.toList with
  | [a, b, c] =>
    let ok := fun (x : Char) => x == '-' || x == 'p' || x == 'v'
    if ok a && ok b && ok c then some (a != '-', b != '-', c != '-', a == 'v', b == 'v', c == 'v') else none
  | _ => none

/-- One trace line. Returns the new acceptor state and `ok` / `reject <reason>`. -/
def accept (a : HAcc) (w : List String) (parseQuery : String → List String → Option PB.Subs.Query)
    (parseRec : List String → Option PB.Subs.Rec) : HAcc × String :=
  let rej (why : String) : HAcc × String := ({ a with dead := true }, "reject " ++ why)
  let fin (r : Option HAcc) (why : String) : HAcc × String :=
    match r with
    | some a' => (a', "ok")
    | none => rej why
  let tagNum := PB.SubsConc.tagNum
  if a.dead then (a, "reject earlier") else
  match w with
  | "hconc" :: _ => ({}, "ok")
  | "ch" :: hid :: uses :: pre :: toks =>
    match tagNum 'h' hid, parseUses uses, parseQuery pre toks with
    | some h, some (u1, u2, u3, v1, v2, v3), some q =>
      if q.bad then (a, "bad-op") else
      let a1 : HAcc := { a with hooks := a.hooks ++ [⟨h, u1, u2, u3, v1, v2, v3, q⟩] }
      fin (a1.act (.reg h)) "hook identity reused"
    | _, _, _ => (a, "bad-op")
  | "cr" :: rest =>
    match parseRec rest with
    | some r => ({ a with stored := a.stored ++ [r] }, "ok")
    | none => (a, "bad-op")
  | ["cg", g, "get", key] =>
    match tagNum 'g' g with
    | some k => ({ a with ops := a.ops ++ [(k, .get key)] }, "ok")
    | none => (a, "bad-op")
  | "cg" :: g :: "put" :: rest =>
    match tagNum 'g' g, parseRec rest with
    | some k, some r => ({ a with ops := a.ops ++ [(k, .put r)] }, "ok")
    | _, _ => (a, "bad-op")
  | ["ev", t, "begin"] | ["ev", t, "end", _] =>
    if (tagNum 'g' t).isSome then (a, "ok") else (a, "bad-op")
  | ["ev", t, "rlocked", ph] =>
    match tagNum 'g' t, parsePhase ph with
    | some k, some p =>
      let g := 3 * k + phaseNum p
      -- a cancel that is still in its locked section in the model has finished it in the implementation
      match (if a.st.wl then a.releaseAll else some a) with
      | some a1 => fin (a1.act (.rLock g)) "rlocked: read lock taken while a Cancel holds the write lock, or runner not at this point"
      | none => rej "rlocked: the lock cannot be free here"
    | _, _ => (a, "bad-op")
  | ["ev", t, "callbegin", hid, ph] =>
    match tagNum 'g' t, tagNum 'h' hid, parsePhase ph with
    | some k, some h, some p =>
      let g := 3 * k + phaseNum p
      match a.skipTo g (some h) (a.st.hooks.length + 2) with
      | none => rej s!"callbegin: the model does not call h{h} here (not next in list order, does not apply, not registered any more, or the runner is not in its loop)"
      | some a1 =>
        if a1.st.cancelReturned h then rej s!"callbegin: h{h} is called after its Cancel returned"
        else fin (a1.act (.rCallBegin g)) "callbegin"
    | _, _, _ => (a, "bad-op")
  | ["ev", t, "callend", hid, ph, res] =>
    match tagNum 'g' t, tagNum 'h' hid, parsePhase ph with
    | some k, some h, some p =>
      let g := 3 * k + phaseNum p
      if !(res == "pass" || res == "veto") then (a, "bad-op") else
      match a.st.rpc g with
      | .calling h' _ =>
        if h' != h then rej "callend: another hook is being called"
        else if a.vetoes g h != (res == "veto") then rej "callend: the hook's result differs from its specification"
        else fin (a.act (.rCallEnd g (res == "veto"))) "callend"
      | _ => rej "callend: no call in progress"
    | _, _, _ => (a, "bad-op")
  | ["ev", t, kind, hid] =>
    match tagNum 'x' t, tagNum 'h' hid with
    | some j, some h =>
      if kind == "call" then (a, "ok")
      else if kind == "enter" then
        if (a.cancs.find? (·.1 == j)).isSome then rej "enter: cancel thread reused" else
        let x := a.cancs.length
        fin ((a.act (.xEnter x h)).map (fun a' => { a' with cancs := a'.cancs ++ [(j, h)] })) "cancel of a hook that was never registered"
      else if kind == "locked" then
        match a.cancs.findIdx? (·.1 == j) with
        | some x =>
          -- whoever holds the lock in the model must be able to let go of it: a runner only when its loop is finished
          match a.releaseAll with
          | some a1 => fin (a1.act (.xLock x)) "locked: Cancel not at this point"
          | none => rej s!"locked: Cancel of h{h} is inside its locked section while a runner still holds the read lock (a hook call is in progress or still to come)"
        | none => rej "locked: no such cancel call"
      else if kind == "returned" then
        match a.cancs.findIdx? (·.1 == j) with
        | some x =>
          let a1 := match a.st.xpc x with
            | .locked => (a.act (.xRemove x)).bind (fun b => b.act (.xUnlock x))
            | .removed => a.act (.xUnlock x)
            | .done => some a
            | _ => none
          match a1 with
          | some b => if b.st.hooks.contains h then rej "returned: the hook is still registered" else (b, "ok")
          | none => rej "returned: Cancel returned without having held the lock"
        | none => rej "returned: no such cancel call"
      else (a, "bad-op")
    | _, _ => (a, "bad-op")
  | ["ev", _, "hang"] => rej "hang"
  | ["ev", t, "panic"] => if (tagNum 'g' t).isSome || (tagNum 'x' t).isSome then rej "panic: the model never panics" else (a, "bad-op")
  | ["obs", "hooks", n] =>
    -- the number of entries left in `c.hooks`; outstanding removals of cancels that entered their locked section
    -- are performed first
    let b := match a.releaseAll with
      | some b => b
      | none => a
    if n == toString b.st.hooks.length then (b, "ok") else rej s!"obs: model has {b.st.hooks.length} hooks ({fmtHooks b.st.hooks})"
  | _ => (a, "bad-op")

end PB.HooksConc
