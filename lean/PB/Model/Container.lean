import PB.Model.Varint
import PB.Spec.ByteQueue
/-
Model of /repo/container/container.go: the concrete representation (compartment list + offset)
with every public method written as the Go code is (after the `fix:` commits recorded for C16).
-/
namespace PB.Container
open PB PB.Varint

structure C where
  comps : List Bytes
  offset : Nat
  deriving Repr, DecidableEq

inductive Err where
  | notEnough            -- "container: not enough data to return"
  | varint (e : PB.Varint.Err)
  | json                 -- the JSON decoder's error, passed on by `UnmarshalJSON`
  deriving Repr, DecidableEq

def Err.str : Err → String
  | .notEnough => "notenough"
  | .varint e => e.str
  | .json => "json"

def new (ds : List Bytes) : C := ⟨ds, 0⟩

/-- `NewContainer` ("DEPRECATED, please use New(), it's the same thing"): written out a second time in the source. -/
def newContainer (ds : List Bytes) : C := ⟨ds, 0⟩

/-- `renewCompartments`: five fresh (nil) slots in front of the live compartments, offset 4. -/
def renew (c : C) : C := ⟨[[], [], [], [], []] ++ c.comps.drop c.offset, 4⟩

def prepend (c : C) (d : Bytes) : C :=
  let c := if c.offset < 1 then renew c else c
  ⟨c.comps.set (c.offset - 1) d, c.offset - 1⟩

def append (c : C) (d : Bytes) : C := ⟨c.comps ++ [d], c.offset⟩

def length (c : C) : Nat := ((c.comps.drop c.offset).map List.length).sum

def holdsData (c : C) : Bool := (c.comps.drop c.offset).any (fun b => b.length > 0)

def prependNumber (c : C) (n : Nat) : C := prepend c (pack64 n)
def appendNumber (c : C) (n : Nat) : C := append c (pack64 n)
/-- `PrependInt`/`AppendInt`: `uint64(n)` of a Go int. -/
def prependInt (c : C) (i : Int) : C := prepend c (pack64 (ofInt64 i))
def appendInt (c : C) (i : Int) : C := append c (pack64 (ofInt64 i))
def appendAsBlock (c : C) (d : Bytes) : C := append (appendNumber c d.length) d
def prependAsBlock (c : C) (d : Bytes) : C := prependNumber (prepend c d) d.length
def appendContainer (c d : C) : C := ⟨c.comps ++ d.comps, c.offset⟩
def appendContainerAsBlock (c d : C) : C := appendContainer (appendNumber c (length d)) d
def prependLength (c : C) : C := prepend c (pack64 (length c))

/-- `Replace` (with the stale-offset repair). -/
def replace (_c : C) (d : Bytes) : C := ⟨[d], 0⟩

def checkOffset (c : C) : C :=
  if c.offset ≥ c.comps.length then { c with offset := c.comps.length / 2 } else c

/-- The gathering loop of `Peek`: fill a buffer of capacity `cap` from the compartments in order. -/
def gather : Nat → List Bytes → Bytes
  | _, [] => []
  | cap, b :: rest => if cap ≤ b.length then b.take cap else b ++ gather (cap - b.length) rest

def peek (c : C) (n : Int) : Bytes :=
  if n ≤ 0 then [] else
  let k := n.toNat
  let rest := c.comps.drop c.offset
  let fast : Option Bytes := match rest with
    | first :: _ => if first.length ≥ k then some (first.take k) else none
    | [] => none
  match fast with
  | some b => b
  | none => gather (min k (length c)) rest

/-- The loop of `skip` over the live suffix: returns the new suffix and how many slots were consumed. -/
def skipRest : Nat → List Bytes → List Bytes × Nat
  | _, [] => ([], 0)
  | n, b :: rest =>
    if b.length ≤ n then
      if n - b.length = 0 then ([] :: rest, 1)
      else let r := skipRest (n - b.length) rest; ([] :: r.1, r.2 + 1)
    else (b.drop n :: rest, 0)

def skip (c : C) (n : Nat) : C :=
  let r := skipRest n (c.comps.drop c.offset)
  checkOffset ⟨c.comps.take c.offset ++ r.1, c.offset + r.2⟩

def get (c : C) (n : Int) : C × Except Err Bytes :=
  let buf := peek c n
  if (buf.length : Int) < n then (c, .error .notEnough) else (skip c buf.length, .ok buf)

def getAll (c : C) : C × Bytes :=
  let buf := peek c (length c)
  (skip c buf.length, buf)

def getMax (c : C) (n : Int) : C × Bytes :=
  let buf := peek c n
  (skip c buf.length, buf)

/-- The loop of `PeekContainer`: collected compartments and the length still missing. -/
def pcLoop : Nat → List Bytes → List Bytes × Nat
  | n, [] => ([], n)
  | n, b :: rest =>
    if n ≥ b.length then let r := pcLoop (n - b.length) rest; (b :: r.1, r.2)
    else let r := pcLoop 0 rest; (b.take n :: r.1, r.2)

def peekContainer (c : C) (n : Int) : Option C :=
  if n < 0 then none
  else if n = 0 then some ⟨[], 0⟩
  else
    let r := pcLoop n.toNat (c.comps.drop c.offset)
    if r.2 > 0 then none else some ⟨r.1, 0⟩

def getAsContainer (c : C) (n : Int) : C × Except Err C :=
  match peekContainer c n with
  | none => (c, .error .notEnough)
  | some nc => (skip c n.toNat, .ok nc)

/-- The loop of `WriteToSlice` over the live suffix with a destination of capacity `cap`:
    new suffix, slots consumed, bytes written (count is their length), container emptied. -/
def wtsLoop : Nat → List Bytes → List Bytes × Nat × Bytes × Bool
  | _, [] => ([], 0, [], true)
  | cap, b :: rest =>
    if cap < b.length then (b.drop cap :: rest, 0, b.take cap, false)
    else let r := wtsLoop (cap - b.length) rest; ([] :: r.1, r.2.1 + 1, b ++ r.2.2.1, r.2.2.2)

def writeToSlice (c : C) (cap : Nat) : C × Bytes × Bool :=
  let r := wtsLoop cap (c.comps.drop c.offset)
  (checkOffset ⟨c.comps.take c.offset ++ r.1, c.offset + r.2.1⟩, r.2.2.1, r.2.2.2)

def compileData (c : C) : C × Bytes :=
  if c.comps.length ≠ 1 then
    let buf := (c.comps.drop c.offset).flatten
    (⟨[buf], 0⟩, buf)
  else (c, c.comps.headD [])

def getNextN (unpack : Bytes → Except PB.Varint.Err (Nat × Nat)) (k : Int) (c : C) : C × Except Err Nat :=
  match unpack (peek c k) with
  | .error e => (c, .error (.varint e))
  | .ok (num, n) => (skip c n, .ok num)

def getNextN8 := getNextN unpack8 2
def getNextN16 := getNextN unpack16 3
def getNextN32 := getNextN unpack32 5
def getNextN64 := getNextN unpack64 10

def getNextBlock (c : C) : C × Except Err Bytes :=
  match getNextN64 c with
  | (c', .error e) => (c', .error e)
  | (c', .ok sz) =>
    if sz > length c' then (c', .error .notEnough)
    else get c' (sz : Int)   -- `int(blockSize)` is exact here: sz ≤ Length() ≤ MaxInt

def getNextBlockAsContainer (c : C) : C × Except Err C :=
  match getNextN64 c with
  | (c', .error e) => (c', .error e)
  | (c', .ok sz) =>
    if sz > length c' then (c', .error .notEnough)
    else getAsContainer c' (sz : Int)

/-! ### container/serialization.go -/

/-- `MarshalJSON`: `json.Marshal(c.CompileData())` — compiles (restructures) the container as a side effect. -/
def marshalJSON (c : C) : C × Bytes :=
  let r := compileData c
  (r.1, PB.Base64.jsonEnc r.2)

/-- `UnmarshalJSON` (with the stale-offset repair): the argument is the JSON decoder's result for the text
    (`none` = error, returned before anything is touched). -/
def unmarshalJSON (c : C) : Option Bytes → C × Except Err Unit
  | none => (c, .error .json)
  | some raw => (⟨[raw], 0⟩, .ok ())

/-- The loops of `WriteAllTo` over the live compartments, for a writer that accepts `budget` more bytes and
    then fails with a short write: bytes written, and whether `nil` was returned. An empty compartment does
    not reach `writer.Write` at all (`for written < len(...)`). -/
def wtaLoop : Nat → List Bytes → Bytes × Bool
  | _, [] => ([], true)
  | budget, b :: rest =>
    if budget < b.length then (b.take budget, false)
    else let r := wtaLoop (budget - b.length) rest; (b ++ r.1, r.2)

/-- `WriteAllTo` (does not consume or restructure). -/
def writeAllTo (c : C) (budget : Nat) : Bytes × Bool := wtaLoop budget (c.comps.drop c.offset)

/-- The bytes a container holds, in order (what `WriteAllTo` writes). -/
def C.bytes (c : C) : Bytes := (c.comps.drop c.offset).flatten

open PB.ByteQueue (Op Out)

def outBytes : C × Except Err Bytes → C × Out
  | (c, .ok b) => (c, .bytes b)
  | (c, .error e) => (c, .err e.str)

def outCont : C × Except Err C → C × Out
  | (c, .ok nc) => (c, .bytes nc.bytes)
  | (c, .error e) => (c, .err e.str)

def outNum : C × Except Err Nat → C × Out
  | (c, .ok v) => (c, .num v)
  | (c, .error e) => (c, .err e.str)

/-- One public method call on the concrete container. -/
def step (c : C) : Op → C × Out
  | .append d => (append c d, .unit)
  | .prepend d => (prepend c d, .unit)
  | .appendNumber n => (appendNumber c n, .unit)
  | .prependNumber n => (prependNumber c n, .unit)
  | .appendInt i => (appendInt c i, .unit)
  | .prependInt i => (prependInt c i, .unit)
  | .appendAsBlock d => (appendAsBlock c d, .unit)
  | .prependAsBlock d => (prependAsBlock c d, .unit)
  | .appendContainer ds => (appendContainer c (new ds), .unit)
  | .appendContainerAsBlock ds => (appendContainerAsBlock c (new ds), .unit)
  | .prependLength => (prependLength c, .unit)
  | .replace d => (replace c d, .unit)
  | .compileData => let r := compileData c; (r.1, .bytes r.2)
  | .get n => outBytes (get c n)
  | .getAll => let r := getAll c; (r.1, .bytes r.2)
  | .getAsContainer n => outCont (getAsContainer c n)
  | .getMax n => let r := getMax c n; (r.1, .bytes r.2)
  | .writeToSlice cap => let r := writeToSlice c cap; (r.1, .wts r.2.1 r.2.2)
  | .peek n => (c, .bytes (peek c n))
  | .peekContainer n => match peekContainer c n with
      | some nc => (c, .bytes nc.bytes)
      | none => (c, .nilc)
  | .getNextBlock => outBytes (getNextBlock c)
  | .getNextBlockAsContainer => outCont (getNextBlockAsContainer c)
  | .getNextN8 => outNum (getNextN8 c)
  | .getNextN16 => outNum (getNextN16 c)
  | .getNextN32 => outNum (getNextN32 c)
  | .getNextN64 => outNum (getNextN64 c)
  | .holdsData => (c, .bool (holdsData c))
  | .length => (c, .num (length c))
  | .marshalJSON => let r := marshalJSON c; (r.1, .bytes r.2)
  | .unmarshalJSON d => match unmarshalJSON c d with
      | (c', .ok _) => (c', .unit)
      | (c', .error e) => (c', .err e.str)
  | .writeAllTo budget => let r := writeAllTo c budget; (c, .wts r.1 r.2)

def run (c : C) : List Op → C × List Out
  | [] => (c, [])
  | op :: ops => let r := step c op; let r' := run r.1 ops; (r'.1, r.2 :: r'.2)

/-! ### Several containers at once: `AppendContainer(other)` / `AppendContainerAsBlock(other)` with `other` in
    whatever state its history left it (offset > 0, consumed slots, spare slots in front). As the code is
    written, ALL compartments of `other` are appended, regardless of `other.offset`. -/

open PB.ByteQueue (WOp)

def wstep (w : List C) : WOp → List C × Out
  | .newc ds => (w ++ [new ds], .unit)
  | .on i op => match w[i]? with
    | some c => let r := step c op; (w.set i r.1, r.2)
    | none => (w, .err "noslot")
  | .appendFrom i j => match w[i]?, w[j]? with
    | some c, some d => (w.set i (appendContainer c d), .unit)
    | _, _ => (w, .err "noslot")
  | .appendFromAsBlock i j => match w[i]?, w[j]? with
    | some c, some d => (w.set i (appendContainerAsBlock c d), .unit)
    | _, _ => (w, .err "noslot")

def wrun (w : List C) : List WOp → List C × List Out
  | [] => (w, [])
  | op :: ops => let r := wstep w op; let r' := wrun r.1 ops; (r'.1, r.2 :: r'.2)

end PB.Container
