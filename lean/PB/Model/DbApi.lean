import PB.Bytes
import PB.Spec.DbApiProto
/-
Model of /repo/api/database.go (DatabaseAPI.Handle, send, the request handlers) over an abstract
database (a list of named key→record maps standing for database.Interface + controllers + storages)
and abstract iterators / subscription feeds.

Layers
  1. `classify`  — Handle's splitting of `opID|cmd|args`, branch by branch.
  2. `Reply`/`send` — the reply builder.
  3. `step`      — every request handler as a reactive program: a program location (`Pc`) and what the
                   handler observes next from its environment (`Obs`: the result of a database call, the
                   next item of an iterator / feed, their closing, the connection teardown). Whatever
                   other goroutines do — cancels, concurrent writes, other requests — reaches a handler
                   only through these observations, so quantifying over all observation sequences covers
                   every interleaving.
  4. `Conn`      — a connection: `deliver` (Handle) and `tstep` (one step of one handler goroutine),
                   with the global list of sent replies.
  5. `Seq`       — the quiescent (sequential) execution against the abstract database: the observations
                   are computed from the database state. This is what the correspondence run compares
                   with the real code, message by message.

External libraries are parameters: the query parser (`Annot.q`), the JSON validity of a payload
(`Annot.obj`), the outcome of gjson/sjson on an insert (`Annot.ins`) are supplied per message.
-/
namespace PB.DbApi
open PB PB.DbApiProto

/-! ## 1. Messages -/

def bar : UInt8 := 124   -- '|'
def colon : UInt8 := 58  -- ':'

def sCancel : Bytes := [99, 97, 110, 99, 101, 108]
def sGet : Bytes := [103, 101, 116]
def sQuery : Bytes := [113, 117, 101, 114, 121]
def sSub : Bytes := [115, 117, 98]
def sQsub : Bytes := [113, 115, 117, 98]
def sCreate : Bytes := [99, 114, 101, 97, 116, 101]
def sUpdate : Bytes := [117, 112, 100, 97, 116, 101]
def sInsert : Bytes := [105, 110, 115, 101, 114, 116]
def sDelete : Bytes := [100, 101, 108, 101, 116, 101]

/-- Cut at the first occurrence of `sep`: `none` if there is none. -/
def cut (sep : UInt8) : Bytes → Option (Bytes × Bytes)
  | [] => none
  | b :: bs =>
    if b = sep then some ([], bs)
    else match cut sep bs with
      | some (h, t) => some (b :: h, t)
      | none => none

inductive RCmd where
  | get | query | sub | qsub | delete
  deriving Repr, DecidableEq, Inhabited

inductive WCmd where
  | create | update | insert
  deriving Repr, DecidableEq, Inhabited

/-- What `Handle` makes of a message. -/
inductive Msg where
  | malformed                                          -- error reply with empty operation ID
  | unknown (op : Bytes)                               -- "unknown method"
  | cancel (op : Bytes)
  | read (c : RCmd) (op arg : Bytes)                   -- get / query / sub / qsub / delete
  | write (c : WCmd) (op key payload : Bytes)          -- create / update / insert
  deriving Repr, DecidableEq, Inhabited

def rcmdOf (cmd : Bytes) : Option RCmd :=
  if cmd = sGet then some .get
  else if cmd = sQuery then some .query
  else if cmd = sSub then some .sub
  else if cmd = sQsub then some .qsub
  else if cmd = sDelete then some .delete
  else none

def wcmdOf (cmd : Bytes) : Option WCmd :=
  if cmd = sCreate then some .create
  else if cmd = sUpdate then some .update
  else if cmd = sInsert then some .insert
  else none

def RCmd.bytes : RCmd → Bytes
  | .get => sGet | .query => sQuery | .sub => sSub | .qsub => sQsub | .delete => sDelete

def WCmd.bytes : WCmd → Bytes
  | .create => sCreate | .update => sUpdate | .insert => sInsert

/-- `Handle`: `bytes.SplitN(msg, "|", 3)`, the two-part `cancel` case, the method switch, the second
    split for create/update/insert. -/
def classify (msg : Bytes) : Msg :=
  match cut bar msg with
  | none => .malformed                                   -- one part
  | some (op, r1) =>
    match cut bar r1 with
    | none => if r1 = sCancel then .cancel op else .malformed   -- two parts
    | some (cmd, arg) =>                                 -- three parts (the third keeps its bars)
      match rcmdOf cmd with
      | some c => .read c op arg
      | none =>
        match wcmdOf cmd with
        | some c =>
          match cut bar arg with
          | some (key, payload) => .write c op key payload
          | none => .malformed
        | none => .unknown op

/-- Wire form of a well-formed request. -/
def render : Msg → Bytes
  | .malformed => []
  | .unknown op => op ++ [bar] ++ [bar]
  | .cancel op => op ++ [bar] ++ sCancel
  | .read c op arg => op ++ [bar] ++ c.bytes ++ [bar] ++ arg
  | .write c op key payload => op ++ [bar] ++ c.bytes ++ [bar] ++ key ++ [bar] ++ payload

/-- The operation ID under which replies to this message are sent (`nil` for malformed ones). -/
def Msg.op : Msg → Bytes
  | .malformed => []
  | .unknown op => op
  | .cancel op => op
  | .read _ op _ => op
  | .write _ op _ _ => op

def Msg.kind : Msg → Kind
  | .malformed => .bad
  | .unknown _ => .bad
  | .cancel _ => .cancel
  | .read .get _ _ => .get
  | .read .query _ _ => .query
  | .read .sub _ _ => .sub
  | .read .qsub _ _ => .qsub
  | .read .delete _ _ => .write
  | .write _ _ _ _ => .write

/-! ## 2. Replies -/

/-- Error classes (the message texts are not modelled). -/
inductive Err where
  | malformed | unknown | nosub | nodb | notfound | denied | format | noacc | insert | noquery | other
  deriving Repr, DecidableEq, Inhabited

def Err.str : Err → String
  | .malformed => "malformed" | .unknown => "unknown" | .nosub => "nosub" | .nodb => "nodb"
  | .notfound => "notfound" | .denied => "denied" | .format => "format" | .noacc => "noacc"
  | .insert => "insert" | .noquery => "noquery" | .other => "other"

/-- Content of a record as the API returns it: the JSON payload, to which `MarshalRecord` adds the
    `_meta` section; `untracked` marks content produced by the JSON library on an insert (not tracked). -/
structure Content where
  json : Bytes
  untracked : Bool
  deriving Repr, DecidableEq, Inhabited

/-- One message passed to the send function: `opID|type[|key or message][|data]`. -/
structure Reply where
  op : Bytes
  ty : RType
  key : Bytes := []
  err : Option Err := none
  data : Option Content := none
  deriving Repr, DecidableEq, Inhabited

def rtypeBytes : RType → Bytes
  | .ok => [111, 107] | .error => [101, 114, 114, 111, 114] | .done => [100, 111, 110, 101]
  | .success => [115, 117, 99, 99, 101, 115, 115] | .upd => [117, 112, 100] | .new => [110, 101, 119]
  | .del => [100, 101, 108] | .warning => [119, 97, 114, 110, 105, 110, 103]

/-- `send`: the container is `opID`, `|`, type, then `|`+msgOrKey if non-empty, then `|`+data if non-empty. -/
def send (opID : Bytes) (ty : RType) (msgOrKey data : Bytes) : Bytes :=
  opID ++ [bar] ++ rtypeBytes ty
    ++ (if msgOrKey = [] then [] else [bar] ++ msgOrKey)
    ++ (if data = [] then [] else [bar] ++ data)

/-- The operation ID a client reads off a reply: everything before the first bar. -/
def wireOp (reply : Bytes) : Bytes :=
  match cut bar reply with
  | some (op, _) => op
  | none => reply

/-! ## 3. Handlers as reactive programs -/

/-- A record as a handler sees it after `MarshalRecord`. -/
structure RecView where
  key : Bytes
  marshal : Except Err Content   -- result of MarshalRecord(r, true)
  deleted : Bool                 -- r.Meta().IsDeleted()
  isNew : Bool                   -- r.Meta().Created == r.Meta().Modified
  deriving Repr, DecidableEq, Inhabited

/-- What a handler goroutine observes next. -/
inductive Obs where
  | res (r : Except Err Unit)          -- outcome of the database call(s) of a one-shot handler / of opening a query or subscription
  | got (r : Except Err RecView)       -- db.Get + MarshalRecord
  | item (r : RecView)                 -- `r := <-it.Next` / `<-sub.Feed`, non-nil
  | closed (e : Option Err)            -- the channel was closed; `it.Err()`
  | shutdown                           -- `<-api.shutdownSignal`
  | cancelRes (r : Option Err)         -- cancelSub: `none` = found and cancelled, `some e` = error to report
  deriving Repr, DecidableEq, Inhabited

/-- Program locations of a handler goroutine. -/
inductive Pc where
  | start (m : Msg)           -- dispatched by Handle, nothing executed yet
  | qsOpen (op : Bytes)       -- handleQsub: subscription registered, about to call processQuery
  | qloop (op : Bytes) (thenSub : Bool)   -- processQuery's loop (thenSub: called from handleQsub)
  | sloop (op : Bytes)        -- processSub's loop
  | fin                       -- returned
  | down                      -- returned because of the connection teardown
  deriving Repr, DecidableEq, Inhabited

def errReply (op : Bytes) (e : Err) : Reply := { op := op, ty := .error, err := some e }

/-- A record delivered by a query. -/
def queryItem (op : Bytes) (r : RecView) : Reply :=
  match r.marshal with
  | .error e => { op := op, ty := .warning, err := some e }
  | .ok d => { op := op, ty := .ok, key := r.key, data := some d }

/-- A record delivered by a subscription (`processSub`). -/
def subItem (op : Bytes) (r : RecView) : Reply :=
  match r.marshal with
  | .error e => { op := op, ty := .warning, err := some e }
  | .ok d =>
    if r.deleted then { op := op, ty := .del, key := r.key }
    else if r.isNew then { op := op, ty := .new, key := r.key, data := some d }
    else { op := op, ty := .upd, key := r.key, data := some d }

/-- `handleGet`: db.Get, MarshalRecord. -/
def stepGet (m : Msg) (op : Bytes) : Obs → Pc × List Reply
  | .got (.error e) => (.fin, [errReply op e])
  | .got (.ok r) =>
    (match r.marshal with
     | .error e => (.fin, [errReply op e])
     | .ok d => (.fin, [{ op := op, ty := .ok, key := r.key, data := some d }]))
  | _ => (.start m, [])

/-- Opening steps of handleQuery / handleSub / handleQsub (ParseQuery, db.Query / db.Subscribe):
    an error is reported and ends the handler, success leads to `next`. -/
def stepOpen (stay next : Pc) (op : Bytes) : Obs → Pc × List Reply
  | .res (.error e) => (.fin, [errReply op e])
  | .res (.ok _) => (next, [])
  | _ => (stay, [])

/-- handleDelete, handlePut, handleInsert: one success or one error. -/
def stepWrite (m : Msg) (op : Bytes) : Obs → Pc × List Reply
  | .res (.error e) => (.fin, [errReply op e])
  | .res (.ok _) => (.fin, [{ op := op, ty := .success }])
  | _ => (.start m, [])

/-- handleCancel: cancelQuery is silent, cancelSub may report. -/
def stepCancel (m : Msg) (op : Bytes) : Obs → Pc × List Reply
  | .cancelRes (some e) => (.fin, [errReply op e])
  | .cancelRes none => (.fin, [])
  | _ => (.start m, [])

/-- First step of a dispatched handler. -/
def stepStart (m : Msg) (o : Obs) : Pc × List Reply :=
  match m with
  | .read .get op _ => stepGet m op o
  | .read .query op _ => stepOpen (.start m) (.qloop op false) op o
  | .read .sub op _ => stepOpen (.start m) (.sloop op) op o
  | .read .qsub op _ => stepOpen (.start m) (.qsOpen op) op o
  | .read .delete op _ => stepWrite m op o
  | .write _ op _ _ => stepWrite m op o
  | .cancel op => stepCancel m op o
  | .malformed => (.start m, [])   -- never dispatched
  | .unknown _ => (.start m, [])   -- never dispatched

/-- processQuery's loop. -/
def stepQuery (op : Bytes) (thenSub : Bool) : Obs → Pc × List Reply
  | .item r => (.qloop op thenSub, [queryItem op r])
  | .closed (some e) => (.fin, [errReply op e])
  | .closed none => (if thenSub then .sloop op else .fin, [{ op := op, ty := .done }])
  | .shutdown => (.down, [])
  | _ => (.qloop op thenSub, [])

/-- processSub's loop. -/
def stepSub (op : Bytes) : Obs → Pc × List Reply
  | .item r => (.sloop op, [subItem op r])
  | .closed _ => (.fin, [{ op := op, ty := .done }])
  | .shutdown => (.down, [])
  | _ => (.sloop op, [])

/-- One step of a handler: the observation it makes, the replies it sends, where it continues.
    An observation that cannot occur at a location leaves the handler where it is. -/
def step (pc : Pc) (o : Obs) : Pc × List Reply :=
  match pc with
  | .start m => stepStart m o
  | .qsOpen op => stepOpen (.qsOpen op) (.qloop op true) op o
  | .qloop op ts => stepQuery op ts o
  | .sloop op => stepSub op o
  | .fin => (.fin, [])
  | .down => (.down, [])

/-- What `Handle` itself sends before returning (no goroutine is dispatched for these). -/
def syncReplies : Msg → List Reply
  | .malformed => [errReply [] .malformed]
  | .unknown op => [errReply op .unknown]
  | _ => []

def Msg.spawns : Msg → Bool
  | .malformed => false
  | .unknown _ => false
  | _ => true

/-- Run a handler over a sequence of observations, collecting what it sends. -/
def runPc : Pc → List Obs → Pc × List Reply
  | pc, [] => (pc, [])
  | pc, o :: os =>
    let (pc', out) := step pc o
    let (pc'', out') := runPc pc' os
    (pc'', out ++ out')

/-! ## 4. A connection: all handlers, interleaved -/

structure Thread where
  msg : Msg
  pc : Pc
  deriving Repr, DecidableEq, Inhabited

/-- Connection state: one entry per message handed to Handle, in order (its handler goroutine), and
    everything that happened so far as trace events: requests handed to Handle and replies handed to
    the send function, in global order. -/
structure Conn where
  threads : List Thread := []
  trace : List Ev := []
  deriving Repr, Inhabited

inductive Act where
  | deliver (msg : Bytes)          -- Handle(msg)
  | tstep (i : Nat) (o : Obs)      -- goroutine i makes observation o
  deriving Repr

def evOfReply (r : Reply) : Ev := .rep r.op r.ty

/-- `deliver`: Handle classifies the message; malformed messages and unknown methods are answered at
    once (their entry is a handler that has already returned), everything else gets its goroutine. -/
def connStep (c : Conn) : Act → Conn
  | .deliver msg =>
    let m := classify msg
    { threads := c.threads ++ [{ msg := m, pc := if m.spawns then .start m else .fin }],
      trace := c.trace ++ [.req m.op m.kind] ++ (if m.spawns then [] else (syncReplies m).map evOfReply) }
  | .tstep i o =>
    match c.threads[i]? with
    | none => c
    | some t =>
      let (pc', out) := step t.pc o
      { threads := c.threads.set i { t with pc := pc' }, trace := c.trace ++ out.map evOfReply }

def connRun : Conn → List Act → Conn
  | c, [] => c
  | c, a :: as => connRun (connStep c a) as

/-! ## 5. The abstract database and the quiescent execution -/

def fmtJSON : UInt8 := 74

structure Rec where
  fmt : UInt8
  data : Bytes
  obj : Bool := true        -- data is a valid JSON object (gjson.ValidBytes ∧ IsObject)
  secret : Bool := false
  crown : Bool := false
  expired : Bool := false
  untracked : Bool := false    -- content changed by an insert (result of the JSON library, not tracked)
  deriving Repr, DecidableEq, Inhabited

inductive DbKind where
  | plain | sink
  deriving Repr, DecidableEq, Inhabited

structure Db where
  name : Bytes
  kind : DbKind
  recs : List (Bytes × Rec) := []    -- sorted by key, no duplicates
  deriving Repr, Inhabited

/-- A parsed query as far as the API depends on it. `wh = none`: no where clause; `some l`: the
    payloads (format byte :: data) that satisfy the where clause. -/
structure Q where
  db : Bytes
  pfx : Bytes
  wh : Option (List Bytes) := none
  deriving Repr, DecidableEq, Inhabited

/-- Per-message results of the external libraries. -/
structure Annot where
  q : Option Q := none      -- query.ParseQuery: none = error
  obj : Bool := true        -- payload body (after an insert: the resulting data) is a JSON object
  ins : Bool := true        -- gjson/sjson accept the insert
  deriving Repr, Inhabited

structure SubT where
  id : Nat
  op : Bytes
  q : Q
  pc : Pc
  deriving Repr, Inhabited

structure St where
  dbs : List Db := []
  subs : List SubT := []             -- subscriptions registered at the controllers, oldest first
  subMap : List (Bytes × Nat) := []  -- api.subs
  nextId : Nat := 0
  deriving Repr, Inhabited

/-- Lexicographic order on byte strings. -/
def bytesLt : Bytes → Bytes → Bool
  | [], [] => false
  | [], _ :: _ => true
  | _ :: _, [] => false
  | a :: as, b :: bs => a < b || (a == b && bytesLt as bs)

def insertRec (k : Bytes) (r : Rec) : List (Bytes × Rec) → List (Bytes × Rec)
  | [] => [(k, r)]
  | (k', r') :: rest =>
    if k = k' then (k, r) :: rest
    else if bytesLt k k' then (k, r) :: (k', r') :: rest
    else (k', r') :: insertRec k r rest

def eraseRec (k : Bytes) : List (Bytes × Rec) → List (Bytes × Rec)
  | [] => []
  | (k', r') :: rest => if k = k' then rest else (k', r') :: eraseRec k rest

def lookupRec (k : Bytes) : List (Bytes × Rec) → Option Rec
  | [] => none
  | (k', r') :: rest => if k = k' then some r' else lookupRec k rest

/-- `record.ParseKey`: split at the first colon; without one the whole key is the database name. -/
def parseKey (key : Bytes) : Bytes × Bytes :=
  match cut colon key with
  | some (d, k) => (d, k)
  | none => (key, [])

def findDb (name : Bytes) : List Db → Option Db
  | [] => none
  | d :: ds => if d.name = name then some d else findDb name ds

def setDb (d : Db) : List Db → List Db
  | [] => []
  | d' :: ds => if d'.name = d.name then d :: ds else d' :: setDb d ds

def fullKey (db k : Bytes) : Bytes := db ++ [colon] ++ k

/-- `MarshalRecord`: JSON-format records whose data is a JSON object get the `_meta` section;
    anything else is an error ("format mismatch" / not an object). -/
def marshal (r : Rec) : Except Err Content :=
  if r.fmt ≠ fmtJSON then .error .format
  else if !r.obj then .error .other
  else .ok { json := r.data, untracked := r.untracked }

def view (db k : Bytes) (r : Rec) (deleted : Bool) : RecView :=
  { key := fullKey db k, marshal := if deleted then .ok { json := [], untracked := false } else marshal r,
    deleted := deleted, isNew := true }

/-- May the (non-local, non-internal) API interface see this record? -/
def permitted (r : Rec) : Bool := !r.secret && !r.crown

/-- `Interface.getRecord` through the API's interface. -/
def getRec (st : St) (key : Bytes) : Except Err (Bytes × Bytes × Rec) :=
  let (dn, k) := parseKey key
  match findDb dn st.dbs with
  | none => .error .nodb
  | some d =>
    match d.kind with
    | .sink => .error .notfound
    | .plain =>
      match lookupRec k d.recs with
      | none => .error .notfound
      | some r =>
        if r.expired then .error .notfound
        else if !permitted r then .error .denied
        else .ok (dn, k, r)

def isPrefix : Bytes → Bytes → Bool
  | [], _ => true
  | _ :: _, [] => false
  | a :: as, b :: bs => a == b && isPrefix as bs

/-- `Query.Matches` for a record of database `db` (the where clause is the supplied predicate;
    without an accessor — not JSON or empty — a where clause never matches). -/
def qMatches (q : Q) (db k : Bytes) (r : Rec) : Bool :=
  q.db == db && isPrefix q.pfx k &&
    (match q.wh with
     | none => true
     | some l => r.fmt == fmtJSON && !r.data.isEmpty && l.contains (r.fmt :: r.data))

/-- Feed one observation to subscription thread `id`, collecting its replies. -/
def feedSub (subs : List SubT) (id : Nat) (o : Obs) : List SubT × List Reply :=
  match subs with
  | [] => ([], [])
  | s :: rest =>
    if s.id = id then
      let (pc', out) := step s.pc o
      ({ s with pc := pc' } :: rest, out)
    else
      let (rest', out) := feedSub rest id o
      (s :: rest', out)

/-- `notifySubscribers`: every registered subscription that may see the record and whose query
    matches receives it (and, being quiescent otherwise, processes it at once). -/
def notify (subs : List SubT) (db k : Bytes) (r : Rec) (deleted : Bool) : List SubT × List Reply :=
  match subs with
  | [] => ([], [])
  | s :: rest =>
    let (rest', out') := notify rest db k r deleted
    if permitted r && qMatches s.q db k r then
      let (pc', out) := step s.pc (.item (view db k r deleted))
      ({ s with pc := pc' } :: rest', out ++ out')
    else (s :: rest', out')

/-- The storage's Put: a key/record store keeps the record, the sinkhole discards it. -/
def storeIn (d : Db) (k : Bytes) (r : Rec) : Db :=
  match d.kind with
  | .plain => { d with recs := insertRec k r d.recs }
  | .sink => d

/-- `Interface.Put` first reads the existing record's metadata through the API's interface: a valid
    record the interface may not see makes the write fail. -/
def putDenied (d : Db) (k : Bytes) : Bool :=
  match d.kind with
  | .sink => false
  | .plain => match lookupRec k d.recs with
    | some old => !old.expired && !permitted old
    | none => false

/-- Privileged write (the harness seeding records of every format directly). -/
def seed (st : St) (key : Bytes) (r : Rec) : St × List Reply :=
  let (dn, k) := parseKey key
  match findDb dn st.dbs with
  | none => (st, [])
  | some d =>
    let (subs', out) := notify st.subs dn k r false
    ({ st with dbs := setDb (storeIn d k r) st.dbs, subs := subs' }, out)

/-- `Interface.Put` / `PutNew` through the API interface: the existing record's metadata is checked,
    then the new wrapper replaces whatever was there. -/
def putRec (st : St) (key : Bytes) (r : Rec) : Except Err (St × List Reply) :=
  let (dn, k) := parseKey key
  match findDb dn st.dbs with
  | none => .error .nodb
  | some d =>
    if putDenied d k then .error .denied
    else
      let (subs', out) := notify st.subs dn k r false
      .ok ({ st with dbs := setDb (storeIn d k r) st.dbs, subs := subs' }, out)

def lookupMap (op : Bytes) : List (Bytes × Nat) → Option Nat
  | [] => none
  | (o, i) :: rest => if o = op then some i else lookupMap op rest

def eraseMap (op : Bytes) : List (Bytes × Nat) → List (Bytes × Nat)
  | [] => []
  | (o, i) :: rest => if o = op then eraseMap op rest else (o, i) :: eraseMap op rest

/-- Records a query delivers: valid, permitted, matching; in key order. -/
def queryItems (d : Db) (q : Q) : List Obs :=
  (d.recs.filter (fun (k, r) => !r.expired && permitted r && qMatches q d.name k r)).map
    (fun (k, r) => Obs.item (view d.name k r false))

/-- Opening a query (`Interface.Query`): the observations processQuery will make when undisturbed. -/
def openQuery (st : St) (q : Q) : Except Err (List Obs) :=
  match findDb q.db st.dbs with
  | none => .error .nodb
  | some d =>
    match d.kind with
    | .sink => .error .noquery
    | .plain => .ok (queryItems d q ++ [.closed none])

/-- Register a subscription thread that is now in its loop. -/
def addSub (st : St) (op : Bytes) (q : Q) (pc : Pc) : St :=
  { st with subs := st.subs ++ [{ id := st.nextId, op := op, q := q, pc := pc }],
            subMap := (op, st.nextId) :: eraseMap op st.subMap, nextId := st.nextId + 1 }

/-- Remove threads that have returned. -/
def reap (st : St) : St :=
  { st with subs := st.subs.filter (fun s => match s.pc with | .sloop _ => true | _ => false) }

/-- Quiescent execution of one message: the handler runs to its next blocking point with the
    observations the database state determines. Returns the new state and everything sent. -/
def handle (st : St) (msg : Bytes) (an : Annot) : St × List Reply :=
  let m := classify msg
  match m with
  | .malformed => (st, syncReplies m)
  | .unknown _ => (st, syncReplies m)
  | .cancel op =>
    -- cancelSub: look the subscription up in api.subs; Cancel closes its feed; the loop answers done,
    -- returns and removes the map entry
    match lookupMap op st.subMap with
    | none => (st, (runPc (.start m) [.cancelRes (some .nosub)]).2)
    | some id =>
      let (subs', out) := feedSub st.subs id (.closed none)
      let own := (runPc (.start m) [.cancelRes none]).2
      (reap { st with subs := subs', subMap := eraseMap op st.subMap }, own ++ out)
  | .read .get _ key =>
    let o : Obs := match getRec st key with
      | .error e => .got (.error e)
      | .ok (dn, k, r) => .got (.ok (view dn k r false))
    (st, (runPc (.start m) [o]).2)
  | .read .query _ _ =>
    match an.q with
    | none => (st, (runPc (.start m) [.res (.error .other)]).2)
    | some q =>
      match openQuery st q with
      | .error e => (st, (runPc (.start m) [.res (.error e)]).2)
      | .ok obs => (st, (runPc (.start m) (.res (.ok ()) :: obs)).2)
  | .read .sub op _ =>
    match an.q with
    | none => (st, (runPc (.start m) [.res (.error .other)]).2)
    | some q =>
      match findDb q.db st.dbs with
      | none => (st, (runPc (.start m) [.res (.error .nodb)]).2)
      | some _ =>
        let (pc, out) := runPc (.start m) [.res (.ok ())]
        (addSub st op q pc, out)
  | .read .qsub op _ =>
    match an.q with
    | none => (st, (runPc (.start m) [.res (.error .other)]).2)
    | some q =>
      match findDb q.db st.dbs with
      | none => (st, (runPc (.start m) [.res (.error .nodb)]).2)
      | some _ =>
        -- the subscription is registered first (and would already be fed), then the query runs
        match openQuery st q with
        | .error e => (st, (runPc (.start m) [.res (.ok ()), .res (.error e)]).2)
        | .ok obs =>
          let (pc, out) := runPc (.start m) (.res (.ok ()) :: .res (.ok ()) :: obs)
          (addSub st op q pc, out)
  | .read .delete _ key =>
    match getRec st key with
    | .error e => (st, (runPc (.start m) [.res (.error e)]).2)
    | .ok (dn, k, r) =>
      let dbs' := match findDb dn st.dbs with
        | some d => setDb { d with recs := eraseRec k d.recs } st.dbs
        | none => st.dbs
      let (subs', out) := notify st.subs dn k r true
      ({ st with dbs := dbs', subs := subs' }, out ++ (runPc (.start m) [.res (.ok ())]).2)
  | .write .insert _ key _ =>
    match getRec st key with
    | .error e => (st, (runPc (.start m) [.res (.error e)]).2)
    | .ok (_, _, r) =>
      -- GetAccessor: only JSON wrappers with data (and native structs, which the model stores as JSON)
      if r.fmt != fmtJSON || r.data.isEmpty then (st, (runPc (.start m) [.res (.error .noacc)]).2)
      else if !an.ins then (st, (runPc (.start m) [.res (.error .insert)]).2)
      else
        match putRec st key { r with untracked := true, obj := an.obj } with
        | .error e => (st, (runPc (.start m) [.res (.error e)]).2)
        | .ok (st', out) => (st', out ++ (runPc (.start m) [.res (.ok ())]).2)
  | .write _ _ key payload =>
    -- handlePut: `len(data) < 2`, NewWrapper(key, nil, data[0], data[1:]), Put / PutNew
    match payload with
    | f :: b :: rest =>
      match putRec st key { fmt := f, data := b :: rest, obj := an.obj } with
      | .error e => (st, (runPc (.start m) [.res (.error e)]).2)
      | .ok (st', out) => (st', out ++ (runPc (.start m) [.res (.ok ())]).2)
    | _ => (st, (runPc (.start m) [.res (.error .malformed)]).2)

/-- Connection teardown: every subscription loop observes the shutdown signal and returns silently. -/
def teardown (st : St) : St × List Reply :=
  ({ st with subs := [], subMap := [] }, [])

end PB.DbApi
