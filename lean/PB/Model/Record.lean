import PB.Model.Container
/-
Model of the stored-record format (database/record: wrapper.go, base.go, meta-gencode.go, key.go) on top
of the varint and container models. Third-party codecs (JSON, CBOR, MsgPack, YAML, gzip) are not modelled:
a meta section in one of those formats is reported as `delegated`.
-/
namespace PB.Record
open PB PB.Varint

structure Meta where
  created : Int
  modified : Int
  expires : Int
  deleted : Int
  secret : Bool
  crownjewel : Bool
  deriving Repr, DecidableEq

def inInt64 (x : Int) : Prop := -(2^63 : Int) ≤ x ∧ x < (2^63 : Int)
instance (x : Int) : Decidable (inInt64 x) := by unfold inInt64; infer_instance

def Meta.InRange (m : Meta) : Prop :=
  inInt64 m.created ∧ inInt64 m.modified ∧ inInt64 m.expires ∧ inInt64 m.deleted
instance (m : Meta) : Decidable m.InRange := by unfold Meta.InRange; infer_instance

/-- `byte(x >> 8k)` for k = 0..7 of an int64 (arithmetic shift, truncation to the low byte). -/
def encodeLE (x : Int) : Bytes :=
  let u := ofInt64 x
  [UInt8.ofNat (u % 256), UInt8.ofNat (u / 2^8 % 256), UInt8.ofNat (u / 2^16 % 256), UInt8.ofNat (u / 2^24 % 256),
   UInt8.ofNat (u / 2^32 % 256), UInt8.ofNat (u / 2^40 % 256), UInt8.ofNat (u / 2^48 % 256), UInt8.ofNat (u / 2^56 % 256)]

/-- `0 | int64(b0)<<0 | … | int64(b7)<<56` (the shifts wrap into the sign bit). -/
def decodeLE (b0 b1 b2 b3 b4 b5 b6 b7 : UInt8) : Int :=
  toInt64 (b0.toNat + b1.toNat * 2^8 + b2.toNat * 2^16 + b3.toNat * 2^24 + b4.toNat * 2^32 + b5.toNat * 2^40
    + b6.toNat * 2^48 + b7.toNat * 2^56)

def flagByte (b : Bool) : UInt8 := if b then 1 else 0

/-- `Meta.GenCodeMarshal`: 34 bytes. -/
def genCodeMarshal (m : Meta) : Bytes :=
  encodeLE m.created ++ encodeLE m.modified ++ encodeLE m.expires ++ encodeLE m.deleted ++
    [flagByte m.secret, flagByte m.crownjewel]

/-- `Meta.GenCodeUnmarshal`: needs at least 34 bytes, ignores the rest. -/
def genCodeUnmarshal : Bytes → Option Meta
  | c0::c1::c2::c3::c4::c5::c6::c7 :: m0::m1::m2::m3::m4::m5::m6::m7 :: e0::e1::e2::e3::e4::e5::e6::e7 ::
    d0::d1::d2::d3::d4::d5::d6::d7 :: s :: j :: _ =>
    some { created := decodeLE c0 c1 c2 c3 c4 c5 c6 c7, modified := decodeLE m0 m1 m2 m3 m4 m5 m6 m7,
           expires := decodeLE e0 e1 e2 e3 e4 e5 e6 e7, deleted := decodeLE d0 d1 d2 d3 d4 d5 d6 d7,
           secret := s == 1, crownjewel := j == 1 }
  | _ => none

/-! The byte layout above, as tables in the shape the extractor regenerates from meta-gencode.go
    (`PB.Gen.Record`); `PB.C08.layout_matches_source` states that they coincide. -/
def fieldNames : List String := ["Created", "Modified", "Expires", "Deleted"]
def layoutInts : List (Nat × String × Nat) :=
  (List.range 4).flatMap (fun f => (List.range 8).map (fun k => (8 * f + k, fieldNames.getD f "", 8 * k)))
def layoutMarshalFlags : List (Nat × String × Nat × Nat) := [(32, "secret", 1, 0), (33, "cronjewel", 1, 0)]
def layoutUnmarshalFlags : List (Nat × String × Nat) := [(32, "secret", 1), (33, "cronjewel", 1)]

/-- dsd format identifiers used by the record format (values checked against `PB.Gen.Record`). -/
def fAUTO : Nat := 0
def fRAW : Nat := 1
def fCBOR : Nat := 67
def fGenCode : Nat := 71
def fJSON : Nat := 74
def fMsgPack : Nat := 77
def fYAML : Nat := 89
def fGZIP : Nat := 90

/-- `dsd.Dump(meta, dsd.GenCode)` = `Pack8(GenCode) ++ GenCodeMarshal`. -/
def metaSection (m : Meta) : Bytes := pack8 fGenCode ++ genCodeMarshal m

/-- `Wrapper.Marshal(r, AUTO)`: nothing for deleted records, else the raw format byte and the data. -/
def wrapperDataSection (m : Meta) (format : UInt8) (data : Bytes) : Bytes :=
  if m.deleted > 0 then [] else format :: data

/-- `MarshalRecord` as written: container.New([]byte{1}); AppendAsBlock(meta); Append(data); CompileData(). -/
def marshalRecord (m : Meta) (dataSection : Bytes) : Bytes :=
  let c := PB.Container.new [[1]]
  let c := PB.Container.appendAsBlock c (metaSection m)
  let c := PB.Container.append c dataSection
  (PB.Container.compileData c).2

def marshalWrapper (m : Meta) (format : UInt8) (data : Bytes) : Bytes :=
  marshalRecord m (wrapperDataSection m format data)

/-- `Base.MarshalRecord` of a typed record whose JSON encoding is `json` (codec = parameter). -/
def marshalBase (m : Meta) (json : Bytes) : Bytes :=
  marshalRecord m (if m.deleted > 0 then [] else pack8 fJSON ++ json)

inductive PErr where
  | version (e : String)      -- Unpack8 of the version failed / version ≠ 1
  | metaBlock (e : String)    -- GetNextBlock failed
  | metaLoad (e : String)     -- dsd.Load of the meta section failed
  | format (e : String)       -- Unpack8 of the data format failed
  deriving Repr, DecidableEq

structure Wrapper where
  md : Meta
  format : Nat
  data : Bytes
  deriving Repr, DecidableEq

inductive Parsed where
  | ok (w : Wrapper)
  | err (e : PErr)
  | delegated (format : Nat)   -- meta section in a third-party codec / compressed: outside the model
  deriving Repr, DecidableEq

inductive MetaLoad where
  | ok (m : Meta)
  | err (e : String)
  | delegated (format : Nat)

/-- `dsd.Load(metaSection, &Meta{})` restricted to portbase's own logic. -/
def loadMeta (ms : Bytes) : MetaLoad :=
  match unpack8 ms with
  | .error e => .err e.str
  | .ok (f, read) =>
    if ms.length ≤ read ∧ f ≠ fRAW then .err "eof"     -- only raw data may be empty (loadFormat)
    else
      let body := ms.drop read
      if f = fRAW then .err "israw"
      else if f = fGenCode then
        match genCodeUnmarshal body with
        | some m => .ok m
        | none => .err "gencode"
      else if f = fJSON ∨ f = fCBOR ∨ f = fMsgPack ∨ f = fYAML then .delegated f
      else if f = fAUTO then .err "incompatible"      -- valid serialization format, but LoadAsFormat(…, 0, …) rejects it
      else if f = fGZIP then .delegated f              -- DecompressAndLoad
      else .err "incompatible"

/-- `NewRawWrapper`. -/
def newRawWrapper (data : Bytes) : Parsed :=
  match unpack8 data with
  | .error e => .err (.version e.str)
  | .ok (version, off) =>
    if version ≠ 1 then .err (.version "incompatible")
    else match getNextBlock (data.drop off) with
      | .error e => .err (.metaBlock e.str)
      | .ok (ms, n) =>
        let off := off + n
        match loadMeta ms with
        | .err e => .err (.metaLoad e)
        | .delegated f => .delegated f
        | .ok m =>
          if m.deleted > 0 then .ok ⟨m, fRAW, data.drop off⟩
          else match unpack8 (data.drop off) with
            | .error e => .err (.format e.str)
            | .ok (fmt, k) => .ok ⟨m, fmt, data.drop (off + k)⟩

/-- Split at the first ':' (`strings.SplitN(key, ":", 2)`). -/
def splitColon : List Char → List Char × Option (List Char)
  | [] => ([], none)
  | c :: cs => if c = ':' then ([], some cs) else let r := splitColon cs; (c :: r.1, r.2)

/-- `record.ParseKey`. -/
def parseKey (key : List Char) : List Char × List Char :=
  match splitColon key with
  | (db, none) => (db, [])
  | (db, some rest) => (db, rest)

/-! ### `Base`: the key accessors of base.go as a small state machine -/

/-- The two key fields of `record.Base` (strings as character lists). -/
structure Base where
  dbName : List Char
  dbKey : List Char
  deriving Repr, DecidableEq

/-- A freshly allocated record: no key. -/
def Base.fresh : Base := ⟨[], []⟩

/-- `KeyIsSet`: `b.dbName != ""`. -/
def Base.keyIsSet (b : Base) : Bool := b.dbName ≠ []
/-- `Key`: `b.dbName + ":" + b.dbKey`. -/
def Base.key (b : Base) : List Char := b.dbName ++ ':' :: b.dbKey
def Base.databaseName (b : Base) : List Char := b.dbName
def Base.databaseKey (b : Base) : List Char := b.dbKey
/-- `SetKey`: parsed and stored only while no key is set; otherwise ignored (an error is logged). -/
def Base.setKey (b : Base) (key : List Char) : Base :=
  if b.keyIsSet then b else ⟨(parseKey key).1, (parseKey key).2⟩
/-- `ResetKey`. -/
def Base.resetKey (_b : Base) : Base := ⟨[], []⟩

/-! ### `Marshal` / `MarshalRecord` of wrappers and typed records with their error exits
    (`Meta() == nil`, format mismatch, failing codec) -/

inductive MErr where
  | missingMeta     -- "missing meta"
  | formatMismatch  -- "could not dump model, wrapped object format mismatch"
  | codec           -- dsd.Dump of the typed record failed (third-party codec / unsupported format)
  deriving Repr, DecidableEq

def MErr.str : MErr → String
  | .missingMeta => "missing-meta" | .formatMismatch => "mismatch" | .codec => "codec"

/-- `Wrapper.Marshal(r, format)`; `none` is Go's `nil, nil` of a deleted record. -/
def wrapperMarshal (md : Option Meta) (wformat : UInt8) (data : Bytes) (format : UInt8) : Except MErr (Option Bytes) :=
  match md with
  | none => .error .missingMeta
  | some m =>
    if m.deleted > 0 then .ok none
    else if format.toNat ≠ fAUTO ∧ format ≠ wformat then .error .formatMismatch
    else .ok (some (wformat :: data))

/-- `Wrapper.MarshalRecord`: version, meta block, then `Wrapper.Marshal(r, dsd.AUTO)`. -/
def wrapperMarshalRecord (md : Option Meta) (wformat : UInt8) (data : Bytes) : Except MErr Bytes :=
  match md with
  | none => .error .missingMeta
  | some m =>
    match wrapperMarshal md wformat data (UInt8.ofNat fAUTO) with
    | .error e => .error e
    | .ok ds => .ok (marshalRecord m (ds.getD []))

/-- `Base.Marshal(self, format)`: `dump f` is `dsd.Dump(self, f)` (`none` = it returned an error). -/
def baseMarshal (md : Option Meta) (dump : Nat → Option Bytes) (format : Nat) : Except MErr (Option Bytes) :=
  match md with
  | none => .error .missingMeta
  | some m =>
    if m.deleted > 0 then .ok none
    else match dump format with
      | none => .error .codec
      | some d => .ok (some d)

/-- `Base.MarshalRecord`: version, meta block, then `Base.Marshal(self, dsd.JSON)`. -/
def baseMarshalRecord (md : Option Meta) (dump : Nat → Option Bytes) : Except MErr Bytes :=
  match md with
  | none => .error .missingMeta
  | some m =>
    match baseMarshal md dump fJSON with
    | .error e => .error e
    | .ok ds => .ok (marshalRecord m (ds.getD []))

/-! ### `Unwrap` (wrapper.go) -/

/-- A typed record: key fields, metadata pointer, and the value of its own fields. -/
structure Typed (α : Type) where
  base : Base
  md : Option Meta
  val : α

inductive UErr where
  | notWrapper   -- "cannot unwrap %T": the first argument is not a *Wrapper
  | load         -- dsd.LoadAsFormat failed
  deriving Repr, DecidableEq

/-- `Unwrap(wrapped, r)`: `wrapped = none` stands for a record that is not a `*Wrapper`; `load f data` is
    `dsd.LoadAsFormat(data, f, r)` (`none` = error); the codec is taken to leave the key fields of `r` alone
    (true of encoding/json, which never touches unexported fields; msgpack's array form resets the whole struct —
    the harness hands keyed targets to JSON payloads only). On success the key is transferred with
    `r.SetKey(wrapped.Key())` (ignored if `r` already has a key) and the metadata pointer is shared. -/
def unwrap {α : Type} (load : Nat → Bytes → Option α) (wrapped : Option (Base × Wrapper)) (r : Typed α) :
    Except UErr (Typed α) :=
  match wrapped with
  | none => .error .notWrapper
  | some (wb, w) =>
    match load w.format w.data with
    | none => .error .load
    | some v => .ok ⟨r.base.setKey wb.key, some w.md, v⟩

/-- `Meta.Duplicate`: a new struct with every field copied. -/
def Meta.duplicate (m : Meta) : Meta :=
  { created := m.created, modified := m.modified, expires := m.expires, deleted := m.deleted,
    secret := m.secret, crownjewel := m.crownjewel }

end PB.Record
