import PB.Model.FsAtomic
/-
C17 — writers of one destination that are NOT serialised: interleavings of two call sequences. (No regenerated
definition is imported here, so the kernel exploration in PBProofs/Lemmas/FsInterleave.lean is built once.)
-/
namespace PB.FsAtomic

/-! ### Writers that are NOT serialised: interleavings -/

/-- `t` is an interleaving of the call sequences `a` and `b` (each keeps its own order). -/
inductive Interleave : List Call → List Call → List Call → Prop
  | nil : Interleave [] [] []
  | left (c : Call) {a b t : List Call} : Interleave a b t → Interleave (c :: a) b (c :: t)
  | right (c : Call) {a b t : List Call} : Interleave a b t → Interleave a (c :: b) (c :: t)

def ilvAux (x : Call) (a : List Call) (recA : List Call → List (List Call)) : List Call → List (List Call)
  | [] => [x :: a]
  | y :: b => (recA (y :: b)).map (x :: ·) ++ (ilvAux x a recA b).map (y :: ·)

/-- All interleavings of two call sequences (executable: explored by the kernel). -/
def interleavings : List Call → List Call → List (List Call)
  | [] => fun b => [b]
  | x :: a => ilvAux x a (interleavings a)

end PB.FsAtomic
