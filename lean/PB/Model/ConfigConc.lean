/-
Interleaving model of the validity-flag / value hand-over between config setters and getter closures
(config/set.go `setConfigOption`, `setDefaultConfigOption`, `ReplaceConfig`, `ReplaceDefaultConfig`,
`signalChanges`, `getValidityFlag`; config/get.go and config/get-safe.go getter closures).

Atomic steps = the atomic actions of the Go code:
* a setter's write of one option layer under that option's lock (`write` / `rewrite`: a Replace call writes
  many options before it signals), `validityFlag.SetTo(false)` after taking `validityFlagLock` (`invalidate`),
  `validityFlag = abool.NewBool(true)` + unlock (`install`);
* a getter call on one closure: entering the call (`begin`; for `Concurrent` closures the call then waits for
  the closure's mutex, `acquire`), the atomic read `valid.IsSet()` (`checkValid` / `checkStale`),
  `getValidityFlag()` under the read lock (`fetchFlag`), `getValueCache` under the option lock (`fetchValue`),
  `return value` (`ret`). The creation of the closure is the same flag-then-value sequence (`createFlag`, `createValue`).

The shared option state is abstracted to a version counter: `ver` = number of layer writes so far, a getter
caches the version it read; the driver keeps the sequential model state of every version, so "returns version
v" means "returns the layered value of the state after the v-th write".
Any number of setters; any number of goroutines calling the one closure under consideration (getters write
no shared state, so other closures do not matter). `committed` is a ghost: the newest version whose setter has
finished `signalChanges` (hence: every version of a setter call that has returned is ≤ committed).
-/
namespace PB.ConfigConc

/-- State shared by all threads. -/
structure Shared where
  ver : Nat := 0                          -- number of writes so far = version of the current value
  valid : Nat → Bool := fun f => f == 0   -- the atomic bool of every flag object ever created (by id)
  cur : Nat := 0                          -- id of the flag `validityFlag` points to
  locked : Option Nat := none             -- validityFlagLock write-held by a setter (that wrote version v) between SetTo(false) and the store
  committed : Nat := 0                    -- ghost: newest version whose setter completed signalChanges
  setters : List Nat := []                -- setters between their (last) write and signalChanges, by version written

/-- One closure and the goroutines calling it. -/
structure Getter where
  pc : Nat := 5          -- 5 not created, 6 creating (flag fetched), 0 no call holds the closure, 1 call entered, 2 stale seen, 3 flag fetched, 4 value ready
  cflag : Nat := 0       -- `valid`
  cval : Nat := 0        -- version of `value`
  need : Nat := 0        -- ghost: `committed` when the running call began
  waiting : List Nat := []         -- ghost: `committed` at the begin of every call waiting for the closure's mutex
  done : List (Nat × Nat) := []    -- ghost: (committed at begin, version returned) of every completed call

structure CSt where
  sh : Shared := {}
  g : Getter := {}

inductive Act where
  | write                 -- a new setter call writes its option (version ver+1)
  | rewrite (v : Nat)     -- the setter that wrote v writes another option (Replace)
  | invalidate (v : Nat)  -- the setter that wrote v: validityFlagLock.Lock(); validityFlag.SetTo(false)
  | install               -- the lock holder: validityFlag = NewBool(true); Unlock()
  | createFlag | createValue
  | begin                 -- a goroutine enters a call of the closure
  | acquire (n : Nat)     -- the call that began at committed = n gets the closure (mutex / sole owner)
  | checkValid | checkStale | fetchFlag | fetchValue | ret
  deriving Repr, DecidableEq

def upd (f : Nat → Bool) (i : Nat) (b : Bool) : Nat → Bool := fun x => if x = i then b else f x

def step (s : CSt) : Act → Option CSt
  | .write =>
    some { s with sh := { s.sh with ver := s.sh.ver + 1, setters := (s.sh.ver + 1) :: s.sh.setters } }
  | .rewrite v =>
    if v ∈ s.sh.setters then
      some { s with sh := { s.sh with ver := s.sh.ver + 1, setters := (s.sh.ver + 1) :: s.sh.setters.erase v } }
    else none
  | .invalidate v =>
    if v ∈ s.sh.setters ∧ s.sh.locked = none then
      some { s with sh := { s.sh with valid := upd s.sh.valid s.sh.cur false, locked := some v,
                                      setters := s.sh.setters.erase v } }
    else none
  | .install =>
    match s.sh.locked with
    | some v =>
      some { s with sh := { s.sh with valid := upd s.sh.valid (s.sh.cur + 1) true, cur := s.sh.cur + 1,
                                      locked := none, committed := max s.sh.committed v } }
    | none => none
  | .createFlag =>
    if s.g.pc = 5 ∧ s.sh.locked = none then some { s with g := { s.g with pc := 6, cflag := s.sh.cur } } else none
  | .createValue =>
    if s.g.pc = 6 then some { s with g := { s.g with pc := 0, cval := s.sh.ver } } else none
  | .begin =>
    if s.g.pc ≠ 5 ∧ s.g.pc ≠ 6 then some { s with g := { s.g with waiting := s.sh.committed :: s.g.waiting } } else none
  | .acquire n =>
    if s.g.pc = 0 ∧ n ∈ s.g.waiting then
      some { s with g := { s.g with pc := 1, need := n, waiting := s.g.waiting.erase n } }
    else none
  | .checkValid =>
    if s.g.pc = 1 ∧ s.sh.valid s.g.cflag = true then some { s with g := { s.g with pc := 4 } } else none
  | .checkStale =>
    if s.g.pc = 1 ∧ s.sh.valid s.g.cflag = false then some { s with g := { s.g with pc := 2 } } else none
  | .fetchFlag =>
    if s.g.pc = 2 ∧ s.sh.locked = none then some { s with g := { s.g with pc := 3, cflag := s.sh.cur } } else none
  | .fetchValue =>
    if s.g.pc = 3 then some { s with g := { s.g with pc := 4, cval := s.sh.ver } } else none
  | .ret =>
    if s.g.pc = 4 then some { s with g := { s.g with pc := 0, done := (s.g.need, s.g.cval) :: s.g.done } } else none

/-- States reachable from the initial state by any interleaving. -/
inductive Reachable : CSt → Prop where
  | init : Reachable {}
  | step {s s' : CSt} (a : Act) : Reachable s → step s a = some s' → Reachable s'

/-- Run a schedule (executable; `none` as soon as an action is not enabled). -/
def runActs (s : CSt) : List Act → Option CSt
  | [] => some s
  | a :: as => match step s a with
    | some s' => runActs s' as
    | none => none

end PB.ConfigConc
