import PB.Gen.MicroTasks
/-!
# Model of the microtask scheduler (`modules/microtasks.go`) — property C15

Interleaving semantics, one action per atomic step of the Go code. Symmetric tasks are represented by
**counter abstraction** (number of tasks per program location); every counter is a `Nat`, the two atomic
counters of the code (`microTasks`, `Module.microTaskCnt`) are kept as *(increments, decrements)* pairs so
that the value `incs − decs` may dip below zero exactly as the `int32` of the code does.

Program locations of a medium/low-priority task (`RunMicroTask`, `StartMicroTask`, `SignalMicroTask`, and
the low-priority variants):

```
 submit ─▶ w (request offered to the clearance queue, owner blocked in get*PriorityClearance)
    w ──take/close by the scheduler──▶ c        (clearance: signal closed)
    w ──tmoEnq──▶ te ──tmoInc (own increment)──▶ c        (queue full until maxDelay)
    w ──tmoWait / tmoHeld──▶ c   (maxDelay expired while waiting; request stays behind as *stale*,
                                  the scheduler increments the counter when it gets to it)
 c ──begin (module counter +1; fn starts / Signal* returns)──▶ r
 r ──fnRet (fn returned or panicked / first effective done())──▶ d1
 d1 ──modDec──▶ d2 ──(stopCheck: m.checkIfStopComplete())──▶ d2 ──dec (global counter −1)──▶ d3 ──tokSend/tokDrop──▶ finished
```
High-priority tasks: `hcall ─▶ hp ──hinc (own increment)──▶ hc ─▶ hr ─▶ hd1 ─▶ hd2 ─▶ d3`.

Scheduler program counter `spc`: 0 loop head · 1 shutdown flag read as unset · 2 guard said *space*, selecting ·
3 holding a received clearance request · 4 signal closed, increment pending · 5 guard said *full*, waiting for
the finished token or the recheck ticker · 6/7/8 = 2/3/4 of `microTaskShutdownScheduler`.

Max-delay timers are actions that are enabled at any time (sound over-approximation); `tmo` counts them.
They come in two kinds. `z = false`: the timer fires when the documented max delay of the call has expired (the
proviso of the limit clause). `z = true`: it fires *before* that — possible only where the source makes it so
(`earlyExp`, over regenerated facts): a `Signal*MicroTask` call made with max delay 0 (the documentation says 0
means "the default value", the code — `signal*DefaultsZeroDelay = false` — passes the 0 to `time.After`, so the
timer fires at once), or a timer that is not armed with the caller's max delay at all (`armed ph p ≠ .param`:
the table of what each of the four `time.After` calls — enqueue / wait phase × medium / low — is armed with).
Early expiries are counted separately in `tz` (per followed task: `ez`).
The priority order of the scheduler's `select` cascade is abstracted to a free choice among offered
requests (`take`), `pickOther` is the `taskTimeslot` / `triggerLogWriting` branch.
-/
namespace PB.MicroTasks
open PB.Gen.MicroTasks

inductive Prio | med | low
  deriving DecidableEq, Repr

structure St where
  lim : Nat      -- microTasksThreshhold
  cI : Nat       -- increments applied to `microTasks`
  cD : Nat       -- decrements applied to `microTasks`
  mI : Nat       -- increments applied to any `Module.microTaskCnt`
  mD : Nat       -- decrements applied to any `Module.microTaskCnt`
  shut : Nat     -- shutdownFlag (0/1)
  spc : Nat      -- scheduler pc
  hk : Nat       -- request held by the scheduler: 0 none, 1 live (owner waiting), 2 stale (owner gone on)
  pend : Nat     -- ghost: 1 iff an increment by the scheduler is owed for a request it has taken
  fin : Nat      -- tokens in `microTaskFinished` (capacity 1)
  wM : Nat       -- live medium requests (owner waiting)
  wL : Nat       -- live low requests
  sM : Nat       -- stale medium requests still queued
  sL : Nat       -- stale low requests still queued
  te : Nat       -- enqueue timed out, own increment pending
  c : Nat        -- medium/low: cleared, module counter not yet incremented
  r : Nat        -- medium/low: running (module counter incremented, fn executing / signalled section)
  d1 : Nat       -- medium/low: fn returned, before module decrement
  d2 : Nat       -- medium/low: module decremented, before global decrement
  hp : Nat       -- high: called, own increment pending
  hc : Nat       -- high: counted
  hr : Nat       -- high: running
  hd1 : Nat
  hd2 : Nat
  d3 : Nat       -- any priority: global counter decremented, finished-token offer pending
  tmo : Nat      -- ghost: number of max-delay expiries so far
  tz : Nat       -- ghost: number of *immediate* expiries of Signal* calls made with max delay 0 (the timer
                 -- `time.After(0)` fires at once although the documented default delay has not expired)
  deriving Repr, DecidableEq

def init (lim : Nat) : St :=
  { lim := lim, cI := 0, cD := 0, mI := 0, mD := 0, shut := 0, spc := 0, hk := 0, pend := 0, fin := 0,
    wM := 0, wL := 0, sM := 0, sL := 0, te := 0, c := 0, r := 0, d1 := 0, d2 := 0,
    hp := 0, hc := 0, hr := 0, hd1 := 0, hd2 := 0, d3 := 0, tmo := 0, tz := 0 }

/-- The state in which a recorded trace may also start: everything finished, and the finished token of the
    last conclusion still in the channel (reachable from `init`: `PB.C15.start_with_token_reachable`). -/
def initTok (lim : Nat) : St :=
  { init lim with cI := 1, cD := 1, mI := 1, mD := 1, fin := 1 }

/-- value of the global counter `microTasks` -/
def St.cnt (s : St) : Int := (s.cI : Int) - (s.cD : Int)
/-- Σ over modules of `microTaskCnt` (`Status.Total.MicroTasks`) -/
def St.mods (s : St) : Int := (s.mI : Int) - (s.mD : Int)

/-- `atomic.AddInt32(microTasks, k)` -/
def addG (s : St) (k : Int) : St :=
  if 0 ≤ k then { s with cI := s.cI + k.toNat } else { s with cD := s.cD + (-k).toNat }
/-- `atomic.AddInt32(m.microTaskCnt, k)` -/
def addM (s : St) (k : Int) : St :=
  if 0 ≤ k then { s with mI := s.mI + k.toNat } else { s with mD := s.mD + (-k).toNat }

/-- Does a `Signal*MicroTask` call of priority `p` with max delay 0 expire at once? It does exactly if the
    function does not replace 0 by the documented default (regenerated from the source). -/
def zeroExp : Prio → Bool
  | .med => !signalMediumDefaultsZeroDelay
  | .low => !signalLowDefaultsZeroDelay

/-- the two phases of `get*PriorityClearance`, each with its own `time.After` -/
inductive Phase | enq | wait
  deriving DecidableEq, Repr

/-- what the timer of phase `ph` in the clearance function of priority `p` is armed with (regenerated from the
    source: the function's `maxDelay` parameter, or a constant) -/
def armed : Phase → Prio → Arm
  | .enq, .med => armEnqueueMedium
  | .wait, .med => armWaitMedium
  | .enq, .low => armEnqueueLow
  | .wait, .low => armWaitLow

/-- Can the timer of phase `ph` of a priority-`p` clearance wait fire *before* the maximum delay of the call (as
    documented: the argument, 0 = the default) has expired? Two ways, both read off the source: a `Signal*` function
    hands a 0 on to `time.After` (`zeroExp`), or the timer is not armed with the caller's max delay at all. -/
def earlyExp (ph : Phase) (p : Prio) : Bool := zeroExp p || (armed ph p != Arm.param)

/-- the scheduler's admission guard, as regenerated from the source -/
def space (s : St) : Bool := schedSpace s.cnt (s.lim : Int)

inductive Act
  | submit (p : Prio)                 -- request created and offered to the queue of priority p
  | flag                              -- scheduler: `if shutdownFlag.IsSet()`
  | read                              -- scheduler: the admission guard (both atomic loads)
  | pickOther                         -- scheduler: select chose taskTimeslot / triggerLogWriting
  | take (p : Prio) (stale : Bool)    -- scheduler: received a clearance request
  | close                             -- scheduler: close(clearanceSignal)
  | count                             -- scheduler: atomic.AddInt32(microTasks, 1)
  | wakeToken                         -- scheduler: <-microTaskFinished
  | wakeTick                          -- scheduler: <-recheck.C
  | shutdown                          -- shutdownFlag set
  -- max-delay timers; `z = true`: the timer fires although the documented max delay of the call has not expired
  -- (`earlyExp`: a Signal* call made with max delay 0, or a timer that is not armed with the caller's max delay)
  | tmoEnq (p : Prio) (z : Bool)      -- maxDelay expired before the request could be enqueued
  | tmoInc                            -- … the task counts itself
  | tmoWait (p : Prio) (z : Bool)     -- maxDelay expired while the request is still queued
  | tmoHeld (z : Bool)                -- maxDelay expired while the scheduler holds the request (not yet closed)
  | tmoLate (z : Bool)                -- timer branch chosen although the signal was closed already
  | callNil                           -- API called on a nil module: error return, nothing else happens
  | hcall                             -- Run/SignalHighPriorityMicroTask called
  | hinc                              -- … atomic.AddInt32(microTasks, 1)
  | begin (high : Bool)               -- run/signalMicroTask: module counter +1; fn starts / Signal* returns
  | fnRet (high : Bool) (out : Nat)   -- fn returned (0 nil, 2 panicked, any other number: that error value) / first effective done()
  | modDec (high : Bool)              -- concludeMicroTask: module counter −1
  | dec (high : Bool)                 -- concludeMicroTask: global counter −1
  | tokSend                           -- concludeMicroTask: microTaskFinished <- {} succeeded
  | tokDrop                           -- concludeMicroTask: channel full, default branch
  | ret                               -- blocking call / effective done() returns to its caller
  | doneAgain                         -- a further done() call: CAS fails, nothing happens
  | stopCheck                         -- concludeMicroTask: m.checkIfStopComplete() (no effect on the scheduler's state;
                                      -- its effect on the module's stop protocol is `MAct.check`, see `MSt` below)
  deriving DecidableEq, Repr

def isSel (s : St) : Bool := s.spc = 2 ∨ s.spc = 6
def isHold (s : St) : Bool := s.spc = 3 ∨ s.spc = 7

def step (s : St) : Act → Option St
  | .submit .med => some { s with wM := s.wM + 1 }
  | .submit .low => some { s with wL := s.wL + 1 }
  | .flag =>
    if s.spc = 0 then
      if s.shut = 1 then some { s with spc := 6 } else some { s with spc := 1 }
    else none
  | .read =>
    if s.spc = 1 then
      if space s then some { s with spc := 2 } else some { s with spc := 5 }
    else none
  | .pickOther =>
    if s.spc = 2 then some { s with spc := 0 }
    else if s.spc = 6 then some s
    else none
  | .take .med false =>
    if (s.spc = 2 ∨ s.spc = 6) ∧ 0 < s.wM then some { s with wM := s.wM - 1, hk := 1, spc := s.spc + 1 } else none
  | .take .low false =>
    if (s.spc = 2 ∨ s.spc = 6) ∧ 0 < s.wL then some { s with wL := s.wL - 1, hk := 1, spc := s.spc + 1 } else none
  | .take .med true =>
    if (s.spc = 2 ∨ s.spc = 6) ∧ 0 < s.sM then some { s with sM := s.sM - 1, hk := 2, pend := 1, spc := s.spc + 1 } else none
  | .take .low true =>
    if (s.spc = 2 ∨ s.spc = 6) ∧ 0 < s.sL then some { s with sL := s.sL - 1, hk := 2, pend := 1, spc := s.spc + 1 } else none
  | .close =>
    if s.spc = 3 ∨ s.spc = 7 then
      if s.hk = 1 then some { s with c := s.c + 1, hk := 0, pend := 1, spc := s.spc + 1 }
      else some { s with hk := 0, spc := s.spc + 1 }
    else none
  | .count =>
    if s.spc = 4 then some (addG { s with pend := 0, spc := 0 } dSched)
    else if s.spc = 8 then some (addG { s with pend := 0, spc := 6 } dShutdownSched)
    else none
  | .wakeToken => if s.spc = 5 ∧ s.fin = 1 then some { s with fin := 0, spc := 0 } else none
  | .wakeTick => if s.spc = 5 then some { s with spc := 0 } else none
  | .shutdown => if s.shut = 0 then some { s with shut := 1 } else none
  | .tmoEnq .med false => if 0 < s.wM then some { s with wM := s.wM - 1, te := s.te + 1, tmo := s.tmo + 1 } else none
  | .tmoEnq .low false => if 0 < s.wL then some { s with wL := s.wL - 1, te := s.te + 1, tmo := s.tmo + 1 } else none
  | .tmoEnq .med true =>
    if 0 < s.wM ∧ earlyExp .enq .med then some { s with wM := s.wM - 1, te := s.te + 1, tz := s.tz + 1 } else none
  | .tmoEnq .low true =>
    if 0 < s.wL ∧ earlyExp .enq .low then some { s with wL := s.wL - 1, te := s.te + 1, tz := s.tz + 1 } else none
  | .tmoInc =>
    if 0 < s.te ∧ timeoutEnqueueCounts then some (addG { s with te := s.te - 1, c := s.c + 1 } dTimeoutMedium) else none
  | .tmoWait .med false =>
    if 0 < s.wM ∧ !timeoutWaitCounts then some { s with wM := s.wM - 1, sM := s.sM + 1, c := s.c + 1, tmo := s.tmo + 1 } else none
  | .tmoWait .low false =>
    if 0 < s.wL ∧ !timeoutWaitCounts then some { s with wL := s.wL - 1, sL := s.sL + 1, c := s.c + 1, tmo := s.tmo + 1 } else none
  | .tmoWait .med true =>
    if 0 < s.wM ∧ !timeoutWaitCounts ∧ earlyExp .wait .med then
      some { s with wM := s.wM - 1, sM := s.sM + 1, c := s.c + 1, tz := s.tz + 1 } else none
  | .tmoWait .low true =>
    if 0 < s.wL ∧ !timeoutWaitCounts ∧ earlyExp .wait .low then
      some { s with wL := s.wL - 1, sL := s.sL + 1, c := s.c + 1, tz := s.tz + 1 } else none
  | .tmoHeld false =>
    if (s.spc = 3 ∨ s.spc = 7) ∧ s.hk = 1 then some { s with hk := 2, pend := 1, c := s.c + 1, tmo := s.tmo + 1 } else none
  | .tmoHeld true =>
    if (s.spc = 3 ∨ s.spc = 7) ∧ s.hk = 1 ∧ (earlyExp .wait .med || earlyExp .wait .low) then
      some { s with hk := 2, pend := 1, c := s.c + 1, tz := s.tz + 1 } else none
  | .tmoLate false => some { s with tmo := s.tmo + 1 }
  | .tmoLate true => if earlyExp .wait .med || earlyExp .wait .low then some { s with tz := s.tz + 1 } else none
  | .callNil => some s
  | .hcall => some { s with hp := s.hp + 1 }
  | .hinc => if 0 < s.hp then some (addG { s with hp := s.hp - 1, hc := s.hc + 1 } dHighRun) else none
  | .begin false => if 0 < s.c then some (addM { s with c := s.c - 1, r := s.r + 1 } dModRun) else none
  | .begin true => if 0 < s.hc then some (addM { s with hc := s.hc - 1, hr := s.hr + 1 } dModRun) else none
  | .fnRet false _ => if 0 < s.r then some { s with r := s.r - 1, d1 := s.d1 + 1 } else none
  | .fnRet true _ => if 0 < s.hr then some { s with hr := s.hr - 1, hd1 := s.hd1 + 1 } else none
  | .modDec false => if 0 < s.d1 then some (addM { s with d1 := s.d1 - 1, d2 := s.d2 + 1 } dModConclude) else none
  | .modDec true => if 0 < s.hd1 then some (addM { s with hd1 := s.hd1 - 1, hd2 := s.hd2 + 1 } dModConclude) else none
  | .dec false => if 0 < s.d2 then some (addG { s with d2 := s.d2 - 1, d3 := s.d3 + 1 } dConclude) else none
  | .dec true => if 0 < s.hd2 then some (addG { s with hd2 := s.hd2 - 1, d3 := s.d3 + 1 } dConclude) else none
  | .tokSend => if 0 < s.d3 ∧ s.fin = 0 then some { s with d3 := s.d3 - 1, fin := 1 } else none
  | .tokDrop => if 0 < s.d3 ∧ s.fin = 1 then some { s with d3 := s.d3 - 1 } else none
  | .ret => some s
  | .doneAgain => some s
  | .stopCheck => some s

def run (s : St) : List Act → Option St
  | [] => some s
  | a :: as => match step s a with
    | some s' => run s' as
    | none => none

/-- admitted medium/low tasks whose global decrement has not happened yet -/
def St.admML (s : St) : Nat := s.c + s.r + s.d1 + s.d2
/-- counted high-priority tasks whose global decrement has not happened yet -/
def St.admH (s : St) : Nat := s.hc + s.hr + s.hd1 + s.hd2

/-- Nothing is in flight: no task anywhere between its call and the end of `concludeMicroTask`, no request
    queued or held, no increment owed. (The scheduler may sit at any of its idle program points.) -/
def St.quiescent (s : St) : Prop :=
  s.wM = 0 ∧ s.wL = 0 ∧ s.sM = 0 ∧ s.sL = 0 ∧ s.te = 0 ∧ s.c = 0 ∧ s.r = 0 ∧ s.d1 = 0 ∧ s.d2 = 0 ∧
  s.hp = 0 ∧ s.hc = 0 ∧ s.hr = 0 ∧ s.hd1 = 0 ∧ s.hd2 = 0 ∧ s.d3 = 0 ∧ s.hk = 0 ∧ s.pend = 0

instance (s : St) : Decidable s.quiescent := by unfold St.quiescent; infer_instance

/-! ## One task followed individually

`DSt` is the program-order automaton of a single task (any priority, any variant) together with ghost
counters of what was done on its behalf. `dstep d a me` advances it on action `a`; `me` says whether `a` is
an action *of this task*; the scheduler's `close`/`count` act on it when they concern its request.
The acceptor keeps one `DSt` per task, so every task of a recorded run is followed this way. -/

structure DSt where
  cls : Nat      -- 0 medium, 1 low, 2 high
  var : Nat      -- 0 Run* (blocking), 1 Start*, 2 Signal*
  nilm : Nat     -- 1: called on a nil module
  zd : Nat       -- 1: called with max delay 0 (matters for the Signal* variants only)
  pc : Nat       -- 0 not called · 1 high: called · 2 waiting · 3 enqueue timed out · 4 cleared/counted ·
                 -- 5 running · 6 fn returned · 7 module decremented · 8 global decremented · 9 concluded ·
                 -- 10 returned to the caller · 11 returned errNoModule
  req : Nat      -- clearance request: 0 none · 1 queued · 2 held by the scheduler · 3 closed · 4 counted · 5 never enqueued
  execs : Nat    -- how often fn was invoked
  out : Nat      -- outcome of fn: 0 nil, 2 panic, any other number: that error value (the harness numbers the values
                 -- of its dictionary 100, 101, …: plain, context.Canceled, wrapped, typed nil, *ModuleError, …)
  res : Nat      -- result handed to the caller: 0 nothing (yet), 1 errNoModule, `out + 2`: the outcome `out` of fn
  gI : Nat       -- increments of the global counter on behalf of this task
  gD : Nat       -- decrements of the global counter on behalf of this task
  mI : Nat
  mD : Nat
  flag : Nat     -- doneCalled
  dones : Nat    -- done() calls that have performed their CAS
  chk : Nat      -- calls of m.checkIfStopComplete() made by this task's conclusion
  ez : Nat       -- ghost: timers of this task's clearance wait that fired before its documented max delay expired
  deriving Repr, DecidableEq

def DSt.new (cls var nilm zd : Nat) : DSt :=
  { cls := cls, var := var, nilm := nilm, zd := zd, pc := 0, req := 0, execs := 0, out := 0, res := 0,
    gI := 0, gD := 0, mI := 0, mD := 0, flag := 0, dones := 0, chk := 0, ez := 0 }

def prioCls : Prio → Nat
  | .med => 0
  | .low => 1

def clsPrio (cls : Nat) : Prio := if cls = 1 then .low else .med

/-- Can the timer of phase `ph` fire for this task before its documented max delay has expired? Only if the task is
    a `Signal*` call made with max delay 0 whose function hands the 0 to `time.After`, or if the timer of that phase
    is not armed with the caller's max delay (`armed`, regenerated). -/
def DSt.early (d : DSt) (ph : Phase) : Prop :=
  (d.zd = 1 ∧ d.var = 2 ∧ zeroExp (clsPrio d.cls) = true) ∨ armed ph (clsPrio d.cls) ≠ Arm.param

instance (d : DSt) (ph : Phase) : Decidable (d.early ph) := by unfold DSt.early; infer_instance

/-- is a timer event of kind `z` (true: it fires before the documented max delay expired) possible for this task? -/
def DSt.zOk (d : DSt) (ph : Phase) (z : Bool) : Prop := z = true → d.early ph

instance (d : DSt) (ph : Phase) (z : Bool) : Decidable (d.zOk ph z) := by unfold DSt.zOk; infer_instance

def zN (z : Bool) : Nat := if z then 1 else 0

/-- What the caller of a blocking variant gets for the function's outcome `out`: the outcome itself.
    `runMicroTask` assigns `err = fn(m.Ctx)` right before its bare return, only the panic branch of its deferred
    closure replaces it (`runReturnsFnError`), and every `Run*` variant returns `m.runMicroTask(name, fn)` directly
    (`runVariantsReturnDirect`) — both regenerated. Nothing on that path reads the state of the module. -/
def retVal (out : Nat) : Nat := if runReturnsFnError && runVariantsReturnDirect then out + 2 else 0

def dstep (d : DSt) (a : Act) (me : Bool) : Option DSt :=
  if me then
    match a with
    | .callNil => if d.pc = 0 ∧ d.nilm = 1 then some { d with pc := 11, res := 1 } else none
    | .submit p => if d.pc = 0 ∧ d.nilm = 0 ∧ d.cls = prioCls p then some { d with pc := 2, req := 1 } else none
    | .hcall => if d.pc = 0 ∧ d.nilm = 0 ∧ d.cls = 2 then some { d with pc := 1 } else none
    | .hinc => if d.pc = 1 then some { d with pc := 4, gI := d.gI + 1 } else none
    | .take p false => if d.req = 1 ∧ d.cls = prioCls p ∧ d.pc = 2 then some { d with req := 2 } else none
    | .take p true => if d.req = 1 ∧ d.cls = prioCls p ∧ 4 ≤ d.pc then some { d with req := 2 } else none
    | .tmoEnq p z =>
      if d.pc = 2 ∧ d.req = 1 ∧ d.cls = prioCls p ∧ d.zOk .enq z then some { d with pc := 3, req := 5, ez := d.ez + zN z } else none
    | .tmoInc => if d.pc = 3 then some { d with pc := 4, gI := d.gI + 1 } else none
    | .tmoWait p z =>
      if d.pc = 2 ∧ d.req = 1 ∧ d.cls = prioCls p ∧ d.zOk .wait z then some { d with pc := 4, ez := d.ez + zN z } else none
    | .tmoHeld z => if d.pc = 2 ∧ d.req = 2 ∧ d.zOk .wait z then some { d with pc := 4, ez := d.ez + zN z } else none
    | .tmoLate z => if 4 ≤ d.pc ∧ (d.req = 3 ∨ d.req = 4) ∧ d.zOk .wait z then some { d with ez := d.ez + zN z } else none
    | .begin high =>
      if d.pc = 4 ∧ (high = true ↔ d.cls = 2) then
        some { d with pc := 5, mI := d.mI + 1, execs := if d.var = 2 then d.execs else d.execs + 1 }
      else none
    | .fnRet high out =>
      if d.pc = 5 ∧ (high = true ↔ d.cls = 2) then
        if d.var = 2 then
          (if d.flag = 0 then some { d with pc := 6, flag := 1, dones := d.dones + 1 } else none)
        else some { d with pc := 6, out := out }
      else none
    | .modDec high => if d.pc = 6 ∧ (high = true ↔ d.cls = 2) then some { d with pc := 7, mD := d.mD + 1 } else none
    | .stopCheck => if d.pc = 7 ∧ d.chk = 0 then some { d with chk := 1 } else none
    | .dec high =>
      -- `concludeChecksStop` (regenerated): the stop check stands, unconditionally, between the two decrements
      if d.pc = 7 ∧ (high = true ↔ d.cls = 2) ∧ (concludeChecksStop = true → d.chk = 1) then
        some { d with pc := 8, gD := d.gD + 1 }
      else none
    | .tokSend => if d.pc = 8 then some { d with pc := 9 } else none
    | .tokDrop => if d.pc = 8 then some { d with pc := 9 } else none
    | .ret => if d.pc = 9 then some { d with pc := 10, res := if d.var = 0 then retVal d.out else d.res } else none
    | .doneAgain => if d.var = 2 ∧ d.flag = 1 then some { d with dones := d.dones + 1 } else none
    | _ => none
  else
    match a with
    | .close => if d.req = 2 then some { d with req := 3, pc := if d.pc = 2 then 4 else d.pc } else some d
    | .count => if d.req = 3 then some { d with req := 4, gI := d.gI + 1 } else some d
    | _ => some d

/-- counters together with one individually followed task -/
structure FSt where
  g : St
  d : DSt
  deriving Repr, DecidableEq

def fstep (f : FSt) (a : Act) (me : Bool) : Option FSt :=
  match step f.g a, dstep f.d a me with
  | some g', some d' => some ⟨g', d'⟩
  | _, _ => none

def frun (f : FSt) : List (Act × Bool) → Option FSt
  | [] => some f
  | (a, me) :: as => match fstep f a me with
    | some f' => frun f' as
    | none => none

/-! ## One module followed individually: its microtask counter and the stop protocol

`Module.microTaskCnt` is read by the module stop protocol (`modules/modules.go`): `stopAllTasks` sets the stop
flag and waits for `stopComplete` *or* `moduleStopTimeout`; everything that ends inside the module — a
concluding microtask among them — calls `checkIfStopComplete`, which completes the stop when the flag is set,
nothing else is running (stop function, workers, tasks — the argument `oth` of `check`, an input of the
environment here; that part of the protocol is the subject of C05/C06) and the microtask counter passes the
regenerated comparison `stopCheckMicro` (`== 0`). A stop that timed out leaves the module offline with its
microtasks still running; they conclude later — possibly after the module was started again — and microtasks
can be submitted to a module in every lifecycle state (the stop function of a stopping module runs some;
nothing refuses them on a stopped module). The counter is written by `runMicroTask`/`signalMicroTask`
(`begin`) and `concludeMicroTask` (`modDec`) only: the extractor scans every file of the package and fails
closed on any other write, so no lifecycle action below touches it.

`sp`: 0 no stop in progress · 1 `stop()` has reset the stop state (status stopping) · 2 `stopAllTasks` has set
the stop flag and waits · 3 it was woken by `stopComplete` or ran into the timeout. -/

structure MSt where
  kI : Nat       -- increments applied to this module's `microTaskCnt`
  kD : Nat       -- decrements applied to it
  run : Nat      -- microtasks of this module between their module increment and their module decrement
  flag : Nat     -- stopFlag
  done : Nat     -- stopCompleted
  st : Nat       -- 0 offline, 1 online, 2 stopping
  sp : Nat       -- stop()/stopAllTasks program counter
  tmo : Nat      -- ghost: stops that ran into `moduleStopTimeout`
  deriving Repr, DecidableEq

/-- a started module (the state in which every recorded trace begins) -/
def MSt.init : MSt := { kI := 0, kD := 0, run := 0, flag := 0, done := 1, st := 1, sp := 0, tmo := 0 }

/-- value of this module's `microTaskCnt` -/
def MSt.cnt (m : MSt) : Int := (m.kI : Int) - (m.kD : Int)

/-- `atomic.AddInt32(m.microTaskCnt, k)` -/
def addK (m : MSt) (k : Int) : MSt :=
  if 0 ≤ k then { m with kI := m.kI + k.toNat } else { m with kD := m.kD + (-k).toNat }

inductive MAct
  | begin                 -- run/signalMicroTask of a microtask of this module: counter +1 (any lifecycle state)
  | modDec                -- concludeMicroTask: counter −1
  | check (oth : Bool)    -- checkIfStopComplete by anybody; `oth`: stop function, workers and tasks are done
  | stopBegin             -- stop(): status stopping, stopComplete/stopCompleted reset
  | flagSet               -- stopAllTasks: stopFlag.Set()
  | wake                  -- stopAllTasks: <-m.stopComplete
  | timeout               -- stopAllTasks: <-time.After(moduleStopTimeout): logs and goes on — the counter is left alone
  | offline               -- stopAllTasks: status offline
  | start                 -- start(): stopFlag.UnSet(), status starting/online
  deriving DecidableEq, Repr

def mstep (m : MSt) : MAct → Option MSt
  | .begin => some (addK { m with run := m.run + 1 } dModRun)
  | .modDec => if 0 < m.run then some (addK { m with run := m.run - 1 } dModConclude) else none
  | .check oth =>
    if m.flag = 1 ∧ oth = true ∧ stopCheckMicro m.cnt = true then some { m with done := 1 } else some m
  | .stopBegin => if m.st = 1 ∧ m.sp = 0 then some { m with st := 2, sp := 1, done := 0 } else none
  | .flagSet => if m.sp = 1 then some { m with flag := 1, sp := 2 } else none
  | .wake => if m.sp = 2 ∧ m.done = 1 then some { m with sp := 3 } else none
  | .timeout => if m.sp = 2 then some { m with sp := 3, tmo := m.tmo + 1 } else none
  | .offline => if m.sp = 3 then some { m with st := 0, sp := 0 } else none
  | .start => if m.st = 0 then some { m with st := 1, flag := 0 } else none

def mrun (m : MSt) : List MAct → Option MSt
  | [] => some m
  | a :: as => match mstep m a with
    | some m' => mrun m' as
    | none => none

/-! ## One task followed together with its module

The product of `fstep` (counters + the followed task) and `mstep` (the module the task belongs to): the task's own
`begin` / `modDec` are the module's `begin` / `modDec`; every other step of the module — its stop protocol, restarts,
stop checks by anybody (the followed task's conclusion among them), begin and conclusion of its other microtasks — is
a free `TAct.mod` step, so a run of `tstep` interleaves the task with *every* history of its module. The ghosts
`rflag` / `rst` record the module's stop flag and status at the moment the task's function returned. Nothing in
`dstep` reads them: as in the source, the way of the function's error to the caller does not look at the module. -/

structure TSt where
  f : FSt
  m : MSt
  rflag : Nat    -- ghost: the module's stop flag (`IsStopping()`) when the function returned; 9: not yet
  rst : Nat      -- ghost: the module's status then (0 offline, 1 online, 2 stopping); 9: not yet
  deriving Repr, DecidableEq

def TSt.new (lim cls var zd : Nat) : TSt := ⟨⟨init lim, DSt.new cls var 0 zd⟩, MSt.init, 9, 9⟩

inductive TAct
  | task (a : Act) (me : Bool)   -- an action of the scheduler or of any task; `me`: of the followed task
  | mod (a : MAct)               -- a step of the module other than the followed task's begin / module decrement
  deriving DecidableEq, Repr

def tstep (t : TSt) : TAct → Option TSt
  | .mod a =>
    match mstep t.m a with
    | some m' => some { t with m := m' }
    | none => none
  | .task a me =>
    match fstep t.f a me with
    | none => none
    | some f' =>
      if me then
        match a with
        | .begin _ =>
          match mstep t.m .begin with
          | some m' => some { t with f := f', m := m' }
          | none => none
        | .modDec _ =>
          match mstep t.m .modDec with
          | some m' => some { t with f := f', m := m' }
          | none => none
        | .fnRet _ _ => some { t with f := f', rflag := t.m.flag, rst := t.m.st }
        | _ => some { t with f := f' }
      else some { t with f := f' }

def trun (t : TSt) : List TAct → Option TSt
  | [] => some t
  | a :: as => match tstep t a with
    | some t' => trun t' as
    | none => none

end PB.MicroTasks
