import PB.Model.Subs
/-!
# Interleaving model of writers, notifiers, `Subscribe` and `Subscription.Cancel` (property C14)

One action per atomic step of the Go code with respect to the controller's `subscriptionLock`
(a `sync.RWMutex`), for any number of concurrent writers, subscribers and cancels:

* writer `w`:  storage write (`wStore`) · `RLock` + snapshot of the range expression `c.subscriptions`
  (`wRLock`) · one loop iteration = permission/query test and non-blocking send (`wVisit`) · `RUnlock` (`wRUnlock`)
* `Subscribe` of subscription `i`: `Lock; append; Unlock` — one action (`add`)
* cancel thread `c` on subscription `i`: call (`cEnter`) · `Lock` (`cLock`) · search + removal from the list
  (`cRemove`) · `close(s.Feed)` (`cClose`) · `Unlock` (`cUnlock`)
* the subscriber reading its feed (`consume`)

Feeds are heap objects (`made`, `closed`, `buf`); a send on a closed feed or a second close *panics*
(`panicked := true`), exactly as Go channels do. `wants w i` abstracts
`r.Meta().CheckPermission(sub.local, sub.internal) && sub.q.Matches(r)` for writer `w`'s record and
subscription `i` (a pure function of the two, fixed for a run).

Thread-indexed state is kept in functions `Nat → _`, so the number of threads is unbounded by construction.
-/
namespace PB.SubsConc

/-- Function update. -/
def upd {α : Type} (f : Nat → α) (i : Nat) (x : α) : Nat → α := fun j => if j = i then x else f j

@[simp] theorem upd_same {α : Type} (f : Nat → α) (i : Nat) (x : α) : upd f i x i = x := by simp [upd]
@[simp] theorem upd_other {α : Type} (f : Nat → α) (i j : Nat) (x : α) (h : j ≠ i) : upd f i x j = f j := by
  simp [upd, h]

/-- Program counter of a writer. -/
inductive WPc where
  | idle
  | stored
  | notifying (rem : List Nat)
  | done
deriving DecidableEq, Repr

/-- Program counter of a cancel call. -/
inductive CPc where
  | idle | entered | locked | removed | unlocking | done
deriving DecidableEq, Repr

def CPc.inCS : CPc → Bool
  | .locked | .removed | .unlocking => true
  | _ => false

structure CSt where
  /-- `c.subscriptions` (identities of the `Subscription` objects, in list order) -/
  subs : List Nat := []
  /-- write lock of `subscriptionLock` held -/
  wl : Bool := false
  /-- writers holding the read lock -/
  rd : List Nat := []
  made : Nat → Bool := fun _ => false
  closed : Nat → Bool := fun _ => false
  buf : Nat → List Nat := fun _ => []
  wpc : Nat → WPc := fun _ => .idle
  cpc : Nat → CPc := fun _ => .idle
  ctarget : Nat → Nat := fun _ => 0
  panicked : Bool := false
  /-- ghost: every send attempt (writer, subscription, accepted) in temporal order -/
  log : List (Nat × Nat × Bool) := []
  /-- ghost: the list a writer iterates over (value of `c.subscriptions` when it took the read lock) -/
  snap : Nat → List Nat := fun _ => []
  /-- ghost: some `Cancel` call on this subscription has begun -/
  cancelReq : Nat → Bool := fun _ => false
  /-- ghost: `activeAtStart w i` — subscription `i` was already added when writer `w` started -/
  activeAtStart : Nat → Nat → Bool := fun _ _ => false
  /-- ghost: length of `log` when the writer started -/
  mark : Nat → Nat := fun _ => 0
  /-- ghost: `doneAtStart w2 w1` — writer `w1` had returned when writer `w2` started -/
  doneAtStart : Nat → Nat → Bool := fun _ _ => false
  /-- ghost: what the subscriber has read from each feed so far -/
  consumed : Nat → List Nat := fun _ => []

inductive Act where
  | wStore (w : Nat)
  | wRLock (w : Nat)
  | wVisit (w : Nat)
  | wRUnlock (w : Nat)
  | add (i : Nat)
  | cEnter (c i : Nat)
  | cLock (c : Nat)
  | cRemove (c : Nat)
  | cClose (c : Nat)
  | cUnlock (c : Nat)
  | consume (i : Nat)
deriving DecidableEq, Repr

def cap : Nat := PB.Gen.Subs.feedCap

/-- One atomic step; `none` = the action is not enabled in this state. -/
def step (wants : Nat → Nat → Bool) (st : CSt) : Act → Option CSt
  | .wStore w =>
    match st.wpc w with
    | .idle => some { st with
        wpc := upd st.wpc w .stored
        activeAtStart := upd st.activeAtStart w st.made
        mark := upd st.mark w st.log.length
        doneAtStart := upd st.doneAtStart w (fun w1 => st.wpc w1 == .done) }
    | _ => none
  | .wRLock w =>
    match st.wpc w with
    | .stored =>
      if st.wl then none
      else some { st with wpc := upd st.wpc w (.notifying st.subs), rd := w :: st.rd, snap := upd st.snap w st.subs }
    | _ => none
  | .wVisit w =>
    match st.wpc w with
    | .notifying (i :: rem) =>
      if wants w i then
        if st.closed i then some { st with panicked := true, wpc := upd st.wpc w (.notifying rem) }
        else if (st.buf i).length < cap then
          some { st with wpc := upd st.wpc w (.notifying rem), buf := upd st.buf i (st.buf i ++ [w]),
                         log := st.log ++ [(w, i, true)] }
        else some { st with wpc := upd st.wpc w (.notifying rem), log := st.log ++ [(w, i, false)] }
      else some { st with wpc := upd st.wpc w (.notifying rem) }
    | _ => none
  | .wRUnlock w =>
    match st.wpc w with
    | .notifying [] => some { st with wpc := upd st.wpc w .done, rd := st.rd.erase w }
    | _ => none
  | .add i =>
    if st.wl || !st.rd.isEmpty || st.made i then none
    else some { st with made := upd st.made i true, subs := st.subs ++ [i] }
  | .cEnter c i =>
    match st.cpc c with
    | .idle =>
      if st.made i then
        some { st with cpc := upd st.cpc c .entered, ctarget := upd st.ctarget c i, cancelReq := upd st.cancelReq i true }
      else none
    | _ => none
  | .cLock c =>
    match st.cpc c with
    | .entered => if st.wl || !st.rd.isEmpty then none else some { st with cpc := upd st.cpc c .locked, wl := true }
    | _ => none
  | .cRemove c =>
    match st.cpc c with
    | .locked =>
      if st.subs.contains (st.ctarget c) then
        some { st with subs := st.subs.erase (st.ctarget c), cpc := upd st.cpc c .removed }
      else some { st with cpc := upd st.cpc c .unlocking }
    | _ => none
  | .cClose c =>
    match st.cpc c with
    | .removed =>
      if st.closed (st.ctarget c) then some { st with panicked := true, cpc := upd st.cpc c .unlocking }
      else some { st with closed := upd st.closed (st.ctarget c) true, cpc := upd st.cpc c .unlocking }
    | _ => none
  | .cUnlock c =>
    match st.cpc c with
    | .unlocking => some { st with cpc := upd st.cpc c .done, wl := false }
    | _ => none
  | .consume i =>
    match st.buf i with
    | w :: rest => some { st with buf := upd st.buf i rest, consumed := upd st.consumed i (st.consumed i ++ [w]) }
    | [] => none

/-- Reachability: `Reach wants st` — `st` is reachable from the initial state by enabled actions. -/
inductive Reach (wants : Nat → Nat → Bool) : CSt → Prop where
  | init : Reach wants {}
  | step {st st' : CSt} (a : Act) : Reach wants st → step wants st a = some st' → Reach wants st'

/-! ## The defective `Cancel` of the pinned tree (matching on the query pointer), for the record

`qOf i` is the query object subscription `i` was created from. The pinned `Cancel` removed the *first list
entry with the same query pointer* but closed *its own* feed. -/

def firstWithQuery (qOf : Nat → Nat) (q : Nat) : List Nat → Option Nat
  | [] => none
  | j :: js => if qOf j = q then some j else firstWithQuery qOf q js

/-- `cRemove` + `cClose` of the pinned (unfixed) code, as one locked section. -/
def buggyCancel (qOf : Nat → Nat) (st : CSt) (i : Nat) : CSt :=
  match firstWithQuery qOf (qOf i) st.subs with
  | some j =>
    if st.closed i then { st with subs := st.subs.erase j, panicked := true }
    else { st with subs := st.subs.erase j, closed := upd st.closed i true }
  | none => st

/-! ## Trace acceptor (used by `pbdrv-c14`)

Events recorded by the `verif` hooks of the real code are replayed through `step`. The acceptor knows the
scenario (`cs` / `cw` lines: subscription specs and writer records) and computes `wants` from the sequential
model's `Sub.visible`, so an implementation that skips a subscriber, sends to one it should not, or sends in an
order the lock protocol forbids is rejected. -/

structure SubSpec where
  id : Nat
  loc : Bool
  int : Bool
  q : PB.Subs.Query

structure Acc where
  st : CSt := {}
  specs : List SubSpec := []
  recs : List (Nat × PB.Subs.Rec) := []
  /-- cancel threads allocated so far: (thread id, target) -/
  cancs : List (Nat × Nat) := []
  dead : Bool := false

def Acc.wants (a : Acc) (w i : Nat) : Bool :=
  match a.recs.find? (·.1 == w), a.specs.find? (·.id == i) with
  | some (_, r), some s => PB.Subs.permitted s.loc s.int r.md && s.q.matches r
  | _, _ => false

def Acc.act (a : Acc) (x : Act) : Option Acc :=
  (step a.wants a.st x).map (fun s => { a with st := s })

/-- Skip the subscriptions the writer's record is not for, until the head of its remaining list is `i`
    (or, with `i = none`, until the list is empty). -/
def Acc.skipTo (a : Acc) (w : Nat) (i : Option Nat) : Nat → Option Acc
  | 0 => none
  | fuel + 1 =>
    match a.st.wpc w with
    | .notifying [] => if i.isNone then some a else none
    | .notifying (j :: _) =>
      if some j == i then (if a.wants w j then some a else none)
      else if a.wants w j then none  -- the model would send to j here; the implementation did not
      else match a.act (.wVisit w) with
        | some a' => a'.skipTo w i fuel
        | none => none
    | _ => none

def tagNum (p : Char) (s : String) : Option Nat :=
  match s.toList with
  | c :: rest => if c == p then (String.ofList rest).toNat? else none
  | [] => none

def Acc.inCS (a : Acc) : Option (Nat × Nat) := a.cancs.find? (fun (c, _) => (a.st.cpc c).inCS)

def fmtIds (l : List Nat) : String := ",".intercalate (l.map (fun w => s!"w{w}"))

/-- One trace line. Returns the new acceptor state and `ok` / `reject <reason>`. -/
def accept (a : Acc) (w : List String) (parseSpec : List String → Option SubSpec)
    (parseRec : List String → Option PB.Subs.Rec) : Acc × String :=
  let rej (why : String) : Acc × String := ({ a with dead := true }, "reject " ++ why)
  let fin (r : Option Acc) (why : String) : Acc × String :=
    match r with
    | some a' => (a', "ok")
    | none => rej why
  if a.dead then (a, "reject earlier") else
  match w with
  | "conc" :: _ => ({}, "ok")
  | "cs" :: rest =>
    match parseSpec rest with
    | some s => ({ a with specs := a.specs ++ [s] }, "ok")
    | none => (a, "bad-op")
  | "cw" :: wid :: rest =>
    match tagNum 'w' wid, parseRec rest with
    | some k, some r => ({ a with recs := a.recs ++ [(k, r)] }, "ok")
    | _, _ => (a, "bad-op")
  | ["ev", t, "begin"] | ["ev", t, "end"] | ["ev", t, "subscribe"] | ["ev", t, "subscribed"] | ["ev", t, "returned"] =>
    if (tagNum 'w' t).isSome || (tagNum 'a' t).isSome || (tagNum 'c' t).isSome || (tagNum 'h' t).isSome then (a, "ok")
    else (a, "bad-op")
  | ["ev", t, "hookcall", _] | ["ev", t, "hookcancel"] | ["ev", t, "hookcancelled"] =>
    if (tagNum 'h' t).isSome then (a, "ok") else (a, "bad-op")
  | ["ev", t, "stored"] =>
    match tagNum 'w' t with
    | some k => fin (a.act (.wStore k)) "stored: writer not idle"
    | none => (a, "bad-op")
  | ["ev", t, "rlocked"] =>
    match tagNum 'w' t with
    | some k => fin (a.act (.wRLock k)) "rlocked: read lock taken while the write lock is held, or writer not at this point"
    | none => (a, "bad-op")
  | ["ev", t, kind, s] =>
    match tagNum 'w' t, tagNum 's' s with
    | some k, some i =>
      if kind == "sent" || kind == "full" then
        match a.skipTo k (some i) (a.st.subs.length + 2) with
        | none => rej s!"{kind}: the model does not send w{k} to s{i} here (not next in list order, not wanted, or not notifying)"
        | some a1 =>
          let room := decide ((a1.st.buf i).length < cap)
          if a1.st.closed i then rej s!"{kind}: send on closed feed s{i}"
          else if room != (kind == "sent") then rej s!"{kind}: buffer state differs (model room={room})"
          else fin (a1.act (.wVisit k)) "visit"
      else (a, "bad-op")
    | none, _ =>
      match tagNum 'c' t, tagNum 's' s with
      | some _, some i =>
        if kind == "call" || kind == "returned" then (a, "ok")
        else if kind == "enter" then
          let c := a.cancs.length
          fin ((a.act (.cEnter c i)).map (fun a' => { a' with cancs := a'.cancs ++ [(c, i)] })) "cancel of a subscription that was never made"
        else if kind == "locked" then
          match a.cancs.find? (fun (c, tgt) => tgt == i && a.st.cpc c == .entered) with
          | some (c, _) => fin (a.act (.cLock c)) "locked: write lock taken while readers or another writer hold the lock"
          | none => rej "locked: no cancel call entered for this subscription"
        else if kind == "removed" then
          match a.inCS with
          | some (c, tgt) =>
            if tgt != i then rej "removed: wrong subscription" else
            match a.act (.cRemove c) with
            | some a' => if a'.st.cpc c == .removed then (a', "ok") else rej "removed: the model finds no such list entry"
            | none => rej "removed: not at this point"
          | none => rej "removed: outside the locked section"
        else if kind == "closed" then
          match a.inCS with
          | some (c, tgt) =>
            if tgt != i then rej "closed: wrong subscription" else
            match a.act (.cClose c) with
            | some a' => if a'.st.panicked then rej "closed: double close" else (a', "ok")
            | none => rej "closed: not at this point"
          | none => rej "closed: outside the locked section"
        else if kind == "unlock" then
          match a.inCS with
          | some (c, tgt) =>
            if tgt != i then rej "unlock: wrong subscription" else
            -- a cancel that found nothing goes from `locked` straight to the unlock
            let a1 := if a.st.cpc c == .locked then
                (match a.act (.cRemove c) with
                 | some a' => if a'.st.cpc c == .unlocking then some a' else none
                 | none => none)
              else some a
            (match a1 with
             | some a1 => fin (a1.act (.cUnlock c)) "unlock: feed not closed yet"
             | none => rej "unlock: the model finds the list entry, the implementation did not remove it")
          | none => rej "unlock: outside the locked section"
        else (a, "bad-op")
      | _, _ => (a, "bad-op")
    | _, _ => (a, "bad-op")
  | ["ev", t, "runlock"] =>
    match tagNum 'w' t with
    | some k =>
      match a.skipTo k none (a.st.subs.length + 2) with
      | some a1 => fin (a1.act (.wRUnlock k)) "runlock"
      | none => rej s!"runlock: the model still has a subscriber to send w{k} to"
    | none => (a, "bad-op")
  | ["ev", t, "added"] =>
    match tagNum 'a' t with
    | some i => fin (a.act (.add i)) "added: list changed while the lock is held by others, or subscription id reused"
    | none => (a, "bad-op")
  | ["ev", _, "hang"] => rej "hang"
  | ["ev", t, "panic"] => if (tagNum 'w' t).isSome || (tagNum 'c' t).isSome then rej "panic: the model never panics" else (a, "bad-op")
  | ["obs", s, feed, cl] =>
    match tagNum 's' s with
    | some i =>
      let want := if (a.st.buf i).isEmpty then "-" else fmtIds (a.st.buf i)
      let wcl := if a.st.closed i then "closed" else "open"
      if feed == want && cl == wcl then (a, "ok") else rej s!"obs: model has feed {want} {wcl}"
    | none => (a, "bad-op")
  | _ => (a, "bad-op")

end PB.SubsConc
