import PB.Gen.StopProto
/-!
# Stop protocol of `modules.Module` (property C05)

Executable small-step model of the completion protocol in `modules/modules.go`, `worker.go`, `tasks.go`,
`microtasks.go` (portbase, after the two `fix:` commits of C05/C01), written branch by branch from the Go source:

* every run path (`RunWorker`, `runServiceWorker`, `executeWithLocking`, `runMicroTask`, `signalMicroTask` /
  `concludeMicroTask`) is `inc k; …function…; dec k; checkIfStopComplete`,
* `checkIfStopComplete` is: lock-free fast path (`stopFlag` unset ⇒ return), `m.Lock()`, then **five separate atomic
  reads** (`stopFlag`, `ctrlFuncRunning`, `workerCnt`, `taskCnt`, `microTaskCnt`), `stopCompleted.SetToIf(false,true)`,
  `close(stopComplete)`, `m.Unlock()`. Counters and flags are changed by other goroutines *without* the lock, so the
  reads stay separate steps; only the lock-protected sections of `stop()`, `start()`, the `Online` and `Offline`
  status writes are excluded while a check holds the lock,
* `stop()` (new `stopComplete`, `stopCompleted=false`, status `Stopping`), `stopAllTasks` (`ctrl.Set; flag.Set;
  cancel; startCtrlFn; select{stopComplete|timeout}; status=Offline; report`), `startCtrlFn` (nil branch / goroutine
  whose deferred part does `UnSet; check` and only then sends the result), `start()` (status `Starting`, then the
  three context steps in source order: cancel the current context, create a fresh one, `stopFlag.UnSet`), status
  `Online` (after the start routine's goroutine has sent its result) **or back to `Offline` when the start routine
  failed** (error or panic; nothing else is reset: the context of the failed attempt stays live, its work keeps
  running), `prep()` (status `Dead → Preparing → Offline` around the prep routine).
* `runServiceWorker`: the restart loop (`swReturn`, `swRerun`, `swExit`) and the **back-off wait between two runs** of a
  failing function (`swBackoff`, ended by its timer `swTimer` — back to the loop head, where `IsStopping()` is read —
  or by the cancellation of the context `m.Ctx` it read when it entered the select, `swCtxDone`); the worker stays
  counted in `workerCnt` during the wait.
* contexts: `m.Ctx` is replaced only by `start()`; the model numbers the contexts of a module (`gen`: 0 = the one
  made by `initNewModule`, +1 per `start()`), keeps the cancellation state of the current one (`ctx`) and the list of
  earlier ones that were replaced while still live (`oldLive`). Work functions and later observations name the
  generation of the context they hold (workers and microtasks read `m.Ctx` when their function is called, a task
  holds a child of the `m.Ctx` of the time it was created or last finished — any generation up to the current one).

Symmetric threads are represented by counter abstraction: the state holds the *number* of threads at each program
location, so any number of work items / finishing goroutines is covered. Flags and program counters are `Nat`-coded.

Ghost (proof-only) components, never read by a guard of the implementation's own steps:
* the split of each counter into `a` (items that were counted when the stop flag was last set, or counted while the
  flag is clear) and `b` (items counted while the flag is set); the Go counter is `a + b`,
* `tmo` (this cycle's wait ended by timeout),
* `gen`, `oldLive` (identity and cancellation state of replaced contexts).
-/
namespace PB.StopProto
open PB.Gen.StopProto

/-- kind of managed work = which counter it uses: workers / service workers / event hooks (`workerCnt`),
    tasks (`taskCnt`), microtasks of every priority and signalled microtasks (`microTaskCnt`). -/
inductive Kind | w | t | m
deriving DecidableEq, Repr

structure St where
  status : Nat     -- `Gen.StopProto.status*`
  flag : Nat       -- stopFlag
  ctrl : Nat       -- ctrlFuncRunning
  ctx : Nat        -- 1 = the module's current `Ctx` is cancelled
  completed : Nat  -- stopCompleted
  closed : Nat     -- the current `stopComplete` channel is closed
  dbl : Nat        -- a close of an already closed channel happened (Go: panic)
  aW : Nat
  bW : Nat
  aT : Nat
  bT : Nat
  aM : Nat
  bM : Nat
  k0 : Nat         -- goroutines that decremented and are about to call checkIfStopComplete (fast-path read)
  kf : Nat         -- … passed the fast path, waiting for / about to take the module lock
  k1 : Nat         -- … hold the lock, about to read stopFlag
  k2 : Nat         -- … have read stopFlag = set
  k3 : Nat         -- … have read ctrlFuncRunning = unset
  k4 : Nat         -- … have read workerCnt = 0
  k5 : Nat         -- … have read taskCnt = 0
  k6 : Nat         -- … have read microTaskCnt = 0 (about to CAS)
  k7 : Nat         -- … won the CAS (about to close)
  kd : Nat         -- … done (a read failed / CAS lost / closed), about to unlock
  lk : Nat         -- the module lock is held by a check
  spc : Nat        -- stopper: 0 none, 1 stop() done, 2 ctrl set, 3 flag set, 4 cancelled, 5 stop fn started / waiting,
                   --          6 woke (complete or timeout), 7 status Offline, 8 reported
  fnpc : Nat       -- control-function goroutine of the current start/stop: 0 none, 1 ctrl set & fn running,
                   --          2 fn returned, 3 deferred UnSet done (result is sent after that)
  tmo : Nat
  swTop0 : Nat     -- service workers whose function returned while the stop flag was clear, at the head of their
                   --   restart loop (they may still read `IsStopping() = false` and run the function again)
  swTop1 : Nat     -- … whose function returned while the stop flag was set (their `IsStopping()` read is true)
  swBk : List Nat  -- service workers waiting in the back-off `select` between two runs of their function (they are
                   --   still counted in `workerCnt`): one entry per waiter = the number of the context whose `Done()`
                   --   channel its select waits on (`m.Ctx` is read when the select is entered)
  gen : Nat        -- number of the module's current context `m.Ctx` (0 = made by `initNewModule`, +1 per `start()`)
  oldLive : List Nat -- earlier contexts that were replaced by `start()` while not cancelled
deriving DecidableEq, Repr

/-- A registered module (`initNewModule`: status `Dead`, a live context, `stopCompleted = true`,
    `stopComplete = nil`). -/
def init : St :=
  { status := statusDead, flag := 0, ctrl := 0, ctx := 0, completed := 1, closed := 0, dbl := 0,
    aW := 0, bW := 0, aT := 0, bT := 0, aM := 0, bM := 0,
    k0 := 0, kf := 0, k1 := 0, k2 := 0, k3 := 0, k4 := 0, k5 := 0, k6 := 0, k7 := 0, kd := 0, lk := 0,
    spc := 0, fnpc := 0, tmo := 0, swTop0 := 0, swTop1 := 0, swBk := [], gen := 0, oldLive := [] }

/-- … after `prep()` (no work started meanwhile). -/
def prepped : St := { init with status := statusOffline }

/-- is context number `g` of this module cancelled? -/
def St.genCancelled (s : St) (g : Nat) : Bool :=
  if g = s.gen then s.ctx == 1 else !(s.oldLive.contains g)

/-- the three steps of `start()` on the stop management, `modules.go` ("reset stop management") -/
inductive StartOp
  | cancelCur   -- `if m.cancelCtx != nil { m.cancelCtx() }` (never nil: set by `initNewModule`)
  | renew       -- `m.Ctx, m.cancelCtx = context.WithCancel(context.Background())`
  | unsetFlag   -- `m.stopFlag.UnSet()`
deriving DecidableEq, Repr

def applyStartOp (s : St) : StartOp → St
  | .cancelCur => { s with ctx := 1 }
  | .renew => { s with oldLive := if s.ctx = 0 then s.gen :: s.oldLive else s.oldLive, gen := s.gen + 1, ctx := 0 }
  | .unsetFlag => { s with flag := 0 }

/-- … in the order of the source (pinned to the regenerated `startSeq` by `PB.C05.gen_matches_model`) -/
def startOps : List StartOp := [.cancelCur, .renew, .unsetFlag]

def startCtx (ops : List StartOp) (s : St) : St := ops.foldl applyStartOp s

inductive Act
  | prepBegin                  -- prep(): status Preparing (under m.Lock)
  | prepDone                   -- prep(): status Offline (under m.Lock), after the prep routine's result was received
  | startBegin                 -- start(): status Starting, cancel old ctx, new ctx, stopFlag.UnSet   (under m.Lock)
  | startFail                  -- start(): the start routine failed (error / panic): status Offline (under m.Lock)
  | ctrlSet                    -- startCtrlFn, fn ≠ nil: ctrlFuncRunning.Set, goroutine started
  | ctrlUnsetNil               -- startCtrlFn, fn = nil: ctrlFuncRunning.UnSet, then check (stop only)
  | fnEnter (cancelled : Bool) -- the control function body begins and observes the module context
  | fnExit                     -- … returns
  | ctrlUnset                  -- deferred: ctrlFuncRunning.UnSet, then check, then the result is sent
  | online                     -- status Online (under m.Lock), after the result was received
  | stopBegin                  -- stop(): new stopComplete, stopCompleted=false, status Stopping (under m.Lock)
  | sCtrl | sFlag | sCancel
  | sWake | sTimeout
  | sOffline | sReport         -- status Offline (under m.Lock); the manager received the report
  | inc (k : Kind)
  | workEnter (g : Nat) (cancelled : Bool) -- a work function begins and observes the context (number `g`) it was handed
  | ctxObs (g : Nat) (cancelled : Bool)    -- a running work function looks at the context (number `g`) it holds
  | gate (open_ : Bool)        -- OnlineSoon() as read by NewTask / TriggerEvent / isActive (management flags aside)
  | dec (k : Kind) (old : Bool)
  | cFast (ok : Bool) | cLock
  | cFlag (ok : Bool) | cCtrl (ok : Bool) | cW (ok : Bool) | cT (ok : Bool) | cM (ok : Bool)
  | cCas (ok : Bool) | cClose | cUnlock
  | swReturn                   -- runServiceWorker: the worker function returned (any result), back in the restart loop
  | swRerun                    -- … `IsStopping()` read false, the function is run again (ErrRestartNow / back-off elapsed)
  | swExit (late : Bool)       -- … the loop is left (nil / context.Canceled / `IsStopping()`), `dec` follows
  | swBackoff (late : Bool)    -- … the function's error is neither nil / Canceled / ErrRestartNow (or it panicked): `failCnt++`,
                               --   the back-off `select { case <-time.After(sleepFor): case <-m.Ctx.Done(): return }` is entered
  | swTimer (g : Nat)          -- … the back-off timer of a waiter (holding context `g`) fires: back to the head of the loop
  | swCtxDone (g : Nat)        -- … `case <-m.Ctx.Done(): return` of a waiter holding context `g`: the loop is left, `dec` follows
deriving DecidableEq, Repr

/-- The back-off wait of `runServiceWorker` is ended by the cancellation of the module context: the `select` it
    waits in (regenerated from `modules/worker.go`: `PB.Gen.StopProto.backoffWait`, one string per case, fail closed on
    any other way of waiting between two runs) has a case `<-m.Ctx.Done()` whose body returns. -/
def backoffEndsOnCancel : Bool := backoffWait.contains "<-m.Ctx.Done():return"

/-- … and the only other way out is the back-off timer -/
def backoffHasTimer : Bool := backoffWait.contains "<-time.After(sleepFor):"

/-- the Go counters -/
def St.w (s : St) : Nat := s.aW + s.bW
def St.t (s : St) : Nat := s.aT + s.bT
def St.m (s : St) : Nat := s.aM + s.bM

def step (s : St) : Act → Option St
  | .prepBegin =>
    if s.status = statusDead ∧ s.lk = 0 then some { s with status := statusPreparing } else none
  | .prepDone =>
    if s.status = statusPreparing ∧ (s.fnpc = 0 ∨ s.fnpc = 3) ∧ s.lk = 0 then
      some { s with status := statusOffline } else none
  | .startBegin =>
    if s.status = statusOffline ∧ (s.spc = 0 ∨ s.spc = 8) ∧ (s.fnpc = 0 ∨ s.fnpc = 3) ∧ s.lk = 0 then
      some (startCtx startOps { s with status := statusStarting, spc := 0, fnpc := 0 }) else none
  | .startFail =>
    if s.status = statusStarting ∧ s.spc = 0 ∧ s.fnpc = 3 ∧ s.lk = 0 then
      some { s with status := statusOffline } else none
  | .ctrlSet =>
    if s.spc = 4 then some { s with ctrl := 1, spc := 5, fnpc := 1 }
    else if (s.status = statusStarting ∨ s.status = statusPreparing) ∧ s.spc = 0 ∧ s.fnpc = 0 then
      some { s with ctrl := 1, fnpc := 1 }
    else none
  | .ctrlUnsetNil =>
    if s.spc = 4 then some { s with ctrl := 0, spc := 5, fnpc := 3, k0 := s.k0 + 1 } else none
  | .fnEnter c =>
    if s.fnpc = 1 ∧ (c = true ↔ s.ctx = 1) then some s else none
  | .fnExit =>
    if s.fnpc = 1 then some { s with fnpc := 2 } else none
  | .ctrlUnset =>
    if s.fnpc = 2 then some { s with ctrl := 0, fnpc := 3, k0 := s.k0 + 1 } else none
  | .online =>
    if s.status = statusStarting ∧ s.spc = 0 ∧ (s.fnpc = 0 ∨ s.fnpc = 3) ∧ s.lk = 0 then
      some { s with status := statusOnline } else none
  | .stopBegin =>
    if s.status = statusOnline ∧ s.spc = 0 ∧ s.lk = 0 then
      some { s with status := statusStopping, closed := 0, completed := 0, spc := 1, tmo := 0 }
    else none
  | .sCtrl => if s.spc = 1 then some { s with ctrl := 1, spc := 2 } else none
  | .sFlag =>
    if s.spc = 2 then
      some { s with flag := 1, spc := 3, aW := s.aW + s.bW, bW := 0, aT := s.aT + s.bT, bT := 0,
                    aM := s.aM + s.bM, bM := 0 }
    else none
  | .sCancel => if s.spc = 3 then some { s with ctx := 1, spc := 4 } else none
  | .sWake => if s.spc = 5 ∧ s.closed = 1 then some { s with spc := 6 } else none
  | .sTimeout => if s.spc = 5 then some { s with spc := 6, tmo := 1 } else none
  | .sOffline => if s.spc = 6 ∧ s.lk = 0 then some { s with status := statusOffline, spc := 7 } else none
  | .sReport => if s.spc = 7 then some { s with spc := 8 } else none
  | .inc .w => if s.flag = 1 then some { s with bW := s.bW + 1 } else some { s with aW := s.aW + 1 }
  | .inc .t => if s.flag = 1 then some { s with bT := s.bT + 1 } else some { s with aT := s.aT + 1 }
  | .inc .m => if s.flag = 1 then some { s with bM := s.bM + 1 } else some { s with aM := s.aM + 1 }
  | .workEnter g c => if g ≤ s.gen ∧ (c = true ↔ s.genCancelled g = true) then some s else none
  | .ctxObs g c => if g ≤ s.gen ∧ (c = true ↔ s.genCancelled g = true) then some s else none
  | .gate o => if (o = true ↔ s.flag = 0) then some s else none
  | .dec .w true => if 0 < s.aW then some { s with aW := s.aW - 1, k0 := s.k0 + 1 } else none
  | .dec .w false => if 0 < s.bW then some { s with bW := s.bW - 1, k0 := s.k0 + 1 } else none
  | .dec .t true => if 0 < s.aT then some { s with aT := s.aT - 1, k0 := s.k0 + 1 } else none
  | .dec .t false => if 0 < s.bT then some { s with bT := s.bT - 1, k0 := s.k0 + 1 } else none
  | .dec .m true => if 0 < s.aM then some { s with aM := s.aM - 1, k0 := s.k0 + 1 } else none
  | .dec .m false => if 0 < s.bM then some { s with bM := s.bM - 1, k0 := s.k0 + 1 } else none
  | .cFast true => if 0 < s.k0 ∧ s.flag = 1 then some { s with k0 := s.k0 - 1, kf := s.kf + 1 } else none
  | .cFast false => if 0 < s.k0 ∧ s.flag = 0 then some { s with k0 := s.k0 - 1 } else none
  | .cLock => if 0 < s.kf ∧ s.lk = 0 then some { s with kf := s.kf - 1, k1 := s.k1 + 1, lk := 1 } else none
  | .cFlag true => if 0 < s.k1 ∧ s.flag = 1 then some { s with k1 := s.k1 - 1, k2 := s.k2 + 1 } else none
  | .cFlag false => if 0 < s.k1 ∧ s.flag = 0 then some { s with k1 := s.k1 - 1, kd := s.kd + 1 } else none
  | .cCtrl true => if 0 < s.k2 ∧ s.ctrl = 0 then some { s with k2 := s.k2 - 1, k3 := s.k3 + 1 } else none
  | .cCtrl false => if 0 < s.k2 ∧ s.ctrl = 1 then some { s with k2 := s.k2 - 1, kd := s.kd + 1 } else none
  | .cW true => if 0 < s.k3 ∧ s.aW + s.bW = 0 then some { s with k3 := s.k3 - 1, k4 := s.k4 + 1 } else none
  | .cW false => if 0 < s.k3 ∧ 0 < s.aW + s.bW then some { s with k3 := s.k3 - 1, kd := s.kd + 1 } else none
  | .cT true => if 0 < s.k4 ∧ s.aT + s.bT = 0 then some { s with k4 := s.k4 - 1, k5 := s.k5 + 1 } else none
  | .cT false => if 0 < s.k4 ∧ 0 < s.aT + s.bT then some { s with k4 := s.k4 - 1, kd := s.kd + 1 } else none
  | .cM true => if 0 < s.k5 ∧ s.aM + s.bM = 0 then some { s with k5 := s.k5 - 1, k6 := s.k6 + 1 } else none
  | .cM false => if 0 < s.k5 ∧ 0 < s.aM + s.bM then some { s with k5 := s.k5 - 1, kd := s.kd + 1 } else none
  | .cCas true =>
    if 0 < s.k6 ∧ s.completed = 0 then some { s with k6 := s.k6 - 1, k7 := s.k7 + 1, completed := 1 } else none
  | .cCas false => if 0 < s.k6 ∧ s.completed = 1 then some { s with k6 := s.k6 - 1, kd := s.kd + 1 } else none
  | .cClose =>
    if 0 < s.k7 then
      if s.closed = 1 then some { s with k7 := s.k7 - 1, kd := s.kd + 1, dbl := 1 }
      else some { s with k7 := s.k7 - 1, kd := s.kd + 1, closed := 1 }
    else none
  | .cUnlock => if 0 < s.kd then some { s with kd := s.kd - 1, lk := 0 } else none
  | .swReturn => if s.flag = 1 then some { s with swTop1 := s.swTop1 + 1 } else some { s with swTop0 := s.swTop0 + 1 }
  | .swRerun => if 0 < s.swTop0 then some { s with swTop0 := s.swTop0 - 1 } else none
  | .swExit false => if 0 < s.swTop0 then some { s with swTop0 := s.swTop0 - 1 } else none
  | .swExit true => if 0 < s.swTop1 then some { s with swTop1 := s.swTop1 - 1 } else none
  | .swBackoff false => if 0 < s.swTop0 then some { s with swTop0 := s.swTop0 - 1, swBk := s.gen :: s.swBk } else none
  | .swBackoff true => if 0 < s.swTop1 then some { s with swTop1 := s.swTop1 - 1, swBk := s.gen :: s.swBk } else none
  | .swTimer g =>
    if backoffHasTimer = true ∧ s.swBk.contains g = true then
      if s.flag = 1 then some { s with swBk := s.swBk.erase g, swTop1 := s.swTop1 + 1 }
      else some { s with swBk := s.swBk.erase g, swTop0 := s.swTop0 + 1 }
    else none
  | .swCtxDone g =>
    if backoffEndsOnCancel = true ∧ s.swBk.contains g = true ∧ s.genCancelled g = true then
      some { s with swBk := s.swBk.erase g }
    else none

/-- run a list of actions; `none` = some action was not enabled (the acceptor's `reject`). -/
def run (s : St) : List Act → Option St
  | [] => some s
  | a :: as => match step s a with
    | some s' => run s' as
    | none => none

/-- reachable states of one module, any number of cycles / items / finishing goroutines / interleavings -/
inductive Reach : St → Prop
  | init : Reach init
  | step {s s' : St} {a : Act} : Reach s → step s a = some s' → Reach s'

theorem reach_run {s s' : St} (h : Reach s) : ∀ {as : List Act}, run s as = some s' → Reach s' := by
  intro as
  induction as generalizing s with
  | nil => intro hr; simp [run] at hr; exact hr ▸ h
  | cons a as ih =>
    intro hr
    simp only [run] at hr
    split at hr
    · rename_i s1 h1; exact ih (Reach.step h h1) hr
    · cases hr

/-- the module has been stopped and reported offline by its stopper (and not restarted since) -/
def St.stopped (s : St) : Prop := s.spc = 7 ∨ s.spc = 8

/-- a checker action (a step of some goroutine inside `checkIfStopComplete`) -/
def Act.isCheck : Act → Bool
  | .cFast _ | .cLock | .cFlag _ | .cCtrl _ | .cW _ | .cT _ | .cM _ | .cCas _ | .cClose | .cUnlock => true
  | _ => false

/-! ## Several modules and the manager (`stopModules` / `startModules`, `readyToStop` / `readyToStart`) -/

structure Sys where
  mods : List St
  deps : List (List Nat)   -- `deps[i]` = indices of the modules that module `i` depends on
  mode : Nat               -- manager: 0 idle, 1 inside `stopModules` (Shutdown or ManageModules), 2 inside `startModules`
  execCnt : Nat
  reportCnt : Nat
deriving Repr

inductive SAct
  | mod (i : Nat) (a : Act)
  | passBegin (stopping : Bool)
  | passEnd
deriving Repr

def Sys.init (n : Nat) (deps : List (List Nat)) : Sys :=
  { mods := List.replicate n PB.StopProto.init, deps := deps, mode := 0, execCnt := 0, reportCnt := 0 }

def Sys.depsOf (S : Sys) (i : Nat) : List Nat := S.deps.getD i []

def Sys.statusOf (S : Sys) (i : Nat) : Nat := (S.mods.getD i PB.StopProto.init).status

/-- `readyToStop`: no reverse dependency is above `StatusOffline` (the module's own status is checked by `stop()`;
    which modules are *wanted* down is decided by the enabled tree and left open here). -/
def Sys.revDepsDown (S : Sys) (i : Nat) : Bool :=
  (List.range S.mods.length).all fun r => !((S.depsOf r).contains i) || decide (S.statusOf r ≤ statusOffline)

/-- `readyToStart`: every dependency is `StatusOnline`. -/
def Sys.depsUp (S : Sys) (i : Nat) : Bool :=
  (S.depsOf i).all fun d => decide (S.statusOf d = statusOnline)

def sstep (S : Sys) : SAct → Option Sys
  | .passBegin stopping =>
    if S.mode = 0 then some { S with mode := if stopping then 1 else 2, execCnt := 0, reportCnt := 0 } else none
  | .passEnd =>
    if S.mode = 1 ∧ S.reportCnt = S.execCnt then some { S with mode := 0 }
    else if S.mode = 2 then some { S with mode := 0 }
    else none
  | .mod i a =>
    match S.mods[i]? with
    | none => none
    | some s =>
      match a with
      | .stopBegin =>
        if S.mode = 1 ∧ S.revDepsDown i = true then
          (step s a).map fun s' => { S with mods := S.mods.set i s', execCnt := S.execCnt + 1 }
        else none
      | .startBegin =>
        if S.mode = 2 ∧ S.depsUp i = true then
          (step s a).map fun s' => { S with mods := S.mods.set i s' }
        else none
      | .sReport =>
        if S.mode = 1 then
          (step s a).map fun s' => { S with mods := S.mods.set i s', reportCnt := S.reportCnt + 1 }
        else none
      | _ => (step s a).map fun s' => { S with mods := S.mods.set i s' }

def srun (S : Sys) : List SAct → Option Sys
  | [] => some S
  | a :: as => match sstep S a with
    | some S' => srun S' as
    | none => none

inductive SReach (n : Nat) (deps : List (List Nat)) : Sys → Prop
  | init : SReach n deps (Sys.init n deps)
  | step {S S' : Sys} {a : SAct} : SReach n deps S → sstep S a = some S' → SReach n deps S'

/-- the stopper of this module is between `stop()` and its report -/
def St.active (s : St) : Nat := if 1 ≤ s.spc ∧ s.spc ≤ 7 then 1 else 0

def nActive (ms : List St) : Nat := (ms.map St.active).sum

end PB.StopProto
