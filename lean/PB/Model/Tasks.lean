import PB.Gen.Tasks
/-
Model of the task scheduler of safing/portbase `modules/tasks.go` (as of the `fix:` commits of branch
verif-c07), written branch by branch from the Go source.

Granularity: one action per section that the Go code executes under `Task.lock` (API calls, the check
section of `runWithLocking`, the deferred section of `executeWithLocking`), per handler section under
`queuesLock` / `scheduleLock` (pop, schedule fetch), plus the lock-free steps in between (queueWg.Wait
entry, queueWg.Add + goroutine start, function begin / end, slot watcher release). The handler's pick and
the later locked section on the picked task are separate actions, so stale picks are part of the model.

Not modelled (see notes/c07.md): modules that are not online, `Repeat`, the wake-up channels
`queueIsFilled` / `notifyTaskScheduler` (handlers may take their step whenever it is enabled), the
timeslot wait, panics of task functions.

Fields marked "history" do not exist in the Go code; they record what happened (number of submissions and
starts, submission stamps, ...) so that the property can be stated. They never influence a non-history field.
-/
namespace PB.Tasks

/-- `defaultMaxDelay` in nanoseconds, regenerated from the source on every run. -/
abbrev defaultMaxDelay : Nat := PB.Gen.Tasks.defaultMaxDelay
/-- `maxExecutionWait` in nanoseconds, regenerated from the source on every run. -/
abbrev maxExecutionWait : Nat := PB.Gen.Tasks.maxExecutionWait

structure Task where
  canceled : Bool := false
  executing : Bool := false
  overtime : Bool := false
  executeAt : Nat := 0          -- 0 = zero time
  maxDelay : Nat := defaultMaxDelay
  inQ : Bool := false           -- queueElement != nil
  inP : Bool := false           -- prioritizedQueueElement != nil
  inS : Bool := false           -- scheduleListElement != nil
  gen : Nat := 0                -- generation of t.ctx (replaced after every execution)
  ctxDone : Bool := false       -- current t.ctx cancelled by Cancel
  sp : Nat := 0                 -- executor goroutines started, function not yet entered
  fn : Nat := 0                 -- goroutines inside the task function
  dn : Nat := 0                 -- function returned, deferred section not yet executed
  -- history
  subs : Nat := 0               -- effective submissions: Queue/QueuePrioritized/StartASAP from outside, scheduled time come
  starts : Nat := 0             -- executions started
  userSub : Bool := false       -- submitted from outside since the last start
  owed : Bool := false          -- submitted (or scheduled time come) and not started since
  dropped : Bool := false       -- the pending request was discarded because the task was executing when dequeued
  prom : Bool := false          -- the schedule handler saw the scheduled time come (not yet consumed by a start)
  promAt : Nat := 0             -- the scheduled time it saw
  eaUser : Bool := false        -- executeAt holds a time given to Schedule
  schedHist : List Nat := []    -- all non-zero times given to Schedule
  byQh : Bool := false          -- current execution was started by the queue handler
  tmo : Bool := false           -- the slot watcher of the current execution gave up (maxExecutionWait)
  qAt : Nat := 0                -- clock reading of the last queueing call that armed the max-delay entry
  qMd : Nat := 0                -- the max delay that call used
deriving Repr

inductive QH where
  | idle | waiting | ready | hold (t : Nat) | pre (t : Nat)
deriving DecidableEq, Repr

inductive SH where
  | idle | holdRun (t : Nat) | holdAsap (t : Nat) | pre (t : Nat)
deriving DecidableEq, Repr

structure Watcher where
  t : Nat
  gen : Nat
  byQh : Bool
  tm : Nat      -- clock reading when the watcher was started
deriving DecidableEq, Repr

structure St where
  now : Nat := 0
  clock : Nat := 0              -- history: submission stamp counter
  qkey : Nat → Nat := fun _ => 0  -- history: stamp of the submission that put the task into the normal queue
  pkey : Nat → Int := fun _ => 0  -- history: prioritized queue: +stamp (QueuePrioritized) or -stamp (StartASAP)
  tasks : Nat → Task := fun _ => {}
  queue : List Nat := []
  prio : List Nat := []
  sched : List Nat := []
  wg : Nat := 0                 -- queueWg counter
  watchers : List Watcher := []
  qh : QH := .idle
  sh : SH := .idle

def init : St := {}

inductive Act where
  | newInert (t : Nat)   -- NewTask on a nil / not-online module: the task is born cancelled, without max delay
  | queue (t : Nat)
  | queueP (t : Nat)
  | asap (t : Nat) (bySh : Bool)
  | maxDelay (t d : Nat)
  | schedule (t tm : Nat)
  | cancel (t : Nat)
  | qhWait
  | qhPop
  | runQ
  | runS
  | spawnQ
  | spawnS
  | fnBegin (t : Nat)
  | fnEnd (t : Nat)
  | finish (t : Nat)
  | slotFree (t : Nat) (timeout : Bool)
  | shFetch
deriving DecidableEq, Repr

/-- Result of the locked check section of `runWithLocking`. -/
inductive RunRes where
  | stale | executing | inactive | started
deriving DecidableEq, Repr

/-- Result of the schedule handler's fetch section. -/
inductive FetchRes where
  | none | notDue (t : Nat) | run (t : Nat) | asap (t : Nat)
deriving DecidableEq, Repr

def setTask (s : St) (t : Nat) (k : Task) : St :=
  { s with tasks := fun x => if x = t then k else s.tasks x }

/-- `addToSchedule`: position of a task with time `at` relative to the other entries: before the first
    entry whose `executeAt` is strictly later, else at the end. -/
def insertSched (ea : Nat → Nat) (t tm : Nat) : List Nat → List Nat
  | [] => [t]
  | e :: es => if tm < ea e then t :: e :: es else e :: insertSched ea t tm es

/-- `isActive` for a task of an online module. -/
def Task.active (k : Task) : Bool := !k.canceled

/-- New content of the schedule list after `addToSchedule` of task `t` with time `tm`. -/
def schedWith (s : St) (t tm : Nat) : List Nat :=
  insertSched (fun x => (s.tasks x).executeAt) t tm (s.sched.erase t)

/-- `prepForQueueing` of an active task, record part: arms the max-delay entry if `maxDelay != 0`. -/
def Task.prepped (k : Task) (now : Nat) : Task :=
  if k.maxDelay != 0 then
    { k with executeAt := now + k.maxDelay, eaUser := false, overtime := true, inS := true,
             qAt := now, qMd := k.maxDelay }
  else k

/-- `prepForQueueing` of an active task, schedule part. -/
def prepSched (s : St) (t : Nat) : List Nat :=
  let k := s.tasks t
  if k.maxDelay != 0 then schedWith s t (s.now + k.maxDelay) else s.sched

/-- Record after `removeFromQueues`. -/
def Task.removed (k : Task) : Task :=
  { k with inQ := false, inP := false, inS := false, overtime := if k.inS then false else k.overtime }

/-- `removeFromQueues`, list parts. -/
def rmQueue (s : St) (t : Nat) : List Nat := if (s.tasks t).inQ then s.queue.erase t else s.queue
def rmPrio (s : St) (t : Nat) : List Nat := if (s.tasks t).inP then s.prio.erase t else s.prio
def rmSched (s : St) (t : Nat) : List Nat := if (s.tasks t).inS then s.sched.erase t else s.sched

/-- History bookkeeping of a submission from outside. -/
def Task.submitted (k : Task) : Task :=
  { k with subs := k.subs + 1, userSub := true, owed := true, dropped := false }

/-- `Queue`. -/
def doQueue (s : St) (t : Nat) : St :=
  let k := s.tasks t
  if !k.active then s else
  let k1 := (k.prepped s.now).submitted
  if k1.inQ then
    { setTask s t k1 with sched := prepSched s t, clock := s.clock + 1 }
  else
    { setTask s t { k1 with inQ := true } with
      sched := prepSched s t, queue := s.queue ++ [t], clock := s.clock + 1,
      qkey := fun x => if x = t then s.clock + 1 else s.qkey x }

/-- `QueuePrioritized`. -/
def doQueueP (s : St) (t : Nat) : St :=
  let k := s.tasks t
  if !k.active then s else
  let k1 := (k.prepped s.now).submitted
  if k1.inP then
    { setTask s t k1 with sched := prepSched s t, clock := s.clock + 1 }
  else
    { setTask s t { k1 with inP := true } with
      sched := prepSched s t, prio := s.prio ++ [t], clock := s.clock + 1,
      pkey := fun x => if x = t then ((s.clock + 1 : Nat) : Int) else s.pkey x }

/-- `StartASAP`; `bySh`: called by the schedule handler for a task whose scheduled time has come. -/
def doAsap (s : St) (t : Nat) (bySh : Bool) : St :=
  let sh' := if bySh then SH.idle else s.sh
  let k := s.tasks t
  if !k.active then { s with sh := sh' } else
  let k1 := if bySh then k.prepped s.now else (k.prepped s.now).submitted
  if !k1.inP then
    { setTask s t { k1 with inP := true } with
      sched := prepSched s t, prio := t :: s.prio, clock := s.clock + 1, sh := sh',
      pkey := fun x => if x = t then - ((s.clock + 1 : Nat) : Int) else s.pkey x }
  else if s.prio.contains t then
    { setTask s t k1 with
      sched := prepSched s t, prio := t :: s.prio.erase t, clock := s.clock + 1, sh := sh',
      pkey := fun x => if x = t then - ((s.clock + 1 : Nat) : Int) else s.pkey x }
  else
    { setTask s t k1 with sched := prepSched s t, clock := s.clock + 1, sh := sh' }

/-- `Schedule`. -/
def doSchedule (s : St) (t tm : Nat) : St :=
  let k := s.tasks t
  if tm = 0 then
    -- Schedule(zero) withdraws the task from all lists
    { setTask s t { k.removed with executeAt := 0, eaUser := false, owed := false } with
      queue := rmQueue s t, prio := rmPrio s t, sched := rmSched s t }
  else if !k.active then
    setTask s t { k with executeAt := tm, eaUser := true, schedHist := tm :: k.schedHist }
  else
    { setTask s t { k with executeAt := tm, eaUser := true, schedHist := tm :: k.schedHist, inS := true } with
      sched := schedWith s t tm }

/-- `Cancel`. -/
def doCancel (s : St) (t : Nat) : St :=
  let k := s.tasks t
  setTask s t { k with canceled := true, ctxDone := true }

/-- Which branch the locked check section of `runWithLocking` takes for task `t`. -/
def runResOf (s : St) (t : Nat) : RunRes :=
  let k := s.tasks t
  if !k.inQ && !k.inP && k.active then .stale
  else if k.executing then .executing
  else if !k.active then .inactive
  else .started

/-- The locked check section of `runWithLocking` for task `t`;
    `keepProm`: the schedule handler is about to call `StartASAP` on this task. -/
def runSection (s : St) (t : Nat) (keepProm : Bool) : St :=
  let k := s.tasks t
  match runResOf s t with
  | .stale => s
  | .executing =>
    { setTask s t { k.removed with dropped := k.owed } with
      queue := rmQueue s t, prio := rmPrio s t, sched := rmSched s t }
  | .inactive =>
    { setTask s t k.removed with queue := rmQueue s t, prio := rmPrio s t, sched := rmSched s t }
  | .started =>
    { setTask s t { k.removed with executing := true, executeAt := 0, eaUser := false, starts := k.starts + 1,
                                   userSub := false, owed := false, dropped := false,
                                   prom := k.prom && keepProm } with
      queue := rmQueue s t, prio := rmPrio s t, sched := rmSched s t }

def released (s : St) (w : Watcher) : Bool :=
  let k := s.tasks w.t
  decide (w.gen < k.gen) || (w.gen == k.gen && k.ctxDone)

/-- The fetch section of `taskScheduleHandler` on the first entry of the schedule. The order in which the
    section tests "not yet due" (`now.Before(t.executeAt)`) and `t.overtime`, and what it does in each case,
    is `PB.Gen.Tasks.fetchOut`, regenerated from the source on every run. -/
def fetchRes (s : St) : FetchRes :=
  match s.sched with
  | [] => .none
  | t :: _ =>
    let k := s.tasks t
    match PB.Gen.Tasks.fetchOut (decide (s.now < k.executeAt)) k.overtime with
    | .notDue => .notDue t
    | .run => .run t
    | .asap => .asap t

def qhHolds (s : St) (t : Nat) : Bool := s.qh == .hold t
def shHoldsAsap (s : St) (t : Nat) : Bool := s.sh == .holdAsap t

def setNow (s : St) (n : Nat) : St := { s with now := n }
def setQh (s : St) (q : QH) : St := { s with qh := q }
def setSh (s : St) (q : SH) : St := { s with sh := q }

/-- One step; `s.now` is the clock reading of the step. -/
def stepAt (s : St) (a : Act) : Option St :=
  match a with
  | .newInert t => some (setTask s t { s.tasks t with canceled := true, maxDelay := 0 })
  | .queue t => some (doQueue s t)
  | .queueP t => some (doQueueP s t)
  | .asap t bySh =>
    if bySh && s.sh != .holdAsap t then none else some (doAsap s t bySh)
  | .maxDelay t d => some (setTask s t { s.tasks t with maxDelay := d })
  | .schedule t tm => some (doSchedule s t tm)
  | .cancel t => some (doCancel s t)
  | .qhWait =>
    if s.qh != .idle then none else some { s with qh := if s.wg = 0 then .ready else .waiting }
  | .qhPop =>
    if s.qh != .ready then none else
    match s.prio with
    | t :: ps => some { s with prio := ps, qh := .hold t }
    | [] =>
      match s.queue with
      | t :: qs => some { s with queue := qs, qh := .hold t }
      | [] => some { s with qh := .idle }
  | .runQ =>
    match s.qh with
    | .hold t =>
      some (setQh (runSection s t (shHoldsAsap s t)) (if runResOf s t = .started then .pre t else .idle))
    | _ => none
  | .runS =>
    match s.sh with
    | .holdRun t =>
      some (setSh (runSection s t false) (if runResOf s t = .started then .pre t else .idle))
    | _ => none
  | .spawnQ =>
    match s.qh with
    | .pre t =>
      let k := s.tasks t
      some { setTask s t { k with sp := k.sp + 1, byQh := true, tmo := false } with
             wg := s.wg + 1, watchers := ⟨t, k.gen, true, s.now⟩ :: s.watchers, qh := .idle }
    | _ => none
  | .spawnS =>
    match s.sh with
    | .pre t =>
      let k := s.tasks t
      some { setTask s t { k with sp := k.sp + 1, byQh := false, tmo := false } with
             wg := s.wg + 1, watchers := ⟨t, k.gen, false, s.now⟩ :: s.watchers, sh := .idle }
    | _ => none
  | .fnBegin t =>
    let k := s.tasks t
    if k.sp = 0 then none else some (setTask s t { k with sp := k.sp - 1, fn := k.fn + 1 })
  | .fnEnd t =>
    let k := s.tasks t
    if k.fn = 0 then none else some (setTask s t { k with fn := k.fn - 1, dn := k.dn + 1 })
  | .finish t =>
    let k := s.tasks t
    if k.dn = 0 then none else
    some (setTask s t { k with dn := k.dn - 1, executing := false, gen := k.gen + 1, ctxDone := false, tmo := false })
  | .slotFree t timeout =>
    match s.watchers.find? (fun w => w.t == t && (released s w || (timeout && decide (w.tm + maxExecutionWait ≤ s.now)))) with
    | none => none
    | some w =>
      if s.wg = 0 then none else
      let k := s.tasks t
      let k2 : Task := if timeout && !released s w && w.gen == k.gen then { k with tmo := true } else k
      some { setTask s t k2 with
             watchers := s.watchers.erase w
             wg := s.wg - 1
             qh := if s.wg - 1 = 0 && s.qh == .waiting then .ready else s.qh }
  | .shFetch =>
    if s.sh != .idle then none else
    match fetchRes s with
    | .none => some s
    | .notDue _ => some s
    | .run t => some { setTask s t { s.tasks t with overtime := false } with sh := .holdRun t }
    | .asap t =>
      let k := s.tasks t
      some { setTask s t { k with overtime := true, prom := true, promAt := k.executeAt,
                                  subs := k.subs + 1, owed := true, dropped := false } with sh := .holdAsap t }

/-- One step at clock reading `now` (the clock never goes back). -/
def step (s : St) (now : Nat) (a : Act) : Option St :=
  if now < s.now then none else stepAt (setNow s now) a

/-- States reachable from the initial state by any sequence of steps at non-decreasing clock readings. -/
inductive Reachable : St → Prop where
  | init : Reachable init
  | step {s s' : St} (now : Nat) (a : Act) : Reachable s → step s now a = some s' → Reachable s'

/-- Run a trace (for examples). -/
def runTrace (s : St) : List (Nat × Act) → Option St
  | [] => some s
  | (n, a) :: rest => match step s n a with
    | none => none
    | some s' => runTrace s' rest

end PB.Tasks
