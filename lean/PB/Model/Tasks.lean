import PB.Gen.Tasks
/-
Model of the task scheduler of safing/portbase `modules/tasks.go` (as of the `fix:` commits of branch
verif-c07), written branch by branch from the Go source.

Granularity: one action per section that the Go code executes under `Task.lock` (API calls, the check
section of `runWithLocking`, the deferred section of `executeWithLocking`), per handler section under
`queuesLock` / `scheduleLock` (pop, schedule fetch), plus the lock-free steps in between (queueWg.Wait
entry, queueWg.Add + goroutine start, function begin / end, slot watcher release). The handler's pick and
the later locked section on the picked task are separate actions, so stale picks are part of the model.

Not modelled (see notes/c07.md): modules that are not online, `Repeat`, the wake-up channels
`queueIsFilled` / `notifyTaskScheduler` (handlers may take their step whenever it is enabled), the
timeslot wait, panics of task functions.

Fields marked "history" do not exist in the Go code; they record what happened (number of submissions and
starts, submission stamps, ...) so that the property can be stated. They never influence a non-history field.
-/
namespace PB.Tasks

/-- `defaultMaxDelay` in nanoseconds, regenerated from the source on every run. -/
abbrev defaultMaxDelay : Nat := PB.Gen.Tasks.defaultMaxDelay
/-- `maxExecutionWait` in nanoseconds, regenerated from the source on every run. -/
abbrev maxExecutionWait : Nat := PB.Gen.Tasks.maxExecutionWait

structure Task where
  canceled : Bool := false
  executing : Bool := false
  overtime : Bool := false
  executeAt : Nat := 0          -- 0 = zero time
  maxDelay : Nat := defaultMaxDelay
  inQ : Bool := false           -- queueElement != nil
  inP : Bool := false           -- prioritizedQueueElement != nil
  inS : Bool := false           -- scheduleListElement != nil
  gen : Nat := 0                -- generation of t.ctx (replaced after every execution)
  ctxDone : Bool := false       -- current t.ctx cancelled by Cancel
  sp : Nat := 0                 -- executor goroutines started, function not yet entered
  fn : Nat := 0                 -- goroutines inside the task function
  dn : Nat := 0                 -- function returned, deferred section not yet executed
  -- history
  subs : Nat := 0               -- effective submissions: Queue/QueuePrioritized/StartASAP from outside, scheduled time come
  starts : Nat := 0             -- executions started
  userSub : Bool := false       -- submitted from outside since the last start
  owed : Bool := false          -- submitted (or scheduled time come) and not started since
  dropped : Bool := false       -- the pending request was discarded because the task was executing when dequeued
  prom : Bool := false          -- the schedule handler saw the scheduled time come (not yet consumed by a start)
  promAt : Nat := 0             -- the scheduled time it saw
  eaUser : Bool := false        -- executeAt holds a time given to Schedule
  schedHist : List Nat := []    -- all non-zero times given to Schedule
  qkey : Nat := 0               -- stamp of the submission that put the task into the normal queue
  pkey : Int := 0               -- prioritized queue: +stamp (QueuePrioritized) or -stamp (StartASAP)
  byQh : Bool := false          -- current execution was started by the queue handler
  tmo : Bool := false           -- the slot watcher of the current execution gave up (maxExecutionWait)
deriving Repr

inductive QH where
  | idle | waiting | ready | hold (t : Nat) | pre (t : Nat)
deriving DecidableEq, Repr

inductive SH where
  | idle | holdRun (t : Nat) | holdAsap (t : Nat) | pre (t : Nat)
deriving DecidableEq, Repr

structure Watcher where
  t : Nat
  gen : Nat
  byQh : Bool
  tm : Nat      -- clock reading when the watcher was started
deriving DecidableEq, Repr

structure St where
  now : Nat := 0
  clock : Nat := 0              -- history: submission stamp counter
  tasks : Nat → Task := fun _ => {}
  queue : List Nat := []
  prio : List Nat := []
  sched : List Nat := []
  wg : Nat := 0                 -- queueWg counter
  watchers : List Watcher := []
  qh : QH := .idle
  sh : SH := .idle

def init : St := {}

inductive Act where
  | newInert (t : Nat)   -- NewTask on a nil / not-online module: the task is born cancelled, without max delay
  | queue (t : Nat)
  | queueP (t : Nat)
  | asap (t : Nat) (bySh : Bool)
  | maxDelay (t d : Nat)
  | schedule (t tm : Nat)
  | cancel (t : Nat)
  | qhWait
  | qhPop
  | runQ
  | runS
  | spawnQ
  | spawnS
  | fnBegin (t : Nat)
  | fnEnd (t : Nat)
  | finish (t : Nat)
  | slotFree (t : Nat) (timeout : Bool)
  | shFetch
deriving DecidableEq, Repr

/-- Result of the locked check section of `runWithLocking`. -/
inductive RunRes where
  | stale | executing | inactive | started
deriving DecidableEq, Repr

/-- Result of the schedule handler's fetch section. -/
inductive FetchRes where
  | none | notDue (t : Nat) | run (t : Nat) | asap (t : Nat)
deriving DecidableEq, Repr

def setTask (s : St) (t : Nat) (k : Task) : St :=
  { s with tasks := fun x => if x = t then k else s.tasks x }

/-- `addToSchedule`: position of a task with time `at` relative to the other entries: before the first
    entry whose `executeAt` is strictly later, else at the end. -/
def insertSched (ea : Nat → Nat) (t tm : Nat) : List Nat → List Nat
  | [] => [t]
  | e :: es => if tm < ea e then t :: e :: es else e :: insertSched ea t tm es

/-- `isActive` for a task of an online module. -/
def Task.active (k : Task) : Bool := !k.canceled

/-- `addToSchedule(overtime)` for task `t` whose record (with the new `executeAt`) is `k`. -/
def addToSchedule (s : St) (t : Nat) (k : Task) (ot : Bool) : St :=
  if !k.active then setTask s t k else
  let k' := { k with overtime := k.overtime || ot, inS := true }
  let ea := fun x => (s.tasks x).executeAt
  { setTask s t k' with sched := insertSched ea t k.executeAt (s.sched.erase t) }

/-- `prepForQueueing`: `none` if the task is not active. -/
def prep (s : St) (t : Nat) : Option St :=
  let k := s.tasks t
  if !k.active then none else
  if k.maxDelay != 0 then
    some (addToSchedule s t { k with executeAt := s.now + k.maxDelay, eaUser := false } true)
  else some s

/-- `removeFromQueues`. -/
def removeFromQueues (s : St) (t : Nat) : St :=
  let k := s.tasks t
  let s1 := if k.inQ then { s with queue := s.queue.erase t } else s
  let s2 := if k.inP then { s1 with prio := s1.prio.erase t } else s1
  let s3 := if k.inS then { s2 with sched := s2.sched.erase t } else s2
  setTask s3 t { k with inQ := false, inP := false, inS := false, overtime := if k.inS then false else k.overtime }

/-- History bookkeeping of a submission from outside. -/
def Task.submitted (k : Task) : Task :=
  { k with subs := k.subs + 1, userSub := true, owed := true, dropped := false }

def doQueue (s : St) (t : Nat) : St :=
  match prep s t with
  | none => s
  | some s1 =>
    let k := (s1.tasks t).submitted
    if k.inQ then { setTask s1 t k with clock := s1.clock + 1 }
    else { setTask s1 t { k with inQ := true, qkey := s1.clock + 1 } with
           queue := s1.queue ++ [t], clock := s1.clock + 1 }

def doQueueP (s : St) (t : Nat) : St :=
  match prep s t with
  | none => s
  | some s1 =>
    let k := (s1.tasks t).submitted
    if k.inP then { setTask s1 t k with clock := s1.clock + 1 }
    else { setTask s1 t { k with inP := true, pkey := ((s1.clock + 1 : Nat) : Int) } with
           prio := s1.prio ++ [t], clock := s1.clock + 1 }

/-- `StartASAP`; `bySh`: called by the schedule handler for a task whose scheduled time has come. -/
def doAsap (s : St) (t : Nat) (bySh : Bool) : St :=
  let s0 := if bySh then { s with sh := .idle } else s
  match prep s0 t with
  | none => s0
  | some s1 =>
    let k := if bySh then s1.tasks t else (s1.tasks t).submitted
    if !k.inP then
      { setTask s1 t { k with inP := true, pkey := - ((s1.clock + 1 : Nat) : Int) } with
        prio := t :: s1.prio, clock := s1.clock + 1 }
    else if s1.prio.contains t then
      { setTask s1 t { k with pkey := - ((s1.clock + 1 : Nat) : Int) } with
        prio := t :: s1.prio.erase t, clock := s1.clock + 1 }
    else { setTask s1 t k with clock := s1.clock + 1 }

def doSchedule (s : St) (t tm : Nat) : St :=
  let k := s.tasks t
  if tm = 0 then
    -- Schedule(zero) withdraws the task from all lists
    removeFromQueues (setTask s t { k with executeAt := 0, eaUser := false, owed := false }) t
  else
    addToSchedule s t { k with executeAt := tm, eaUser := true, schedHist := tm :: k.schedHist } false

def doCancel (s : St) (t : Nat) : St :=
  let k := s.tasks t
  setTask s t { k with canceled := true, ctxDone := true }

/-- The locked check section of `runWithLocking` for task `t`. -/
def runSection (s : St) (t : Nat) (shHoldsAsap : Bool) : St × RunRes :=
  let k := s.tasks t
  if !k.inQ && !k.inP && k.active then (s, .stale) else
  let s1 := removeFromQueues s t
  let k1 := s1.tasks t
  if k1.executing then (setTask s1 t { k1 with dropped := k1.owed }, .executing) else
  if !k1.active then (s1, .inactive) else
  (setTask s1 t { k1 with executing := true, executeAt := 0, eaUser := false, starts := k1.starts + 1,
                          userSub := false, owed := false, dropped := false,
                          prom := k1.prom && shHoldsAsap }, .started)

def released (s : St) (w : Watcher) : Bool :=
  let k := s.tasks w.t
  decide (w.gen < k.gen) || (w.gen == k.gen && k.ctxDone)

def fetchRes (s : St) (now : Nat) : FetchRes :=
  match s.sched with
  | [] => .none
  | t :: _ =>
    let k := s.tasks t
    if now < k.executeAt then .notDue t
    else if k.overtime then .run t else .asap t

def qhHolds (s : St) (t : Nat) : Bool := s.qh == .hold t
def shHoldsAsap (s : St) (t : Nat) : Bool := s.sh == .holdAsap t

/-- One step at clock reading `now` (the clock never goes back). -/
def step (s : St) (now : Nat) (a : Act) : Option St :=
  if now < s.now then none else
  let s := { s with now := now }
  match a with
  | .newInert t => some (setTask s t { s.tasks t with canceled := true, maxDelay := 0 })
  | .queue t => some (doQueue s t)
  | .queueP t => some (doQueueP s t)
  | .asap t bySh =>
    if bySh && s.sh != .holdAsap t then none else some (doAsap s t bySh)
  | .maxDelay t d => some (setTask s t { s.tasks t with maxDelay := d })
  | .schedule t tm => some (doSchedule s t tm)
  | .cancel t => some (doCancel s t)
  | .qhWait =>
    if s.qh != .idle then none else some { s with qh := if s.wg = 0 then .ready else .waiting }
  | .qhPop =>
    if s.qh != .ready then none else
    match s.prio with
    | t :: ps => some { s with prio := ps, qh := .hold t }
    | [] =>
      match s.queue with
      | t :: qs => some { s with queue := qs, qh := .hold t }
      | [] => some { s with qh := .idle }
  | .runQ =>
    match s.qh with
    | .hold t =>
      let (s1, r) := runSection s t (shHoldsAsap s t)
      some { s1 with qh := if r = .started then .pre t else .idle }
    | _ => none
  | .runS =>
    match s.sh with
    | .holdRun t =>
      let (s1, r) := runSection s t false
      some { s1 with sh := if r = .started then .pre t else .idle }
    | _ => none
  | .spawnQ =>
    match s.qh with
    | .pre t =>
      let k := s.tasks t
      some { setTask s t { k with sp := k.sp + 1, byQh := true, tmo := false } with
             wg := s.wg + 1, watchers := ⟨t, k.gen, true, now⟩ :: s.watchers, qh := .idle }
    | _ => none
  | .spawnS =>
    match s.sh with
    | .pre t =>
      let k := s.tasks t
      some { setTask s t { k with sp := k.sp + 1, byQh := false, tmo := false } with
             wg := s.wg + 1, watchers := ⟨t, k.gen, false, now⟩ :: s.watchers, sh := .idle }
    | _ => none
  | .fnBegin t =>
    let k := s.tasks t
    if k.sp = 0 then none else some (setTask s t { k with sp := k.sp - 1, fn := k.fn + 1 })
  | .fnEnd t =>
    let k := s.tasks t
    if k.fn = 0 then none else some (setTask s t { k with fn := k.fn - 1, dn := k.dn + 1 })
  | .finish t =>
    let k := s.tasks t
    if k.dn = 0 then none else
    some (setTask s t { k with dn := k.dn - 1, executing := false, gen := k.gen + 1, ctxDone := false, tmo := false })
  | .slotFree t timeout =>
    match s.watchers.find? (fun w => w.t == t && (released s w || (timeout && decide (w.tm + maxExecutionWait ≤ now)))) with
    | none => none
    | some w =>
      if s.wg = 0 then none else
      let k := s.tasks t
      let s1 := if timeout && !released s w && w.gen == k.gen then setTask s t { k with tmo := true } else s
      some { s1 with watchers := s.watchers.erase w, wg := s.wg - 1,
                     qh := if s.wg - 1 = 0 && s.qh == .waiting then .ready else s.qh }
  | .shFetch =>
    if s.sh != .idle then none else
    match fetchRes s now with
    | .none => some s
    | .notDue _ => some s
    | .run t => some { setTask s t { s.tasks t with overtime := false } with sh := .holdRun t }
    | .asap t =>
      let k := s.tasks t
      some { setTask s t { k with overtime := true, prom := true, promAt := k.executeAt,
                                  subs := k.subs + 1, owed := true, dropped := false } with sh := .holdAsap t }

/-- Result of the check section that `runQ` / `runS` would report in state `s` (for the driver). -/
def runResOf (s : St) (t : Nat) : RunRes := (runSection s t false).2

/-- States reachable from the initial state by any sequence of steps at non-decreasing clock readings. -/
inductive Reachable : St → Prop where
  | init : Reachable init
  | step {s s' : St} (now : Nat) (a : Act) : Reachable s → step s now a = some s' → Reachable s'

/-- Run a trace (for examples). -/
def runTrace (s : St) : List (Nat × Act) → Option St
  | [] => some s
  | (n, a) :: rest => match step s n a with
    | none => none
    | some s' => runTrace s' rest

end PB.Tasks
