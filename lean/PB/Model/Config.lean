import PB.Bytes
/-
Model of /repo/config: option registry, the three value layers of an option, the release-level gate,
`validateValue` / `isAllowedPossibleValue` / `migrateValue` with the Go/JSON type dispatch,
`getValueCache` and the four getter kinds (plain, `Concurrent`, `Perspective`), the getter closures with
their cached validity flag (sequential view: flag = generation number), `setConfigOption`,
`setDefaultConfigOption`, `ReplaceConfig`, `ReplaceDefaultConfig`, `ValidateConfig`,
`SaveConfig` / `loadConfig` through `Expand` / `Flatten`.

Written branch by branch from get.go, get-safe.go, set.go, validate.go, registry.go, release.go,
persistence.go, perspective.go, main.go (as they are after the `fix:` commits of branch verif-c04).

Not modelled (parameters with contracts, see props/C04.json): `regexp` (a fixed catalogue of patterns is
re-implemented by hand, the generated `^(a|b)$` pattern is membership), `encoding/json` (a JSON file is its
flattened path → value map; ints come back as floats), validation / migration functions (a fixed
catalogue), the module event system, the database push of updates, annotations.

Keys are lists of path segments (`a/b/c` = `["a","b","c"]`): `Expand` splits on `/`, `Flatten` joins with
`path.Join`; for clean segments (non-empty, not `.`/`..`, no `/`) this is list append. Unclean keys are
outside the model and run on the implementation only.
-/
namespace PB.Config

abbrev Key := List String

/-- `OptionType` (optTypeAny = 0 cannot be registered). -/
inductive OptType where
  | str | strs | int | bool
  deriving DecidableEq, Repr, Inhabited

/-- The Go integer kinds accepted by `validateValue` (uint64 is "omitted, as it does not fit"). -/
inductive IKind where
  | int | i8 | i16 | i32 | i64 | uint | u8 | u16 | u32
  deriving DecidableEq, Repr, Inhabited

/-- A value handed to a setter: Go-typed or JSON-decoded. Floats are sign/magnitude with an optional
    half (`mag + 1/2`), which covers integral floats incl. `-0` and a class of non-integral ones;
    magnitudes are within the exactly representable range (generator constraint, ±2^53 / ±2^24). -/
inductive Val where
  | nil
  | str (s : String)
  | strs (l : List String)                 -- []string
  | anys (l : List (Option String))        -- []interface{}: `none` = an entry that is not a string
  | int (k : IKind) (n : Int)
  | u64 (n : Nat)                          -- uint64: not accepted
  | flt (w32 neg : Bool) (mag : Nat) (half : Bool)
  | bool (b : Bool)
  | bytes (hex : String)                   -- []byte: convertible from string, not comparable
  | other (tag : String)                   -- maps, structs, other slices
  deriving DecidableEq, Repr, Inhabited

/-- A `PossibleValue.Value` (generator constraint: string for string / string-array options, Go `int`
    with |n| ≤ 2^24 for int options, bool for bool options). -/
inductive PV where
  | s (x : String) | i (n : Int) | b (x : Bool)
  deriving DecidableEq, Repr, Inhabited

/-- `valueCache`: one field per option type, only the field of the option's type is ever filled. -/
structure Cache where
  s : String := ""
  a : List String := []
  i : Int := 0
  b : Bool := false
  deriving DecidableEq, Repr, Inhabited

/-- What a getter hands out. -/
inductive GVal where
  | s (x : String) | a (x : List String) | i (x : Int) | b (x : Bool)
  deriving DecidableEq, Repr, Inhabited

def GVal.ty : GVal → OptType
  | .s _ => .str | .a _ => .strs | .i _ => .int | .b _ => .bool

/-- `valueCache.stringVal` / `.stringArrayVal` / `.intVal` / `.boolVal`. -/
def Cache.proj (c : Cache) : OptType → GVal
  | .str => .s c.s | .strs => .a c.a | .int => .i c.i | .bool => .b c.b

/-- Error classes of `validateValue` (by message). -/
inductive VErr where
  | notAllowed       -- "value is not allowed"
  | type             -- "expected type %s, got type %T"
  | regex            -- "did not match validation regex"
  | entryNotString   -- "entry #%d is not a string"
  | entryRegex       -- "entry #%d did not match validation regex"
  | entryNotAllowed  -- "entry #%d is not allowed"
  | float            -- "failed to convert float to int64"
  | badType          -- "invalid option value type: %T"
  | func             -- error of the ValidationFunc
  deriving DecidableEq, Repr, Inhabited

/-! ### Regular expressions: a catalogue re-implemented by hand, plus the pattern generated from PossibleValues -/

def isLower (c : Char) : Bool := 'a' ≤ c && c ≤ 'z'
def isDigit (c : Char) : Bool := '0' ≤ c && c ≤ '9'

/-- Catalogue (the Go patterns are in harness/cmd/hx-c04/main.go `regexCatalogue`, same indices):
    1 `^[a-z]+$`, 2 `^[0-9]+$`, 3 `^-?[0-9]{1,3}$`, 4 `^(ab|cd)`, 5 `x`, 6 `^[a-c]*$`. -/
def rxCat (i : Nat) (s : String) : Bool :=
  let cs := s.toList
  match i with
  | 1 => !cs.isEmpty && cs.all isLower
  | 2 => !cs.isEmpty && cs.all isDigit
  | 3 =>
    let ds := match cs with | '-' :: r => r | r => r
    !ds.isEmpty && ds.length ≤ 3 && ds.all isDigit
  | 4 => (cs.take 2 == ['a', 'b']) || (cs.take 2 == ['c', 'd'])
  | 5 => cs.contains 'x'
  | 6 => cs.all (fun c => 'a' ≤ c && c ≤ 'c')
  | _ => false

/-- `option.compiledRegex`. -/
inductive Rx where
  | none
  | cat (i : Nat)
  | alts (l : List String)    -- `^(v1|v2|…)$` generated by Register from the PossibleValues (regex-safe literals)
  deriving DecidableEq, Repr, Inhabited

def Rx.isNone : Rx → Bool
  | .none => true | _ => false

/-- `compiledRegex == nil || compiledRegex.MatchString(s)` is `rx.isNone || rx.matches s`. -/
def Rx.matches : Rx → String → Bool
  | .none, _ => true
  | .cat i, s => rxCat i s
  | .alts [], s => s == ""          -- `^()$`
  | .alts l, s => l.contains s

/-- `fmt.Sprintf("%v", val.Value)` for the possible values of the generated pattern. -/
def PV.fmt : PV → String
  | .s x => x
  | .i n => toString n
  | .b true => "true"
  | .b false => "false"

/-! ### Validation and migration functions: catalogue -/

/-- `option.ValidationFunc(value) == nil`; 0 = no function. The function receives the validated value of the
    option's type. 1: ints must be even; 2: int ≤ 100, string length ≤ 5, at most 3 entries, bool must be true;
    3: rejects everything. -/
def vfOk (vf : Nat) (ty : OptType) (c : Cache) : Bool :=
  match vf with
  | 0 => true
  | 1 => match ty with | .int => c.i % 2 == 0 | _ => true
  | 2 => match ty with
    | .int => c.i ≤ 100
    | .str => c.s.length ≤ 5
    | .strs => c.a.length ≤ 3
    | .bool => c.b
  | _ => false

/-- One `MigrationFunc`; 0 = none. 1: the string "old" becomes "new"; 2: a bool becomes the string "yes"/"no". -/
def migrate (mg : Nat) (v : Val) : Val :=
  match mg with
  | 1 => if v = .str "old" then .str "new" else v
  | 2 => match v with | .bool true => .str "yes" | .bool false => .str "no" | _ => v
  | _ => v

/-! ### Options and state -/

structure Opt where
  key : Key
  ty : OptType
  rl : Nat                          -- ReleaseLevel 0/1/2
  rx : Rx := .none                  -- compiledRegex
  pvs : Option (List PV) := none    -- PossibleValues (nil / non-nil)
  vf : Nat := 0
  mg : Nat := 0
  user : Option Cache := none       -- activeValue
  dflt : Option Cache := none       -- activeDefaultValue
  fallback : Cache := {}            -- activeFallbackValue
  deriving DecidableEq, Repr, Inhabited

/-- config.json: absent, not parseable as a JSON object, or a tree given by its leaves
    (path → JSON-decoded value); an empty object is the empty leaf list. -/
inductive File where
  | absent
  | garbage
  | tree (leaves : List (Key × Val))
  deriving DecidableEq, Repr, Inhabited

structure St where
  opts : List Opt := []
  gate : Nat := 0            -- the atomic `releaseLevel`
  gen : Nat := 0             -- number of validity flags handed out so far (the current flag is the only valid one)
  persist : Bool := true     -- configFilePath != ""
  file : File := .absent
  deriving Repr, Inhabited

def rlKey : Key := ["core", "releaseLevel"]
def elKey : Key := ["core", "expertiseLevel"]

def St.find (st : St) (k : Key) : Option Opt := st.opts.find? (fun o => o.key = k)

/-! ### isAllowedPossibleValue -/

/-- Value range of a Go integer kind. -/
def IKind.fits (k : IKind) (n : Int) : Bool :=
  match k with
  | .int | .i64 => -(2^63 : Int) ≤ n && n < 2^63
  | .i8 => -128 ≤ n && n < 128
  | .i16 => -32768 ≤ n && n < 32768
  | .i32 => -(2^31 : Int) ≤ n && n < 2^31
  | .uint => 0 ≤ n && n < 2^64
  | .u8 => 0 ≤ n && n < 256
  | .u16 => 0 ≤ n && n < 65536
  | .u32 => 0 ≤ n && n < 2^32

/-- The signed value of an integral float. -/
def fltInt (neg : Bool) (mag : Nat) : Int := if neg then -(mag : Int) else (mag : Int)

/-- One round of the loop: the possible value is converted to the type of `value` if that conversion exists
    in both directions and is lossless, then compared with `==` (only for comparable types), then DeepEqual. -/
def pvEq (p : PV) (v : Val) : Bool :=
  match p, v with
  | .s x, .str y => x == y
  | .i n, .int k m => k.fits n && n == m
  | .i n, .u64 m => 0 ≤ n && n.toNat == m
  | .i n, .flt _ neg mag half => !half && n == fltInt neg mag
  | .b x, .bool y => x == y
  | _, _ => false

def isAllowed (pvs : Option (List PV)) (v : Val) : Bool :=
  match pvs with
  | none => true
  | some l => l.any (fun p => pvEq p v)

/-! ### validateValue -/

def vfCheck (o : Opt) (c : Cache) : Except VErr Cache :=
  if vfOk o.vf o.ty c then .ok c else .error .func

/-- The per-entry loop of the `[]string` case (only entered when a regex is compiled). -/
def entriesCheck (o : Opt) : List String → Except VErr Unit
  | [] => .ok ()
  | e :: rest =>
    if !o.rx.matches e then .error .entryRegex
    else if !isAllowed o.pvs (.str e) then .error .entryNotAllowed
    else entriesCheck o rest

/-- `case []string:` including the trailing ValidationFunc call. -/
def strsBody (o : Opt) (ss : List String) : Except VErr Cache :=
  if o.ty ≠ .strs then .error .type
  else if o.rx.isNone then vfCheck o { a := ss }
  else match entriesCheck o ss with
    | .error e => .error e
    | .ok () => vfCheck o { a := ss }

/-- `validateValue(option, vConverted)` for a `[]string`. -/
def validateStrs (o : Opt) (ss : List String) : Except VErr Cache :=
  if o.ty ≠ .strs ∧ !isAllowed o.pvs (.strs ss) then .error .notAllowed
  else strsBody o ss

/-- All entries of a `[]interface{}` as strings, or `none` at the first entry that is not a string. -/
def allStrings : List (Option String) → Option (List String)
  | [] => some []
  | none :: _ => none
  | some s :: rest => (allStrings rest).map (s :: ·)

/-- The integer cases after the type check: regex on the decimal form of the converted integer, then the function. -/
def intBody (o : Opt) (n : Int) : Except VErr Cache :=
  if !o.rx.matches (toString n) then .error .regex
  else vfCheck o { i := n }

def validate (o : Opt) (v : Val) : Except VErr Cache :=
  if o.ty ≠ .strs ∧ !isAllowed o.pvs v then .error .notAllowed
  else match v with
    | .str s =>
      if o.ty ≠ .str then .error .type
      else if !o.rx.matches s then .error .regex
      else vfCheck o { s := s }
    | .anys l =>
      match allStrings l with
      | none => .error .entryNotString
      | some ss =>
        match validateStrs o ss with
        | .error e => .error e
        | .ok c => vfCheck o c
    | .strs ss => strsBody o ss
    | .int _ n =>
      if o.ty ≠ .int then .error .type else intBody o n
    | .flt _ neg mag half =>
      if o.ty ≠ .int then .error .type
      else if half then .error .float
      else intBody o (fltInt neg mag)
    | .bool b =>
      if o.ty ≠ .bool then .error .type else vfCheck o { b := b }
    | .nil | .u64 _ | .bytes _ | .other _ => .error .badType

/-- `migrateValue` followed by `validateValue`. -/
def check (o : Opt) (v : Val) : Except VErr Cache := validate o (migrate o.mg v)

/-! ### Register -/

inductive RegErr where
  | noKey | badDefault (e : VErr)
  deriving DecidableEq, Repr

/-- The compiled pattern: the explicit `ValidationRegex`, else the one generated from the possible values. -/
def mkRx (rxi : Nat) (pvs : Option (List PV)) : Rx :=
  if rxi ≠ 0 then .cat rxi else match pvs with
    | some l => .alts (l.map PV.fmt)
    | none => .none

/-- The option as `Register` stores it: pattern generated from the possible values if no explicit one,
    default validated into the fallback layer. -/
def mkOpt (key : Key) (ty : OptType) (rl : Nat) (rxi : Nat) (pvs : Option (List PV)) (vf mg : Nat)
    (dv : Val) : Except RegErr Opt :=
  if key = [] then .error .noKey else
  match validate { key := key, ty := ty, rl := rl, rx := mkRx rxi pvs, pvs := pvs, vf := vf, mg := mg } dv with
  | .error e => .error (.badDefault e)
  | .ok c => .ok { key := key, ty := ty, rl := rl, rx := mkRx rxi pvs, pvs := pvs, vf := vf, mg := mg, fallback := c }

/-- `options[option.Key] = option`. -/
def insertOpt (o : Opt) : List Opt → List Opt
  | [] => [o]
  | p :: rest => if p.key = o.key then o :: rest else p :: insertOpt o rest

def register (st : St) (o : Opt) : St := { st with opts := insertOpt o st.opts }

def levelPVs : List PV := [.s "stable", .s "beta", .s "experimental"]
def expertisePVs : List PV := [.s "user", .s "expert", .s "developer"]

def rlOpt : Opt :=
  { key := rlKey, ty := .str, rl := 0, rx := .alts (levelPVs.map PV.fmt), pvs := some levelPVs,
    fallback := { s := "stable" } }

def elOpt : Opt :=
  { key := elKey, ty := .str, rl := 0, rx := .alts (expertisePVs.map PV.fmt), pvs := some expertisePVs,
    fallback := { s := "user" } }

/-- State after package initialisation (`VerifReset`). -/
def init (persist : Bool) : St := { opts := [elOpt, rlOpt], persist := persist }

/-! ### Release level -/

def levelOf (s : String) : Nat :=
  if s = "stable" then 0 else if s = "beta" then 1 else if s = "experimental" then 2 else 0

/-- The value `updateReleaseLevel` looks at: fallback, overridden by the default layer, overridden by the user layer. -/
def layered (o : Opt) : Cache :=
  match o.user with
  | some c => c
  | none => match o.dflt with
    | some c => c
    | none => o.fallback

/-- `handleOptionUpdate` for the release-level option: `updateReleaseLevel`. -/
def updateGate (st : St) : St :=
  match st.find rlKey with
  | some o => { st with gate := levelOf (layered o).s }
  | none => st

/-! ### getValueCache and the getters -/

/-- The layer selection of `getValueCache` under the option lock. -/
def effective (gate : Nat) (o : Opt) : Cache :=
  if o.rl ≤ gate ∧ o.user.isSome then o.user.getD {}
  else if o.dflt.isSome then o.dflt.getD {}
  else o.fallback

/-- `getValueCache`: `none` for an unknown option or a wrong requested type. -/
def getCache (st : St) (k : Key) (ty : OptType) : Option Cache :=
  match st.find k with
  | none => none
  | some o => if ty ≠ o.ty then none else some (effective st.gate o)

/-- A fresh `GetAs…(name, fallback)()` / `Concurrent.GetAs…(name, fallback)()`; the requested type is the type of `fb`. -/
def get (st : St) (k : Key) (fb : GVal) : GVal :=
  match getCache st k fb.ty with
  | some c => c.proj fb.ty
  | none => fb

/-- A getter closure: name, fallback, cached flag (its generation number) and cached value. -/
structure Closure where
  key : Key
  fb : GVal
  flag : Nat
  val : GVal
  deriving DecidableEq, Repr, Inhabited

def mkClosure (st : St) (k : Key) (fb : GVal) : Closure :=
  { key := k, fb := fb, flag := st.gen, val := get st k fb }

/-- One call: re-fetch flag, then value, iff the cached flag is not the current (= only valid) one. -/
def Closure.call (cl : Closure) (st : St) : Closure × GVal :=
  if cl.flag = st.gen then (cl, cl.val)
  else
    let v := get st cl.key cl.fb
    ({ cl with flag := st.gen, val := v }, v)

/-- `config.ValidityFlag` (config/validity.go): holds a pointer to one of the global validity flags, or — before the
    first `Refresh` — a private flag that is never set (`none`). Global flags are numbered by generation; only the
    current one is still set (`signalChanges` unsets the old flag before installing a new one). -/
structure VFlag where
  flag : Option Nat := none
  deriving DecidableEq, Repr, Inhabited

/-- `NewValidityFlag()`: "It always starts out as invalid." -/
def VFlag.new : VFlag := {}

/-- `(*ValidityFlag).IsValid()`. -/
def VFlag.isValid (vf : VFlag) (st : St) : Bool := vf.flag == some st.gen

/-- `(*ValidityFlag).Refresh()`: take the current global flag. -/
def VFlag.refresh (_ : VFlag) (st : St) : VFlag := { flag := some st.gen }

/-- `Option.UserValue()` (`none` = nil) — `IsSetByUser()` is `isSome`. -/
def userValue (st : St) (k : Key) : Option (Option GVal) :=
  (st.find k).map (fun o => o.user.map (fun c => c.proj o.ty))

/-- `GetActiveConfigValues()`: user values of the options whose release level is enabled. -/
def activeValues (st : St) : List (Key × GVal) :=
  st.opts.filterMap (fun o => if o.rl ≤ st.gate then o.user.map (fun c => (o.key, c.proj o.ty)) else none)

/-! ### Setters -/

inductive SetErr where
  | unknown | invalid (e : VErr)
  deriving DecidableEq, Repr

def signal (st : St) : St := { st with gen := st.gen + 1 }

def setOptIn (o' : Opt) : List Opt → List Opt
  | [] => []
  | p :: rest => if p.key = o'.key then o' :: rest else p :: setOptIn o' rest

/-- The option's slot in the registry is updated, then `handleOptionUpdate`. -/
def putOpt (st : St) (o' : Opt) : St :=
  let st' := { st with opts := setOptIn o' st.opts }
  if o'.key = rlKey then updateGate st' else st'

/-! #### Persistence: Expand / Flatten -/

/-- `p` is a prefix of `q` (as key paths). -/
def isPrefix : Key → Key → Bool
  | [], _ => true
  | _ :: _, [] => false
  | a :: p, b :: q => a == b && isPrefix p q

/-- The two paths cannot both be leaves of one tree. -/
def conflicts (p q : Key) : Bool := isPrefix p q || isPrefix q p

/-- `PutValueIntoHierarchicalConfig`: whatever is in the way (a leaf above, the subtree below, the same leaf) is replaced. -/
def putLeaf (t : List (Key × Val)) (kv : Key × Val) : List (Key × Val) :=
  t.filter (fun e => !conflicts e.1 kv.1) ++ [kv]

/-- `Expand` (iteration in list order). -/
def expand (m : List (Key × Val)) : List (Key × Val) := m.foldl putLeaf []

/-- `Flatten`: every leaf under its joined path. -/
def flatten (t : List (Key × Val)) : List (Key × Val) := t

/-- What `encoding/json` makes of a validated value on the way to the file and back. -/
def jsonVal (ty : OptType) (c : Cache) : Val :=
  match ty with
  | .str => .str c.s
  | .strs => .anys (c.a.map some)
  | .int => .flt false (decide (c.i < 0)) c.i.natAbs false
  | .bool => .bool c.b

/-- The user layer as `SaveConfig` collects it. -/
def userEntries (st : St) : List (Key × Val) :=
  st.opts.filterMap (fun o => o.user.map (fun c => (o.key, jsonVal o.ty c)))

/-- `SaveConfig()`. -/
def save (st : St) : St :=
  if st.persist then { st with file := .tree (expand (userEntries st)) } else st

def lookup (m : List (Key × Val)) (k : Key) : Option Val := (m.find? (fun e => e.1 = k)).map (·.2)

/-- The section of `setConfigOption` under the option lock: layer update (or validation error), `handleOptionUpdate`. -/
def writeUser (st : St) (k : Key) (v : Val) : St × Except SetErr Unit :=
  match st.find k with
  | none => (st, .error .unknown)
  | some o =>
    if v = .nil then (putOpt st { o with user := none }, .ok ())
    else match check o v with
      | .ok c => (putOpt st { o with user := some c }, .ok ())
      | .error e => (putOpt st o, .error (.invalid e))

/-- The section of `setDefaultConfigOption` under the option lock. -/
def writeDflt (st : St) (k : Key) (v : Val) : St × Except SetErr Unit :=
  match st.find k with
  | none => (st, .error .unknown)
  | some o =>
    if v = .nil then (putOpt st { o with dflt := none }, .ok ())
    else match check o v with
      | .ok c => (putOpt st { o with dflt := some c }, .ok ())
      | .error e => (putOpt st o, .error (.invalid e))

/-- `setConfigOption(key, value, push)`: on success `signalChanges()` and `SaveConfig()`. -/
def setUser (st : St) (k : Key) (v : Val) : St × Except SetErr Unit :=
  match writeUser st k v with
  | (st', .ok ()) => (save (signal st'), .ok ())
  | (st', .error e) => (st', .error e)

/-- `setDefaultConfigOption(key, value, push)`: on success `signalChanges()`, nothing is saved. -/
def setDflt (st : St) (k : Key) (v : Val) : St × Except SetErr Unit :=
  match writeDflt st k v with
  | (st', .ok ()) => (signal st', .ok ())
  | (st', .error e) => (st', .error e)

/-- The new user layer of one option under `ReplaceConfig(newValues)`. -/
def replOne (m : List (Key × Val)) (o : Opt) : Option Cache :=
  match lookup m o.key with
  | none => none
  | some v => match check o v with
    | .ok c => some c
    | .error _ => none

/-- The validation error of one option under a Replace / Validate call. -/
def replErr (m : List (Key × Val)) (o : Opt) : Option (Key × VErr) :=
  match lookup m o.key with
  | none => none
  | some v => match check o v with
    | .ok _ => none
    | .error e => some (o.key, e)

/-- `ReplaceConfig(newValues)`: every registered option is reset, valid entries installed, invalid ones reported. -/
def replaceUser (st : St) (m : List (Key × Val)) : St × List (Key × VErr) :=
  let opts := st.opts.map (fun o => { o with user := replOne m o })
  (signal (updateGate { st with opts := opts }), st.opts.filterMap (replErr m))

/-- `ReplaceDefaultConfig(newValues)`. -/
def replaceDflt (st : St) (m : List (Key × Val)) : St × List (Key × VErr) :=
  let opts := st.opts.map (fun o => { o with dflt := replOne m o })
  (signal (updateGate { st with opts := opts }), st.opts.filterMap (replErr m))

/-- One iteration of the `ReplaceConfig` loop (the option `k` under its lock), used by the trace acceptor. -/
def replStepUser (st : St) (m : List (Key × Val)) (k : Key) : St :=
  match st.find k with
  | none => st
  | some o => putOpt st { o with user := replOne m o }

/-- One iteration of the `ReplaceDefaultConfig` loop. -/
def replStepDflt (st : St) (m : List (Key × Val)) (k : Key) : St :=
  match st.find k with
  | none => st
  | some o => putOpt st { o with dflt := replOne m o }

/-- `ValidateConfig(newValues)`: errors and `containsUnknown`. -/
def validateConfig (st : St) (m : List (Key × Val)) : List (Key × VErr) × Bool :=
  (st.opts.filterMap (replErr m),
   decide ((st.opts.filter (fun o => (lookup m o.key).isSome)).length < m.length))

inductive LoadErr where
  | noFile | badJson | invalidEntries (n : Nat)
  deriving DecidableEq, Repr

/-- `loadConfig(requireValidConfig)`; with persistence off it does nothing. -/
def load (st : St) (requireValid : Bool) : St × Except LoadErr (List (Key × VErr)) :=
  if !st.persist then (st, .ok []) else
  match st.file with
  | .absent => (st, .error .noFile)
  | .garbage => (st, .error .badJson)
  | .tree t =>
    let (st', errs) := replaceUser st (flatten t)
    if requireValid ∧ errs.length > 0 then (st', .error (.invalidEntries errs.length))
    else (st', .ok errs)

/-! ### Perspective -/

structure POpt where
  key : Key
  ty : OptType
  rl : Nat
  cache : Cache
  deriving DecidableEq, Repr

/-- The perspective's entry for one registered option: its migrated and validated value, if the flattened config has one. -/
def pEntry (m : List (Key × Val)) (o : Opt) : Option POpt :=
  match lookup m o.key with
  | none => none
  | some v => match check o v with
    | .ok c => some { key := o.key, ty := o.ty, rl := o.rl, cache := c }
    | .error _ => none

/-- `NewPerspective(config)`: the valid entries, and the number of invalid ones. -/
def newPerspective (st : St) (t : List (Key × Val)) : List POpt × Nat :=
  (st.opts.filterMap (pEntry (flatten t)), (st.opts.filterMap (replErr (flatten t))).length)

/-- `getPerspectiveValueCache(name, requestedType)`; `ty = none` is optTypeAny (`Has`). -/
def pCache (st : St) (p : List POpt) (k : Key) (ty : Option OptType) : Option Cache :=
  match p.find? (fun e => e.key = k) with
  | none => none
  | some e =>
    if ty.isSome ∧ ty ≠ some e.ty then none
    else if e.rl > st.gate then none
    else some e.cache

def pGet (st : St) (p : List POpt) (k : Key) (ty : OptType) : Option GVal :=
  (pCache st p k (some ty)).map (·.proj ty)

def pHas (st : St) (p : List POpt) (k : Key) : Bool := (pCache st p k none).isSome

/-! ### Histories -/

/-- The state-changing calls of the property's quantifier. -/
inductive Op where
  | set (k : Key) (v : Val)
  | setd (k : Key) (v : Val)
  | rep (m : List (Key × Val))
  | repd (m : List (Key × Val))
  | save
  | load (requireValid : Bool)
  | wfile (f : File)          -- something else writes config.json
  deriving Repr

def apply (st : St) : Op → St
  | .set k v => (setUser st k v).1
  | .setd k v => (setDflt st k v).1
  | .rep m => (replaceUser st m).1
  | .repd m => (replaceDflt st m).1
  | .save => save st
  | .load b => (load st b).1
  | .wfile f => { st with file := f }

def run (st : St) (ops : List Op) : St := ops.foldl apply st

end PB.Config
