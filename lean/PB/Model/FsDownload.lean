import PB.Model.FsWriters
import PB.Gen.FsDownload
/-
C17 — the DOWNLOAD writer (updater/fetch.go fetchFile + makeRequest, as called by DownloadUpdates / GetFile) and
the UNPACK writers (updater/file.go File.Unpack, updater/unpacking.go copyFromZipArchive): the decision *when to
publish*, i.e. everything between the answer of the server (or the archive on disk) and CloseAtomicallyReplace.

Three layers:
  1. `Wire` → `Resp` (`transport`): what Go's net/http client hands to fetchFile for a given behaviour of the
     server and the connection. This is the behaviour of the standard library, not of portbase; it is an
     ASSUMPTION that the harness compares with the real client on every run (`http` line).
  2. `Resp` → `Outcome` (`fetchDecision`): fetchFile's own guards, branch by branch. The two comparisons
     (status code, Content-Length vs. bytes written) are NOT written here: they are the definitions regenerated
     from the source by harness/cmd/extract (`PB.Gen.FsDownload.statusRefused`, `lengthRefused`).
  3. `Outcome` → `Prog` (`fetchAttemptK`, `downloadP`): the system calls of the attempt(s), with the Cleanup of
     the temporary file on every error path, as a program over the alphabet of PB.Model.FsWriters.
-/
namespace PB.FsAtomic

/-! ### 1. What reaches the client -/

/-- How the response delimits its body. -/
inductive Framing where
  /-- `Content-Length: l` -/
  | length (l : Nat)
  /-- `Transfer-Encoding: chunked` -/
  | chunked
  /-- neither: the body ends where the connection ends (HTTP/1.0 style, `Connection: close`) -/
  | close
  deriving DecidableEq, Repr

/-- How the byte stream ends after the last body byte that arrived. -/
inductive Ending where
  /-- chunked framing: the terminating zero-length chunk arrived -/
  | terminated
  /-- orderly close of the connection (FIN) -/
  | fin
  /-- connection reset / transport error -/
  | reset
  deriving DecidableEq, Repr

/-- One response as it reaches the client (after redirects have been followed by http.Client). -/
structure Wire where
  /-- false: no response head arrives (refused, closed before the status line): client.Do returns an error -/
  connects : Bool
  status : Nat
  framing : Framing
  /-- `Content-Encoding: gzip` answered to the transport's own `Accept-Encoding: gzip`: the transport
      decompresses transparently, deletes Content-Length and reports ContentLength = -1 -/
  gzip : Bool
  /-- number of body bytes (after de-chunking, before decompression) that arrive before the stream ends -/
  arrived : Nat
  ending : Ending
  /-- gzip only: bytes the decompressor hands out, and whether the compressed stream was complete and valid -/
  plain : Nat
  gzipOk : Bool
  /-- the bytes handed to io.Copy are the bytes that were signed (their digest equals the signed hash); only
      looked at when a signature was verified -/
  digestOk : Bool
  deriving DecidableEq, Repr

/-- What fetchFile sees. -/
structure Resp where
  /-- client.Do returned an error -/
  reqErr : Bool
  status : Nat
  /-- resp.ContentLength (-1: unknown) -/
  contentLength : Int
  /-- n of `n, err := io.Copy(writeDst, resp.Body)`: bytes written to the pending file -/
  got : Nat
  /-- err of io.Copy is not nil -/
  copyErr : Bool
  /-- `verifiedHash.EqualRaw(hasher.Sum(nil))`: the digest of the bytes written equals the signed hash -/
  digestOk : Bool
  deriving DecidableEq, Repr

/-- Bytes the framing layer hands out and whether it ends with an error (unexpected EOF / reset). -/
def framed (w : Wire) : Nat × Bool :=
  match w.framing with
  | .length l => (min w.arrived l, decide (w.arrived < l))   -- exactly l bytes, then EOF; fewer: unexpected EOF
  | .chunked => (w.arrived, w.ending != .terminated)
  | .close => (w.arrived, w.ending == .reset)

/-- net/http as fetchFile sees it. -/
def transport (w : Wire) : Resp :=
  if !w.connects then { reqErr := true, status := 0, contentLength := 0, got := 0, copyErr := false, digestOk := false }
  else if w.gzip then
    { reqErr := false, status := w.status, contentLength := -1, got := w.plain, copyErr := (framed w).2 || !w.gzipOk,
      digestOk := w.digestOk }
  else
    { reqErr := false, status := w.status,
      contentLength := (match w.framing with | .length l => (l : Int) | _ => -1),
      got := (framed w).1, copyErr := (framed w).2, digestOk := w.digestOk }

/-- The server's message arrived completely and its length was announced: `Content-Length: l`, no transparent
    decompression, at least `l` body bytes arrived. -/
def Wire.complete (w : Wire) (l : Nat) : Prop :=
  w.connects = true ∧ w.gzip = false ∧ w.framing = .length l ∧ l ≤ w.arrived

/-! ### 2. fetchFile's decision -/

inductive Policy where
  | require | warn | disable
  deriving DecidableEq, Repr

/-- Signature verification of a resource (`rv.resource.VerificationOptions != nil`). -/
structure Verif where
  policy : Policy
  /-- fetchAndVerifySigFile succeeded (`verifiedHash != nil`) -/
  sigOk : Bool
  deriving DecidableEq, Repr

inductive Outcome where
  /-- returned before a temporary file exists (signature required and not verifiable) -/
  | refusedEarly
  /-- the temporary file is removed by the deferred Cleanup, the destination is not touched -/
  | abort
  /-- CloseAtomicallyReplace is reached; `withSig`: the signature file is written first -/
  | publish (withSig : Bool)
  deriving DecidableEq, Repr

def Outcome.publishes : Outcome → Bool
  | .publish _ => true
  | _ => false

/-- fetch.go:40-150, in the order of the source. -/
def fetchDecision (v : Option Verif) (r : Resp) : Outcome :=
  -- signature first (fetch.go:45-63)
  if (match v with | some x => !x.sigOk && x.policy == Policy.require | none => false) then .refusedEarly
  -- makeRequest: client.Do error, status guard (fetch.go:336-345)
  else if r.reqErr then .abort
  else if PB.Gen.FsDownload.statusRefused (r.status : Int) then .abort
  -- io.Copy error (fetch.go:90-93)
  else if r.copyErr then .abort
  -- length guard (fetch.go:94-96)
  else if PB.Gen.FsDownload.lengthRefused r.contentLength r.got then .abort
  else
    match v with
    | none => .publish false
    | some x =>
      if !x.sigOk then .publish false                 -- hasher == nil: nothing to compare, no signature file
      else if r.digestOk then .publish true             -- sigFileData is not empty when verification succeeded
      else if x.policy == Policy.require then .abort        -- "file does not match signed checksum"
      else .publish false                             -- hasher = nil: published without signature file

/-! ### 3. The system calls of an attempt -/

/-- The signature file of a signed download: its path, os.TempDir() of the process, the chunks written. -/
structure SigFile where
  dest : Path
  tmpdir : Path
  chunks : List Seg

/-- One call of fetchFile. `chunks`: what io.Copy wrote to the pending file (all of it also when the download is
    refused afterwards). `k failed`: what the caller does with the result. -/
def fetchAttemptK (dirs : List (Path × Nat)) (regTmp dest : Path) (v : Option Verif) (w : Wire) (chunks : List Seg)
    (sig : Option SigFile) (k : Bool → Prog) : Prog :=
  let r := transport w
  let out := fetchDecision v r
  ensureDirsK dirs fun failed =>
    if failed then k true
    else if out == .refusedEarly then k true
    else
      .sys (.createTemp regTmp (tmpPrefix dest)) fun rsp =>
        match rsp with
        | .created t fd =>
          let finish : Prog :=
            closeAtomicallyReplaceK t fd dest fun failed =>
              if failed then k true
              else .sys (.call (.chmod dest 0o755)) fun _ => k false
          if r.reqErr || PB.Gen.FsDownload.statusRefused (r.status : Int) then cleanupP t fd false (k true)
          else
            writeAllP fd chunks (cleanupP t fd false (k true))
              (match out with
               | .publish true =>
                 match sig with
                 | some sf =>
                   writeFileK sf.tmpdir sf.dest 0o644 sf.chunks fun failed =>
                     if failed && (match v with | some x => x.policy == Policy.require | none => false)
                     then cleanupP t fd false (k true)
                     else finish
                 | none => finish
               | .publish false => finish
               | _ => cleanupP t fd false (k true))
        | _ => k true

/-- The retry loops of DownloadUpdates (3 tries, the error is only logged: returns nil) and GetFile (5 tries,
    returns the last error): attempts are made in order until one succeeds; `attempts` are the ones the server
    gets to answer (the harness cancels the context after the last planned one). -/
def attemptsK (dirs : List (Path × Nat)) (regTmp dest : Path) (v : Option Verif) (sig : Option SigFile) :
    List (Wire × List Seg) → (Bool → Prog) → Prog
  | [], k => k true
  | (w, chunks) :: rest, k =>
    fetchAttemptK dirs regTmp dest v w chunks sig fun failed =>
      if failed then (if rest.isEmpty then k true else attemptsK dirs regTmp dest v sig rest k)
      else k false

/-- `getFile = false`: DownloadUpdates (always returns nil); `true`: GetFile. -/
def downloadP (dirs : List (Path × Nat)) (regTmp dest : Path) (v : Option Verif) (sig : Option SigFile)
    (getFile : Bool) (attempts : List (Wire × List Seg)) : Prog :=
  attemptsK dirs regTmp dest v sig attempts fun failed => .ret (getFile && failed)

/-- The outcomes of the attempts that are actually made. -/
def outcomes (v : Option Verif) : List Wire → List Outcome
  | [] => []
  | w :: rest =>
    let o := fetchDecision v (transport w)
    if o.publishes then [o] else o :: outcomes v rest

/-! ### Unpacking -/

/-- A gzip file as compress/gzip reads it. -/
structure GzFile where
  /-- gzip.NewReader succeeds (valid header) -/
  headerOk : Bool
  /-- the reader reaches the end of the stream without error: deflate data valid and complete, CRC and size
      trailer match, and nothing but further valid members follows -/
  streamOk : Bool
  deriving DecidableEq, Repr

/-- updater File.Unpack (file.go:114-156) with updater.UnpackGZIP: nothing to do when the unpacked file exists; an
    error of the unpacker is returned before any file is created; otherwise CreateAtomic, which publishes only when
    io.Copy returned no error. -/
def fileUnpackD (regTmp tmpdir dest : Path) (g : GzFile) (chunks : List Seg) : Prog :=
  .probeExists dest fun there =>
    if there then .ret false
    else if !g.headerOk then .ret true
    else createAtomicP (some regTmp) tmpdir dest 0 chunks (!g.streamOk)

def fileUnpackPublishes (there : Bool) (g : GzFile) : Bool := !there && g.headerOk && g.streamOk

/-- One member of a zip archive as archive/zip hands it to copyFromZipArchive. -/
structure ZipMember where
  /-- uncompressed bytes the member's reader delivers before it ends -/
  size : Nat
  /-- the reader ends with an error other than io.EOF (flate error, checksum error, unexpected EOF because the
      member is shorter than its header says, …) -/
  readErr : Bool
  deriving DecidableEq, Repr

/-- copyFromZipArchive (unpacking.go:191-210): `io.CopyN(dst, r, MaxUnpackSize)`; io.EOF (the member was shorter
    than the limit) is success, any other error fails. When exactly MaxUnpackSize bytes were copied without error
    the code — `PB.Gen.FsDownload.zipLimitChecked`, read off the source — asks the reader for one more byte: the
    member must end there (io.EOF; a checksum error shows up at this point too), a member with more bytes fails.
    (Without that check — `zipLimitChecked = false` — nil is returned at once and whatever is left in the member
    is cut off.) Result: (bytes written, failed). -/
def zipCopyWith (limitChecked : Bool) (m : ZipMember) : Nat × Bool :=
  if m.size < PB.Gen.FsDownload.maxUnpackSize then (m.size, m.readErr)
  else if limitChecked then
    (PB.Gen.FsDownload.maxUnpackSize, if m.size = PB.Gen.FsDownload.maxUnpackSize then m.readErr else true)
  else (PB.Gen.FsDownload.maxUnpackSize, false)

def zipCopy (m : ZipMember) : Nat × Bool := zipCopyWith PB.Gen.FsDownload.zipLimitChecked m

/-- unpackZipArchive renames the temporary directory into place iff the archive opens and every member is copied
    without failure (a failure leaves through the deferred RemoveAll). -/
def unpackZipPublishes (opens : Bool) (members : List ZipMember) : Bool :=
  opens && members.all fun m => !(zipCopy m).2

end PB.FsAtomic
