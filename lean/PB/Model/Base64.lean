import PB.Bytes
/-
Model of the codec `container/serialization.go` goes through: `encoding/json` applied to a `[]byte`
(`json.Marshal(b)` = the bytes in standard padded base64 between double quotes; `json.Unmarshal(data, &raw)`
for the canonical texts: `null`, or one double-quoted string of standard padded base64).
The encoder is modelled completely. The decoder is modelled for canonical texts only; every other text
(white space, escape sequences, line breaks inside the string, JSON arrays of numbers, …) is `delegated`:
outside the model, run on the implementation only. Compared with the real stdlib by the C16 correspondence run.
-/
namespace PB.Base64
open PB

/-- The standard alphabet `A–Z a–z 0–9 + /` (value → character), for values below 64. -/
def char (v : Nat) : UInt8 :=
  if v < 26 then UInt8.ofNat (65 + v)
  else if v < 52 then UInt8.ofNat (97 + (v - 26))
  else if v < 62 then UInt8.ofNat (48 + (v - 52))
  else if v = 62 then 43 else 47

/-- character → value; `none` for everything outside the alphabet (including the padding character). -/
def val (c : UInt8) : Option Nat :=
  let n := c.toNat
  if 65 ≤ n ∧ n ≤ 90 then some (n - 65)
  else if 97 ≤ n ∧ n ≤ 122 then some (n - 97 + 26)
  else if 48 ≤ n ∧ n ≤ 57 then some (n - 48 + 52)
  else if n = 43 then some 62
  else if n = 47 then some 63
  else none

/-- the padding character `=` -/
def pad : UInt8 := 61

/-- `base64.StdEncoding.EncodeToString`: three bytes → four characters, the last group padded. -/
def enc : Bytes → Bytes
  | [] => []
  | [a] =>
    let n := a.toNat * 16
    [char (n / 64), char (n % 64), pad, pad]
  | [a, b] =>
    let n := (a.toNat * 256 + b.toNat) * 4
    [char (n / 4096), char (n / 64 % 64), char (n % 64), pad]
  | a :: b :: c :: rest =>
    let n := a.toNat * 65536 + b.toNat * 256 + c.toNat
    char (n / 262144) :: char (n / 4096 % 64) :: char (n / 64 % 64) :: char (n % 64) :: enc rest

/-- `base64.StdEncoding.Decode` on texts without line breaks: groups of four characters, padding only in the
    last group, nothing after the padding; unused trailing bits are ignored (non-strict mode). -/
def dec : Bytes → Option Bytes
  | [] => some []
  | c0 :: c1 :: c2 :: c3 :: rest =>
    if c3 = pad then
      if rest ≠ [] then none
      else if c2 = pad then
        match val c0, val c1 with
        | some v0, some v1 => some [UInt8.ofNat ((v0 * 64 + v1) / 16)]
        | _, _ => none
      else
        match val c0, val c1, val c2 with
        | some v0, some v1, some v2 =>
          let n := v0 * 4096 + v1 * 64 + v2
          some [UInt8.ofNat (n / 1024), UInt8.ofNat (n / 4 % 256)]
        | _, _, _ => none
    else
      match val c0, val c1, val c2, val c3, dec rest with
      | some v0, some v1, some v2, some v3, some r =>
        let n := v0 * 262144 + v1 * 4096 + v2 * 64 + v3
        some (UInt8.ofNat (n / 65536) :: UInt8.ofNat (n / 256 % 256) :: UInt8.ofNat (n % 256) :: r)
      | _, _, _, _, _ => none
  | _ => none

/-- the double quote `"` -/
def quote : UInt8 := 34

/-- `json.Marshal(b)` for a non-nil `[]byte`. (A nil slice gives `null`; the model does not distinguish nil
    from empty slices, the harness canonicalises `null` to `""` on the marshal side.) -/
def jsonEnc (b : Bytes) : Bytes := quote :: (enc b ++ [quote])

inductive JDec where
  | ok (b : Bytes)
  | err
  | delegated
  deriving Repr, DecidableEq

/-- `null` -/
def nullText : Bytes := [110, 117, 108, 108]

def canonicalChar (c : UInt8) : Bool := (val c).isSome || c == pad

/-- `json.Unmarshal(data, &raw)` with `raw []byte`, for canonical texts. -/
def jsonDec (data : Bytes) : JDec :=
  if data = nullText then .ok []
  else match data with
    | q :: rest =>
      if q = quote ∧ rest.getLast? = some quote ∧ rest.dropLast.all canonicalChar then
        match dec rest.dropLast with
        | some b => .ok b
        | none => .err
      else .delegated
    | [] => .delegated

end PB.Base64
