/-
C17 — abstract POSIX file system with a volatile view and a crash (power-loss) semantics, and the
`safePublish` checker that is run on the system-call sequences recorded from the real writers
(utils/renameio, utils/atomic.go, database/storage/fstree, updater/fetch.go, updater/unpacking.go, updater/file.go).

Alphabet (what the ptrace stepper translates to): open(creat/excl/trunc) · write · fsync · ftruncate · fchmod ·
close · rename · unlink · rmdir · mkdir · symlink · chmod.

Volatile view: `names : path → inode`, `inodes : inode → (kind, mode, data, clean)`.
Durable view after a crash in the state reached by a call sequence `t`:
  * the name space is the name space after SOME prefix of `t` (directory operations are journalled in order,
    none of them is known to be on disk: the code never fsyncs a directory);
  * the data of an inode that is `clean` (not modified since its last completed fsync) is its volatile data;
    the data of any other inode is ARBITRARY (absent, zero length, a prefix, stale blocks …).
This over-approximates "un-fsynced data may be absent or any prefix" and makes the soundness theorem stronger.
Core-only: the driver links this file.
-/
namespace PB.FsAtomic

/-- A run of bytes of content number `cid` (see the harness' content table): bytes `off … off+len-1`. -/
structure Seg where
  cid : Nat
  off : Nat
  len : Nat
  deriving DecidableEq, Repr, Inhabited

/-- File content as a normalised list of runs. -/
abbrev Content := List Seg

/-- Append a written chunk; a chunk that continues the last run is merged into it. -/
def app : Content → Seg → Content
  | [], s => if s.len = 0 then [] else [s]
  | [t], s =>
    if s.len = 0 then [t]
    else if t.cid = s.cid ∧ t.off + t.len = s.off then [{ t with len := t.len + s.len }]
    else [t, s]
  | t :: u :: ts, s => t :: app (u :: ts) s

/-- The content produced by writing the chunks in order into an empty file. -/
def written (chunks : List Seg) : Content := chunks.foldl app []

def size (c : Content) : Nat := (c.map (·.len)).sum

/-- Keep the first `n` bytes. -/
def takeBytes : Nat → Content → Content
  | _, [] => []
  | n, s :: rest =>
    if n = 0 then []
    else if s.len ≤ n then s :: takeBytes (n - s.len) rest
    else [{ s with len := n }]

abbrev Path := List String

inductive Kind where
  | file | dir | symlink
  deriving DecidableEq, Repr, Inhabited

structure Inode where
  kind : Kind
  mode : Nat
  data : Content
  target : String
  /-- the data has not been modified since the last completed fsync (or since the initial state) -/
  clean : Bool
  deriving DecidableEq, Repr, Inhabited

structure FS where
  inodes : List Inode
  names : List (Path × Nat)
  fds : List (Nat × Nat)
  deriving Repr, Inhabited

inductive Errno where
  | ENOENT | EEXIST | EXDEV | ENOTDIR | EISDIR | ENOTEMPTY | EBADF | EINVAL
  deriving DecidableEq, Repr

def Errno.str : Errno → String
  | .ENOENT => "ENOENT" | .EEXIST => "EEXIST" | .EXDEV => "EXDEV" | .ENOTDIR => "ENOTDIR"
  | .EISDIR => "EISDIR" | .ENOTEMPTY => "ENOTEMPTY" | .EBADF => "EBADF" | .EINVAL => "EINVAL"

inductive Call where
  /-- `fd` is the descriptor the real call returned (none: it failed) -/
  | openC (p : Path) (creat excl trunc : Bool) (mode : Nat) (fd : Option Nat)
  | write (fd : Nat) (s : Seg)
  | fsync (fd : Nat)
  | ftruncate (fd : Nat) (len : Nat)
  | fchmod (fd : Nat) (mode : Nat)
  | close (fd : Nat)
  | rename (src dst : Path)
  | unlink (p : Path)
  | rmdir (p : Path)
  | mkdir (p : Path) (mode : Nat)
  | symlink (target : String) (p : Path)
  | chmod (p : Path) (mode : Nat)
  deriving DecidableEq, Repr

/-- The writer runs with umask 022. -/
def umasked (mode : Nat) : Nat := mode &&& 0o7755

def lookup (ns : List (Path × Nat)) (p : Path) : Option Nat := List.lookup p ns

def inodeAt (s : FS) (i : Nat) : Option Inode := s.inodes[i]?

def kindAt (s : FS) (p : Path) : Option Kind :=
  match lookup s.names p with
  | none => none
  | some i => (inodeAt s i).map (·.kind)

/-- `p` lies strictly below `d`. -/
def below (d p : Path) : Bool := d.isPrefixOf p && d.length < p.length

def hasChild (ns : List (Path × Nat)) (d : Path) : Bool := ns.any (fun e => below d e.1)

/-- Resolution of the directory a path lives in: a mount point (one component) has none. -/
def parentErr (s : FS) (p : Path) : Option Errno :=
  if p.length ≤ 1 then none
  else match kindAt s p.dropLast with
    | none => some .ENOENT
    | some .dir => none
    | some _ => some .ENOTDIR

def setInode (s : FS) (i : Nat) (f : Inode → Inode) : FS :=
  { s with inodes := s.inodes.modify i f }

def unbind (ns : List (Path × Nat)) (p : Path) : List (Path × Nat) := ns.filter (fun e => !(e.1 == p))

/-- Re-prefix every name at or below `src` to `dst`. -/
def moveNames (ns : List (Path × Nat)) (src dst : Path) : List (Path × Nat) :=
  ns.map (fun e => if src.isPrefixOf e.1 then (dst ++ e.1.drop src.length, e.2) else e)

inductive Res where
  | ok
  | err (e : Errno)
  deriving DecidableEq, Repr

def Res.str : Res → String
  | .ok => "ok"
  | .err e => e.str

/-- One system call on the volatile view. A failing call changes nothing. -/
def exec (s : FS) : Call → FS × Res
  | .openC p creat excl trunc mode fd =>
    match parentErr s p with
    | some e => (s, .err e)
    | none =>
      let bind (s : FS) (i : Nat) : FS :=
        match fd with
        | some n => { s with fds := (n, i) :: s.fds }
        | none => s
      match lookup s.names p with
      | some i =>
        if creat && excl then (s, .err .EEXIST)
        else match ((inodeAt s i).map (·.kind) : Option Kind) with
          | some Kind.file =>
            let s1 := if trunc then setInode s i (fun n => { n with data := [], clean := n.clean && n.data.isEmpty }) else s
            (bind s1 i, .ok)
          | some Kind.dir => (s, .err .EISDIR)
          | _ => (s, .err .EINVAL)
      | none =>
        if creat then
          let i := s.inodes.length
          let n : Inode := { kind := .file, mode := umasked mode, data := [], target := "", clean := false }
          (bind { s with inodes := s.inodes ++ [n], names := (p, i) :: s.names } i, .ok)
        else (s, .err .ENOENT)
  | .write fd seg =>
    match List.lookup fd s.fds with
    | none => (s, .err .EBADF)
    | some i => (setInode s i (fun n => { n with data := app n.data seg, clean := false }), .ok)
  | .fsync fd =>
    match List.lookup fd s.fds with
    | none => (s, .err .EBADF)
    | some i => (setInode s i (fun n => { n with clean := true }), .ok)
  | .ftruncate fd len =>
    match List.lookup fd s.fds with
    | none => (s, .err .EBADF)
    | some i =>
      match inodeAt s i with
      | none => (s, .err .EBADF)
      | some n =>
        if size n.data < len then (s, .err .EINVAL)   -- growing a file is outside the alphabet
        else (setInode s i (fun n => { n with data := takeBytes len n.data, clean := false }), .ok)
  | .fchmod fd mode =>
    match List.lookup fd s.fds with
    | none => (s, .err .EBADF)
    | some i => (setInode s i (fun n => { n with mode := mode }), .ok)
  | .close fd =>
    match List.lookup fd s.fds with
    | none => (s, .err .EBADF)
    | some _ => ({ s with fds := s.fds.filter (fun e => !(e.1 == fd)) }, .ok)
  | .rename src dst =>
    match parentErr s src with
    | some e => (s, .err e)
    | none =>
    match parentErr s dst with
    | some e => (s, .err e)
    | none =>
      if src.head? != dst.head? then (s, .err .EXDEV)
      else match lookup s.names src, kindAt s src with
        | some _, some sk =>
          if src == dst then (s, .ok)
          else if below src dst then (s, .err .EINVAL)
          else
            let go (s : FS) : FS × Res :=
              ({ s with names := moveNames (unbind s.names dst) src dst }, .ok)
            match kindAt s dst with
            | none => go s
            | some dk =>
              if sk == .dir && dk != .dir then (s, .err .ENOTDIR)
              else if sk != .dir && dk == .dir then (s, .err .EISDIR)
              else if dk == .dir && hasChild s.names dst then (s, .err .ENOTEMPTY)
              else go s
        | _, _ => (s, .err .ENOENT)
  | .unlink p =>
    match parentErr s p with
    | some e => (s, .err e)
    | none =>
      match kindAt s p with
      | none => (s, .err .ENOENT)
      | some .dir => (s, .err .EISDIR)
      | some _ => ({ s with names := unbind s.names p }, .ok)
  | .rmdir p =>
    match parentErr s p with
    | some e => (s, .err e)
    | none =>
      match kindAt s p with
      | none => (s, .err .ENOENT)
      | some .dir => if hasChild s.names p then (s, .err .ENOTEMPTY) else ({ s with names := unbind s.names p }, .ok)
      | some _ => (s, .err .ENOTDIR)
  | .mkdir p mode =>
    match parentErr s p with
    | some e => (s, .err e)
    | none =>
      match lookup s.names p with
      | some _ => (s, .err .EEXIST)
      | none =>
        let i := s.inodes.length
        let n : Inode := { kind := .dir, mode := umasked mode, data := [], target := "", clean := true }
        ({ s with inodes := s.inodes ++ [n], names := (p, i) :: s.names }, .ok)
  | .symlink target p =>
    match parentErr s p with
    | some e => (s, .err e)
    | none =>
      match lookup s.names p with
      | some _ => (s, .err .EEXIST)
      | none =>
        let i := s.inodes.length
        let n : Inode := { kind := .symlink, mode := 0o777, data := [], target := target, clean := true }
        ({ s with inodes := s.inodes ++ [n], names := (p, i) :: s.names }, .ok)
  | .chmod p mode =>
    match parentErr s p with
    | some e => (s, .err e)
    | none =>
      match lookup s.names p, kindAt s p with
      | some i, some k => if k == .symlink then (s, .err .EINVAL) else (setInode s i (fun n => { n with mode := mode }), .ok)
      | _, _ => (s, .err .ENOENT)

def step (s : FS) (c : Call) : FS := (exec s c).1

/-- The volatile state after a call sequence. -/
def run (s : FS) (t : List Call) : FS := t.foldl step s

/-! ### What a reader of a path sees (content only; permission bits are not content) -/

inductive Node where
  | file (c : Content)
  | symlink (target : String)
  | dir
  deriving DecidableEq, Repr, Inhabited

/-- `none`: the path does not exist. Otherwise the object and, for a directory, everything below it
    (relative paths, sorted). -/
abbrev Obs := Option (Node × List (Path × Node))

def nodeOf (n : Inode) (d : Content) : Node :=
  match n.kind with
  | .file => .file d
  | .symlink => .symlink n.target
  | .dir => .dir

def pathStr (p : Path) : String := "/".intercalate p

def insertSorted (e : Path × Node) : List (Path × Node) → List (Path × Node)
  | [] => [e]
  | x :: xs => if pathStr e.1 ≤ pathStr x.1 then e :: x :: xs else x :: insertSorted e xs

def sortEntries (l : List (Path × Node)) : List (Path × Node) := l.foldr insertSorted []

/-- The view of `dest` when the name space is `names`, the inode table `inodes` and the data of inode `i` is `data i`. -/
def view (inodes : List Inode) (names : List (Path × Nat)) (data : Nat → Content) (dest : Path) : Obs :=
  match lookup names dest with
  | none => none
  | some i =>
    match inodes[i]? with
    | none => none
    | some n =>
      let sub :=
        if n.kind = .dir then
          sortEntries ((names.filter (fun e => below dest e.1)).filterMap (fun e =>
            (inodes[e.2]?).map (fun m => (e.1.drop dest.length, nodeOf m (data e.2)))))
        else []
      some (nodeOf n (data i), sub)

def vdata (s : FS) (i : Nat) : Content := ((inodeAt s i).map (·.data)).getD []

/-- What concurrent readers (and a reader after a mere process kill) see. -/
def vview (s : FS) (dest : Path) : Obs := view s.inodes s.names (vdata s) dest

/-! ### The checker -/

def allowed (old new o : Obs) : Bool := o == old || o == new

/-- Inode `i`, if it is ever found at the destination after a power loss, shows `old` or `new`:
    it is a file or symlink, its data is durable, and what it shows is allowed. -/
def goodIno (old new : Obs) (s : FS) (i : Nat) : Bool :=
  match inodeAt s i with
  | none => false
  | some n => n.kind != .dir && n.clean && allowed old new (some (nodeOf n n.data, []))

structure Chk where
  s : FS
  /-- inodes that the destination has named in some state so far -/
  hist : List Nat
  /-- the destination was absent in some state so far -/
  absent : Bool
  ok : Bool

/-- Record what the destination names now. -/
def addHist (o : Option Nat) (h : List Nat) : List Nat :=
  match o with
  | none => h
  | some i => if h.contains i then h else i :: h

def chkInit (s0 : FS) (dest : Path) (old new : Obs) : Chk :=
  let h := (lookup s0.names dest).toList
  let a := (lookup s0.names dest).isNone
  { s := s0, hist := h, absent := a,
    ok := h.all (goodIno old new s0) && (!a || allowed old new none) && allowed old new (vview s0 dest) }

def chkStep (dest : Path) (old new : Obs) (k : Chk) (c : Call) : Chk :=
  let s' := step k.s c
  let h := addHist (lookup s'.names dest) k.hist
  let a := k.absent || (lookup s'.names dest).isNone
  { s := s', hist := h, absent := a,
    ok := k.ok && h.all (goodIno old new s') && (!a || allowed old new none) && allowed old new (vview s' dest) }

/-- Single file / symlink destination. Accepts a call sequence iff in every intermediate state
    (1) a reader of `dest` sees `old` or `new`, and (2) every inode that `dest` has named so far is a file or
    symlink whose data is durable and shows `old` or `new` (so the new content was fsynced before the rename,
    nothing published is modified afterwards, nothing is written in place), and (3) `dest` was never absent
    unless "absent" is one of the two allowed states. -/
def safePublish (s0 : FS) (dest : Path) (old new : Obs) (t : List Call) : Bool :=
  (t.foldl (chkStep dest old new) (chkInit s0 dest old new)).ok

/-- Directory destination (archive unpacking): only the volatile clause — in every intermediate state the
    destination is absent/old or the complete new tree. -/
def safePublishDir (s0 : FS) (dest : Path) (old new : Obs) : List Call → Bool
  | [] => allowed old new (vview s0 dest)
  | c :: t => allowed old new (vview s0 dest) && safePublishDir (step s0 c) dest old new t

/-! ### Leftovers -/

/-- The path a call may add to the name space. -/
def created : Call → Option Path
  | .openC p true _ _ _ _ => some p
  | .rename _ dst => some dst
  | .mkdir p _ => some p
  | .symlink _ p => some p
  | _ => none

/-- A call sequence only ever creates names that are the destination (or below it), a directory on the way to
    the destination, or temporary (`tmp`). A rename may not target a directory on the way to the destination. -/
def onlyTemp (dest : Path) (tmp : Path → Bool) (t : List Call) : Bool :=
  t.all (fun c =>
    match c, created c with
    | .rename _ _, some p => dest.isPrefixOf p || tmp p
    | _, some p => dest.isPrefixOf p || p.isPrefixOf dest || tmp p
    | _, none => true)

/-- The harness' notion of "temporary file in the temporary location": strictly below one of the temporary
    directories, or below the destination's directory through a component carrying a temp-name prefix. -/
def isTemp (tmpdirs : List Path) (destDir : Path) (prefixes : List String) (p : Path) : Bool :=
  tmpdirs.any (fun d => below d p) ||
  (below destDir p &&
    match (p.drop destDir.length).head? with
    | some c => prefixes.any (fun x => (x ++ "#").toList.isPrefixOf c.toList)
    | none => false)

end PB.FsAtomic
