import PB.Gen.Lifecycle
/-!
# Model of the module lifecycle manager of `modules/` (property C01)

Written from modules/start.go, stop.go, status.go, mgmt.go, modules.go of the repo worktree (after the
three `fix:` commits: a failed start returns to Offline; prepareModules/startModules drain the reports of
everything they launched before returning an error; readyToStart reports an unprepared wanted module as
waiting).

State = what the Go code keeps: per-module `status`, `enabled`, `enabledAsDependency`, the flags
`modulesLocked`, `shutdownFlag`, `moduleMgmtEnabled`, and the manager's position (which of
prepareModules / startModules / stopModules runs inside which API call, `execCnt`, `reportCnt`, the
error seen so far, the set of launched-but-not-reported routines).

Atomic steps (`Ev`) are the steps an observer of the callbacks can see, plus one internal one:
* `call a` / `ret a ok`  — Start / ManageModules / Shutdown is entered / returns,
* `setGlob g i` — `SetGlobalPrepFn` / `SetGlobalShutdownFn` / `SetCmdLineOperation` is called with function number `i`
                (the first two keep the FIRST function they were given, the third the LAST),
* `glob g i ok` — Start ran the global prep function / the command-line operation, Shutdown ran the global
                shutdown function (function number `i`; `ok` = it returned nil),
* `beg k m`   — the manager's scan found `readyToX(m) = statusReady` and ran `m.prep/start/stop(reports)`:
                status := Preparing/Starting/Stopping, `execCnt++`, the routine begins,
* `fin k m ok` — the routine returned; the goroutine wrote the resulting status and its report was
                received (`reportCnt++`, error noted),
* `passEnd`   — the `else` branch of the fix-point loop (`reportCnt < execCnt` is false): the pass is over,
* `enable m` / `disable m`.

Merged steps (commutation argument, see notes/c01.md): the status write of `beg` happens in the manager
goroutine before the routine begins, the status write and report of `fin` after the routine ended; nothing
another step's guard could observe changes in between in a way that disables it (Online is stable during a
start pass, ≤ Offline is stable during a stop pass). A scan is not atomic in the code either; `beg` may
happen whenever the verdict is Ready, and a pass may only end when no verdict is Ready ("launch every ready
module") and nothing is in flight. After an error report the code launches nothing more; the model is more
permissive there (launches stay possible until the pass ends), which only enlarges the set of runs the
theorems cover.

Calls outside the histories the property quantifies over are modelled as the code is written:
ManageModules before Start (nothing is linked yet: `buildEnabledTree` only resets the marks, every enabled
module is unprepared and counts as waiting), Start after a Shutdown that was not preceded by Start (runs
like any first Start: `Start` does not look at the shutdown flag), ManageModules after Shutdown (its stop
pass ignores the enabled marks, its start pass starts the wanted modules again). What the property says
about Shutdown therefore holds for histories in which Shutdown is final (`Spec.ShutdownFinal`).

Not modelled: the 2-minute start / 1-minute stop timeouts, flag parsing (`-help`, `-print-module-graph`),
a failing `log.Start`, panics of the global functions (they propagate to the caller of Start / Shutdown),
ManageModules after a Start that failed in `initDependencies` (how many edges were linked before the
unregistered name was met depends on map iteration order), concurrent API callers.
-/
namespace PB.Modules
open PB.Gen.Lifecycle

inductive Kind where
  | prep | start | stop
  deriving DecidableEq, Repr

inductive Api where
  | start | manage | shutdown
  deriving DecidableEq, Repr

/-- The three process-wide functions Start / Shutdown run besides the module routines:
    `globalPrepFn` (SetGlobalPrepFn), `globalShutdownFn` (SetGlobalShutdownFn), `cmdLineOperation`. -/
inductive Glob where
  | prep | shutdown | cmd
  deriving DecidableEq, Repr

/-- Where the manager is. -/
inductive Pc where
  | idle                          -- no API call in progress
  | glob (g : Glob)               -- Start is about to run the global prep function / the command-line operation,
                                  -- Shutdown the global shutdown function
  | prep                          -- Start: prepareModules
  | startS                        -- Start: startModules
  | stopM                         -- ManageModules: stopModules
  | startM                        -- ManageModules: startModules
  | stopX                         -- Shutdown: stopModules
  | done (a : Api) (ok : Bool)    -- the call is about to return this result
  deriving DecidableEq, Repr

inductive Ev where
  | call (a : Api)
  | ret (a : Api) (ok : Bool)
  | beg (k : Kind) (m : Nat)
  | fin (k : Kind) (m : Nat) (ok : Bool)
  | passEnd
  | enable (m : Nat)
  | disable (m : Nat)
  | setGlob (g : Glob) (i : Nat)
  | glob (g : Glob) (i : Nat) (ok : Bool)
  deriving DecidableEq, Repr

structure St where
  n : Nat                          -- registered modules are 0 … n-1
  deps : Nat → List Nat            -- depNames, as indices (an index ≥ n is a name that is not registered)
  mgmt : Bool                      -- moduleMgmtEnabled
  status : Nat → Nat
  enabled : Nat → Bool
  asDep : Nat → Bool               -- enabledAsDependency
  locked : Bool                    -- modulesLocked
  shutdown : Bool                  -- shutdownFlag
  pc : Pc
  execCnt : Nat
  reportCnt : Nat
  failed : Bool                    -- prep/start pass: an error report was received; stop pass: lastErr ≠ nil
  stopErr : Bool                   -- ManageModules: lastErr of its stop pass
  running : List Nat               -- launched, report not yet received
  gfn : Glob → Option Nat          -- globalPrepFn / globalShutdownFn / cmdLineOperation (`none` = nil)

def set {α : Type} (f : Nat → α) (i : Nat) (v : α) : Nat → α := fun j => if j = i then v else f j

/-- A fresh registry: `n` modules, all Dead, nothing enabled. -/
def init (n : Nat) (deps : Nat → List Nat) (mgmt : Bool) : St :=
  { n := n, deps := deps, mgmt := mgmt, status := fun _ => statusDead, enabled := fun _ => false,
    asDep := fun _ => false, locked := false, shutdown := false, pc := .idle, execCnt := 0, reportCnt := 0,
    failed := false, stopErr := false, running := [], gfn := fun _ => none }

/-- `depReverse` as linked by `initDependencies`: the registered modules that name `d` as dependency. -/
def revDeps (s : St) (d : Nat) : List Nat := (List.range s.n).filter (fun r => (s.deps r).contains d)

/-- `(*Module).readyToPrep`. -/
def readyToPrep (s : St) (m : Nat) : Nat :=
  if prepOwnSkip (s.status m) then readyNothingToDo
  else if (s.deps m).any (fun d => prepDepWaits (s.status d)) then readyWaiting
  else readyReady

/-- `(*Module).readyToStart`. -/
def readyToStart (s : St) (m : Nat) : Nat :=
  if s.mgmt && !(s.enabled m) && !(s.asDep m) then readyNothingToDo
  else if startOwnBlocked (s.status m) then readyWaiting
  else if startOwnSkip (s.status m) then readyNothingToDo
  else if (s.deps m).any (fun d => startDepWaits (s.status d)) then readyWaiting
  else readyReady

/-- `(*Module).readyToStop`. -/
def readyToStop (s : St) (m : Nat) : Nat :=
  if s.mgmt && !s.shutdown && (s.enabled m || s.asDep m) then readyNothingToDo
  else if stopOwnSkip (s.status m) then readyNothingToDo
  else if (revDeps s m).any (fun r => stopRevWaits (s.status r)) then readyWaiting
  else readyReady

/-- Which kind of routine the current pass runs. -/
def passKind : Pc → Option Kind
  | .prep => some .prep
  | .startS => some .start
  | .startM => some .start
  | .stopM => some .stop
  | .stopX => some .stop
  | _ => none

def ready (s : St) (k : Kind) (m : Nat) : Nat :=
  match k with
  | .prep => readyToPrep s m
  | .start => readyToStart s m
  | .stop => readyToStop s m

/-- No module of the registry has verdict Ready (the last scan of a pass launched nothing). -/
def noneReady (s : St) (k : Kind) : Bool := (List.range s.n).all (fun m => ready s k m != readyReady)

/-- `waiting > 0` in the last scan. -/
def anyWaiting (s : St) (k : Kind) : Bool := (List.range s.n).any (fun m => ready s k m == readyWaiting)

/-! ### buildEnabledTree -/

def mkFn (l : List Bool) : Nat → Bool := fun i => l.getD i false

/-- One round: mark every dependency of an enabled or already marked module. -/
def closeRound (n : Nat) (deps : Nat → List Nat) (en : Nat → Bool) (l : List Bool) : List Bool :=
  (List.range n).map (fun d => l.getD d false ||
    (List.range n).any (fun r => (en r || l.getD r false) && (deps r).contains d))

def closeIter (n : Nat) (deps : Nat → List Nat) (en : Nat → Bool) : Nat → List Bool → List Bool
  | 0, l => l
  | k + 1, l => closeIter n deps en k (closeRound n deps en l)

/-- `buildEnabledTree`: reset all marks, then mark the dependencies of every enabled module, recursively
    (`markDependencies`). The Go code does a depth-first walk; the model computes the same least fixed
    point by `n` rounds over the registry (`n` rounds suffice: proved in `PBProofs.Lemmas.Modules`). -/
def buildEnabledTree (s : St) : St :=
  { s with asDep := mkFn (closeIter s.n s.deps s.enabled s.n ((List.range s.n).map (fun _ => false))) }

/-- `initDependencies` fails when a dependency name is not registered. -/
def depsRegistered (s : St) : Bool := (List.range s.n).all (fun m => (s.deps m).all (fun d => d < s.n))

def enterPass (s : St) (pc : Pc) : St :=
  { s with pc := pc, execCnt := 0, reportCnt := 0, failed := false }

/-! ### The transition function -/

def stepCall (s : St) : Api → Option St
  | .start =>
    if s.pc ≠ .idle then none
    else if s.locked then some { s with pc := .done .start false }          -- "module system already started"
    else
      -- (the shutdown flag is not looked at: a first Start after Shutdown runs like any first Start)
      let s := { s with locked := true }
      if !depsRegistered s then some { s with pc := .done .start false }    -- initDependencies error
      else if (s.gfn .prep).isSome then some { s with pc := .glob .prep }   -- "execute global prep fn"
      else some (enterPass s .prep)
  | .manage =>
    if s.pc ≠ .idle then none
    else if !s.mgmt then some { s with pc := .done .manage true }           -- management disabled: nothing happens
    else if !s.locked then
      -- before Start no dependency is linked (`depModules` is empty): buildEnabledTree only resets the marks
      some (enterPass { s with asDep := fun _ => false } .stopM)
    else if !depsRegistered s then none           -- after a Start that failed in initDependencies: not modelled
    else some (enterPass (buildEnabledTree s) .stopM)
  | .shutdown =>
    if s.pc ≠ .idle then none
    else if s.shutdown then some { s with pc := .done .shutdown false }     -- "shutdown already initiated"
    else if (s.gfn .shutdown).isSome then some { s with shutdown := true, pc := .glob .shutdown }
    else some (enterPass { s with shutdown := true } .stopX)

def stepRet (s : St) (a : Api) (ok : Bool) : Option St :=
  if s.pc = .done a ok then some { s with pc := .idle } else none

def launchStatus : Kind → Nat
  | .prep => prepLaunch
  | .start => startLaunch
  | .stop => stopLaunch

/-- The manager finds module `m` ready and runs `m.prep/start/stop(reports)`. -/
def stepBeg (s : St) (k : Kind) (m : Nat) : Option St :=
  if m < s.n ∧ passKind s.pc = some k ∧ ready s k m = readyReady then
    some { s with status := set s.status m (launchStatus k), execCnt := s.execCnt + 1, running := m :: s.running }
  else none

def finStatus (cur : Nat) : Kind → Bool → Nat
  | .prep, true => prepDone
  | .prep, false => cur          -- a failed prep leaves the module in StatusPreparing
  | .start, true => startDone
  | .start, false => startFailed
  | .stop, _ => stopDone         -- "Always set to offline in order to let other modules shutdown in order."

/-- The routine of `m` ended, its status was written and its report received. -/
def stepFin (s : St) (k : Kind) (m : Nat) (ok : Bool) : Option St :=
  if passKind s.pc = some k ∧ m ∈ s.running ∧ s.status m = launchStatus k then
    some { s with status := set s.status m (finStatus (s.status m) k ok), reportCnt := s.reportCnt + 1,
                  running := s.running.erase m, failed := s.failed || !ok }
  else none

/-- The fix-point loop leaves its `for`: everything launched has reported and the last scan launched
    nothing (prep/start pass after an error report: the reports were drained). -/
def stepPassEnd (s : St) : Option St :=
  if s.reportCnt < s.execCnt then none else
  match s.pc with
  | .prep =>
    if s.failed then some { s with pc := .done .start false }
    else if !noneReady s .prep then none
    else if anyWaiting s .prep then some { s with pc := .done .start false }   -- "dependency loop detected"
    else if (s.gfn .cmd).isSome then some { s with pc := .glob .cmd }          -- "execute command if available"
    else some (enterPass (buildEnabledTree s) .startS)
  | .startS =>
    if s.failed then some { s with pc := .done .start false }
    else if !noneReady s .start then none
    else if anyWaiting s .start then some { s with pc := .done .start false }
    else some { s with pc := .done .start true }
  | .stopM =>
    if !noneReady s .stop then none
    else some { (enterPass s .startM) with stopErr := s.failed || anyWaiting s .stop }
  | .startM =>
    if s.failed then some { s with pc := .done .manage false }
    else if !noneReady s .start then none
    else if anyWaiting s .start then some { s with pc := .done .manage false }
    else some { s with pc := .done .manage (!s.stopErr) }
  | .stopX =>
    if !noneReady s .stop then none
    else some { s with pc := .done .shutdown (!(s.failed || anyWaiting s .stop)) }
  | _ => none

def stepEnable (s : St) (m : Nat) (v : Bool) : Option St :=
  if s.pc = .idle ∧ m < s.n then some { s with enabled := set s.enabled m v } else none

/-- `SetGlobalPrepFn` / `SetGlobalShutdownFn` (`if globalXFn == nil { globalXFn = fn }`: the first function
    stays) and `SetCmdLineOperation` (plain assignment: the last function stays). In the histories they are
    called between the API calls. -/
def stepSetGlob (s : St) (g : Glob) (i : Nat) : Option St :=
  if s.pc ≠ .idle then none else
  match g with
  | .cmd => some { s with gfn := fun x => if x = .cmd then some i else s.gfn x }
  | _ => if (s.gfn g).isSome then some s else some { s with gfn := fun x => if x = g then some i else s.gfn x }

/-- Start runs the global prep function (an error ends Start before anything is prepared) or, after all
    modules are prepared, the command-line operation (Start then returns ErrCleanExit whatever the operation
    returned); Shutdown runs the global shutdown function first (it has no result). -/
def globNext (s : St) : Glob → Bool → St
  | .prep, true => enterPass s .prep
  | .prep, false => { s with pc := .done .start false }
  | .shutdown, _ => enterPass s .stopX
  | .cmd, _ => { s with pc := .done .start false }

def stepGlob (s : St) (g : Glob) (i : Nat) (ok : Bool) : Option St :=
  if s.pc = .glob g ∧ s.gfn g = some i then some (globNext s g ok) else none

def step (s : St) : Ev → Option St
  | .call a => stepCall s a
  | .ret a ok => stepRet s a ok
  | .beg k m => stepBeg s k m
  | .fin k m ok => stepFin s k m ok
  | .passEnd => stepPassEnd s
  | .enable m => stepEnable s m true
  | .disable m => stepEnable s m false
  | .setGlob g i => stepSetGlob s g i
  | .glob g i ok => stepGlob s g i ok

/-- Run a whole history. -/
def run (s : St) : List Ev → Option St
  | [] => some s
  | e :: es => match step s e with
    | some s' => run s' es
    | none => none

end PB.Modules
