import PB.Bytes
import PB.Model.Varint
import PB.Gen.Dsd
/-
Model of /repo/formats/dsd (dsd.go, format.go, compression.go, http.go): portbase's own logic, i.e. the
framing (format identifier byte, AUTO resolution, compression wrapper) and the HTTP glue (Accept / Content-Type
handling). The third-party codecs (encoding/json, ghodss/yaml, fxamacker/cbor, vmihailenco/msgpack, the
gencode methods of the value) and compress/gzip are PARAMETERS (`Codec`): the theorems state their contracts
as hypotheses, the correspondence run feeds the driver with the real libraries' results.

Constants, the case sets of the Validate* functions, the dispatch tables of LoadAsFormat /
dumpWithoutIdentifier and the two mime maps are regenerated from the source on every run (`PB.Gen.Dsd`).
Strings are lists of Unicode code points (`Str`); behaviour on invalid UTF-8 is not modelled.

The package has two assignable exported variables that its functions read at call time,
`DefaultSerializationFormat` and `DefaultCompressionFormat` (format.go). They are INPUTS of the model (`Cfg`), not
constants: every function that reads one of them takes it as an argument, and the theorems quantify over it. Apart
from them (and the two mime maps, whose literals are regenerated) the package has no package-level state
(`PB.Gen.Dsd.packageState`, regenerated and checked in PBProofs/C09.lean), which is what makes the functions of the
model *functions*: a result depends on the arguments and on `Cfg` only, never on earlier calls, and two results
never share storage.
-/
namespace PB.Dsd
open PB PB.Varint PB.Gen.Dsd

abbrev Str := List Nat

/-- Error classes observable at the dsd API. -/
inductive Err where
  | small         -- varint.ErrBufTooSmall (empty input / missing continuation byte)
  | large         -- varint: "encoded integer greater than 255"
  | eof           -- io.ErrUnexpectedEOF: no payload after the format identifier (also: gzip stream truncated)
  | israw         -- ErrIsRaw
  | incompatible  -- ErrIncompatibleFormat
  | codec         -- the codec (or the gencode type assertion) reported an error
  | gunzip        -- compress/gzip reported an error other than io.ErrUnexpectedEOF
  deriving Repr, DecidableEq

def Err.str : Err → String
  | .small => "small" | .large => "large" | .eof => "eof" | .israw => "israw"
  | .incompatible => "incompatible" | .codec => "codec" | .gunzip => "gunzip"

/-- The external libraries, as parameters. `V` is the type of values handed to Dump / produced by Load. -/
structure Codec (V : Type) where
  /-- `json.Marshal`, `yaml.Marshal`, `cbor.Marshal`, `msgpack.Marshal`, `GenCodeMarshal` (none = error, or the
      value does not implement GenCodeCompatible) -/
  enc : Lib → V → Option Bytes
  /-- `json.MarshalIndent(t, "", indent)` for a non-empty indent -/
  encIndent : Str → V → Option Bytes
  /-- the matching `Unmarshal` into a fresh value of the caller's type -/
  dec : Lib → Bytes → Option V
  /-- the type assertion `t.([]byte)` of the RAW case -/
  asBytes : V → Option Bytes
  /-- gzip at BestCompression (errors of the writer are not modelled: bytes.Buffer never fails) -/
  gz : Bytes → Bytes
  /-- gzip reader + ReadFrom + Close; the library's error is passed through (`.eof` or `.gunzip`) -/
  gunz : Bytes → Except Err Bytes

/-! ### format.go -/

/-- The package variables `DefaultSerializationFormat` / `DefaultCompressionFormat` at the time of a call. -/
structure Cfg where
  defSer : Nat
  defComp : Nat
  deriving Repr, DecidableEq

/-- Their initialisers (regenerated). -/
def Cfg.init : Cfg := { defSer := defaultSerializationFormat, defComp := defaultCompressionFormat }

/-- `ValidateSerializationFormat`; `defSer` is the value of `DefaultSerializationFormat` when it is called. -/
def validateSerializationFormat (defSer format : Nat) : Option Nat :=
  if format ∈ serializationAuto then some defSer
  else if format ∈ serializationSame then some format
  else none

/-- `ValidateCompressionFormat`; `defComp` is the value of `DefaultCompressionFormat` when it is called. -/
def validateCompressionFormat (defComp format : Nat) : Option Nat :=
  if format ∈ compressionAuto then some defComp
  else if format ∈ compressionSame then some format
  else none

/-! ### dsd.go -/

def lookup {α β : Type} [DecidableEq α] (k : α) : List (α × β) → Option β
  | [] => none
  | (a, b) :: rest => if a = k then some b else lookup k rest

/-- `LoadAsFormat`. -/
def loadAsFormat {V : Type} (c : Codec V) (data : Bytes) (format : Nat) : Except Err V :=
  match lookup format loadDispatch with
  | some .raw => .error .israw
  | some (.lib l) =>
    match c.dec l data with
    | some v => .ok v
    | none => .error .codec
  | none => .error .incompatible

/-- `loadFormat`: the identifier and how many bytes it took. A missing payload is an error, except for RAW,
    whose payload may be empty (`fix:` commit; before it, `Dump([]byte{}, RAW)` could not be loaded). -/
def loadFormat (data : Bytes) : Except Err (Nat × Nat) :=
  match unpack8 data with
  | .error .small => .error .small
  | .error _ => .error .large
  | .ok (format, read) =>
    if data.length ≤ read ∧ format ≠ RAW then .error .eof
    else .ok (format, read)

/-- `DecompressAndLoad`. Go returns `(format, err)`: the pair is kept. -/
def decompressAndLoad {V : Type} (cfg : Cfg) (c : Codec V) (data : Bytes) (compression : Nat) : Nat × Except Err V :=
  match validateCompressionFormat cfg.defComp compression with
  | none => (0, .error .incompatible)
  | some _ =>
    if compression ∈ decompressGzipCases then
      match c.gunz data with
      | .error e => (0, .error e)
      | .ok plain =>
        match loadFormat plain with
        | .error e => (0, .error e)
        | .ok (format, read) => (format, loadAsFormat c (plain.drop read) format)
    else (0, .error .incompatible)

/-- `Load`. -/
def load {V : Type} (cfg : Cfg) (c : Codec V) (data : Bytes) : Nat × Except Err V :=
  match loadFormat data with
  | .error e => (0, .error e)
  | .ok (format, read) =>
    match validateSerializationFormat cfg.defSer format with
    | some _ => (format, loadAsFormat c (data.drop read) format)
    | none => decompressAndLoad cfg c (data.drop read) format

/-- `dumpWithoutIdentifier`; `indent = []` is Go's `indent == ""`. -/
def dumpWithoutIdentifier {V : Type} (cfg : Cfg) (c : Codec V) (v : V) (format : Nat) (indent : Str) : Except Err Bytes :=
  match validateSerializationFormat cfg.defSer format with
  | none => .error .incompatible
  | some format =>
    match lookup format dumpDispatch with
    | some .raw =>
      match c.asBytes v with
      | some b => .ok b
      | none => .error .incompatible
    | some (.lib l) =>
      let r := if l = .json ∧ indent ≠ [] then c.encIndent indent v else c.enc l v
      match r with
      | some b => .ok b
      | none => .error .codec
    | none => .error .incompatible

/-- `DumpIndent` (after the `fix:` commit: the identifier written is the *validated* format, so that AUTO is
    recorded as the format actually used). -/
def dumpIndent {V : Type} (cfg : Cfg) (c : Codec V) (v : V) (format : Nat) (indent : Str) : Except Err Bytes :=
  match validateSerializationFormat cfg.defSer format with
  | none => .error .incompatible
  | some format =>
    match dumpWithoutIdentifier cfg c v format indent with
    | .error e => .error e
    | .ok data => .ok (pack8 format ++ data)

def dump {V : Type} (cfg : Cfg) (c : Codec V) (v : V) (format : Nat) : Except Err Bytes := dumpIndent cfg c v format []

/-- `DumpAndCompress`. -/
def dumpAndCompress {V : Type} (cfg : Cfg) (c : Codec V) (v : V) (format compression : Nat) : Except Err Bytes :=
  match validateCompressionFormat cfg.defComp compression with
  | none => .error .incompatible
  | some compression =>
    match dump cfg c v format with
    | .error e => .error e
    | .ok data =>
      if compression ∈ compressGzipCases then .ok (pack8 compression ++ c.gz data)
      else .error .incompatible

/-! ### http.go -/

/-- Go's `unicode.IsSpace` (what `strings.TrimSpace` trims). -/
def isSpace (c : Nat) : Bool :=
  (9 ≤ c && c ≤ 13) || c == 32 || c == 0x85 || c == 0xA0 || c == 0x1680 || (0x2000 ≤ c && c ≤ 0x200A) ||
  c == 0x2028 || c == 0x2029 || c == 0x202F || c == 0x205F || c == 0x3000

def trimSpace (s : Str) : Str := ((s.dropWhile isSpace).reverse.dropWhile isSpace).reverse

/-- `before, _, _ := strings.Cut(s, sep)` for a one-character separator. -/
def cutBefore (sep : Nat) (s : Str) : Str := s.takeWhile (· != sep)

/-- `_, after, _ := strings.Cut(s, sep)`. -/
def cutAfter (sep : Nat) (s : Str) : Str := (s.dropWhile (· != sep)).drop 1

/-- `unicode.ToLower` as far as it can matter for comparing with ASCII strings: ASCII letters, and the only two
    non-ASCII code points whose lower case is an ASCII letter (KELVIN SIGN, LATIN CAPITAL I WITH DOT ABOVE).
    All other code points are left unchanged here (Go maps non-ASCII to non-ASCII). -/
def goLower (c : Nat) : Nat :=
  if 65 ≤ c ∧ c ≤ 90 then c + 32
  else if c = 0x212A then 107
  else if c = 0x130 then 105
  else c

def toLower (s : Str) : Str := s.map goLower

/-- `strings.Split(s, sep)` for a one-character separator. -/
def splitOn (sep : Nat) : Str → List Str
  | [] => [[]]
  | c :: cs =>
    if c = sep then [] :: splitOn sep cs
    else
      match splitOn sep cs with
      | [] => [[c]]
      | h :: t => (c :: h) :: t

/-- The "clean mime type" steps of the loop body of `FormatFromAccept`. -/
def cleanMime (e : Str) : Str :=
  let m := cutBefore 59 (trimSpace e)          -- TrimSpace; Cut at ';'
  let m := if 47 ∈ m then cutAfter 47 m else m -- if Contains "/": Cut at '/'
  toLower m

/-- The loop of `FormatFromAccept` over the comma-separated elements. -/
def ffaLoop (defSer : Nat) : List Str → Bool → Nat
  | [], foundWildcard => if foundWildcard then defSer else AUTO
  | e :: es, foundWildcard =>
    match lookup (cleanMime e) mimeTypeToFormat with
    | some format => format
    | none => ffaLoop defSer es (foundWildcard || cleanMime e == [42])

/-- `FormatFromAccept`; `defSer` is the value of `DefaultSerializationFormat` when it is called. -/
def formatFromAccept (defSer : Nat) (accept : Str) : Nat :=
  if accept = [] then defSer else ffaLoop defSer (splitOn 44 accept) false

/-- `MimeLoad`. -/
def mimeLoad {V : Type} (cfg : Cfg) (c : Codec V) (data : Bytes) (accept : Str) : Nat × Except Err V :=
  let format := formatFromAccept cfg.defSer accept
  if format = 0 then (0, .error .incompatible) else (format, loadAsFormat c data format)

/-- `MimeDump` (after the `fix:` commit: the mime type of the chosen format is returned, and a format without
    mime type is an error). Result: data, mime type, format. -/
def mimeDump {V : Type} (cfg : Cfg) (c : Codec V) (v : V) (accept : Str) : Except Err (Bytes × Str × Nat) :=
  let format := formatFromAccept cfg.defSer accept
  if format = AUTO then .error .incompatible
  else
    match lookup format formatToMimeType with
    | none => .error .incompatible
    | some mimeType =>
      match dumpWithoutIdentifier cfg c v format [] with
      | .error e => .error e
      | .ok data => .ok (data, mimeType, format)

/-- The parts of an `http.Request` the dsd functions touch. -/
structure Req where
  accept : Option Str := none
  contentType : Option Str := none
  body : Option Bytes := none
  deriving Repr, DecidableEq

/-- The parts of a recorded `http.ResponseWriter`. -/
structure Resp where
  contentType : Option Str := none
  body : Bytes := []
  deriving Repr, DecidableEq

/-- `DumpToHTTPRequest` (which first calls `RequestHTTPResponseFormat`: the Accept header is set even when
    serialisation fails afterwards). -/
def dumpToHTTPRequest {V : Type} (cfg : Cfg) (c : Codec V) (r : Req) (v : V) (format : Nat) : Req × Option Err :=
  match lookup format formatToMimeType with
  | none => (r, some .incompatible)
  | some mimeType =>
    let r := { r with accept := some mimeType }
    match dumpWithoutIdentifier cfg c v format [] with
    | .error e => (r, some e)
    | .ok data => ({ r with contentType := some mimeType, body := some data }, none)

/-- `DumpToHTTPResponse`: the Accept header of the request decides (`Header.Get` of a missing header is ""). -/
def dumpToHTTPResponse {V : Type} (cfg : Cfg) (c : Codec V) (w : Resp) (r : Req) (v : V) : Resp × Option Err :=
  match mimeDump cfg c v (r.accept.getD []) with
  | .error e => (w, some e)
  | .ok (data, mimeType, _) => ({ contentType := some mimeType, body := w.body ++ data }, none)

/-- `LoadFromHTTPRequest` (a request without body reads as empty). -/
def loadFromHTTPRequest {V : Type} (cfg : Cfg) (c : Codec V) (r : Req) : Nat × Except Err V :=
  mimeLoad cfg c (r.body.getD []) (r.contentType.getD [])

/-- `LoadFromHTTPResponse`. -/
def loadFromHTTPResponse {V : Type} (cfg : Cfg) (c : Codec V) (w : Resp) : Nat × Except Err V :=
  mimeLoad cfg c w.body (w.contentType.getD [])

end PB.Dsd
