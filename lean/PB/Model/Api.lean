import PB.Bytes
import PB.Gen.Api
/-
Executable model of the request-admission logic of portbase's `api` package (property C12),
written branch by branch from
  api/router.go          mainHandler.handle   (origin check … handler call)
  api/authentication.go  authenticateRequest, checkAuth, checkAPIKey, checkSessionCookie,
                         createSession, cleanSessions, deleteSession, updateAPIKeys,
                         parseAPIPermission, getEffectiveMethod
Strings are Go strings = byte lists. Constants/tables come from `PB.Gen.Api` (regenerated from the
source on every run). Parsing done by libraries (net/url, net/http cookies and Basic auth, base64,
time.Parse, gorilla/mux matching) is *input* to the model: the request carries the parsed view.
Time is a natural number of seconds.
-/
namespace PB.Api
open PB PB.Gen.Api

-- `Permission` (Go `int8`) is modelled as `Int`.

/-- `AuthToken` (Read, Write). `ValidUntil` only exists for API keys, see `KeyToken`. -/
structure Token where
  read : Int
  write : Int
  deriving DecidableEq, Repr, Inhabited

/-- Permission of a token for a method class. -/
def Token.perm (t : Token) (readMethod : Bool) : Int := if readMethod then t.read else t.write

/-- The default token: `&AuthToken{Read: PermitAnyone, Write: PermitAnyone}`. -/
def anon : Token := ⟨permitAnyone, permitAnyone⟩

/-- An entry of the `apiKeys` map. -/
structure KeyToken where
  tok : Token
  validUntil : Option Nat
  deriving DecidableEq, Repr

/-- An entry of the `sessions` map (`id` stands for the random cookie value). -/
structure Session where
  id : Nat
  tok : Token
  validUntil : Nat
  deriving DecidableEq, Repr

/-- `expires` query parameter of a configured key after `time.Parse(time.RFC3339, …)`. -/
inductive Expires
  | absent
  | bad
  | at (t : Nat)
  deriving DecidableEq, Repr

/-- One string of the `core/apiKeys` option after `url.Parse` / `u.Query()`. -/
structure KeyEntry where
  parseOk : Bool
  path : Bytes
  read : Bytes
  write : Bytes
  expires : Expires
  deriving DecidableEq, Repr

/-- Result of the registered authenticator for a request. -/
inductive AuthResult
  | token (t : Token)
  | nilToken
  | failed
  | denied
  deriving DecidableEq, Repr

/-- `url.Parse(origin)`: `Host`, `Hostname()`, `Scheme`. -/
structure Origin where
  host : Bytes
  hostname : Bytes
  scheme : Bytes
  deriving DecidableEq, Repr

inductive OriginHdr
  | absent
  | unparsable
  | parsed (o : Origin)
  deriving DecidableEq, Repr

/-- The matched handler: `perms = none` when it is not an `AuthenticatedHandler`;
    `moduleReady = false` when it is a `ModuleHandler` whose module is not ready. -/
structure Handler where
  perms : Option (Int × Int)
  moduleReady : Bool
  deriving DecidableEq, Repr

/-- Result of `mux.Match`. `matched none` is a route registered without handler. -/
inductive Route
  | noMatch
  | methodMismatch
  | matched (h : Option Handler)
  deriving DecidableEq, Repr

structure Req where
  method : Bytes
  acrm : Bytes            -- Access-Control-Request-Method header ("" if absent)
  origin : OriginHdr
  host : Bytes
  pathDirty : Bool        -- r.URL.Path ≠ cleanRequestPath(r.URL.Path)
  route : Route
  bridge : Bool           -- r.RemoteAddr == endpointBridgeRemoteAddress
  authorization : Bytes   -- Authorization header ("" if absent)
  basic : Bytes           -- user ++ pass as returned by r.BasicAuth()
  cookie : Option Nat     -- value of the session cookie, if the request carries one
  auth : AuthResult       -- what the authenticator returns for this request
  deriving DecidableEq, Repr

structure St where
  cfg : List KeyEntry              -- current value of the core/apiKeys option
  keys : List (Bytes × KeyToken)   -- apiKeys
  sessions : List Session          -- sessions
  nextId : Nat                     -- stands for the randomness of createSession
  authSet : Bool                   -- authFnSet
  dev : Bool                       -- devMode()
  now : Nat
  deriving Repr

def St.init : St := ⟨[], [], [], 0, false, false, 0⟩

/-! ### Permission names, method classes -/

/-- `strings.ToLower` as far as it can produce ASCII: ASCII letters, U+0130 (İ ↦ i), U+212A (K ↦ k).
    Every other non-ASCII sequence lower-cases to non-ASCII and is left alone. -/
def toLowerGo : Bytes → Bytes
  | 0xC4 :: 0xB0 :: rest => 105 :: toLowerGo rest
  | 0xE2 :: 0x84 :: 0xAA :: rest => 107 :: toLowerGo rest
  | b :: rest => (if 65 ≤ b ∧ b ≤ 90 then b + 32 else b) :: toLowerGo rest
  | [] => []

/-- `parseAPIPermission`; `none` is the error case. -/
def parseAPIPermission (s : Bytes) : Option Int := permNames.lookup (toLowerGo s)

/-- `getEffectiveMethod`: `none` = not ok, `some true` = read method, `some false` = write method. -/
def effectiveMethod (method acrm : Bytes) : Option Bool :=
  if method = methodOptions ∧ acrm = [] then none
  else
    let m := if method = methodOptions then acrm else method
    if m ∈ readMethods then some true
    else if m ∈ writeMethods then some false
    else none

/-! ### API keys -/

inductive KeyParse
  | skip
  | expired
  | ok (path : Bytes) (kt : KeyToken)
  deriving DecidableEq, Repr

/-- One iteration of the loop in `updateAPIKeys`. -/
def parseKey (now : Nat) (e : KeyEntry) : KeyParse :=
  if !e.parseOk then .skip
  else if e.path = [] then .skip
  else match parseAPIPermission e.read with
    | none => .skip
    | some rp =>
      match parseAPIPermission e.write with
      | none => .skip
      | some wp =>
        match e.expires with
        | .absent => .ok e.path ⟨⟨rp, wp⟩, none⟩
        | .bad => .skip
        | .at t => if now > t then .expired else .ok e.path ⟨⟨rp, wp⟩, some t⟩

/-- Go map assignment `apiKeys[k] = v`. -/
def insertKey (keys : List (Bytes × KeyToken)) (k : Bytes) (v : KeyToken) : List (Bytes × KeyToken) :=
  (k, v) :: keys.filter (fun p => p.1 != k)

structure Import where
  keys : List (Bytes × KeyToken) := []
  valid : List KeyEntry := []        -- `validAPIKeys` (in reverse order)
  hasExpired : Bool := false

def importStep (now : Nat) (acc : Import) (e : KeyEntry) : Import :=
  match parseKey now e with
  | .skip => acc
  | .expired => { acc with hasExpired := true }
  | .ok p kt => { acc with keys := insertKey acc.keys p kt, valid := e :: acc.valid }

def importKeys (now : Nat) (cfg : List KeyEntry) : Import := cfg.foldl (importStep now) {}

/-- `updateAPIKeys` (the map is emptied and rebuilt), then — if expired keys were seen — the
    "api key cleanup" microtask: the option is set to the still-valid keys, which triggers
    `updateAPIKeys` once more. -/
def updateAPIKeys (st : St) : St :=
  let imp := importKeys st.now st.cfg
  if imp.hasExpired then
    let cfg' := imp.valid.reverse
    { st with cfg := cfg', keys := (importKeys st.now cfg').keys }
  else { st with keys := imp.keys }

/-- `checkAPIKey` (after the fix of the `key[:4]` panic: unknown keys of any length are just unknown). -/
def presentedKey (r : Req) : Option Bytes :=
  if r.authorization = [] then none
  else if bearerPrefix.isPrefixOf r.authorization then some (r.authorization.drop bearerPrefix.length)
  else if basicPrefix.isPrefixOf r.authorization then some r.basic
  else none

def checkAPIKey (st : St) (r : Req) : Option Token :=
  match presentedKey r with
  | none => none
  | some key =>
    match st.keys.lookup key with
    | none => none
    | some kt =>
      match kt.validUntil with
      | none => some kt.tok
      | some t => if st.now > t then none else some kt.tok

/-! ### Sessions -/

def findSession (ss : List Session) (id : Nat) : Option Session := ss.find? (fun s => s.id == id)

def refreshSession (ss : List Session) (id : Nat) (vu : Nat) : List Session :=
  ss.map (fun s => if s.id == id then { s with validUntil := vu } else s)

/-- `sess.Expired()`: the comparison is regenerated from the source (`time.Now().After(validUntil)`). -/
def sessionExpired (now : Nat) (s : Session) : Bool :=
  if sessionExpiredStrict then decide (now > s.validUntil) else decide (now ≥ s.validUntil)

/-- The statements of `checkSessionCookie` after the session has been found, interpreted in source
    order (`PB.Gen.Api.checkSessionCookieSteps`, regenerated on every run). `s` is the session object
    (a pointer in Go: a refresh is visible to the later statements). The list always ends in `grant`
    (checked by the extractor; Go does not compile a function with a result that falls off its end). -/
def runCookieSteps (st : St) (s : Session) : List CookieStep → St × Option Token
  | [] => (st, none)
  | .refuseIfExpired :: rest => if sessionExpired st.now s then (st, none) else runCookieSteps st s rest
  | .refresh :: rest =>
    runCookieSteps { st with sessions := refreshSession st.sessions s.id (st.now + sessionTTL) }
      { s with validUntil := st.now + sessionTTL } rest
  | .grant :: _ => (st, some s.tok)

/-- `checkSessionCookie`: no cookie or unknown ⇒ nothing; otherwise the statements as written
    (expired ⇒ nothing and *nothing is refreshed*; otherwise refresh and return the token). -/
def checkSessionCookie (st : St) (r : Req) : St × Option Token :=
  match r.cookie with
  | none => (st, none)
  | some id =>
    match findSession st.sessions id with
    | none => (st, none)
    | some s => runCookieSteps st s checkSessionCookieSteps

/-- `createSession`. -/
def createSession (st : St) (t : Token) : St :=
  { st with sessions := ⟨st.nextId, t, st.now + sessionTTL⟩ :: st.sessions, nextId := st.nextId + 1 }

/-- `cleanSessions`. -/
def cleanSessions (st : St) : St :=
  { st with sessions := st.sessions.filter (fun s => !sessionExpired st.now s) }

/-- `deleteSession`. -/
def deleteSession (st : St) (id : Nat) : St :=
  { st with sessions := st.sessions.filter (fun s => s.id != id) }

/-! ### checkAuth -/

inductive AuthOutcome
  | handled (code : Nat)        -- the response has been written
  | token (t : Option Token)    -- nil ⇒ default permissions apply
  deriving DecidableEq, Repr

structure CheckAuth where
  st : St
  out : AuthOutcome
  authCalled : Bool
  newSession : Option Nat

def checkAuth (st : St) (r : Req) (authRequired : Bool) : CheckAuth :=
  if st.dev then ⟨st, .token (some ⟨permitSelf, permitSelf⟩), false, none⟩
  else if r.bridge then ⟨st, .token (some ⟨bridgePerm, bridgePerm⟩), false, none⟩
  else
    match checkAPIKey st r with
    | some t => ⟨st, .token (some t), false, none⟩
    | none =>
      match checkSessionCookie st r with
      | (st', some t) => ⟨st', .token (some t), false, none⟩
      | (st', none) =>
        if !st'.authSet then ⟨st', .token none, false, none⟩
        else
          match r.auth with
          | .failed => ⟨st', .handled 500, true, none⟩
          | .denied =>
            if authRequired then ⟨st', .handled 403, true, none⟩ else ⟨st', .token none, true, none⟩
          | .nilToken => ⟨st', .token none, true, none⟩
          | .token t => ⟨createSession st' t, .token (some t), true, some st'.nextId⟩

/-! ### authenticateRequest -/

/-- The permission the target handler declares for the method class
    (`PermitSelf` for handlers that are not an `AuthenticatedHandler`, including `nil`). -/
def requiredPermission (h : Option Handler) (readMethod : Bool) : Int :=
  match h with
  | some ⟨some (r, w), _⟩ => if readMethod then r else w
  | _ => permitSelf

def validPerm (p : Int) : Prop := permitAnyone ≤ p ∧ p ≤ permitSelf

instance (p : Int) : Decidable (validPerm p) := by unfold validPerm; exact inferInstance

structure AuthReq where
  st : St
  out : Except Nat Token     -- error = status of the response already written
  authCalled : Bool := false
  newSession : Option Nat := none
  wwwAuth : Bool := false

/-- The part of `authenticateRequest` after `checkAuth` returned a token (or nil): validity and
    sufficiency of the request permission, 500 / 401 / 403, copy of the token. -/
def judge (ca : CheckAuth) (t? : Option Token) (required : Int) (readMethod : Bool) : AuthReq :=
  let token := t?.getD anon
  let requestPermission := token.perm readMethod
  if requestPermission < permitAnyone ∨ requestPermission > permitSelf then
    { st := ca.st, out := .error 500, authCalled := ca.authCalled, newSession := ca.newSession }
  else if requestPermission < required then
    if token.read = permitAnyone ∧ token.write = permitAnyone then
      { st := ca.st, out := .error 401, authCalled := ca.authCalled, newSession := ca.newSession, wwwAuth := true }
    else
      { st := ca.st, out := .error 403, authCalled := ca.authCalled, newSession := ca.newSession }
  else
    { st := ca.st, out := .ok ⟨token.read, token.write⟩, authCalled := ca.authCalled, newSession := ca.newSession }

/-- The part of `authenticateRequest` after the special permissions have been handled
    (`required` is the declared permission, with `Dynamic` replaced by `PermitAnyone`). -/
def authorize (st : St) (r : Req) (required : Int) (readMethod : Bool) : AuthReq :=
  if required < permitAnyone ∨ required > permitSelf then { st, out := .error 500 }
  else
    let ca := checkAuth st r (decide (required > permitAnyone))
    match ca.out with
    | .handled code => { st := ca.st, out := .error code, authCalled := ca.authCalled, newSession := ca.newSession }
    | .token t? => judge ca t? required readMethod

def authenticateRequest (st : St) (r : Req) (h : Option Handler) (readMethod : Bool) : AuthReq :=
  let required := requiredPermission h readMethod
  if required = notFound then { st, out := .error 404 }
  else if required = notSupported then { st, out := .error 405 }
  else if required = permitAnyone then { st, out := .ok anon }
  else authorize st r (if required = dynamic then permitAnyone else required) readMethod

/-! ### mainHandler.handle -/

inductive Outcome
  | invoke (t : Token)       -- the handler runs and sees this AuthToken
  | status (code : Nat)      -- answered without running the handler
  deriving DecidableEq, Repr

structure Resp where
  out : Outcome
  authCalled : Bool := false         -- the authenticator function ran
  newSession : Option Nat := none    -- a session cookie was issued
  cors : Bool := false               -- the Access-Control-* headers were added
  wwwAuth : Bool := false            -- WWW-Authenticate was added
  deriving DecidableEq, Repr

/-- The switch in the origin check of `handle`. -/
def originAllowed (dev : Bool) (host : Bytes) (o : Origin) : Bool :=
  o.host == host || o.hostname == host || extensionSchemes.contains o.scheme
    || (dev && devOrigins.contains o.hostname)

/-- The origin check at the top of `handle`: a present Origin header that does not parse, or that
    matches neither the Host nor an exception, is refused. -/
def originRefused (st : St) (r : Req) : Bool :=
  match r.origin with
  | .absent => false
  | .unparsable => true
  | .parsed o => !originAllowed st.dev r.host o

/-- `isPreflighCheck`. -/
def isPreflight (r : Req) : Bool := r.origin != .absent && r.method == methodOptions && r.acrm != []

/-- `handle` from the preflight short-cut on (route matched, method class known). -/
def serve (st : St) (r : Req) (h : Option Handler) (readMethod : Bool) : St × Resp :=
  let cors : Bool := r.origin != .absent
  if isPreflight r && h.isSome then (st, { out := .status 200, cors })
  else
    let a := authenticateRequest st r h readMethod
    match a.out with
    | .error code =>
      (a.st, { out := .status code, authCalled := a.authCalled, newSession := a.newSession, cors, wwwAuth := a.wwwAuth })
    | .ok token =>
      match h with
      | none => (a.st, { out := .status 404, authCalled := a.authCalled, newSession := a.newSession, cors })
      | some hd =>
        if !hd.moduleReady then
          (a.st, { out := .status 503, authCalled := a.authCalled, newSession := a.newSession, cors })
        else
          (a.st, { out := .invoke token, authCalled := a.authCalled, newSession := a.newSession, cors })

def handle (st : St) (r : Req) : St × Resp :=
  -- Check Cross-Origin Requests.
  if originRefused st r then (st, { out := .status 403 })
  else
    let cors : Bool := r.origin != .absent
    -- Clean URL.
    if r.pathDirty then (st, { out := .status 301, cors })
    else
      match r.route with
      | .methodMismatch => (st, { out := .status 405, cors })
      | .noMatch => (st, { out := .status 404, cors })
      | .matched h =>
        match effectiveMethod r.method r.acrm with
        | none => (st, { out := .status 405, cors })
        | some readMethod => serve st r h readMethod

/-! ### Histories -/

inductive Event
  | setKeys (cfg : List KeyEntry)   -- the core/apiKeys option is changed
  | configChange                    -- any other "config change" event: keys are re-imported
  | setDev (b : Bool)               -- core/devMode is changed (also a config change)
  | setAuthSet (b : Bool)
  | advance (d : Nat)
  | clean                           -- the periodic session cleaner
  | logout (id : Nat)               -- auth/reset
  | request (r : Req)

def step (st : St) : Event → St
  | .setKeys cfg => updateAPIKeys { st with cfg }
  | .configChange => updateAPIKeys st
  | .setDev b => updateAPIKeys { st with dev := b }
  | .setAuthSet b => { st with authSet := b }
  | .advance d => { st with now := st.now + d }
  | .clean => cleanSessions st
  | .logout id => deleteSession st id
  | .request r => (handle st r).1

def run (st : St) (h : List Event) : St := h.foldl step st

/-- The session with cookie `id` is dead in `st`: the id has been handed out (so it can never be
    handed out again) and the session map holds no live session under it — it was reset (auth/reset),
    cleaned, or every entry under that id has expired. -/
def SessionDead (st : St) (id : Nat) : Prop :=
  id < st.nextId ∧ ∀ s ∈ st.sessions, s.id = id → st.now > s.validUntil

instance (st : St) (id : Nat) : Decidable (SessionDead st id) := by unfold SessionDead; exact inferInstance

end PB.Api
