import PB.Bytes
import PB.Gen.Query
/-
Model of /repo/database/query: tokenizer (`extractSnippets`, `prepToken`), recursive-descent parser
(`ParseQuery`, `parseAndOr`, `parseCondition`), the `Where` constructors with their operand parsing,
`Check`, the printers (`Query.Print`, `Condition.string()`, `escapeString`) and `complies`.
Written branch by branch from parser.go, query.go, condition*.go, operators.go as they are after the
`fix:` commits of branch verif-c11. Strings are `List Char` (valid UTF-8 only; a Go byte slice
`text[a:b]` taken at rune boundaries is the list of runes in between).

Standard-library behaviour that is not modelled is a parameter (`Oracle`): `strconv.ParseFloat` +
`%g` formatting, `regexp.Compile`, `regexp.MatchString`. `strconv.ParseInt/ParseUint/ParseBool` and
`%d` are re-implemented here and compared with the real ones by the correspondence run.
-/
namespace PB.Query
open PB

abbrev Tok := List Char

inductive Err where
  | quote | unexpectedEnd | noQuery | dup | clause | uint | mix | operator
  | chkInt | chkFloat | chkBool | chkSlice | chkRegex | chkIncompatible | chkOperator
  deriving DecidableEq, Repr

def Err.str : Err → String
  | .quote => "quote" | .unexpectedEnd => "end" | .noQuery => "noquery" | .dup => "dup"
  | .clause => "clause" | .uint => "uint" | .mix => "mix" | .operator => "operator"
  | .chkInt => "chk-int" | .chkFloat => "chk-float" | .chkBool => "chk-bool" | .chkSlice => "chk-slice"
  | .chkRegex => "chk-regex" | .chkIncompatible => "chk-incompatible" | .chkOperator => "chk-operator"

/-! ## Words of the language -/

def kwQuery : Tok := ['q','u','e','r','y']
def kwWhere : Tok := ['w','h','e','r','e']
def kwOrderby : Tok := ['o','r','d','e','r','b','y']
def kwLimit : Tok := ['l','i','m','i','t']
def kwOffset : Tok := ['o','f','f','s','e','t']
def kwAnd : Tok := ['a','n','d']
def kwOr : Tok := ['o','r']
def kwNot : Tok := ['n','o','t']
def kwLp : Tok := ['(']
def kwRp : Tok := [')']

/-! ## Tokenizer: `extractSnippets`, `prepToken` -/

/-- The first `switch` of the tokenizer loop: characters that end a word. -/
def isSep (c : Char) : Bool :=
  c = '\t' || c = '\n' || c = '\r' || c = ' ' || c = '(' || c = ')'

/-- `escapeReplacer.ReplaceAllString(_, "$1")` with the pattern `(?s)\\(.)`: leftmost, non-overlapping:
    a backslash and the character after it are replaced by that character; a final lone backslash stays. -/
def unesc : List Char → List Char
  | [] => []
  | c :: rest =>
    if c = '\\' then
      match rest with
      | [] => [c]
      | d :: rest' => d :: unesc rest'
    else c :: unesc rest

/-- `strings.TrimPrefix(text, "\"")`. -/
def trimQuote : List Char → List Char
  | [] => []
  | c :: rest => if c = '"' then rest else c :: rest

def prepToken (t : List Char) : Tok := unesc (trimQuote t)

/-- Tokenizer state besides `skip`: `start == -1` (idle), inside a word (`start ≥ 0`, the slice
    `text[start:pos]` so far), inside quotes (`inParenthesis`, the slice `text[start+1:pos]` so far). -/
inductive Mode where
  | idle
  | word (acc : List Char)
  | quote (acc : List Char)
  deriving DecidableEq, Repr

def Mode.push : Mode → Char → Mode
  | .idle, _ => .idle
  | .word acc, c => .word (acc ++ [c])
  | .quote acc, c => .quote (acc ++ [c])

/-- The loop of `extractSnippets`, one character per step, plus the "add last" epilogue. -/
def lexAux : Bool → Mode → List Char → Except Err (List Tok)
  | _, .idle, [] => .ok []
  | _, .word acc, [] => .ok [prepToken acc]
  | _, .quote acc, [] => .ok [prepToken ('"' :: acc)]
  | true, m, c :: rest => lexAux false (m.push c) rest
  | false, .quote acc, c :: rest =>
    if c = '"' then (prepToken acc :: ·) <$> lexAux false .idle rest
    else lexAux (c = '\\') (.quote (acc ++ [c])) rest
  | false, .idle, c :: rest =>
    if isSep c then
      (if c = '(' ∨ c = ')' then ([c] :: ·) else id) <$> lexAux false .idle rest
    else if c = '"' then lexAux false (.quote []) rest
    else lexAux (c = '\\') (.word [c]) rest
  | false, .word acc, c :: rest =>
    if isSep c then
      (fun ts => prepToken acc :: (if c = '(' ∨ c = ')' then [c] :: ts else ts)) <$> lexAux false .idle rest
    else if c = '"' then .error .quote
    else lexAux (c = '\\') (.word (acc ++ [c])) rest

def lex (s : List Char) : Except Err (List Tok) := lexAux false .idle s

/-! ## Operand parsers (strconv) -/

def isDigit (c : Char) : Bool := 48 ≤ c.toNat && c.toNat ≤ 57
def digitVal (c : Char) : Nat := c.toNat - 48

def parseNatAux (acc : Nat) : List Char → Option Nat
  | [] => some acc
  | c :: cs => if isDigit c then parseNatAux (acc * 10 + digitVal c) cs else none

/-- Decimal digits only, at least one. -/
def parseNat (s : List Char) : Option Nat := if s = [] then none else parseNatAux 0 s

/-- `strconv.ParseInt(s, 10, 64)`. -/
def parseInt (s : List Char) : Option Int :=
  match s with
  | [] => none
  | c :: r =>
    if c = '+' then (parseNat r).bind fun n => if n < 2 ^ 63 then some (n : Int) else none
    else if c = '-' then (parseNat r).bind fun n => if n ≤ 2 ^ 63 then some (-(n : Int)) else none
    else (parseNat s).bind fun n => if n < 2 ^ 63 then some (n : Int) else none

/-- `strconv.ParseUint(s, 10, 31)`. -/
def parseUint31 (s : List Char) : Option Nat :=
  (parseNat s).bind fun n => if n < 2 ^ 31 then some n else none

/-- `strconv.ParseBool`. -/
def parseBool (s : List Char) : Option Bool :=
  if s = ['1'] ∨ s = ['t'] ∨ s = ['T'] ∨ s = ['T','R','U','E'] ∨ s = ['t','r','u','e'] ∨ s = ['T','r','u','e'] then some true
  else if s = ['0'] ∨ s = ['f'] ∨ s = ['F'] ∨ s = ['F','A','L','S','E'] ∨ s = ['f','a','l','s','e'] ∨ s = ['F','a','l','s','e'] then some false
  else none

def digitChar (n : Nat) : Char := Char.ofNat (48 + n)

def showNatAux : Nat → Nat → List Char → List Char
  | 0, _, acc => acc
  | f + 1, n, acc => if n < 10 then digitChar n :: acc else showNatAux f (n / 10) (digitChar (n % 10) :: acc)

/-- `%d` of a non-negative number. -/
def showNat (n : Nat) : List Char := showNatAux (n + 1) n []

/-- `%d`. -/
def showInt (i : Int) : List Char :=
  if i < 0 then '-' :: showNat i.natAbs else showNat i.natAbs

/-- `strings.Split(s, ",")`. -/
def splitComma : List Char → List Tok
  | [] => [[]]
  | c :: rest =>
    if c = ',' then [] :: splitComma rest
    else match splitComma rest with
      | [] => [[c]]
      | h :: t => (c :: h) :: t

/-- `strings.Join(l, ",")`. -/
def joinComma : List Tok → List Char
  | [] => []
  | [t] => t
  | t :: rest => t ++ ',' :: joinComma rest

/-! ## Standard-library parameters -/

structure Oracle where
  /-- `strconv.ParseFloat(t, 64)` succeeds with `v`, and `fmt.Sprintf("%g", v)` is the result. -/
  fcanon : Tok → Option Tok
  /-- `regexp.Compile(t)` succeeds. -/
  reok : Tok → Bool
  /-- IEEE-754 bits of the float64 written as `t` (a `%g` text). -/
  fbits : Tok → Nat
  /-- `regexp.MustCompile(re).MatchString(s)`. -/
  rematch : Tok → Tok → Bool

/-! ## Operators (tables regenerated from the source: `PB.Gen.Query`) -/

def constOf (name : String) : Nat := (PB.Gen.Query.opConsts.lookup name).getD 1000

def opEquals := constOf "Equals"
def opGreaterThan := constOf "GreaterThan"
def opGreaterThanOrEqual := constOf "GreaterThanOrEqual"
def opLessThan := constOf "LessThan"
def opLessThanOrEqual := constOf "LessThanOrEqual"
def opFloatEquals := constOf "FloatEquals"
def opFloatGreaterThan := constOf "FloatGreaterThan"
def opFloatGreaterThanOrEqual := constOf "FloatGreaterThanOrEqual"
def opFloatLessThan := constOf "FloatLessThan"
def opFloatLessThanOrEqual := constOf "FloatLessThanOrEqual"
def opSameAs := constOf "SameAs"
def opContains := constOf "Contains"
def opStartsWith := constOf "StartsWith"
def opEndsWith := constOf "EndsWith"
def opIn := constOf "In"
def opMatches := constOf "Matches"
def opIs := constOf "Is"
def opExists := constOf "Exists"

/-- `operatorNames[name]`. -/
def lookupOpIn (name : Tok) : List (String × Nat) → Option Nat
  | [] => none
  | (k, v) :: rest => if k.toList = name then some v else lookupOpIn name rest

def lookupOp (name : Tok) : Option Nat := lookupOpIn name PB.Gen.Query.operatorNames

/-- `primaryNames` as built by `init()`: the longest textual name of an operator
    (the theorem `primary_names_unambiguous` shows that no two names of one operator have equal length,
    so Go's random map iteration order does not matter). -/
def primaryIn (op : Nat) : List (String × Nat) → Option Tok → Option Tok
  | [], best => best
  | (k, v) :: rest, best =>
    if v = op then
      match best with
      | none => primaryIn op rest (some k.toList)
      | some b => if b.length < k.toList.length then primaryIn op rest (some k.toList) else primaryIn op rest best
    else primaryIn op rest best

/-- `getOpName`. -/
def opName (op : Nat) : Tok :=
  (primaryIn op PB.Gen.Query.operatorNames none).getD ['[','u','n','k','n','o','w','n',']']

inductive Kind where
  | int | float | string | slice | regex | bool | exists
  deriving DecidableEq, Repr

def kindOfCtor (s : String) : Option Kind :=
  if s = "newIntCondition" then some .int
  else if s = "newFloatCondition" then some .float
  else if s = "newStringCondition" then some .string
  else if s = "newStringSliceCondition" then some .slice
  else if s = "newRegexCondition" then some .regex
  else if s = "newBoolCondition" then some .bool
  else if s = "newExistsCondition" then some .exists
  else none

/-- The `switch operator` of `Where`. -/
def kindOf (op : Nat) : Option Kind := (PB.Gen.Query.whereTable.lookup op).bind kindOfCtor

/-! ## Conditions -/

/-- Operand of a clause as stored in the condition object (`value` field of the condition types). -/
inductive Val where
  | int (i : Int)
  | float (t : Tok)        -- the float64, represented by its `%g` text
  | bool (b : Bool)
  | str (s : Tok)
  | strs (l : List Tok)
  | regex (t : Tok)        -- the compiled regexp, represented by its source (`Regexp.String()`)
  | none
  deriving DecidableEq, Repr

inductive Cond where
  | leaf (key : Tok) (op : Nat) (v : Val)
  | bad (e : Err)          -- a condition with `operator == errorPresent` / an `errorCondition`
  | and (cs : List Cond)
  | or (cs : List Cond)
  | not (c : Cond)
  deriving Repr

/-- Value handed to `Where` (the `interface{}` argument) by Go type. -/
inductive Arg where
  | int (i : Int)          -- any of the accepted signed integer types (and uint8/16/32), as int64
  | uint (n : Nat)         -- Go `uint` (64 bit): `int64(v)` wraps for an int operator, `float64(v)` does not
  | float (t : Tok)        -- float32/float64, by its `%g` text
  | bool (b : Bool)
  | str (s : Tok)
  | strs (l : List Tok)
  | nil
  | other
  deriving DecidableEq, Repr

/-- `Where(key, operator, value)` with the `new…Condition` constructors. -/
def mkWhere (O : Oracle) (key : Tok) (op : Nat) (a : Arg) : Cond :=
  match kindOf op with
  | none => .bad .chkOperator
  | some .int =>
    match a with
    | .int i => .leaf key op (.int i)
    | .uint n => .leaf key op (.int (toInt64 n))
    | .str s => match parseInt s with
      | some i => .leaf key op (.int i)
      | none => .bad .chkInt
    | _ => .bad .chkIncompatible
  | some .float =>
    match a with
    | .int i => match O.fcanon (showInt i) with
      | some t => .leaf key op (.float t)
      | none => .bad .chkFloat
    | .uint n => match O.fcanon (showNat n) with
      | some t => .leaf key op (.float t)
      | none => .bad .chkFloat
    | .float t => .leaf key op (.float t)
    | .str s => match O.fcanon s with
      | some t => .leaf key op (.float t)
      | none => .bad .chkFloat
    | _ => .bad .chkIncompatible
  | some .string =>
    match a with
    | .str s => .leaf key op (.str s)
    | _ => .bad .chkIncompatible
  | some .slice =>
    match a with
    | .str s => if (splitComma s).length < 2 then .bad .chkSlice else .leaf key op (.strs (splitComma s))
    | .strs l => .leaf key op (.strs l)
    | _ => .bad .chkSlice   -- stringSliceCondition.check() words every error as "could not parse … to []string"
  | some .regex =>
    match a with
    | .str s => if O.reok s then .leaf key op (.regex s) else .bad .chkRegex
    | _ => .bad .chkIncompatible
  | some .bool =>
    match a with
    | .bool b => .leaf key op (.bool b)
    | .str s => match parseBool s with
      | some b => .leaf key op (.bool b)
      | none => .bad .chkBool
    | _ => .bad .chkIncompatible
  | some .exists => .leaf key op .none

mutual
/-- `Condition.check()`: the first error in traversal order. -/
def firstBad : Cond → Option Err
  | .leaf _ _ _ => none
  | .bad e => some e
  | .and cs => firstBadL cs
  | .or cs => firstBadL cs
  | .not c => firstBad c
def firstBadL : List Cond → Option Err
  | [] => none
  | c :: cs => match firstBad c with
    | some e => some e
    | none => firstBadL cs
end

/-! ## Parser: `parseAndOr`, `parseCondition` -/

/-- The local variables of one activation of `parseAndOr`. -/
structure Frame where
  isOr : Bool
  typeSet : Bool
  wrapNot : Bool
  more : Bool
  conds : List Cond
  deriving Repr

def Frame.init : Frame := ⟨false, false, false, true, []⟩

/-- The three identical `return` blocks of `parseAndOr`. -/
def Frame.finish (f : Frame) : Cond :=
  match f.conds with
  | [c] => c
  | cs => if f.isOr then .or cs else .and cs

/-- Appending a finished clause or group (`wrapInNot` handling, `expectingMore = false`). -/
def Frame.add (f : Frame) (c : Cond) : Frame :=
  { f with conds := f.conds ++ [if f.wrapNot then .not c else c], wrapNot := false, more := false }

/-- `parseAndOr`. The Go recursion (one activation per open parenthesis) is kept as an explicit stack:
    `cur` is the running activation, `outer` the suspended callers; `outer = []` ⇔ `rootCondition`.
    Returns the condition and the snippets that remain for `ParseQuery` (the root activation consumes one
    snippet too many and `ParseQuery` steps back: here that snippet is simply not removed). -/
def parseAndOr (O : Oracle) : Frame → List Frame → List Tok → Except Err (Cond × List Tok)
  | cur, outer, [] =>
    if !cur.more && outer.isEmpty then .ok (cur.finish, []) else .error .unexpectedEnd
  | cur, outer, t :: rest =>
    if !cur.more && outer.isEmpty && (t = kwOrderby || t = kwLimit || t = kwOffset) then .ok (cur.finish, t :: rest)
    else if t = kwLp then parseAndOr O Frame.init (cur :: outer) rest
    else if t = kwRp then
      match outer with
      | [] => .ok (cur.finish, t :: rest)
      | p :: outer' => parseAndOr O (p.add cur.finish) outer' rest
    else if t = kwAnd then
      if cur.typeSet && cur.isOr then .error .mix
      else parseAndOr O { cur with isOr := false, typeSet := true, more := true } outer rest
    else if t = kwOr then
      if cur.typeSet && !cur.isOr then .error .mix
      else parseAndOr O { cur with isOr := true, typeSet := true, more := true } outer rest
    else if t = kwNot then parseAndOr O { cur with wrapNot := true, more := true } outer rest
    else
      -- parseCondition(firstSnippet = t, …)
      match rest with
      | [] => .error .unexpectedEnd
      | o :: r1 =>
        if o = kwNot then
          match r1 with
          | [] => .error .unexpectedEnd
          | o2 :: r2 =>
            match lookupOp o2 with
            | none => .error .operator
            | some op =>
              if op = opExists then parseAndOr O (cur.add (.not (mkWhere O t op .nil))) outer r2
              else match r2 with
                | [] => .error .unexpectedEnd
                | v :: r3 => parseAndOr O (cur.add (.not (mkWhere O t op (.str v)))) outer r3
        else
          match lookupOp o with
          | none => .error .operator
          | some op =>
            if op = opExists then parseAndOr O (cur.add (mkWhere O t op .nil)) outer r1
            else match r1 with
              | [] => .error .unexpectedEnd
              | v :: r2 => parseAndOr O (cur.add (mkWhere O t op (.str v))) outer r2

/-! ## Queries: `New`, `ParseQuery`, `Check`, `Print` -/

structure Query where
  dbName : Tok
  dbKeyPrefix : Tok
  where_ : Option Cond
  orderBy : Tok
  limit : Int
  offset : Int
  deriving Repr

/-- `record.ParseKey`: split at the first colon. -/
def parseKey : List Char → Tok × Tok
  | [] => ([], [])
  | c :: rest => if c = ':' then ([], rest) else let (a, b) := parseKey rest; (c :: a, b)

/-- `New(prefix)`. -/
def Query.new (p : Tok) : Query := ⟨(parseKey p).1, (parseKey p).2, none, [], 0, 0⟩

/-- The clause loop of `ParseQuery` once `q.where` is set (a further `where` is a duplicate). -/
def clausesPost (q : Query) : List Tok → Except Err Query
  | [] => .ok q
  | t :: rest =>
    if t = kwWhere then .error .dup
    else if t = kwOrderby then
      if q.orderBy ≠ [] then .error .dup
      else match rest with
        | [] => .error .unexpectedEnd
        | v :: rest' => clausesPost { q with orderBy := v } rest'
    else if t = kwLimit then
      if q.limit ≠ 0 then .error .dup
      else match rest with
        | [] => .error .unexpectedEnd
        | v :: rest' => match parseUint31 v with
          | none => .error .uint
          | some n => clausesPost { q with limit := n } rest'
    else if t = kwOffset then
      if q.offset ≠ 0 then .error .dup
      else match rest with
        | [] => .error .unexpectedEnd
        | v :: rest' => match parseUint31 v with
          | none => .error .uint
          | some n => clausesPost { q with offset := n } rest'
    else .error .clause

/-- The clause loop of `ParseQuery` while `q.where` is not set. -/
def clauses (O : Oracle) (q : Query) : List Tok → Except Err Query
  | [] => .ok q
  | t :: rest =>
    if t = kwWhere then
      match parseAndOr O Frame.init [] rest with
      | .error e => .error e
      | .ok (c, rest') => clausesPost { q with where_ := some c } rest'
    else if t = kwOrderby then
      if q.orderBy ≠ [] then .error .dup
      else match rest with
        | [] => .error .unexpectedEnd
        | v :: rest' => clauses O { q with orderBy := v } rest'
    else if t = kwLimit then
      if q.limit ≠ 0 then .error .dup
      else match rest with
        | [] => .error .unexpectedEnd
        | v :: rest' => match parseUint31 v with
          | none => .error .uint
          | some n => clauses O { q with limit := n } rest'
    else if t = kwOffset then
      if q.offset ≠ 0 then .error .dup
      else match rest with
        | [] => .error .unexpectedEnd
        | v :: rest' => match parseUint31 v with
          | none => .error .uint
          | some n => clauses O { q with offset := n } rest'
    else .error .clause

/-- `Query.Check()`. -/
def Query.check (q : Query) : Except Err Query :=
  match q.where_ with
  | none => .ok q
  | some c => match firstBad c with
    | some e => .error e
    | none => .ok q

/-- `ParseQuery` on the snippets. -/
def parseToks (O : Oracle) : List Tok → Except Err Query
  | [] => .error .unexpectedEnd
  | qw :: rest =>
    if qw ≠ kwQuery then .error .noQuery
    else match rest with
      | [] => .error .unexpectedEnd
      | p :: rest' => match clauses O (Query.new p) rest' with
        | .error e => .error e
        | .ok q => q.check

/-- `ParseQuery`. -/
def parseQuery (O : Oracle) (s : List Char) : Except Err Query :=
  match lex s with
  | .error e => .error e
  | .ok toks => parseToks O toks

/-! ### Printing -/

def isSpecial (c : Char) : Bool :=
  c = '(' || c = ')' || c = '"' || c = '\\' || c = '\t' || c = '\r' || c = '\n' || c = ' '

def escBody : List Char → List Char
  | [] => []
  | c :: rest => if c = '\\' ∨ c = '"' then '\\' :: c :: escBody rest else c :: escBody rest

/-- `escapeString`. -/
def esc (t : Tok) : List Char :=
  if t = [] ∨ t.any isSpecial then '"' :: escBody t ++ ['"'] else t

def valStr : Val → List Char
  | .int i => ' ' :: showInt i
  | .float t => ' ' :: t
  | .bool b => ' ' :: (if b then ['t','r','u','e'] else ['f','a','l','s','e'])
  | .str s => ' ' :: esc s
  | .strs l => ' ' :: esc (joinComma l)
  | .regex t => ' ' :: esc t
  | .none => []

/-- `notCond.string()` on the text of the negated condition: `strings.Split(next, " ")`, `"not"` inserted
    after the first piece, `strings.Join(…, " ")` — i.e. `" not"` is inserted before the first space. -/
def notStr (next : List Char) : List Char :=
  if next.head? = some '(' ∨ next.head? = some '"' then ['n','o','t',' '] ++ next
  else (next.takeWhile (· ≠ ' ')) ++ [' ','n','o','t'] ++ next.dropWhile (· ≠ ' ')

mutual
/-- `Condition.string()`. -/
def condStr : Cond → List Char
  | .leaf key op v => esc key ++ ' ' :: opName op ++ valStr v
  | .bad _ => ['[','E','R','R','O','R',']']
  | .and cs => '(' :: joinStr [' ','a','n','d',' '] cs ++ [')']
  | .or cs => '(' :: joinStr [' ','o','r',' '] cs ++ [')']
  | .not c => notStr (condStr c)
/-- `strings.Join` of the members' texts. -/
def joinStr (sep : List Char) : List Cond → List Char
  | [] => []
  | c :: cs => match cs with
    | [] => condStr c
    | _ :: _ => condStr c ++ sep ++ joinStr sep cs
end

/-- The `where` part of `Query.Print()`. -/
def printWhere : Option Cond → List Char
  | none => []
  | some c =>
    let w := condStr c
    if w = [] then []
    else [' ','w','h','e','r','e',' '] ++ (if w.head? = some '(' then (w.drop 1).dropLast else w)

/-- `Query.Print()`. -/
def Query.print (q : Query) : List Char :=
  kwQuery ++ ' ' :: esc (q.dbName ++ ':' :: q.dbKeyPrefix) ++ printWhere q.where_
    ++ (if q.orderBy ≠ [] then [' ','o','r','d','e','r','b','y',' '] ++ esc q.orderBy else [])
    ++ (if q.limit > 0 then [' ','l','i','m','i','t',' '] ++ showInt q.limit else [])
    ++ (if q.offset > 0 then [' ','o','f','f','s','e','t',' '] ++ showInt q.offset else [])

/-! ## Matching: `complies` -/

/-- What the accessor of a record answers (`accessor.Accessor`; floats as IEEE-754 bits). -/
structure Rec where
  getInt : Tok → Option Int
  getStr : Tok → Option Tok
  getBool : Tok → Option Bool
  getFloat : Tok → Option Nat
  has : Tok → Bool

/-- Order key of a float64 given by its bits: `none` for NaN, otherwise a number ordered like the float
    (both zeros are 0). -/
def fkey (b : Nat) : Option Int :=
  let m : Nat := b % 2 ^ 63
  if m > 0x7ff0000000000000 then none
  else if b % 2 ^ 64 ≥ 2 ^ 63 then some (-(m : Int)) else some (m : Int)

def isInfix (v : List Char) : List Char → Bool
  | [] => v.isEmpty
  | c :: s => v.isPrefixOf (c :: s) || isInfix v s

def leafComplies (O : Oracle) (r : Rec) (key : Tok) (op : Nat) : Val → Bool
  | .int v => match r.getInt key with
    | none => false
    | some comp =>
      if op = opEquals then comp = v
      else if op = opGreaterThan then comp > v
      else if op = opGreaterThanOrEqual then comp ≥ v
      else if op = opLessThan then comp < v
      else if op = opLessThanOrEqual then comp ≤ v
      else false
  | .float t => match r.getFloat key with
    | none => false
    | some cb => match fkey cb, fkey (O.fbits t) with
      | some comp, some v =>
        if op = opFloatEquals then comp = v
        else if op = opFloatGreaterThan then comp > v
        else if op = opFloatGreaterThanOrEqual then comp ≥ v
        else if op = opFloatLessThan then comp < v
        else if op = opFloatLessThanOrEqual then comp ≤ v
        else false
      | _, _ => false
  | .bool v => match r.getBool key with
    | none => false
    | some comp => if op = opIs then comp = v else false
  | .str v => match r.getStr key with
    | none => false
    | some comp =>
      if op = opSameAs then v = comp
      else if op = opContains then isInfix v comp
      else if op = opStartsWith then v.isPrefixOf comp
      else if op = opEndsWith then v.isSuffixOf comp
      else false
  | .strs l => match r.getStr key with
    | none => false
    | some comp => if op = opIn then l.contains comp else false
  | .regex t => match r.getStr key with
    | none => false
    | some comp => if op = opMatches then O.rematch t comp else false
  | .none => r.has key

mutual
/-- `Condition.complies(acc)`. -/
def complies (O : Oracle) (r : Rec) : Cond → Bool
  | .leaf key op v => leafComplies O r key op v
  | .bad _ => false
  | .and cs => compliesAll O r cs
  | .or cs => compliesAny O r cs
  | .not c => !complies O r c
def compliesAll (O : Oracle) (r : Rec) : List Cond → Bool
  | [] => true
  | c :: cs => complies O r c && compliesAll O r cs
def compliesAny (O : Oracle) (r : Rec) : List Cond → Bool
  | [] => false
  | c :: cs => complies O r c || compliesAny O r cs
end

/-- `Query.MatchesRecord` / `MatchesAccessor`. -/
def Query.matchesRec (O : Oracle) (q : Query) (r : Rec) : Bool :=
  match q.where_ with
  | none => true
  | some c => complies O r c

end PB.Query
