import PB.Model.FsAtomic
import PB.Gen.FsDownload
/-
C17 — SEVERAL writers of one destination.

The single-writer theorems (`safePublish_sound`, `safePublishDir_sound`, the program explorations) are about ONE
writer running alone against readers and crash points. This file states what carries them over to several
operations that publish to the same destination:

* A writer is the call sequence its (complete, failed or interrupted) run issues when it is started in a given
  file-system state and runs ALONE: `Writer := FS → List Call`. (What a second archive unpacker does depends on
  what it finds: nothing, when the destination is there already.)
* `serialRuns s0 ws`: the writers run one after the other — each is started in the state the previous one left.
* The renameio based writers (WriteFile, CreateAtomic, fstree.Put, fetchFile, File.Unpack) work in a temp file made
  with O_EXCL under a random name and touch the destination only by rename(2): two of them have no name in common
  but the destination. `unpackZipArchive` is different: its temp DIRECTORY is derived from the resource's name, it
  decides by "does the destination exist?", and on failure it removes the destination. Two of them at the same
  time share all of that (see `exTwoUnpackers` in PBProofs.C17 for an interleaving that publishes a fragment and
  then deletes what the successful operation published). The code's answer is the resource lock:
  `UnpackArchive` holds it EXCLUSIVELY around `unpackZipArchive` — `PB.Gen.FsDownload.unpackLock`, regenerated
  from updater/unpacking.go on every run (2 = Lock, 1 = RLock, 0 = none).
* `TwoUnpackRuns lock`: the combined call sequences the model admits for two unpackers of one resource: under the
  exclusive lock the two serial orders; otherwise the model promises nothing (every sequence is possible).
-/
namespace PB.FsAtomic

/-- The calls a writer issues when started in state `s` and running alone. -/
abbrev Writer := FS → List Call

/-- Writers run one after the other. -/
def serialRuns (s0 : FS) : List Writer → List Call
  | [] => []
  | w :: ws => w s0 ++ serialRuns (run s0 (w s0)) ws

/-- Two unpackers `wa`, `wb` of one resource under the lock kind the code takes (2 exclusive, 1 shared, 0 none):
    which combined call sequences are possible. Without the exclusive lock: anything. -/
def TwoUnpackRuns (lock : Nat) (s0 : FS) (wa wb : Writer) (t : List Call) : Prop :=
  if lock = 2 then t = serialRuns s0 [wa, wb] ∨ t = serialRuns s0 [wb, wa] else True

/-- The lock kind `UnpackArchive` takes in the source (regenerated). -/
def unpackLockKind : Nat := PB.Gen.FsDownload.unpackLock

end PB.FsAtomic
