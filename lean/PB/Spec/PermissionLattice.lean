import PB.Model.Db
import PB.Spec.KVStore
/-
C03 reference: who may see a record.

  permitted (local, internal) meta  :=  (local ∨ ¬ crown jewel) ∧ (internal ∨ ¬ secret)

and what "an interface can learn at most that the key exists" means: two stores are indistinguishable for
an interface if they have the same visible keys and agree on every record the interface is permitted to see.
-/
namespace PB.Perm
open PB.Db PB.KV

def permitted (loc int : Bool) (m : Meta) : Prop := (loc = true ∨ m.crown = false) ∧ (int = true ∨ m.secret = false)

/-- Records contained in a result. -/
def outRecs : Out → List Rec
  | .one r => [r]
  | .recs rs => rs
  | _ => []

/-- Indistinguishable for an interface with privileges (loc, int) at time `now`. -/
def lowEq (loc int : Bool) (now : Int) (m m' : Store) : Prop :=
  ∀ k, match vis now (m.get k), vis now (m'.get k) with
    | none, none => True
    | some r, some r' => (r.md.permitted loc int = true ∨ r'.md.permitted loc int = true) → r = r'
    | _, _ => False

/-- Indistinguishable from time `t0` on: the visible key sets also change together (a record the interface may not
    see must not reveal its expiry by disappearing earlier in one store than in the other). -/
def lowEqFrom (loc int : Bool) (t0 : Int) (m m' : Store) : Prop := ∀ t, t0 ≤ t → lowEq loc int t m m'

/-- Same result as a caller can observe it: query results as unordered streams. -/
def sameOut : Out → Out → Prop
  | .recs l, .recs l' => l.Perm l'
  | a, b => a = b

def sameOuts : List Out → List Out → Prop
  | [], [] => True
  | x :: xs, y :: ys => sameOut x y ∧ sameOuts xs ys
  | _, _ => False

end PB.Perm
