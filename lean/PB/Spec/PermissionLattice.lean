import PB.Model.Db
import PB.Spec.KVStore
/-
C03 reference: who may see a record.

  permitted (local, internal) meta  :=  (local ∨ ¬ crown jewel) ∧ (internal ∨ ¬ secret)

and what "an interface can learn at most that the key exists" means: two stores are indistinguishable for
an interface if they have the same visible keys and agree on every record the interface is permitted to see.
-/
namespace PB.Perm
open PB.Db PB.KV

def permitted (loc int : Bool) (m : Meta) : Prop := (loc = true ∨ m.crown = false) ∧ (int = true ∨ m.secret = false)

/-- Records contained in a result. -/
def outRecs : Out → List Rec
  | .one r => [r]
  | .recs rs => rs
  | _ => []

/-- Indistinguishable for an interface with privileges (loc, int) at time `now`. -/
def lowEq (loc int : Bool) (now : Int) (m m' : Store) : Prop :=
  ∀ k, match vis now (m.get k), vis now (m'.get k) with
    | none, none => True
    | some r, some r' => (r.md.permitted loc int = true ∨ r'.md.permitted loc int = true) → r = r'
    | _, _ => False

/-- Operations whose results the non-interference theorem compares (everything an interface can call). -/
def readsOnly : Op → Prop
  | .get _ | .exists_ _ | .query _ => True
  | _ => False

end PB.Perm
