import PB.Model.Dsd
/-
Declarative side of C09: the contract assumed of the third-party codecs and gzip, and an independent reading
of the HTTP Accept / Content-Type grammar ("names a supported format", "is a wildcard") against which
`formatFromAccept` is proved.
-/
namespace PB.Dsd
open PB PB.Gen.Dsd

/-- Contract of the external libraries (hypothesis of the round-trip theorems; sampled, not proved, by the
    correspondence run): decoding inverts encoding, encodings and gzip streams are never empty, gunzip inverts
    gzip. "Value representable in the format" = `enc` succeeds on it and this contract holds for it. -/
structure Codec.Sound {V : Type} (c : Codec V) : Prop where
  dec_enc : ∀ l v b, c.enc l v = some b → c.dec l b = some v
  enc_ne : ∀ l v b, c.enc l v = some b → b ≠ []
  dec_encIndent : ∀ i v b, c.encIndent i v = some b → c.dec .json b = some v
  encIndent_ne : ∀ i v b, c.encIndent i v = some b → b ≠ []
  gunz_gz : ∀ b, c.gunz (c.gz b) = .ok b
  gz_ne : ∀ b, c.gz b ≠ []

/-- A string literal as a list of code points (for examples). -/
def str (x : String) : Str := x.toList.map Char.toNat

/-- The format AUTO stands for when `DefaultSerializationFormat = defSer`. -/
def resolve (defSer format : Nat) : Nat := if format = AUTO then defSer else format

/-- The compression AUTO stands for when `DefaultCompressionFormat = defComp`. -/
def resolveCompression (defComp c : Nat) : Nat := if c = AUTO then defComp else c

/-- The serialization formats that go through a third-party codec, and the ids a caller may pass for them. -/
def codecFormats : List Nat := [CBOR, GenCode, JSON, MsgPack, YAML]
def dumpableFormats : List Nat := AUTO :: codecFormats
def compressionFormats : List Nat := [AUTO, GZIP]

/-- The codec a format id stands for (the labels are those of the source's switch; the theorems require the
    dump side and the load side to agree on it). -/
def libOf (format : Nat) : Option Lib :=
  match lookup format dumpDispatch with
  | some (.lib l) => some l
  | _ => none

/-- Formats that have a mime type (the ones usable over HTTP). -/
def mimeFormats : List Nat := formatToMimeType.map Prod.fst

/-! ### Which values of the two package variables the property is about

`DefaultSerializationFormat` may be assigned any value. The dump/load sentences of the property are about AUTO
standing for a format that goes through a codec (`SerOk`); the HTTP sentence ("for every Accept header that names a
supported format or a wildcard") needs the default to be a format that can be named in a Content-Type at all
(`HttpOk`); AUTO compression must stand for a compression (`CompOk`). The initialisers satisfy all three
(`init_cfg_ok`, decided over the regenerated values). Requests for an explicit format never read the variables. -/

def Cfg.SerOk (cfg : Cfg) : Prop := cfg.defSer ∈ codecFormats
def Cfg.HttpOk (cfg : Cfg) : Prop := cfg.defSer ∈ mimeFormats
def Cfg.CompOk (cfg : Cfg) : Prop := cfg.defComp = GZIP

instance (cfg : Cfg) : Decidable cfg.SerOk := by unfold Cfg.SerOk; infer_instance
instance (cfg : Cfg) : Decidable cfg.HttpOk := by unfold Cfg.HttpOk; infer_instance
instance (cfg : Cfg) : Decidable cfg.CompOk := by unfold Cfg.CompOk; infer_instance

/-! ### Accept headers, read independently of the code

An element of the comma-separated list is `OWS media-range [ ";" parameters ] ` or `OWS media-range OWS`, where
`media-range` is `type "/" subtype`, `type "/*"`, `"*/*"`, or the bare `subtype` / `*` the package documents.
Optional whitespace (OWS) is SP / HTAB. Names are compared ASCII-case-insensitively. Whitespace between the
media range and `;` is not part of this reading (the package's own test pins `"yaml ;charset"` as invalid). -/

def isOWS (c : Nat) : Bool := c == 32 || c == 9

/-- Token characters of a type / subtype: visible ASCII except the separators that matter here. -/
def isTokenChar (c : Nat) : Bool := 33 ≤ c && c ≤ 126 && c != 44 && c != 47 && c != 59

def asciiLower (c : Nat) : Nat := if 65 ≤ c ∧ c ≤ 90 then c + 32 else c

/-- `e` is a list element whose media range has subtype (or bare name) `sub`. -/
def ElementWithSubtype (e sub : Str) : Prop :=
  ∃ ws pre tail : Str,
    e = ws ++ pre ++ sub ++ tail ∧
    ws.all isOWS = true ∧
    (pre = [] ∨ ∃ ty : Str, pre = ty ++ [47] ∧ ty.all isTokenChar = true) ∧
    sub ≠ [] ∧ sub.all isTokenChar = true ∧
    (tail.all isOWS = true ∨ ∃ params : Str, tail = 59 :: params)

/-- `e` names the supported format `f`: its subtype is, case-insensitively, a key of `MimeTypeToFormat`. -/
def NamesFormat (e : Str) (f : Nat) : Prop :=
  ∃ sub, ElementWithSubtype e sub ∧ lookup (sub.map asciiLower) mimeTypeToFormat = some f

/-- `e` is a wildcard: `*/*`, `type/*` or `*`. -/
def IsWildcard (e : Str) : Prop := ElementWithSubtype e [42]

/-- An Accept header written from its list of elements (`strings.Join(es, ",")`). -/
def joinComma : List Str → Str
  | [] => []
  | [e] => e
  | e :: e' :: es => e ++ 44 :: joinComma (e' :: es)

end PB.Dsd
