import PB.Model.Db
/-
C02 reference: one plain key-to-record map.

No cache, no write set, no shadow records, no maintenance: a record stored as deleted is gone, `get`
answers the record most recently stored under the key while it is valid at the time of the call.
The map holds a record as the backend hands it back (`stored`: a typed struct comes back as a JSON
wrapper from the serialising backends) — that this change of representation cannot be observed by
well-typed conditions is the separate theorem `struct_json_agree`.
Operations a backend does not implement (`Purge` outside bbolt, `PutMany` outside hashmap/bbolt) are
configurations: the reference answers not-implemented and keeps its state.
-/
namespace PB.KV
open PB.Db

/-- What a reader sees at time `now` of what is stored under a key. -/
def vis (now : Int) : Option Rec → Option Rec
  | some r => if r.md.valid now then some r else none
  | none => none

def get (o : Opts) (m : Store) (k : String) (now : Int) : Except Err Rec :=
  match vis now (m.get k) with
  | none => .error .notFound
  | some r => if o.hasAccess r then .ok r else .error .denied

/-- Store a record: a record whose metadata says "deleted" removes the key. -/
def store (b : Backend) (m : Store) (r : Rec) : Store :=
  if r.md.isDeleted then m.del r.key else m.put (stored b r)

/-- A write is refused when the key holds a visible record the interface may not see. -/
def blocked (o : Opts) (m : Store) (k : String) (now : Int) : Bool :=
  !o.all && (match vis now (m.get k) with
             | some old => !old.md.permitted o.loc o.int
             | none => false)

def put (b : Backend) (o : Opts) (m : Store) (r : Rec) (now : Int) (isNew : Bool) : Store × Out :=
  if blocked o m r.key now then (m, .err .denied)
  else
    let md := if isNew then r.md.reset else r.md
    (store b m { r with md := o.apply md now }, .ok)

def modify (b : Backend) (o : Opts) (m : Store) (k : String) (now : Int) (f : Meta → Meta) : Store × Out :=
  match get o m k now with
  | .error e => (m, .err e)
  | .ok r => (store b m { r with md := f (o.apply r.md now) }, .ok)

def insert (b : Backend) (o : Opts) (m : Store) (k attr : String) (p : Prim) (now : Int) : Store × Out :=
  match get o m k now with
  | .error e => (m, .err e)
  | .ok r =>
    match setField r.form r.fields attr p with
    | none => (m, .err .setFailed)
    | some fs => (store b m { r with fields := fs, md := o.apply r.md now }, .ok)

def storeAll (b : Backend) (o : Opts) (now : Int) (m : Store) : List Rec → Store
  | [] => m
  | r :: rest => storeAll b o now (store b m { r with md := o.apply r.md now }) rest

def step (cfg : Cfg) (o : Opts) (m : Store) (op : Op) (now : Int) : Store × Out :=
  let b := cfg.backend
  match op with
  | .get k => (m, match get o m k now with | .ok r => .one r | .error e => .err e)
  | .exists_ k =>
    (m, match get o m k now with
        | .ok _ => .bool true
        | .error .notFound => .bool false
        | .error .denied => .bool true
        | .error e => .err e)
  | .put r => put b o m r now false
  | .putNew r => put b o m r now true
  | .delete k => modify b o m k now (fun md => md.delete now)
  | .setAbs k t => modify b o m k now (fun md => md.setAbsoluteExpiry t)
  | .setRel k d => modify b o m k now (fun md => md.setRelativeExpiry d)
  | .mkSecret k => modify b o m k now Meta.makeSecret
  | .mkCrown k => modify b o m k now Meta.makeCrown
  | .insert k a p => insert b o m k a p now
  | .putMany rs =>
    if !o.all then (m, .err .denied)
    else if !b.hasBatch then (m, .err .notImpl)
    else (storeAll b o now m rs, .ok)
  | .query q =>
    if !q.check then (m, .err .badQuery)
    else (m, .recs (m.filter (q.selects o.loc o.int now)))
  | .purge q =>
    if !q.check then (m, .err .badQuery)
    else if !b.hasPurge then (m, .err .notImpl)
    else (m.filter (fun r => !q.purges o.loc o.int now r), .count (m.filter (q.purges o.loc o.int now)).length)
  | .maintain _ _ => (m, .ok)
  | .flush => (m, .ok)
  | .clear => (m, .ok)
  | .evict _ => (m, .ok)

def run (cfg : Cfg) (o : Opts) : Store → List (Op × Int) → List Out
  | _, [] => []
  | m, (op, now) :: rest =>
    let (m', out) := step cfg o m op now
    out :: run cfg o m' rest

/-- Equality of results as a caller can observe them: a returned record up to its in-memory representation
    (the interface may hand out the typed object it cached, the reference the stored form), a query result as
    an unordered stream. -/
def outEq (b : Backend) : Out → Out → Prop
  | .ok, .ok => True
  | .err e, .err e' => e = e'
  | .one r, .one r' => stored b r = r'
  | .bool x, .bool y => x = y
  | .recs l, .recs l' => l.Perm l'
  | .count n, .count n' => n = n'
  | _, _ => False

instance outEq.dec (b : Backend) (x y : Out) : Decidable (outEq b x y) := by
  unfold outEq; split <;> infer_instance

def outsEq (b : Backend) : List Out → List Out → Prop
  | [], [] => True
  | x :: xs, y :: ys => outEq b x y ∧ outsEq b xs ys
  | _, _ => False

instance outsEq.dec (b : Backend) : (xs ys : List Out) → Decidable (outsEq b xs ys)
  | [], [] => isTrue trivial
  | [], _ :: _ => isFalse (fun h => h)
  | _ :: _, [] => isFalse (fun h => h)
  | x :: xs, y :: ys =>
    match outEq.dec b x y, outsEq.dec b xs ys with
    | isTrue h1, isTrue h2 => isTrue ⟨h1, h2⟩
    | isFalse h1, _ => isFalse (fun h => h1 h.1)
    | _, isFalse h2 => isFalse (fun h => h2 h.2)

/-- Batch writes and purges go to storage behind the interface's cache (recorded findings), attribute inserts
    work on whatever object the cache or the storage hands out: the refinement covers them for interfaces
    without cache. -/
def cacheSafe (o : Opts) : Op → Prop
  | .putMany _ => o.cache = .none
  | .purge _ => o.cache = .none
  | .insert _ _ _ => o.cache = .none
  | _ => True

/-- A history the refinement theorem speaks about: time never runs backwards, starts after the epoch. -/
def wellTimed : Int → List (Op × Int) → Prop
  | _, [] => True
  | t, (_, now) :: rest => t ≤ now ∧ 0 < now ∧ wellTimed now rest

end PB.KV
