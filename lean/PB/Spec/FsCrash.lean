import PB.Model.FsAtomic
/-
C17 — the durable view: which states may be found after a power loss (the assumption about the disk the
theorems of C17 are relative to), and the canonical publish sequence of renameio.
-/
namespace PB.FsAtomic

/-- A legal durable state after a power loss in the state reached by executing `t` from `s0`:
    the name space is the one reached after some prefix `pre` of `t`; clean inodes keep their data,
    every other inode may hold anything (`data` is unconstrained there). -/
structure Crash (s0 : FS) (t : List Call) where
  pre : List Call
  post : List Call
  split : t = pre ++ post
  data : Nat → Content
  legal : ∀ i n, inodeAt (run s0 t) i = some n → n.clean = true → data i = n.data

/-- What a reader of `dest` finds after that crash. -/
def Crash.view {s0 : FS} {t : List Call} (c : Crash s0 t) (dest : Path) : Obs :=
  PB.FsAtomic.view (run s0 t).inodes (run s0 c.pre).names c.data dest

/-- The names found after that crash. -/
def Crash.names {s0 : FS} {t : List Call} (c : Crash s0 t) : List (Path × Nat) := (run s0 c.pre).names

/-- The crash in which nothing is lost (also: the process is killed, the kernel survives). -/
def Crash.lossless (s0 : FS) (t : List Call) : Crash s0 t :=
  { pre := t, post := [], split := by simp, data := vdata (run s0 t),
    legal := by intro i n h _; simp [vdata, h] }

/-- The system-call sequence of `TempFile` + `Chmod` + `Write`s + `CloseAtomicallyReplace`
    (utils/renameio/tempfile.go, writefile.go) once the temporary directory is chosen. -/
def publishSeq (tmpName dest : Path) (fd perm : Nat) (chunks : List Seg) : List Call :=
  [.openC tmpName true true false 0o600 (some fd), .fchmod fd perm] ++ chunks.map (.write fd) ++
  [.fsync fd, .close fd, .rename tmpName dest]

/-- The same without the `Sync()`. -/
def publishSeqNoSync (tmpName dest : Path) (fd perm : Nat) (chunks : List Seg) : List Call :=
  [.openC tmpName true true false 0o600 (some fd), .fchmod fd perm] ++ chunks.map (.write fd) ++
  [.close fd, .rename tmpName dest]

def dirInode : Inode := { kind := .dir, mode := 0o755, data := [], target := "", clean := true }

/-- A small concrete world: destination directory `R/dst`, temp directory `R/tmp`, and optionally an
    existing (durable) destination file with arbitrary content and mode. -/
def baseFS (old : Option (Content × Nat)) : FS :=
  match old with
  | none => { inodes := [dirInode, dirInode], names := [(["R", "dst"], 0), (["R", "tmp"], 1)], fds := [] }
  | some (c, m) =>
    { inodes := [dirInode, dirInode, { kind := .file, mode := m, data := c, target := "", clean := true }],
      names := [(["R", "dst", "f"], 2), (["R", "dst"], 0), (["R", "tmp"], 1)], fds := [] }

def baseOld (old : Option (Content × Nat)) : Obs :=
  match old with
  | none => none
  | some (c, _) => some (.file c, [])

def destF : Path := ["R", "dst", "f"]
def tmpF : Path := ["R", "tmp", ".f#1"]

/-! ### Worlds for the exhaustive exploration of the writer programs -/

/-- Destination directory `R/dst`, TMPDIR candidates `R/tmp` (same file system) and `X` (another file system;
    `R/missing` does not exist), an explicit temp dir `R/tmp2`, and optionally something at the destination. -/
def worldFS (old : Option Inode) : FS :=
  match old with
  | none =>
    { inodes := [dirInode, dirInode, dirInode, dirInode],
      names := [(["R", "dst"], 0), (["R", "tmp"], 1), (["X"], 2), (["R", "tmp2"], 3)], fds := [] }
  | some n =>
    { inodes := [dirInode, dirInode, dirInode, dirInode, n],
      names := [(destF, 4), (["R", "dst"], 0), (["R", "tmp"], 1), (["X"], 2), (["R", "tmp2"], 3)], fds := [] }

/-- The destination directory `R/dst` does not exist yet (nested fstree key). -/
def worldNested : FS :=
  { inodes := [dirInode, dirInode, dirInode], names := [(["R"], 0), (["R", "tmp"], 1), (["X"], 2)], fds := [] }

/-- An updater storage directory `R` with its tmp dir `R/tmp` (0700); the resource folder `R/dst` exists or not. -/
def worldFetch (folder : Bool) (old : Option Inode) : FS :=
  let tmpI : Inode := { dirInode with mode := 0o700 }
  match folder, old with
  | false, _ => { inodes := [dirInode, tmpI], names := [(["R"], 0), (["R", "tmp"], 1)], fds := [] }
  | true, none => { inodes := [dirInode, tmpI, dirInode], names := [(["R"], 0), (["R", "tmp"], 1), (["R", "dst"], 2)], fds := [] }
  | true, some n =>
    { inodes := [dirInode, tmpI, dirInode, n],
      names := [(destF, 3), (["R"], 0), (["R", "tmp"], 1), (["R", "dst"], 2)], fds := [] }

def worldOld (old : Option Inode) : Obs := old.map fun n => (nodeOf n n.data, [])

def exOldFile : Inode := { kind := .file, mode := 0o644, data := [⟨0, 0, 100⟩], target := "", clean := true }
def exOldLink : Inode := { kind := .symlink, mode := 0o777, data := [], target := "old-target", clean := true }
def exChunks : List Seg := [⟨1, 0, 4096⟩, ⟨1, 4096, 904⟩]
def exTmp : Path → Bool := isTemp [["R", "tmp"], ["X"], ["R", "tmp2"]] ["R", "dst"] [".f"]

end PB.FsAtomic
