import PB.Model.Query
/-
The documented query grammar (database/query/README.md) as a type of *sentences*: a query written with
any operator alias, words written plain / in quotes / with backslash escapes, any whitespace between
tokens (none needed next to parentheses), `not (…)` for groups and `key not op value` / `not key op value`
for clauses, groups anywhere in a condition list — including at its end. `render` writes the sentence,
`query` is the query object the grammar assigns to it. `Query.Print` output is the special case `Query.sentence`.
-/
namespace PB.Query

inductive Style where
  | raw | quoted | bslash
  deriving DecidableEq, Repr

structure Word where
  style : Style
  text : Tok
  deriving Repr

/-- Backslash form: every control character of the README table is preceded by `\`. -/
def bsl : List Char → List Char
  | [] => []
  | c :: r => if isSpecial c then '\\' :: c :: bsl r else c :: bsl r

def Word.render (w : Word) : List Char :=
  match w.style with
  | .raw => w.text
  | .quoted => '"' :: escBody w.text ++ ['"']
  | .bslash => bsl w.text

inductive SCond where
  /-- `key [not] op [value]` (neg = 1) or `not key op [value]` (neg = 2); `gap` separates the words. -/
  | clause (gap : List Char) (key : Word) (opname : Tok) (neg : Nat) (val : Option Word)
  /-- `[not] ( m₁ and m₂ … )`; `gap` around the connective, `pgap` (possibly empty) inside the parentheses,
      `ngap` (possibly empty) between `not` and the opening parenthesis. -/
  | group (isOr : Bool) (gap pgap ngap : List Char) (neg : Bool) (kids : List SCond)
  deriving Repr

def connective (isOr : Bool) : Tok := if isOr then kwOr else kwAnd

mutual
def SCond.render : SCond → List Char
  | .clause g key opn neg val =>
    (if neg = 2 then kwNot ++ g else []) ++ key.render ++ (if neg = 1 then g ++ kwNot else []) ++ g ++ opn
      ++ (match val with | none => [] | some v => g ++ v.render)
  | .group isOr g p ng neg kids =>
    (if neg then kwNot ++ ng else []) ++ '(' :: p ++ renderMembers (g ++ connective isOr ++ g) kids ++ p ++ [')']
def renderMembers (sep : List Char) : List SCond → List Char
  | [] => []
  | c :: cs => match cs with
    | [] => c.render
    | _ :: _ => c.render ++ sep ++ renderMembers sep cs
end

structure Sentence where
  gap : List Char
  pfx : Word
  where_ : Option SCond
  orderby : Option Word
  limit : Option Tok
  offset : Option Tok
  /-- a top-level, non-negated group is written without its outer parentheses -/
  strip : Bool
  deriving Repr

def Sentence.renderWhere (s : Sentence) : List Char :=
  match s.where_ with
  | none => []
  | some c => s.gap ++ kwWhere ++ s.gap ++
    (match c with
     | .group isOr g _ _ false kids => if s.strip then renderMembers (g ++ connective isOr ++ g) kids else c.render
     | _ => c.render)

def Sentence.render (s : Sentence) : List Char :=
  kwQuery ++ s.gap ++ s.pfx.render ++ s.renderWhere
    ++ (match s.orderby with | none => [] | some w => s.gap ++ kwOrderby ++ s.gap ++ w.render)
    ++ (match s.limit with | none => [] | some t => s.gap ++ kwLimit ++ s.gap ++ t)
    ++ (match s.offset with | none => [] | some t => s.gap ++ kwOffset ++ s.gap ++ t)

/-! ### Meaning of a sentence -/

mutual
def SCond.cond (O : Oracle) : SCond → Cond
  | .clause _ key opn neg val =>
    let c := match lookupOp opn with
      | none => Cond.bad .operator
      | some op => mkWhere O key.text op (match val with | none => .nil | some v => .str v.text)
    if neg = 0 then c else .not c
  | .group isOr _ _ _ neg kids =>
    let c := if isOr then Cond.or (condList O kids) else Cond.and (condList O kids)
    if neg then .not c else c
def condList (O : Oracle) : List SCond → List Cond
  | [] => []
  | c :: cs => c.cond O :: condList O cs
end

def Sentence.query (O : Oracle) (s : Sentence) : Query :=
  { Query.new s.pfx.text with
    where_ := s.where_.map (·.cond O)
    orderBy := match s.orderby with | none => [] | some w => w.text
    limit := match s.limit with | none => 0 | some t => ((parseUint31 t).getD 0 : Nat)
    offset := match s.offset with | none => 0 | some t => ((parseUint31 t).getD 0 : Nat) }

/-! ### Well-formed sentences (decidable) -/

def isWs (c : Char) : Bool := c = ' ' || c = '\t' || c = '\n' || c = '\r'

def gapOK (g : List Char) : Bool := !g.isEmpty && g.all isWs

def Word.wf (w : Word) : Bool :=
  match w.style with
  | .raw => !w.text.isEmpty && !w.text.any isSpecial
  | .quoted => true
  | .bslash => !w.text.isEmpty

/-- The five words the tokenizer/parser give structural meaning in key position. -/
def isStructural (t : Tok) : Bool := t = kwAnd || t = kwOr || t = kwNot || t = kwLp || t = kwRp

mutual
def SCond.wf : SCond → Bool
  | .clause g key opn neg val =>
    gapOK g && key.wf && !isStructural key.text && neg ≤ 2 &&
    (match lookupOp opn with
     | none => false
     | some op => match val with
       | none => op = opExists
       | some v => op ≠ opExists && v.wf)
  | .group _ g p ng _ kids => gapOK g && p.all isWs && ng.all isWs && kidsWf kids && 2 ≤ kids.length
def kidsWf : List SCond → Bool
  | [] => true
  | c :: cs => c.wf && kidsWf cs
end

def Sentence.wf (s : Sentence) : Bool :=
  gapOK s.gap && s.pfx.wf
  && (match s.where_ with | none => true | some c => c.wf)
  && (match s.orderby with | none => true | some w => w.wf)
  && (match s.limit with | none => true | some t => (parseUint31 t).isSome)
  && (match s.offset with | none => true | some t => (parseUint31 t).isSome)


/-! ### Well-formed query objects: what the text form can express

`Cond.wf` / `Query.wf` delimit the queries for which `ParseQuery(q.Print())` gives `q` back. Outside are
exactly the classes recorded as findings: groups with fewer than two members, `In` lists with fewer than two
items or with commas in an item, the keys `and or not ( )`, a `Not` directly inside a `Not`, limits/offsets
≥ 2^31 — and conditions that do not pass `Check` or were not produced by `Where` (ill-typed operands). -/

def noComma (t : Tok) : Bool := t.all (fun c => c != ',')

def int64 (i : Int) : Bool := decide (-(2 ^ 63 : Int) ≤ i) && decide (i < 2 ^ 63)

/-- A plain word: non-empty, none of the README's control characters. -/
def plainWord (t : Tok) : Bool := !t.isEmpty && !t.any isSpecial

/-- The operand is of the type `Where` stores for this operator. For floats and regexes the standard-library
    contracts: a `%g` text is a plain word that `ParseFloat` maps to a float printing as the same text;
    the source of a compiled regexp compiles. -/
def typedLeaf (O : Oracle) (op : Nat) (v : Val) : Bool :=
  match kindOf op, v with
  | some .int, .int i => int64 i
  | some .float, .float t => decide (O.fcanon t = some t) && plainWord t
  | some .string, .str _ => true
  | some .slice, .strs l => decide (2 ≤ l.length) && l.all noComma
  | some .regex, .regex t => O.reok t
  | some .bool, .bool _ => true
  | some .exists, .none => true
  | _, _ => false

mutual
/-- `neg`: the condition stands directly inside a `Not`. -/
def Cond.wfN (O : Oracle) (neg : Bool) : Cond → Bool
  | .leaf key op v => !isStructural key && typedLeaf O op v
  | .bad _ => false
  | .and cs => decide (2 ≤ cs.length) && wfL O cs
  | .or cs => decide (2 ≤ cs.length) && wfL O cs
  | .not c => !neg && Cond.wfN O true c
def wfL (O : Oracle) : List Cond → Bool
  | [] => true
  | c :: cs => Cond.wfN O false c && wfL O cs
end

def Cond.wf (O : Oracle) (c : Cond) : Bool := Cond.wfN O false c

def Query.wf (O : Oracle) (q : Query) : Bool :=
  q.dbName.all (fun c => c != ':')
  && (match q.where_ with | none => true | some c => c.wf O)
  && decide (q.limit < 2 ^ 31) && decide (q.offset < 2 ^ 31)

/-- The documented normalisation of `Print`: non-positive limit/offset are not printed (and mean "none"). -/
def Query.norm (q : Query) : Query :=
  { q with limit := if q.limit > 0 then q.limit else 0, offset := if q.offset > 0 then q.offset else 0 }

end PB.Query
