import PB.Model.Log
/-
Abstract specification used by C20's run checker: what the property allows one goroutine's part of the
adapter output to be.
-/
namespace PB.Log

/-- What the property allows one goroutine's part of the expanded adapter output to be, given its items
    in program order: consecutive blocks, one per item, block `i` made of between `lo` and `hi` lines of
    item `i`, each in the prescribed form (plain / tracer with exactly its entries). -/
inductive Conforms : List Item → List Got → Prop where
  | nil : Conforms [] []
  | cons {e : Item} {es : List Item} {blk rest : List Got} :
      (∀ g ∈ blk, g.item = e.item ∧ e.formOk g = true) → e.lo ≤ blk.length → blk.length ≤ e.hi →
      Conforms es rest → Conforms (e :: es) (blk ++ rest)

/-- The severity a logging function is named after: `Info` and `Infof` → `InfoLevel`, … (the name without a
    trailing `f`, followed by `Level`). What `fastcheck`, `log()` and `tracer.log()` have to be called with inside
    that function. -/
def ownSeverity (f : String) : String :=
  let cs := f.toList
  String.ofList ((if cs.getLast? = some 'f' then cs.dropLast else cs) ++ "Level".toList)

end PB.Log
