import PB.Bytes
/-
Abstract spec for C18: what it means for a path to lie inside a root directory.

Paths are Go strings, i.e. byte strings (`/` = 47, `.` = 46).  The meaning of an absolute path is the
list of directory entries the operating system walks through when it resolves the path lexically
(POSIX: empty segments and `.` are skipped, `..` goes to the parent, the parent of `/` is `/`;
symbolic links are outside this spec).  `Inside root p` says: resolving `p` passes through the
directory that `root` resolves to.  The definition does not mention `filepath.Clean`, string
prefixes or any other part of the implementation.
-/
namespace PB.Paths
open PB

abbrev Path := Bytes

def dot : Path := [46]
def dotdot : Path := [46, 46]

/-- `strings.Split(p, "/")`: never empty, `splitSep [] = [[]]`. -/
def splitSep : Path → List Path
  | [] => [[]]
  | c :: cs =>
    if c = 47 then [] :: splitSep cs
    else match splitSep cs with
      | [] => [[c]]
      | s :: ss => (c :: s) :: ss

/-- One step of lexical path resolution on the stack of entered directories. -/
def stepSeg (st : List Path) (s : Path) : List Path :=
  if s = [] ∨ s = dot then st
  else if s = dotdot then st.dropLast
  else st ++ [s]

/-- Resolve `p` starting in the directory reached by `st`. -/
def resolveFrom (st : List Path) (p : Path) : List Path := (splitSep p).foldl stepSeg st

/-- Resolve an absolute path from `/`. -/
def resolve (p : Path) : List Path := resolveFrom [] p

def isAbs (p : Path) : Bool := p.head? = some 47

/-- `p` is an absolute path whose resolution passes through the directory `root` resolves to. -/
def Inside (root p : Path) : Prop := isAbs p = true ∧ resolve root <+: resolve p

/-- Strictly below the root (the root directory itself is excluded). -/
def StrictlyInside (root p : Path) : Prop :=
  isAbs p = true ∧ ∃ x xs, resolve p = resolve root ++ x :: xs

/-- A proper directory entry name: not empty, not `.`, not `..`, no separator. -/
def Normal (s : Path) : Prop := s ≠ [] ∧ s ≠ dot ∧ s ≠ dotdot ∧ (47 : UInt8) ∉ s

/-- ASCII string literal as a path (for examples). -/
def B (s : String) : Path := s.toList.map (fun c => UInt8.ofNat c.toNat)

instance (root p : Path) : Decidable (Inside root p) := by unfold Inside; exact inferInstance

end PB.Paths
