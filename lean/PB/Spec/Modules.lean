import PB.Model.Modules
/-!
# What C01 says, read off a history (list of events) — no reference to the manager's state

These definitions are the vocabulary of the theorems in `PBProofs/C01.lean`. They mention only the
observable events `beg`/`fin` (a callback begins / has ended with a result), `enable`/`disable`,
and the static dependency graph.
-/
namespace PB.Modules.Spec
open PB.Modules

/-- Run state of one module as the history tells it:
    0 = not started or completely stopped (also after a failed start), 1 = its start routine is running,
    2 = its start routine finished successfully and no stop has begun since, 3 = its stop routine is running. -/
def lifeUpd (f : Nat → Nat) : Ev → Nat → Nat
  | .beg .start m => set f m 1
  | .fin .start m true => set f m 2
  | .fin .start m false => set f m 0
  | .beg .stop m => set f m 3
  | .fin .stop m _ => set f m 0
  | _ => f

def lifeOf (tr : List Ev) : Nat → Nat := tr.foldl lifeUpd (fun _ => 0)

/-! `lifeOf` is determined by the last start/stop event of the module
    (`PB.C01.lifeOf_eq_two_iff`, `PB.C01.lifeOf_eq_zero_iff`). -/

/-- `e` is a begin/end event of the start or stop routine of module `d`. -/
def touches (d : Nat) : Ev → Bool
  | .beg .start m => m == d
  | .fin .start m _ => m == d
  | .beg .stop m => m == d
  | .fin .stop m _ => m == d
  | _ => false

/-- The last start/stop event of `d` in the history. -/
def lastTouch (d : Nat) : List Ev → Option Ev
  | [] => none
  | e :: es => match lastTouch d es with
    | some x => some x
    | none => if touches d e then some e else none

def lifeCodeOf : Ev → Nat
  | .beg .start _ => 1
  | .fin .start _ true => 2
  | .fin .start _ false => 0
  | .beg .stop _ => 3
  | .fin .stop _ _ => 0
  | _ => 0


/-- How often the prep routine of `m` has begun / has ended. -/
def prepBegun (tr : List Ev) (m : Nat) : Nat := tr.countP (fun e => e == .beg .prep m)
def prepEnded (tr : List Ev) (m : Nat) : Nat := tr.countP (fun e => e == .fin .prep m true || e == .fin .prep m false)
/-- The prep routine of `m` has finished successfully. -/
def prepOk (tr : List Ev) (m : Nat) : Prop := Ev.fin .prep m true ∈ tr
/-- Some start routine has begun. -/
def startBegun (tr : List Ev) : Prop := ∃ m, Ev.beg .start m ∈ tr

/-- Successful runs of the start routine of `m`; invocations of its stop routine. -/
def startsOk (tr : List Ev) (m : Nat) : Nat := tr.countP (fun e => e == .fin .start m true)
def stopsBegun (tr : List Ev) (m : Nat) : Nat := tr.countP (fun e => e == .beg .stop m)

/-- Callbacks that have begun and not ended. -/
def begun (tr : List Ev) : Nat := tr.countP (fun e => match e with | .beg _ _ => true | _ => false)
def ended (tr : List Ev) : Nat := tr.countP (fun e => match e with | .fin _ _ _ => true | _ => false)

/-- The enabled mark of `m` after the Enable/Disable calls of the history. -/
def enabledUpd (f : Nat → Bool) : Ev → Nat → Bool
  | .enable m => set f m true
  | .disable m => set f m false
  | _ => f

def enabledOf (tr : List Ev) : Nat → Bool := tr.foldl enabledUpd (fun _ => false)

/-- The histories the property quantifies over ("every sequence of Enable/Disable + ManageModules calls
    between Start and Shutdown"): once Shutdown has been called, neither Start nor ManageModules is called
    again. (The code does not refuse such calls; see the model.) -/
def ShutdownFinal (tr : List Ev) : Prop :=
  ∀ t1 t2, tr = t1 ++ Ev.call .shutdown :: t2 → Ev.call .start ∉ t2 ∧ Ev.call .manage ∉ t2

/-- `m` is a (transitive) dependency of `a`. -/
inductive TransDep (deps : Nat → List Nat) : Nat → Nat → Prop
  | direct {a d : Nat} : d ∈ deps a → TransDep deps a d
  | step {a d m : Nat} : d ∈ deps a → TransDep deps d m → TransDep deps a m

/-- The wanted modules: all registered modules, or with module management enabled the enabled modules
    plus their transitive dependencies. -/
def Wanted (deps : Nat → List Nat) (mgmt : Bool) (enabled : Nat → Bool) (m : Nat) : Prop :=
  mgmt = false ∨ enabled m = true ∨ ∃ e, enabled e = true ∧ TransDep deps e m

/-- An acyclic graph of registered modules: every dependency is registered and some rank decreases along
    every edge. -/
def Acyclic (n : Nat) (deps : Nat → List Nat) : Prop :=
  (∀ m, m < n → ∀ d ∈ deps m, d < n) ∧ ∃ rank : Nat → Nat, ∀ m, m < n → ∀ d ∈ deps m, rank d < rank m

end PB.Modules.Spec
