import PB.Model.Config
/-
Declarative reading of C04's validity clause: a value is valid for an option iff its type fits (with the
canonical conversion to the option's type), the regular expression matches, it is one of the allowed values
and the validation function accepts it. `PBProofs.C04.validate_ok_iff` shows that `validateValue` (model)
accepts exactly these, with the canonical value as result.
-/
namespace PB.Config

/-- A Go value of an integer kind lies in the range of that kind. -/
def Val.WF : Val → Prop
  | .int k n => k.fits n = true
  | _ => True

instance (v : Val) : Decidable v.WF := by
  cases v <;> simp [Val.WF] <;> infer_instance

/-- Type fit and canonical conversion to the option's type. -/
def canon : OptType → Val → Option Cache
  | .str, .str s => some { s := s }
  | .strs, .strs ss => some { a := ss }
  | .strs, .anys l => (allStrings l).map (fun ss => { a := ss })
  | .int, .int _ n => some { i := n }
  | .int, .flt _ neg mag false => some { i := fltInt neg mag }
  | .bool, .bool b => some { b := b }
  | _, _ => none

/-- The regular expression matches: the string, every entry, the decimal form of the integer (bools are not matched). -/
def regexOK (o : Opt) (c : Cache) : Bool :=
  match o.ty with
  | .str => o.rx.matches c.s
  | .strs => c.a.all o.rx.matches
  | .int => o.rx.matches (toString c.i)
  | .bool => true

/-- The value (every entry of a list) is one of the allowed values, if any are given. -/
def allowedOK (o : Opt) (c : Cache) : Bool :=
  match o.pvs with
  | none => true
  | some l =>
    match o.ty with
    | .str => l.contains (.s c.s)
    | .strs => c.a.all (fun e => l.contains (.s e))
    | .int => l.contains (.i c.i)
    | .bool => l.contains (.b c.b)

/-- The property's notion of a valid value, with the value the getters will hand out. -/
def Valid (o : Opt) (v : Val) (c : Cache) : Prop :=
  canon o.ty v = some c ∧ regexOK o c = true ∧ allowedOK o c = true ∧ vfOk o.vf o.ty c = true

/-- `Register` compiles a pattern whenever allowed values are given. -/
def RegOK (o : Opt) : Prop := o.pvs.isSome = true → o.rx.isNone = false

/-- Well-formed states: what `Register` and every setter maintain.
    * keys are unique (the registry is a map),
    * every option has a compiled pattern if it has allowed values,
    * the release-level option is a stable string option and the atomic gate is the level of its layered value
      (user layer, else default layer, else registered default),
    * every user-layer value is a value that validates to itself after the trip through config.json,
    * the values in config.json are well-formed Go values. -/
structure WF (st : St) : Prop where
  nodup : (st.opts.map (·.key)).Nodup
  reg : ∀ o ∈ st.opts, RegOK o
  rl : ∃ o, st.find rlKey = some o ∧ o.ty = .str ∧ o.rl = 0 ∧ st.gate = levelOf (layered o).s
  uvalid : ∀ o ∈ st.opts, ∀ c, o.user = some c → check o (jsonVal o.ty c) = .ok c
  fileWF : ∀ t, st.file = .tree t → ∀ e ∈ t, e.2.WF

/-- The effective release-level setting: what the getter itself returns for the release-level option. -/
def effRL (st : St) : Nat :=
  match get st rlKey (.s "") with
  | .s x => levelOf x
  | _ => 0

/-- Two options describe the same registered option (only the value layers may differ). -/
def SameStatic (a b : Opt) : Prop :=
  a.key = b.key ∧ a.ty = b.ty ∧ a.rl = b.rl ∧ a.rx = b.rx ∧ a.pvs = b.pvs ∧ a.vf = b.vf ∧ a.mg = b.mg ∧ a.fallback = b.fallback

/-- No registered key is a path prefix of another one (then `Expand` never replaces anything). -/
def PrefixFree (keys : List Key) : Prop := keys.Pairwise (fun a b => conflicts a b = false)

/-- What a getter closure must satisfy between calls: its cached flag is the current one only if its cached
    value is the current layered value. -/
def CInv (st : St) (cl : Closure) : Prop :=
  cl.flag ≤ st.gen ∧ (cl.flag = st.gen → cl.val = get st cl.key cl.fb)

/-- Every value in a call is a Go value of its kind. -/
def Op.WF : Op → Prop
  | .set _ v | .setd _ v => v.WF
  | .rep m | .repd m => ∀ e ∈ m, e.2.WF
  | .wfile (.tree t) => ∀ e ∈ t, e.2.WF
  | _ => True

end PB.Config
