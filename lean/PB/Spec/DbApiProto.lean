import PB.Bytes
/-
Abstract specification for C13: the reply protocol of the database API, per request, as an automaton
over reply types — the property statement read literally:

  get                    → one ok-with-record | one error
  query                  → (ok | warning)* then exactly one (done | error)
  sub                    → error | (upd | new | del | warning)* [done]      (done once cancelled)
  qsub                   → query replies, and after `done` the subscription replies
  create/update/insert/delete → exactly one (success | error)
  malformed / unknown    → exactly one error
  cancel                 → at most one error ("could not find subscription" / "failed to cancel")

`warning` is the documented per-record error that does not end the operation (api/database.go,
protocol comment of Handle); it is admitted wherever records are delivered.

The trace acceptor at the end of the file decides, for a recorded connection trace (requests and
replies in the order observed), whether the replies of every operation ID can be attributed to the
requests issued under that ID such that every request's replies follow its automaton.
-/
namespace PB.DbApiProto
open PB

/-- Reply message types (`dbMsgType*` constants of api/database.go). -/
inductive RType where
  | ok | error | done | success | upd | new | del | warning
  deriving Repr, DecidableEq, Inhabited

/-- Request classes as far as the reply protocol distinguishes them. -/
inductive Kind where
  | get      -- one ok | error
  | write    -- create / update / insert / delete: one success | error
  | bad      -- malformed message or unknown method: one error
  | query
  | sub
  | qsub
  | cancel
  deriving Repr, DecidableEq, Inhabited

/-- Protocol phase of one request as determined by the replies seen so far. -/
inductive Ph where
  | get1     -- awaiting the single ok | error
  | write1   -- awaiting the single success | error
  | bad1     -- awaiting the single error
  | q        -- query results flowing
  | s0       -- subscription requested, nothing received yet (an error may still refuse it)
  | s        -- subscription delivering
  | qs0      -- qsub requested, nothing received yet
  | qs       -- qsub: query results flowing
  | c        -- cancel: silent so far
  | fin      -- complete: no further reply allowed
  deriving Repr, DecidableEq, Inhabited

def init : Kind → Ph
  | .get => .get1 | .write => .write1 | .bad => .bad1 | .query => .q
  | .sub => .s0 | .qsub => .qs0 | .cancel => .c

/-- One reply of type `t` in phase `p`: the next phase, or `none` if the protocol forbids it. -/
def delta : Ph → RType → Option Ph
  | .get1, .ok => some .fin
  | .get1, .error => some .fin
  | .write1, .success => some .fin
  | .write1, .error => some .fin
  | .bad1, .error => some .fin
  | .q, .ok => some .q
  | .q, .warning => some .q
  | .q, .done => some .fin
  | .q, .error => some .fin
  | .s0, .error => some .fin
  | .s0, .upd => some .s
  | .s0, .new => some .s
  | .s0, .del => some .s
  | .s0, .warning => some .s
  | .s0, .done => some .fin
  | .s, .upd => some .s
  | .s, .new => some .s
  | .s, .del => some .s
  | .s, .warning => some .s
  | .s, .done => some .fin
  | .qs0, .error => some .fin
  | .qs0, .ok => some .qs
  | .qs0, .warning => some .qs
  | .qs0, .done => some .s
  | .qs, .ok => some .qs
  | .qs, .warning => some .qs
  | .qs, .done => some .s
  | .qs, .error => some .fin
  | .c, .error => some .fin
  | _, _ => none

/-- Run the automaton over a reply-type word. -/
def run : Ph → List RType → Option Ph
  | p, [] => some p
  | p, t :: ts => match delta p t with
    | some p' => run p' ts
    | none => none

/-- A request whose handler has returned (without connection teardown) must have reached one of these
    phases: every one-shot request and every query is complete; a cancel may have stayed silent. -/
def Complete : Ph → Prop
  | .fin => True
  | .c => True
  | _ => False

instance : DecidablePred Complete := fun p => by cases p <;> unfold Complete <;> exact inferInstance

/-- A phase in which a request may legitimately still be when the connection goes away. -/
def Open : Ph → Prop
  | .s0 | .s | .qs0 | .qs | .q | .c | .fin => True
  | _ => False

instance : DecidablePred Open := fun p => by cases p <;> unfold Open <;> exact inferInstance

/-- The word `ts` is a complete conversation for a request of kind `k`. -/
def Conforms (k : Kind) (ts : List RType) : Prop :=
  ∃ p, run (init k) ts = some p ∧ Complete p

/-- The word `ts` is a legal beginning of a conversation for a request of kind `k`. -/
def ConformsPrefix (k : Kind) (ts : List RType) : Prop :=
  ∃ p, run (init k) ts = some p

/-! ## Trace acceptor (executable) -/

/-- One request being tracked: its operation ID, its kind, its phase. -/
structure Req where
  op : Bytes
  kind : Kind
  ph : Ph
  deriving Repr, DecidableEq, Inhabited

/-- A configuration: one attribution of all replies seen so far to the requests issued so far. -/
abbrev Config := List Req

/-- All ways in which one of the requests with operation ID `op` can take a reply of type `t`. -/
def advance (op : Bytes) (t : RType) : Config → List Config
  | [] => []
  | r :: rs =>
    let here : List Config :=
      if r.op = op then
        match delta r.ph t with
        | some p' => [{ r with ph := p' } :: rs]
        | none => []
      else []
    here ++ (advance op t rs).map (fun c => r :: c)

/-- Remove duplicate configurations (keeps the acceptor's state small). -/
def dedup : List Config → List Config
  | [] => []
  | c :: cs => if c ∈ cs then dedup cs else c :: dedup cs

/-- Trace events: a request was handed to `Handle`, or a reply was passed to the send function. -/
inductive Ev where
  | req (op : Bytes) (k : Kind)
  | rep (op : Bytes) (t : RType)
  deriving Repr, DecidableEq

/-- Acceptor state: the set of attributions still possible (empty = trace rejected). -/
abbrev AccSt := List Config

def accInit : AccSt := [[]]

def accStep (cs : AccSt) : Ev → AccSt
  | .req op k => cs.map (fun c => c ++ [{ op := op, kind := k, ph := init k }])
  | .rep op t => dedup (cs.flatMap (advance op t))

def accRun : AccSt → List Ev → AccSt
  | cs, [] => cs
  | cs, e :: es => accRun (accStep cs e) es

/-- A cancel that stayed silent found a subscription registered under its operation ID and closed its
    feed; once things are quiet some subscription of that ID has therefore finished. -/
def cancelRule (c : Config) : Bool :=
  c.all (fun r => !(r.kind == .cancel && r.ph == .c) ||
    c.any (fun s => s.op == r.op && (s.kind == .sub || s.kind == .qsub) && s.ph == .fin))

/-- At a quiet point (every handler returned or parked in its subscription loop) a configuration is
    final if every request is complete or is a subscription still delivering, and every silent cancel
    is accounted for. A subscription may stay live for ever: one whose cancel was refused with an error
    (e.g. because a second subscription reused its operation ID) has not been cancelled. -/
def quietOk (c : Config) : Bool :=
  c.all (fun r => decide (Complete r.ph) || r.ph == .s0 || r.ph == .s) && cancelRule c

/-- End of a recorded scenario (after the epilogue that tries to cancel every live subscription). -/
def finalOk (c : Config) : Bool := quietOk c

/-- At connection teardown (all handlers returned): one-shot requests are complete, queries and
    subscriptions may have been cut off anywhere. -/
def downOk (c : Config) : Bool :=
  c.all (fun r => decide (Open r.ph))

/-- Declarative meaning of acceptance: some attribution exists. -/
def Accepted (es : List Ev) : Prop := accRun accInit es ≠ []

end PB.DbApiProto
