import PB.Model.Varint
import PB.Model.Base64
/-
The abstract specification of C16: a plain byte queue (`Bytes`, front of the queue = head of the list)
with the obvious operations. Short enough to read in a minute.
-/
namespace PB.ByteQueue
open PB PB.Varint

abbrev Q := Bytes

def append (q : Q) (d : Bytes) : Q := q ++ d
def prepend (q : Q) (d : Bytes) : Q := d ++ q

def peek (q : Q) (n : Int) : Bytes := if n ≤ 0 then [] else q.take n.toNat

/-- `get n`: all or nothing. -/
def get (q : Q) (n : Int) : Q × Option Bytes :=
  if n ≤ 0 then (q, some [])
  else if n.toNat > q.length then (q, none)
  else (q.drop n.toNat, some (q.take n.toNat))

def getMax (q : Q) (n : Int) : Q × Bytes := if n ≤ 0 then (q, []) else (q.drop n.toNat, q.take n.toNat)
def getAll (q : Q) : Q × Bytes := ([], q)

/-- copy into a destination of capacity `cap`: bytes written, whether the queue is now empty. -/
def writeToSlice (q : Q) (cap : Nat) : Q × Bytes × Bool := (q.drop cap, q.take cap, decide (q.length ≤ cap))

def getNextN (unpack : Bytes → Except PB.Varint.Err (Nat × Nat)) (k : Int) (q : Q) : Q × Except PB.Varint.Err Nat :=
  match unpack (peek q k) with
  | .error e => (q, .error e)
  | .ok (num, n) => (q.drop n, .ok num)

/-- `getNextBlock` = read a varint length, then `get` that many bytes (two queue operations). -/
def getNextBlock (q : Q) : Q × Except (Option PB.Varint.Err) Bytes :=
  match getNextN unpack64 10 q with
  | (q', .error e) => (q', .error (some e))
  | (q', .ok sz) => if sz > q'.length then (q', .error none) else (q'.drop sz, .ok (q'.take sz))

/-! ### Operations and observable results shared by the container model and this spec -/

inductive Op where
  | append (d : Bytes) | prepend (d : Bytes)
  | appendNumber (n : Nat) | prependNumber (n : Nat) | appendInt (i : Int) | prependInt (i : Int)
  | appendAsBlock (d : Bytes) | prependAsBlock (d : Bytes)
  | appendContainer (ds : List Bytes) | appendContainerAsBlock (ds : List Bytes)
  | prependLength | replace (d : Bytes) | compileData
  | get (n : Int) | getAll | getAsContainer (n : Int) | getMax (n : Int)
  | writeToSlice (cap : Nat) | peek (n : Int) | peekContainer (n : Int)
  | getNextBlock | getNextBlockAsContainer
  | getNextN8 | getNextN16 | getNextN32 | getNextN64
  | holdsData | length
  /- container/serialization.go: the JSON form (base64 in quotes, `PB.Base64.jsonEnc`); the argument of
     `unmarshalJSON` is what the JSON decoder makes of the text (`none` = the decoder reports an error) -/
  | marshalJSON | unmarshalJSON (decoded : Option Bytes)
  /- `WriteAllTo` into a writer that accepts `budget` bytes in total and then fails (io.Writer contract:
     a short write comes with an error) -/
  | writeAllTo (budget : Nat)
  deriving Repr

inductive Out where
  | unit
  | bytes (b : Bytes)
  | num (n : Nat)
  | bool (b : Bool)
  | err (e : String)
  | nilc
  | wts (b : Bytes) (emptied : Bool)
  deriving Repr, DecidableEq

def outGet : Q × Option Bytes → Q × Out
  | (q, some b) => (q, .bytes b)
  | (q, none) => (q, .err "notenough")

def outNum : Q × Except PB.Varint.Err Nat → Q × Out
  | (q, .ok v) => (q, .num v)
  | (q, .error e) => (q, .err e.str)

def outBlock : Q × Except (Option PB.Varint.Err) Bytes → Q × Out
  | (q, .ok b) => (q, .bytes b)
  | (q, .error (some e)) => (q, .err e.str)
  | (q, .error none) => (q, .err "notenough")

/-- One step of the byte-queue specification. -/
def step (q : Q) : Op → Q × Out
  | .append d => (q ++ d, .unit)
  | .prepend d => (d ++ q, .unit)
  | .appendNumber n => (q ++ pack64 n, .unit)
  | .prependNumber n => (pack64 n ++ q, .unit)
  | .appendInt i => (q ++ pack64 (ofInt64 i), .unit)
  | .prependInt i => (pack64 (ofInt64 i) ++ q, .unit)
  | .appendAsBlock d => (q ++ pack64 d.length ++ d, .unit)
  | .prependAsBlock d => (pack64 d.length ++ (d ++ q), .unit)
  | .appendContainer ds => (q ++ ds.flatten, .unit)
  | .appendContainerAsBlock ds => (q ++ pack64 ds.flatten.length ++ ds.flatten, .unit)
  | .prependLength => (pack64 q.length ++ q, .unit)
  | .replace d => (d, .unit)
  | .compileData => (q, .bytes q)
  | .get n => outGet (get q n)
  | .getAll => ([], .bytes q)
  | .getAsContainer n =>
      if 0 ≤ n ∧ n.toNat ≤ q.length then (q.drop n.toNat, .bytes (q.take n.toNat)) else (q, .err "notenough")
  | .getMax n => let r := getMax q n; (r.1, .bytes r.2)
  | .writeToSlice cap => let r := writeToSlice q cap; (r.1, .wts r.2.1 r.2.2)
  | .peek n => (q, .bytes (peek q n))
  | .peekContainer n => if 0 ≤ n ∧ n.toNat ≤ q.length then (q, .bytes (q.take n.toNat)) else (q, .nilc)
  | .getNextBlock => outBlock (getNextBlock q)
  | .getNextBlockAsContainer => outBlock (getNextBlock q)
  | .getNextN8 => outNum (getNextN unpack8 2 q)
  | .getNextN16 => outNum (getNextN unpack16 3 q)
  | .getNextN32 => outNum (getNextN unpack32 5 q)
  | .getNextN64 => outNum (getNextN unpack64 10 q)
  | .holdsData => (q, .bool (decide (q.length > 0)))
  | .length => (q, .num q.length)
  | .marshalJSON => (q, .bytes (PB.Base64.jsonEnc q))
  | .unmarshalJSON (some raw) => (raw, .unit)
  | .unmarshalJSON none => (q, .err "json")
  | .writeAllTo budget => (q, .wts (q.take budget) (decide (q.length ≤ budget)))

/-- Run a sequence of operations, collecting the observable results. -/
def run (q : Q) : List Op → Q × List Out
  | [] => (q, [])
  | op :: ops => let r := step q op; let r' := run r.1 ops; (r'.1, r.2 :: r'.2)

/-! ### Several queues at once: operations that take ANOTHER queue as their argument -/

/-- Operations on a world of queues, addressed by index. -/
inductive WOp where
  | newc (ds : List Bytes)                 -- a further container, built from the given slices
  | on (i : Nat) (op : Op)                 -- one single-container operation on container `i`
  | appendFrom (i j : Nat)                 -- `c_i.AppendContainer(c_j)` — `c_j` in whatever state it is (j = i allowed)
  | appendFromAsBlock (i j : Nat)          -- `c_i.AppendContainerAsBlock(c_j)`
  deriving Repr

def wstep (w : List Q) : WOp → List Q × Out
  | .newc ds => (w ++ [ds.flatten], .unit)
  | .on i op => match w[i]? with
    | some q => let r := step q op; (w.set i r.1, r.2)
    | none => (w, .err "noslot")
  | .appendFrom i j => match w[i]?, w[j]? with
    | some q, some p => (w.set i (q ++ p), .unit)
    | _, _ => (w, .err "noslot")
  | .appendFromAsBlock i j => match w[i]?, w[j]? with
    | some q, some p => (w.set i (q ++ pack64 p.length ++ p), .unit)
    | _, _ => (w, .err "noslot")

def wrun (w : List Q) : List WOp → List Q × List Out
  | [] => (w, [])
  | op :: ops => let r := wstep w op; let r' := wrun r.1 ops; (r'.1, r.2 :: r'.2)

end PB.ByteQueue
