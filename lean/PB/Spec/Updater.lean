import PB.Model.Updater
/-
Declarative specification of version selection: the documented order written as a choice over the
*set* of versions (membership and "no newer one with the same quality"), with no reference to sorting,
list positions or loops. `PB.C19.select_prescribed` proves that `selectVersion` meets it,
`PB.C19.prescribed_unique` that it determines the version.
-/
namespace PB.Updater.Spec
open PB.Updater

/-- `r` is a newest element of `vs` among those with quality `P`. -/
def Newest (P : RV → Prop) (vs : List RV) (r : RV) : Prop :=
  r ∈ vs ∧ P r ∧ ∀ w ∈ vs, P w → r.ver.lt w.ver = false

/-- "selectable": not blacklisted and locally available or downloadable on request. -/
def Sel (fl : Flags) (idx : Option Bool) (rv : RV) : Prop := selectable fl idx rv = true

/-- a dev version (0.0.0) is locally available -/
def DevAvail (vs : List RV) : Prop := ∃ d ∈ vs, d.ver = devVer ∧ d.avail = true

/-- the current release (newest entry flagged as such) is selectable -/
def CurOk (fl : Flags) (idx : Option Bool) (vs : List RV) : Prop :=
  ∃ c, Newest (fun rv => rv.cur = true) vs c ∧ Sel fl idx c

def AnySel (fl : Flags) (idx : Option Bool) (vs : List RV) : Prop := ∃ s ∈ vs, Sel fl idx s

def AnyStableSel (fl : Flags) (idx : Option Bool) (vs : List RV) : Prop :=
  ∃ s ∈ vs, s.pre = false ∧ Sel fl idx s

/-- The documented order: the locally available dev version in dev mode, else the current release if
    selectable, else (with pre-releases enabled) the newest selectable version, else the newest selectable
    stable version, else the newest version. -/
inductive Prescribed (fl : Flags) (idx : Option Bool) (vs : List RV) (r : RV) : Prop
  | dev : fl.dev = true → r ∈ vs → r.ver = devVer → r.avail = true → Prescribed fl idx vs r
  | current : ¬(fl.dev = true ∧ DevAvail vs) →
      Newest (fun rv => rv.cur = true) vs r → Sel fl idx r → Prescribed fl idx vs r
  | newestSelectable : ¬(fl.dev = true ∧ DevAvail vs) → ¬CurOk fl idx vs → fl.usePre = true →
      Newest (Sel fl idx) vs r → Prescribed fl idx vs r
  | newestStable : ¬(fl.dev = true ∧ DevAvail vs) → ¬CurOk fl idx vs → ¬(fl.usePre = true ∧ AnySel fl idx vs) →
      Newest (fun rv => rv.pre = false ∧ Sel fl idx rv) vs r → Prescribed fl idx vs r
  | fallback : ¬(fl.dev = true ∧ DevAvail vs) → ¬CurOk fl idx vs → ¬(fl.usePre = true ∧ AnySel fl idx vs) →
      ¬AnyStableSel fl idx vs → Newest (fun _ => True) vs r → Prescribed fl idx vs r

/-- the last-resort step of the order -/
def LastResort (fl : Flags) (idx : Option Bool) (vs : List RV) : Prop :=
  ¬CurOk fl idx vs ∧ ¬(fl.usePre = true ∧ AnySel fl idx vs) ∧ ¬AnyStableSel fl idx vs

/-- The versions a purge must not touch: the active version, the selected version, the newest stable version. -/
def Required (r : Res) (v : Ver) : Prop :=
  r.active = some v ∨ r.selected = some v ∨
    ∃ rv, Newest (fun x => x.pre = false) r.versions rv ∧ rv.ver = v

/-- The resource lists as available only versions whose file is on disk. -/
def ListingSound (r : Res) : Prop := ∀ rv ∈ r.versions, rv.avail = true → (rv.ver, 0) ∈ r.disk

/-- The documented identifier form: the file stem (file name up to its first dot, where the version is
    inserted) does not itself contain a `_v<d>-<d>-<d>` version pattern. -/
def ValidIdentifier (id : Str) : Prop := findFileVer (splitDot (pathSplit id).2).1 = none

/-- The documented file-name form: the version found in the file name sits directly in front of the extension
    (no dot before it; behind it the name ends or the extension starts). -/
def VersionBeforeExtension (p : Str) : Prop :=
  ∀ b m a, findFileVer (pathSplit p).2 = some (b, m, a) → 46 ∉ b ∧ (a = [] ∨ ∃ e, a = 46 :: e)

end PB.Updater.Spec
