import PB.Model.Updater
/-
Declarative specification of version selection: the documented order written as a choice over the
*set* of versions (membership and "no newer one with the same quality"), with no reference to sorting,
list positions or loops. `PB.C19.select_prescribed` proves that `selectVersion` meets it,
`PB.C19.prescribed_unique` that it determines the version.
-/
namespace PB.Updater.Spec
open PB.Updater

/-- `r` is a newest element of `vs` among those with quality `P`. -/
def Newest (P : RV → Prop) (vs : List RV) (r : RV) : Prop :=
  r ∈ vs ∧ P r ∧ ∀ w ∈ vs, P w → r.ver.lt w.ver = false

/-- "selectable": not blacklisted and locally available or downloadable on request. -/
def Sel (fl : Flags) (idx : Option Bool) (rv : RV) : Prop := selectable fl idx rv = true

/-- a dev version (0.0.0) is locally available -/
def DevAvail (vs : List RV) : Prop := ∃ d ∈ vs, d.ver = devVer ∧ d.avail = true

/-- the current release (newest entry flagged as such) is selectable -/
def CurOk (fl : Flags) (idx : Option Bool) (vs : List RV) : Prop :=
  ∃ c, Newest (fun rv => rv.cur = true) vs c ∧ Sel fl idx c

def AnySel (fl : Flags) (idx : Option Bool) (vs : List RV) : Prop := ∃ s ∈ vs, Sel fl idx s

def AnyStableSel (fl : Flags) (idx : Option Bool) (vs : List RV) : Prop :=
  ∃ s ∈ vs, s.pre = false ∧ Sel fl idx s

/-- The documented order: the locally available dev version in dev mode, else the current release if
    selectable, else (with pre-releases enabled) the newest selectable version, else the newest selectable
    stable version, else the newest version. -/
inductive Prescribed (fl : Flags) (idx : Option Bool) (vs : List RV) (r : RV) : Prop
  | dev : fl.dev = true → r ∈ vs → r.ver = devVer → r.avail = true → Prescribed fl idx vs r
  | current : ¬(fl.dev = true ∧ DevAvail vs) →
      Newest (fun rv => rv.cur = true) vs r → Sel fl idx r → Prescribed fl idx vs r
  | newestSelectable : ¬(fl.dev = true ∧ DevAvail vs) → ¬CurOk fl idx vs → fl.usePre = true →
      Newest (Sel fl idx) vs r → Prescribed fl idx vs r
  | newestStable : ¬(fl.dev = true ∧ DevAvail vs) → ¬CurOk fl idx vs → ¬(fl.usePre = true ∧ AnySel fl idx vs) →
      Newest (fun rv => rv.pre = false ∧ Sel fl idx rv) vs r → Prescribed fl idx vs r
  | fallback : ¬(fl.dev = true ∧ DevAvail vs) → ¬CurOk fl idx vs → ¬(fl.usePre = true ∧ AnySel fl idx vs) →
      ¬AnyStableSel fl idx vs → Newest (fun _ => True) vs r → Prescribed fl idx vs r

/-! ### The current release as a matter of the history of calls

"The current release" of a resource is the version most recently *announced* as such (the last
`AddResource` / `AddResources` / `AddVersion` call with `currentRelease = true` for that resource). The definitions
below read it off the history of calls and never look at the `CurrentRelease` flags of the entries;
`PB.C19.history_current_release` proves that in every reachable state the flags say exactly this, and
`PB.C19.history_select_prescribed` states the documented order against it. -/

/-- the version the last item for `id` of an `AddResources` map names (`c` if `id` is not in the map) -/
def announcedIn (id : Str) (c : Option Ver) : List (Str × Str) → Option Ver
  | [] => c
  | it :: rest => announcedIn id (if it.1 == id then parseVer it.2 else c) rest

/-- What one API call, issued in state `s`, does to the current release `c` of resource `id`:
    a call with `currentRelease = true` for `id` announces its version (an announcement whose version does not parse
    leaves the resource without current release; `AddVersion` on an unknown resource does nothing); a `Purge` that
    drops the version from the list of the resource makes the resource forget it; no other call matters. -/
def announceStep (id : Str) (s : St) (c : Option Ver) : Op → Option Ver
  | .add id' ver _ true _ _ => if id' == id then parseVer ver else c
  | .addMany items _ true _ _ => announcedIn id c items
  | .addVersion id' ver _ true _ => if id' == id && (s.get id).isSome then parseVer ver else c
  | .purge keep =>
    match c with
    | some v => if (((s.get id).getD {}).purge keep).versions.any (fun rv => rv.ver == v) then some v else none
    | none => none
  | _ => c

/-- the registry state and the current release of `id` after the calls `ops`, starting from `(s, c)` -/
def runCur (id : Str) (s : St) (c : Option Ver) : List Op → St × Option Ver
  | [] => (s, c)
  | o :: ops => runCur id (step s o).1 (announceStep id s c o) ops

/-- The current release of resource `id` after the history `ops` on a fresh registry. -/
def currentRelease (id : Str) (ops : List Op) : Option Ver := (runCur id {} none ops).2

/-- One call read off its arguments alone (no registry state): `known` = the resource `id` has been created by an earlier
    `AddResource(s)` call (`AddVersion` needs an existing resource), `c` = the version announced last. -/
def announcedArgs (id : Str) (known : Bool) (c : Option Ver) : Op → Bool × Option Ver
  | .add id' ver _ cur _ _ => (known || id' == id, if cur && id' == id then parseVer ver else c)
  | .addMany items _ cur _ _ => (known || items.any (fun it => it.1 == id), if cur then announcedIn id c items else c)
  | .addVersion id' ver _ cur _ => (known, if cur && id' == id && known then parseVer ver else c)
  | _ => (known, c)

def lastAnnouncedFrom (id : Str) (known : Bool) (c : Option Ver) : List Op → Option Ver
  | [] => c
  | o :: ops => lastAnnouncedFrom id (announcedArgs id known c o).1 (announcedArgs id known c o).2 ops

/-- The version most recently announced as the current release of `id` in the history `ops`
    (`PB.C19.current_release_last_announced`: the current release is this version, unless a purge dropped it). -/
def lastAnnounced (id : Str) (ops : List Op) : Option Ver := lastAnnouncedFrom id false none ops

/-- the current release given by the history is listed and selectable -/
def CurOkH (cur : Option Ver) (fl : Flags) (idx : Option Bool) (vs : List RV) : Prop :=
  ∃ c ∈ vs, cur = some c.ver ∧ Sel fl idx c

/-- The documented order with the current release `cur` taken from the history of announcements instead of the
    `CurrentRelease` flags: the locally available dev version in dev mode, else the current release if selectable, else
    (with pre-releases enabled) the newest selectable version, else the newest selectable stable version, else the newest. -/
inductive PrescribedH (cur : Option Ver) (fl : Flags) (idx : Option Bool) (vs : List RV) (r : RV) : Prop
  | dev : fl.dev = true → r ∈ vs → r.ver = devVer → r.avail = true → PrescribedH cur fl idx vs r
  | current : ¬(fl.dev = true ∧ DevAvail vs) →
      r ∈ vs → cur = some r.ver → Sel fl idx r → PrescribedH cur fl idx vs r
  | newestSelectable : ¬(fl.dev = true ∧ DevAvail vs) → ¬CurOkH cur fl idx vs → fl.usePre = true →
      Newest (Sel fl idx) vs r → PrescribedH cur fl idx vs r
  | newestStable : ¬(fl.dev = true ∧ DevAvail vs) → ¬CurOkH cur fl idx vs → ¬(fl.usePre = true ∧ AnySel fl idx vs) →
      Newest (fun rv => rv.pre = false ∧ Sel fl idx rv) vs r → PrescribedH cur fl idx vs r
  | fallback : ¬(fl.dev = true ∧ DevAvail vs) → ¬CurOkH cur fl idx vs → ¬(fl.usePre = true ∧ AnySel fl idx vs) →
      ¬AnyStableSel fl idx vs → Newest (fun _ => True) vs r → PrescribedH cur fl idx vs r

/-- the last-resort step of the order -/
def LastResort (fl : Flags) (idx : Option Bool) (vs : List RV) : Prop :=
  ¬CurOk fl idx vs ∧ ¬(fl.usePre = true ∧ AnySel fl idx vs) ∧ ¬AnyStableSel fl idx vs

/-- The versions a purge must not touch: the active version, the selected version, the newest stable version. -/
def Required (r : Res) (v : Ver) : Prop :=
  r.active = some v ∨ r.selected = some v ∨
    ∃ rv, Newest (fun x => x.pre = false) r.versions rv ∧ rv.ver = v

/-- The resource lists as available only versions whose file is on disk. -/
def ListingSound (r : Res) : Prop := ∀ rv ∈ r.versions, rv.avail = true → (rv.ver, 0) ∈ r.disk

/-- The documented identifier form: the file stem (file name up to its first dot, where the version is
    inserted) does not itself contain a `_v<d>-<d>-<d>` version pattern. -/
def ValidIdentifier (id : Str) : Prop := findFileVer (splitDot (pathSplit id).2).1 = none

/-- The documented file-name form: the version found in the file name sits directly in front of the extension
    (no dot before it; behind it the name ends or the extension starts). -/
def VersionBeforeExtension (p : Str) : Prop :=
  ∀ b m a, findFileVer (pathSplit p).2 = some (b, m, a) → 46 ∉ b ∧ (a = [] ∨ ∃ e, a = 46 :: e)

end PB.Updater.Spec
