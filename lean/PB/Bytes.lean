/-
Shared basics for all models: bytes, hex (for the line protocol), small helpers.
Core-only (no Mathlib) so that `pbdrv` links.
-/
namespace PB

abbrev Bytes := List UInt8

deriving instance DecidableEq for Except

def hexDigit (n : Nat) : Char :=
  if n < 10 then Char.ofNat (48 + n) else Char.ofNat (87 + n)

def hexOfByte (b : UInt8) : String :=
  String.ofList [hexDigit (b.toNat / 16), hexDigit (b.toNat % 16)]

/-- Hex rendering of a byte string; the empty string is rendered as `-` so that it stays a token. -/
def toHex (bs : Bytes) : String :=
  if bs.isEmpty then "-" else String.join (bs.map hexOfByte)

def hexVal (c : Char) : Option Nat :=
  if '0' ≤ c ∧ c ≤ '9' then some (c.toNat - 48)
  else if 'a' ≤ c ∧ c ≤ 'f' then some (c.toNat - 87)
  else if 'A' ≤ c ∧ c ≤ 'F' then some (c.toNat - 55)
  else none

def parseHexChars : List Char → Option Bytes
  | [] => some []
  | [_] => none
  | a :: b :: rest => do
    let x ← hexVal a
    let y ← hexVal b
    let r ← parseHexChars rest
    pure (UInt8.ofNat (x * 16 + y) :: r)

def parseHex (s : String) : Option Bytes :=
  if s = "-" then some [] else parseHexChars s.toList

/-- Two's-complement reading of a 64-bit pattern (Go `int(uint64)` / `int64(uint64)`). -/
def toInt64 (n : Nat) : Int :=
  let m : Nat := n % 2^64
  if m < 2^63 then (m : Int) else (m : Int) - (2^64 : Int)

/-- Go `uint64(int64)`. -/
def ofInt64 (i : Int) : Nat := (i % (2^64 : Int)).toNat

end PB
