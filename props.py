"""Per-property configuration of ./check: regenerated tables, trusted base, assumptions."""

KERNEL = "Lean 4.33.0 kernel; axioms reported by #print axioms for every property theorem (subset of propext, Classical.choice, Quot.sound); no sorry/admit/axiom/native_decide/bv_decide (audited every run)"
TIE = "correspondence harness (harness/hxlib + harness/cmd/hx-%s): generators, canonicalisation, streaming diff against the compiled Lean model; Lean compiler/runtime for the executable model"
EXTRACT = "go/ast extractor harness/cmd/extract (regenerates lean/PB/Gen/*.lean from /repo on every run)"

PROPS = {
    "C10": {
        "gen": ["varint"],
        "trusted_base": [KERNEL, TIE % "c10", EXTRACT,
                         "modelled, not verified: encoding/binary.PutUvarint/Uvarint are re-implemented in the model (putUvarint/uvarintAux) and compared with the real stdlib through Pack*/Unpack* on every run (exhaustive for byte strings up to length 2 quick / 3 thorough)",
                         "Go int/uint64 conversions in GetNextBlock are modelled on Nat after the explicit bounds check `l > len(data)`; slices are immutable lists (no aliasing)"],
        "assumptions": ["Go slices behave as immutable byte lists for the functions of formats/varint (they do not retain or mutate their arguments)"],
    },
}
