#!/bin/sh
# MANIFEST.setup_cmd: build the framework from files on disk only (offline).
set -e
cd "$(dirname "$0")"
export GOFLAGS=-mod=mod GOPROXY=off GOSUMDB=off GOTOOLCHAIN=local
cp /repo/go.sum harness/go.sum
mkdir -p lean/PB/Gen evidence replays
(cd harness && go run ./cmd/extract ../lean/PB/Gen /repo all)
(cd lean && lake build)
(cd lean && lake build $(grep -o 'pbdrv-c[0-9][0-9]' lakefile.toml | sort -u))
(cd harness && go build -tags verif ./... )
echo setup ok
