// hx-c06: correspondence harness and property monitor for C06 (panic containment in managed code).
//
// Every case runs in its own child process (this binary re-executed with HX_C06_CHILD=1): package
// modules keeps process-global state, and an uncontained panic has to kill only that process — the
// exit status of the child is one of the observables of the property.
package main

import (
	"bufio"
	"bytes"
	"fmt"
	"io"
	"os"
	"os/exec"
	"strings"
	"sync"
	"sync/atomic"
	"time"

	"verifharness/hxlib"
)

const opTimeout = 100 * time.Second

// ---------------------------------------------------------------------------------------------
// proxy: one child process per case

type proxy struct {
	cmd    *exec.Cmd
	in     io.WriteCloser
	out    *bufio.Reader
	outF   *os.File
	stderr *tailBuf
	dead   string // non-empty once the child is gone: the answer to every further op
	lines  chan string
}

type tailBuf struct {
	mu sync.Mutex
	b  []byte
}

func (t *tailBuf) Write(p []byte) (int, error) {
	t.mu.Lock()
	t.b = append(t.b, p...)
	if len(t.b) > 1<<16 {
		t.b = t.b[len(t.b)-1<<15:]
	}
	t.mu.Unlock()
	return len(p), nil
}

func (t *tailBuf) String() string {
	t.mu.Lock()
	defer t.mu.Unlock()
	return string(t.b)
}

func newProxy() *proxy {
	self, err := os.Executable()
	if err != nil {
		return &proxy{dead: "NOCHILD " + err.Error()}
	}
	pr, pw, err := os.Pipe()
	if err != nil {
		return &proxy{dead: "NOCHILD " + err.Error()}
	}
	p := &proxy{stderr: &tailBuf{}, lines: make(chan string, 16)}
	p.cmd = exec.Command(self)
	dir := os.Getenv("VERIF_SCRATCH_DIR")
	if dir == "" {
		dir = os.TempDir()
	}
	p.cmd.Env = append(os.Environ(), "HX_C06_CHILD=1", "HX_C06_DIR="+dir, "GOMAXPROCS=4", "GOTRACEBACK=single")
	p.cmd.ExtraFiles = []*os.File{pw}
	p.cmd.Stdout = io.Discard
	p.cmd.Stderr = p.stderr
	p.in, _ = p.cmd.StdinPipe()
	if err := p.cmd.Start(); err != nil {
		pr.Close()
		pw.Close()
		return &proxy{dead: "NOCHILD " + err.Error()}
	}
	pw.Close()
	p.outF = pr
	p.out = bufio.NewReader(pr)
	go func() {
		for {
			l, err := p.out.ReadString('\n')
			if err != nil {
				close(p.lines)
				return
			}
			p.lines <- strings.TrimRight(l, "\n")
		}
	}()
	return p
}

// Do forwards one op line; a dead child answers CRASH/HANG forever (never equal to a model line).
func (p *proxy) Do(line string) string {
	if p.dead != "" {
		return p.dead
	}
	if _, err := io.WriteString(p.in, line+"\n"); err != nil {
		return p.died()
	}
	select {
	case l, ok := <-p.lines:
		if !ok {
			return p.died()
		}
		return l
	case <-time.After(opTimeout):
		_ = p.cmd.Process.Kill()
		_ = p.cmd.Wait()
		p.dead = "HANG"
		return p.dead
	}
}

func (p *proxy) died() string {
	err := p.cmd.Wait()
	code := p.cmd.ProcessState.ExitCode()
	why := ""
	for _, l := range strings.Split(p.stderr.String(), "\n") {
		if strings.HasPrefix(l, "panic: ") || strings.HasPrefix(l, "fatal error: ") {
			why = l
			break
		}
	}
	if len(why) > 160 {
		why = why[:160]
	}
	_ = err
	p.dead = fmt.Sprintf("CRASH exit=%d %s", code, strings.ReplaceAll(why, " ", "_"))
	return p.dead
}

func (p *proxy) Close() error {
	if p.cmd == nil {
		return nil
	}
	defer func() {
		if strings.Contains(p.stderr.String(), "C06-RELAUNCH") {
			atomic.AddInt64(&nRelaunch, 1)
		}
	}()
	if p.dead == "" {
		p.in.Close()
		done := make(chan struct{})
		go func() { _ = p.cmd.Wait(); close(done) }()
		select {
		case <-done:
		case <-time.After(5 * time.Second):
			_ = p.cmd.Process.Kill()
			<-done
		}
	}
	if p.outF != nil {
		p.outF.Close()
	}
	return nil
}

// ---------------------------------------------------------------------------------------------
// the cases are executed by a pool of children ahead of the (sequential) hxlib loop

type precomputed struct {
	outs []string
	i    int
}

func (p *precomputed) Do(string) string {
	if p.i >= len(p.outs) {
		return "NO-OUTPUT"
	}
	o := p.outs[p.i]
	p.i++
	return o
}

var (
	preMu   sync.Mutex
	preNext *precomputed
)

func runCaseInChild(lines []string) []string {
	p := newProxy()
	defer p.Close()
	outs := make([]string, len(lines))
	for i, l := range lines {
		outs[i] = p.Do(l)
	}
	return outs
}

func newExec(r *hxlib.Run) hxlib.Exec {
	preMu.Lock()
	defer preMu.Unlock()
	if preNext != nil {
		p := preNext
		preNext = nil
		return p
	}
	return newProxy() // replay mode: run directly
}

func main() {
	if os.Getenv("HX_C06_CHILD") == "1" {
		childMain()
		return
	}
	if os.Getenv("HX_C06_SCRIPT") == "1" { // debugging aid: cases separated by blank lines on stdin
		sc := bufio.NewScanner(os.Stdin)
		var cur []string
		flush := func() {
			if len(cur) > 0 {
				for i, o := range runCaseInChild(cur) {
					fmt.Printf("%-40s => %s\n", cur[i], o)
				}
				fmt.Println()
				cur = nil
			}
		}
		for sc.Scan() {
			if strings.TrimSpace(sc.Text()) == "" {
				flush()
			} else {
				cur = append(cur, sc.Text())
			}
		}
		flush()
		return
	}
	hxlib.Main(&hxlib.Harness{Prop: "C06", Rule: rule, Generate: generate, NewExec: newExec, Monitor: monitor,
		Extra: extra})
}

var _ = bytes.NewBuffer
