package main

import (
	"fmt"
	"strings"

	"verifharness/hxlib"
)

// The monitor is the property statement read literally on the implementation outputs of one case;
// it knows the scenario (which user function was told to panic with which value) and nothing of the model.

var pvClass = map[string]string{"nil": "nilerr", "err": "err", "str": "str", "rtidx": "rt", "rtnil": "rt", "rtdiv": "rt",
	"rtmap": "rt", "struct": "struct", "int": "other", "ptrerr": "err", "nilptr": "other", "evil": "err", "abort": "err", "slice": "other",
	"canc": "err.canceled", "wcanc": "err.canceled", "iscanc": "err.canceled", "joincanc": "err.canceled", "rst": "err.restart",
	"wrst": "err.restart", "dl": "err.deadline", "wdl": "err.deadline", "cexit": "err.cleanexit", "wcexit": "err.cleanexit",
	"moderr": "err", "nilerrptr": "err", "nilstrg": "other"}

type monItem struct {
	kind, flag string
	outs       []string
	run        int
	held       bool
}

func fields(out string) map[string]string {
	m := map[string]string{}
	for _, f := range strings.Fields(out) {
		if i := strings.IndexByte(f, '='); i > 0 {
			m[f[:i]] = f[i+1:]
		}
	}
	return m
}

func isBlocking(kind string) bool { return kind == "runworker" || strings.HasPrefix(kind, "mt-run-") }

// hasPanicReport: a report that identifies itself as a panic, carries a value of the class and a stack trace.
func hasPanicReport(reps, cls string) bool {
	for _, r := range strings.Split(reps, "+") {
		p := strings.Split(stripMod(r), "/")
		if len(p) == 3 && p[0] == "panic" && p[2] == cls {
			return true
		}
	}
	return false
}

// stripMod removes the harness' note about the module a report names (the property does not speak of it).
func stripMod(r string) string {
	if i := strings.Index(r, "!mod="); i >= 0 {
		return r[:i]
	}
	return r
}

func atoi(s string) int {
	n := 0
	for _, ch := range s {
		if ch < '0' || ch > '9' {
			return -1
		}
		n = n*10 + int(ch-'0')
	}
	if s == "" {
		return -1
	}
	return n
}

// cntOf parses "w,t,m,g,c".
func cntOf(s string) []int {
	p := strings.Split(s, ",")
	if len(p) != 5 {
		return nil
	}
	out := make([]int, 5)
	for i, x := range p {
		out[i] = atoi(x)
		if out[i] < 0 {
			return nil
		}
	}
	return out
}

func countPanicReports(reps string) int {
	n := 0
	for _, r := range strings.Split(reps, "+") {
		if strings.HasPrefix(r, "panic/") && !strings.Contains(r, "!nostack") {
			n++
		}
	}
	return n
}

func monitor(c hxlib.Case, outs []string) (vs []hxlib.Violation) {
	add := func(sig, what string) {
		vs = append(vs, hxlib.Violation{Sig: sig, What: what, Lines: c.Lines, Output: outs})
	}
	items := map[string]*monItem{}
	var mods [][]string // declared modules: name, prep, start, stop
	subjDown := false   // the subject module (A) has been stopped and not started again
	mgmt, startOK, subjOff := false, false, false
	firstCnt, lastSettle, lastSettleOthers := "", "", ""
	firstPanicKind := "none"
	workStarted := false
	outstanding := false
	// the scenario configured the error channel itself (`chan`): reports are demanded only when the channel, as the
	// implementation's own outputs show it (`ch=` = len of the channel after each op), had room for them
	manual, capN, prevCh, parked, unordered := false, -1, 0, 0, false
	var expect []string // value classes of the panic reports that were demanded and not yet seen by a `recv`
	// room: a report made now can be delivered; then it must be (returns whether the buffer has to grow)
	room := func() (ok, grows bool) {
		if capN < 0 {
			return false, false
		}
		if parked > 0 {
			return true, false
		}
		return prevCh < capN, true
	}
	demand := func(sigKind, what, cls string, ch int) {
		ok, grows := room()
		if !ok {
			return
		}
		if grows {
			if ch < prevCh+1 {
				add("C06:panic-not-reported:"+sigKind, fmt.Sprintf("%s; the error channel had room (%d of %d) but holds %d reports afterwards", what, prevCh, capN, ch))
				return
			}
		} else {
			parked--
		}
		if !unordered {
			expect = append(expect, cls)
		}
	}
	for i, l := range c.Lines {
		if i >= len(outs) {
			break
		}
		o := outs[i]
		f := strings.Fields(l)
		op := ""
		if len(f) > 0 {
			op = f[0]
		}
		kindOfOp := op
		if (op == "finish" || op == "requeue") && len(f) > 1 && items[f[1]] != nil {
			kindOfOp = items[f[1]].kind
		} else if (op == "spawn" || op == "prespawn") && len(f) > 2 {
			kindOfOp = f[2]
		}
		switch {
		case strings.HasPrefix(o, "CRASH"):
			add("C06:process-terminated:"+kindOfOp, fmt.Sprintf("the process died during %q: %s", l, o))
			return vs
		case o == "HANG" || strings.HasPrefix(o, "PANIC") || strings.HasPrefix(o, "NOCHILD") || o == "NO-OUTPUT":
			add("C06:no-answer:"+kindOfOp, fmt.Sprintf("%q: %s", l, o))
			return vs
		case o == "bad-op":
			continue
		}
		fl := fields(o)
		endAtStop := false
		for _, it := range items {
			if it.held && it.flag == "onstop" {
				endAtStop = true // items ending when the module stops: their reports race with the stop routine's
			}
		}
		if (op == "manage" || op == "shutdown") && fl["st"] != "" {
			// status of the subject module (A; the statuses are listed in the order of the `mod` lines)
			subj := 0
			for k, m := range mods {
				if m[0] == "A" {
					subj = k
				}
			}
			if sts := strings.Split(fl["st"], ","); subj < len(sts) {
				subjDown = sts[subj] != "online"
				if sts[subj] == "offline" {
					// the subject module was stopped: items waiting for its context have ended
					for _, it := range items {
						if it.flag == "onstop" {
							it.held = false
						}
					}
				}
			}
		}
		chNow := atoi(fl["ch"])
		switch op {
		case "chan":
			if o == "ok" && len(f) == 2 {
				manual = true
				capN = atoi(f[1]) // -1: unset
			}
		case "park":
			if strings.HasPrefix(o, "park ok") {
				parked++
			} else if strings.HasPrefix(o, "park") {
				capN = -1 // the state of the consumer is not known: nothing is demanded of the channel any more
			}
		case "recv", "recvn":
			if !strings.HasPrefix(o, "recv") {
				continue
			}
			if op == "recv" && !unordered {
				for _, r := range strings.Split(fl["reps"], "+") {
					p := strings.Split(stripMod(r), "/")
					if len(expect) > 0 && len(p) == 3 && p[0] == "panic" && p[2] == expect[0] {
						expect = expect[1:]
					}
				}
			}
			if op == "recvn" || (len(f) == 2 && f[1] == "all") {
				if len(expect) > 0 && !unordered {
					add("C06:panic-not-reported:"+firstPanicKind, fmt.Sprintf("panic reports for which the error channel had room were not received from it: %v", expect))
				}
				expect, unordered = nil, false
			}
		case "mod":
			if len(f) >= 5 {
				mods = append(mods, f[1:5])
			}
		case "mgmt":
			mgmt = true
			for _, a := range f[1:] {
				if a == "A=off" {
					subjOff = true
				}
			}
		case "start":
			startOK = fl["ret"] == "nil"
			// work launched before the start (`prespawn`) can end while the subject module is not running: "service
			// workers are restarted" speaks of a running module. (Without `prespawn` nothing is spawned in that state.)
			subjDown = !startOK || subjOff
			want := false
			prepPanic := false
			if !mgmt {
				for _, m := range mods {
					if strings.HasPrefix(m[1], "p:") {
						prepPanic = true
					}
				}
				prepFail := false
				for _, m := range mods {
					if m[1] != "ok" && m[1] != "-" {
						prepFail = true
					}
				}
				startPanic := false
				for _, m := range mods {
					if strings.HasPrefix(m[2], "p:") {
						startPanic = true
					}
				}
				want = prepPanic || (!prepFail && startPanic)
			}
			if want && fl["ret"] == "nil" {
				add("C06:lifecycle-panic-no-error:start", "a prep/start routine panicked but Start returned nil")
			}
			if want && !manual && countPanicReports(fl["reps"]) == 0 {
				add("C06:panic-not-reported:lifecycle", "a prep/start routine panicked but no panic report arrived on the error channel")
			}
			if want && manual {
				col := 2
				if prepPanic {
					col = 1
				}
				var cand []string
				for _, m := range mods {
					if strings.HasPrefix(m[col], "p:") {
						cand = append(cand, m[col][2:])
					}
				}
				if len(cand) == 1 { // several: which one ran (first) is up to the pass
					demand("lifecycle", "a prep/start routine panicked with p:"+cand[0], pvClass[cand[0]], chNow)
				}
			}
			if strings.Contains(fl["reps"], "panic/module-control") && fl["ret"] == "nil" {
				add("C06:lifecycle-panic-no-error:start", "a control routine's panic was reported but Start returned nil")
			}
		case "manage":
			if strings.Contains(fl["reps"], "panic/module-control") && fl["ret"] == "nil" {
				add("C06:lifecycle-panic-no-error:manage", "a control routine's panic was reported but ManageModules returned nil")
			}
		case "shutdown":
			if o == "shutdown noreturn" {
				add("C06:stop-stalled:"+firstPanicKind, "Shutdown did not return (it waits for each module no longer than the stop timeout)")
			}
			if !strings.HasPrefix(o, "shutdown ret=") {
				continue
			}
			if strings.Contains(fl["reps"], "panic/module-control") && fl["ret"] == "nil" {
				add("C06:lifecycle-panic-no-error:shutdown", "a stop routine's panic was reported but Shutdown returned nil")
			}
			if !mgmt && startOK {
				var cand []string
				for _, m := range mods {
					if strings.HasPrefix(m[3], "p:") && (fl["ret"] == "nil" || (!manual && countPanicReports(fl["reps"]) == 0)) {
						add("C06:lifecycle-panic-no-error:shutdown", "stop routine of "+m[0]+" panicked; Shutdown ret="+fl["ret"]+" reps="+fl["reps"])
					}
					if strings.HasPrefix(m[3], "p:") {
						cand = append(cand, m[3][2:])
					}
				}
				if manual && len(cand) == 1 && !endAtStop {
					demand("lifecycle", "a stop routine panicked with p:"+cand[0], pvClass[cand[0]], chNow)
				}
			}
			if fl["slow"] != "no" {
				add("C06:stop-stalled:"+firstPanicKind, "Shutdown had to wait for the stop timeout: managed work was still accounted as running")
			}
			for _, s := range strings.Split(fl["st"], ",") {
				// "dead": never prepared (a dependency's prep routine failed) — nothing of it is running
				if s != "" && s != "offline" && s != "x" && s != "dead" {
					add("C06:module-not-stopped:"+firstPanicKind, "module status after Shutdown: "+fl["st"])
					break
				}
			}
		case "status", "settle":
			if firstCnt == "" && fl["cnt"] != "" && !workStarted {
				firstCnt = fl["cnt"] // the "previous values": read before any managed work was started
			}
			if op == "settle" {
				lastSettle, lastSettleOthers = fl["cnt"], fl["others"]
				outstanding = false
				for _, it := range items {
					if it.held {
						outstanding = true // work that has not been told to finish is rightly still counted
					}
				}
			}
		case "spawn":
			if len(f) < 4 || !strings.HasPrefix(o, "spawn ") {
				continue
			}
			it := &monItem{kind: f[2], outs: strings.Split(f[3], ",")}
			if len(f) > 4 {
				it.flag = f[4]
			}
			items[f[1]] = it
			workStarted = true
			it.held = strings.HasPrefix(o, "spawn ok")
			if strings.HasPrefix(o, "spawn noentry") {
				add("C06:item-did-not-start:"+it.kind, "the managed function was never entered: "+o)
			}
		case "prespawn":
			if len(f) != 5 || !strings.HasPrefix(o, "prespawn ") {
				continue
			}
			it := &monItem{kind: f[2], outs: strings.Split(f[3], ",")}
			items[f[1]] = it
			workStarted = true
			subjDown = true // until the module has been started
			it.held = o == "prespawn ok"
			if !it.held {
				add("C06:item-did-not-start:"+it.kind, "the managed function was never entered: "+o)
			}
		case "requeue":
			it := items[f[1]]
			if it == nil || len(f) < 4 {
				continue
			}
			it.outs = append(it.outs, strings.Split(f[3], ",")...)
			it.held = strings.HasPrefix(o, "requeue ok")
			if !strings.HasPrefix(o, "requeue ok") {
				add("C06:task-cannot-run-again:"+it.kind, "a task that had run (and possibly panicked) was queued again but did not execute: "+o)
			}
		case "finish":
			it := items[f[1]]
			if it == nil || !strings.HasPrefix(o, "finish ") {
				continue
			}
			cur := "ok"
			if it.run < len(it.outs) {
				cur = it.outs[it.run]
			}
			it.run++
			it.held = fl["next"] == "reentered"
			if !strings.HasPrefix(cur, "p:") {
				continue
			}
			if firstPanicKind == "none" {
				firstPanicKind = it.kind
			}
			cls := pvClass[cur[2:]]
			if isBlocking(it.kind) {
				r := fl["ret"]
				if r == "noreturn" {
					add("C06:run-variant-does-not-return:"+it.kind, "function panicked with "+cur+"; the blocking run variant had not returned when the harness gave up waiting")
				} else if !strings.HasPrefix(r, "panic:"+cls+":") || !strings.Contains(r, "val=same") || !strings.Contains(r, "stack=yes") {
					add("C06:run-variant-returns-no-panic-error:"+it.kind, "function panicked with "+cur+", returned: "+r)
				}
			}
			// the counters after the panicked execution: the previous values plus what is still running (held)
			if base, now := cntOf(firstCnt), cntOf(fl["cnt"]); base != nil && now != nil {
				exp := append([]int{}, base[:4]...)
				for _, other := range items {
					if !other.held {
						continue
					}
					switch {
					case strings.HasPrefix(other.kind, "task-"):
						exp[1]++
					case strings.HasPrefix(other.kind, "mt-"):
						exp[2]++
						exp[3]++
					default:
						exp[0]++
					}
				}
				for k := 0; k < 4; k++ {
					if now[k] > exp[k] {
						add("C06:counters-not-restored:"+it.kind, fmt.Sprintf("function panicked with %s; work counters (workers,tasks,microtasks,global microtasks,ctrl) afterwards: %s, previous values plus work still running: %v (sync=%s)", cur, fl["cnt"], exp, fl["sync"]))
						break
					}
				}
			}
			if strings.HasPrefix(it.kind, "api-") && fl["http"] == "noreturn" {
				add("C06:run-variant-does-not-return:"+it.kind, "handler panicked with "+cur+"; the request had not been answered when the harness gave up waiting")
			}
			if manual {
				demand(it.kind, "function panicked with "+cur, cls, chNow)
			} else if !hasPanicReport(fl["reps"], cls) {
				add("C06:panic-not-reported:"+it.kind, "function panicked with "+cur+", reports on the error channel: "+fl["reps"])
			}
			if fl["last"] == "blocked" {
				add("C06:report-blocks:"+it.kind, "function panicked with "+cur+"; GetLastReportedError did not return: Report() is holding the reporting lock")
			} else if !strings.HasPrefix(fl["last"], "panic/") {
				add("C06:panic-not-reported:"+it.kind, "function panicked with "+cur+", GetLastReportedError: "+fl["last"])
			}
			switch {
			case strings.HasPrefix(it.kind, "api-"):
				if it.flag != "afterwrite" && fl["http"] != "500" && fl["http"] != "500d" { // d: the dev-mode page
					add("C06:api-panic-status:"+it.kind, "handler panicked before writing, response status "+fl["http"])
				}
			case it.kind == "svc":
				// "service workers are restarted" speaks of a module that is running: a service worker whose function ends
				// after its module was stopped (it outlived the stop timeout) leaves its loop
				if fl["next"] != "reentered" && !subjDown {
					add("C06:service-worker-not-restarted", "service worker function panicked, afterwards: next="+fl["next"])
				}
			case strings.HasPrefix(it.kind, "task-"):
				if fl["exec"] != "false" {
					add("C06:task-executing-not-reset:"+it.kind, "task function panicked, executing flag afterwards: "+fl["exec"])
				}
			}
		case "burst":
			if !strings.HasPrefix(o, "burst res=") {
				continue
			}
			res := strings.Split(fl["res"], ",")
			workStarted = true
			want := 0
			for k, a := range f[1:] {
				kv := strings.SplitN(a, "=", 2)
				if len(kv) != 2 || k >= len(res) {
					continue
				}
				os := strings.Split(kv[1], ",")
				for _, x := range os {
					if strings.HasPrefix(x, "p:") {
						want++
						if firstPanicKind == "none" {
							firstPanicKind = kv[0]
						}
					}
					if kv[0] == "svc" && (x == "ok" || x == "canceled") {
						break
					}
				}
				last := os[len(os)-1]
				if kv[0] != "svc" && strings.HasPrefix(last, "p:") {
					cls := pvClass[last[2:]]
					if isBlocking(kv[0]) && (!strings.HasPrefix(res[k], "panic:"+cls+":") || !strings.Contains(res[k], "val=same") || !strings.Contains(res[k], "stack=yes")) {
						add("C06:run-variant-returns-no-panic-error:"+kv[0], "burst item panicked with "+last+", returned: "+res[k])
					}
					if strings.HasPrefix(kv[0], "api-") && res[k] != "500" && res[k] != "500d" {
						add("C06:api-panic-status:"+kv[0], "burst handler panicked, response status "+res[k])
					}
				}
				if res[k] == "noentry" || res[k] == "noreturn" {
					add("C06:item-did-not-start:"+kv[0], "burst item "+a+": "+res[k])
				}
			}
			if manual {
				// each of the concurrent reports is delivered while there is room
				if capN >= 0 && parked == 0 {
					need := prevCh + want
					if need > capN {
						need = capN
					}
					if chNow < need {
						add("C06:panic-not-reported:burst", fmt.Sprintf("%d panics raised while the error channel held %d of %d; it holds %d afterwards", want, prevCh, capN, chNow))
					}
				}
				expect, unordered = nil, true
			} else if got := countPanicReports(fl["reps"]); got < want {
				add("C06:panic-not-reported:burst", fmt.Sprintf("%d panics raised, %d panic reports on the error channel", want, got))
			}
			if fl["cnt"] != "0,0,0,0,0" {
				add("C06:counters-not-restored:"+firstPanicKind, "after the burst had completed: cnt="+fl["cnt"])
			}
		}
		if chNow >= 0 {
			prevCh = chNow
		}
	}
	if lastSettle != "" && firstCnt != "" && !outstanding && (lastSettle != firstCnt || lastSettleOthers == "dirty") {
		add("C06:counters-not-restored:"+firstPanicKind,
			fmt.Sprintf("work counters (workers,tasks,microtasks,global microtasks,ctrl) before: %s, after everything finished: %s others=%s", firstCnt, lastSettle, lastSettleOthers))
	}
	return vs
}
